package c13

import (
	"encoding/json"
	"flag"
	"fmt"
	"os"
	"path/filepath"
	"sort"
	"strings"
	"sync"
	"sync/atomic"
	"time"

	"github.com/btcsuite/btcd/chainhash/v2"
	"github.com/btcsuite/btcd/wire/v2"
	"github.com/btcsuite/btcwallet/walletdb"
	_ "github.com/btcsuite/btcwallet/walletdb/bdb"
	"github.com/lightninglabs/neutrino/banman"

	"verif/internal/chaingen"
	"verif/internal/evid"
	"verif/internal/l2"
	"verif/internal/netsim"
)

var (
	enfOnly = flag.Bool("c13-enf-only", false, "C13: run only the enforcement (network simulation) half")
	enfOne  = flag.Int("c13-enf-k", -1, "C13 enforcement: run only scenario k, in this process, and print its result")
)

// Watchdogs (generous; none of them decides a verdict by itself except the
// "still connected long after the ban" rule, which is ~4 orders of magnitude
// above the typical disconnect latency).
const (
	syncWatchdog     = 100 * time.Second
	redialWatchdog   = 8 * time.Second
	closeWatchdog    = 30 * time.Second
	getBlockWatchdog = 60 * time.Second
	lateAnswer       = 700 * time.Millisecond // an honest answer slower than this (peer side) makes a non-responder ban plausible
	stallLimit       = 400 * time.Millisecond // harness scheduling hiccup above which latency-sensitive rules go inconclusive
	conflictRounds   = 3                      // at-tip filter-hash conflicts (liar vs honest answer to the same request) after which an unbanned liar is a violation, given the disputed block was served
	cpOnlyRounds     = 3                      // rounds of checkpoint conflict resolution after which an unbanned checkpoint-only liar is a violation
)

// banSight is the first time the poller saw IsBanned(addr) == true.
type banSight struct {
	Seq       int64         // event-log length right AFTER the sighting: every event with a larger Seq happened after the ban was recorded
	T         time.Duration // since log start (informational)
	OpenConns int           // open connections to the address at that moment
}

type enfRun struct {
	e   *enfWorld
	res *l2.Result

	mu           sync.Mutex
	sights       map[string]banSight
	syncSeq      int64           // log length once the initial sync was complete (0 = never)
	bannedAtSync map[string]bool // addresses seen banned by then
	giveUp       func() bool     // optional: stop waiting for the tip (the oracle has what it needs)
	lateHeld     string          // why the late peers were never admitted ("" = they were)
	polls        atomic.Int64
	rounds       atomic.Int64
	stall        atomic.Int64 // max scheduling gap seen by the stall detector (ns)
	stop         chan struct{}
	wg           sync.WaitGroup
}

// startPoller polls IsBanned for every address every few milliseconds to put
// each ban on the event log's sequence, and measures scheduling hiccups.
func (x *enfRun) startPoller() {
	x.stop = make(chan struct{})
	w := x.e.W
	x.wg.Add(2)
	go func() {
		defer x.wg.Done()
		for {
			select {
			case <-x.stop:
				return
			default:
			}
			for _, ep := range x.e.Peers {
				a := ep.P.Addr
				x.mu.Lock()
				_, seen := x.sights[a]
				x.mu.Unlock()
				if seen {
					continue
				}
				x.polls.Add(1)
				if w.Svc.IsBanned(a) {
					x.noteBan(a)
				}
			}
			x.rounds.Add(1)
			time.Sleep(4 * time.Millisecond)
		}
	}()
	go func() {
		defer x.wg.Done()
		last := time.Now()
		for {
			select {
			case <-x.stop:
				return
			default:
			}
			time.Sleep(5 * time.Millisecond)
			now := time.Now()
			if g := now.Sub(last) - 5*time.Millisecond; int64(g) > x.stall.Load() {
				x.stall.Store(int64(g))
			}
			last = now
		}
	}()
}

// noteBan records a sighting of IsBanned(addr) == true (first one wins).
func (x *enfRun) noteBan(addr string) {
	w := x.e.W
	x.mu.Lock()
	defer x.mu.Unlock()
	if _, seen := x.sights[addr]; seen {
		return
	}
	s := banSight{Seq: w.Log.Len(), OpenConns: w.Net.OpenConns(addr)}
	s.T = w.Log.Elapsed()
	x.sights[addr] = s
}

func (x *enfRun) stopPoller() { close(x.stop); x.wg.Wait() }

// settle waits until the poller went twice more over every address (so that a
// ban recorded just now has been seen).
func (x *enfRun) settle() {
	r0 := x.rounds.Load()
	l2.WaitFor(5*time.Second, func() bool { return x.rounds.Load() >= r0+2 })
}

func (x *enfRun) sight(addr string) (banSight, bool) {
	x.mu.Lock()
	defer x.mu.Unlock()
	s, ok := x.sights[addr]
	return s, ok
}

// awaitTip waits until the client reports the honest tip; every growEvery the
// chain grows by one announced block (a peer that is not the sync peer is
// only asked for headers when it announces something).
func (x *enfRun) awaitTip(deadline, growEvery time.Duration) bool {
	start := time.Now()
	lastGrow := start
	for time.Since(start) < deadline {
		if x.e.W.SyncedTo(x.e.Tip()) {
			return true
		}
		if x.giveUp != nil && x.giveUp() {
			return false
		}
		if time.Since(lastGrow) >= growEvery {
			lastGrow = time.Now()
			if int(x.e.Tip().Height) < len(x.e.Trunk)-2 { // keep two blocks for the final poke
				x.e.grow(1)
				x.res.Count("enf_growth_blocks", 1)
			} else {
				// Reserve used up: announce the tip again.
				x.e.grow(0)
			}
		}
		time.Sleep(10 * time.Millisecond)
	}
	return x.e.W.SyncedTo(x.e.Tip())
}

// EnforceScenario is scenario k of the enforcement family (runs in a child
// process).
func EnforceScenario(seed int64, k int, res *l2.Result) {
	if k >= enfClassic {
		HostScenario(seed, k-enfClassic, res)
		return
	}
	plan := EnfPlanFromSeed(seed, k)
	if js := os.Getenv("C13_ENF_PLAN"); js != "" { // debugging aid: run a hand-written plan
		var hp EnfPlan
		if err := json.Unmarshal([]byte(js), &hp); err != nil {
			res.Inconcl("C13_ENF_PLAN: " + err.Error())
			return
		}
		plan = hp
	}
	res.Name = fmt.Sprintf("c13-enf-%d-%s", k, plan.Kind)
	e := buildEnf(plan)
	plan = e.Plan // lie heights adjusted to the generated chain
	res.Fingerprint = plan.Describe()
	w := e.W
	defer w.Cleanup()
	x := &enfRun{e: e, res: res, sights: map[string]banSight{}}
	e.onBanSeen = x.noteBan
	e.isBanSeen = func(addr string) bool { _, ok := x.sight(addr); return ok }

	// Steering only (not part of any oracle): admit one peer first, and/or
	// let no peer serve block headers before every peer had its chance to
	// connect — the client asks "all peers" for filter headers the moment
	// its block headers are complete, which otherwise happens a few
	// milliseconds after the first handshake, before the others are in.
	for i, ep := range e.Peers {
		if (plan.First >= 0 && i != plan.First) || ep.Plan.Late {
			w.Net.Refuse(ep.P.Addr, true)
		}
	}
	settled := func(p *netsim.Peer) bool {
		if w.Net.TotalConns(p.Addr) == 0 {
			return false
		}
		return p.IsReady() || w.Net.OpenConns(p.Addr) == 0
	}
	if plan.Hold {
		var released atomic.Bool
		for _, ep := range e.Peers {
			inner := ep.P.OnMsg
			ep.P.OnMsg = func(p *netsim.Peer, m wire.Message) bool {
				if _, ok := m.(*wire.MsgGetHeaders); ok && !released.Load() {
					l2.WaitFor(4*time.Second, func() bool {
						for _, o := range e.Peers {
							if !o.Plan.Late && !settled(o.P) {
								return false
							}
						}
						return true
					})
					time.Sleep(60 * time.Millisecond) // the client adds a peer a moment after the peer saw the handshake end
					released.Store(true)
				}
				if inner != nil {
					return inner(p, m)
				}
				return false
			}
		}
	}
	if err := w.StartClient(nil, l2.ClientOpts{}); err != nil {
		res.Inconcl("client start failed: " + err.Error())
		return
	}
	x.startPoller()
	if plan.First >= 0 {
		first := e.Peers[plan.First].P
		if plan.AdmitOn == "banned" {
			l2.WaitFor(8*time.Second, func() bool { _, ok := x.sight(first.Addr); return ok })
		} else {
			l2.WaitFor(3*time.Second, func() bool { return settled(first) })
		}
		for _, ep := range e.Peers {
			if !ep.Plan.Late {
				w.Net.Refuse(ep.P.Addr, false)
			}
		}
	}

	if plan.Kind == kindCPOnly {
		// Filter-header sync is expected to go round in circles while the
		// checkpoint liar is neither believed nor banned: four rounds of the
		// client's conflict resolution are enough to judge.
		x.giveUp = func() bool {
			for _, ep := range e.Peers {
				if ep.Plan.Class == clCPOnly {
					_, banned := x.sight(ep.P.Addr)
					return !banned && ep.P.RxCount("getcfheaders") >= cpOnlyRounds+1
				}
			}
			return false
		}
	}

	// With every honest peer banned the client cannot reach the honest tip any
	// more: no point in waiting for it. Nor when an at-tip liar was asked for
	// the same filter headers over and over without being banned (steering
	// only: the oracle counts the rounds from the log).
	var defaultGiveUp func() bool
	{
		defaultGiveUp = func() bool {
			if !plan.checkpointed() {
				for _, ep := range e.Peers {
					if ep.Plan.Class == clLiar && !ep.Plan.Late && ep.P.RxCount("getcfheaders") >= conflictRounds+3 {
						if _, banned := x.sight(ep.P.Addr); !banned {
							return true
						}
					}
				}
			}
			n := 0
			for _, ep := range e.Peers {
				if ep.Plan.Class == clHonest || ep.Plan.Class == clSlow {
					if _, banned := x.sight(ep.P.Addr); !banned {
						return false
					}
					n++
				}
			}
			return n > 0
		}
	}
	if x.giveUp == nil {
		x.giveUp = defaultGiveUp
	}
	// firstPhaseBanned: every peer that is not a late one has been seen banned.
	firstPhaseBanned := func() bool {
		for _, ep := range e.Peers {
			if !ep.Plan.Late {
				if _, banned := x.sight(ep.P.Addr); !banned {
					return false
				}
			}
		}
		return true
	}
	if plan.Kind == kindOnlyLiars {
		// Nobody of the first phase can take the client to the tip. The
		// phase is over once all of them are banned, or once a liar has been
		// asked for the same filter headers over and over without a ban.
		x.giveUp = func() bool {
			for _, ep := range e.Peers {
				if ep.Plan.Class == clLiar && !ep.Plan.Late && ep.P.RxCount("getcfheaders") >= conflictRounds+2 {
					if _, banned := x.sight(ep.P.Addr); !banned {
						return true
					}
				}
			}
			return firstPhaseBanned()
		}
	}

	// Phase 1: initial sync (most lies about filter headers are told here).
	synced := x.awaitTip(syncWatchdog, 3*time.Second)
	markSync := func() {
		// The sync point: whatever lie went into the filter headers the
		// client has now committed was judged by it before this moment.
		x.settle()
		x.mu.Lock()
		x.syncSeq = w.Log.Len()
		x.bannedAtSync = map[string]bool{}
		for a := range x.sights {
			x.bannedAtSync[a] = true
		}
		x.mu.Unlock()
	}
	if synced {
		markSync()
	}

	// Late peers come in now (a late liar can only show the false previous
	// filter header its lie leads to, at the next announced block).
	if plan.Kind == kindOnlyLiars {
		// Steering: the honest peers of this family only arrive once the
		// liars-only phase ended the way the property demands. If it did not
		// (nobody banned after several rounds) they stay away: the oracle
		// then judges the liars-only phase alone. If the phase never took
		// place (a liar's answer went uncontradicted because its companion
		// was not asked the same question) the scenario observed nothing.
		x.settle()
		if who := x.uncontradictedLiar(); who != "" {
			x.lateHeld = "steering failed: " + who + " answered a getcfheaders request no other peer answered"
			res.Inconcl("only-liars scenario: a liar was asked for filter headers while it was alone (steering failed)")
		} else if !synced && !firstPhaseBanned() {
			x.lateHeld = "a peer of the liars-only phase is still not banned"
		}
		x.giveUp = defaultGiveUp
	}
	if x.lateHeld == "" {
		admitted := false
		for _, ep := range e.Peers {
			if ep.Plan.Late {
				w.Net.Refuse(ep.P.Addr, false)
				admitted = true
			}
		}
		for _, ep := range e.Peers {
			if ep.Plan.Late {
				p := ep.P
				l2.WaitFor(6*time.Second, func() bool { return settled(p) })
				time.Sleep(60 * time.Millisecond)
			}
		}
		if admitted && !synced && plan.Kind == kindOnlyLiars {
			// Phase 1b: the late (honest) peers take the client to the tip.
			if synced = x.awaitTip(syncWatchdog, 3*time.Second); synced {
				markSync()
			}
		}
	}

	// Phase 2: block fetches, so that the invalid-block server tells its lie.
	if synced && plan.GetBlocks > 0 {
		x.fetchBlocks()
	}

	// Phase 3: a peer that merely disconnects does so once more, now that
	// the client is idle; then one more announced block (a liar that was
	// not connected in time for phase 1 now shows its false previous filter
	// header).
	poke := func() {
		if !synced {
			return
		}
		for _, ep := range e.Peers {
			if ep.Plan.Class == clFlaky { // give the redial of the flaky peer a moment
				l2.WaitFor(3*time.Second, func() bool { return w.Net.OpenConns(ep.P.Addr) > 0 })
			}
		}
		e.grow(1)
		synced = x.awaitTip(syncWatchdog, 3*time.Second)
	}
	for _, ep := range e.Peers {
		if ep.Plan.Class == clFlaky {
			ep.P.Disconnect()
		}
	}
	poke()
	x.settle()

	// Phase 4: let the connection manager redial the banned (permanent)
	// addresses a few times.
	l2.WaitFor(redialWatchdog, func() bool {
		for _, ep := range e.Peers {
			s, ok := x.sight(ep.P.Addr)
			if !ok {
				continue
			}
			post := 0
			for _, c := range w.Net.ConnRecs(ep.P.Addr) {
				if c.OpenSeq >= s.Seq {
					post++
				}
			}
			if post < 3 {
				return false
			}
		}
		return true
	})

	// Phase 5: one more block, announced. A connection the client kept to a
	// banned address would now be asked for filter headers.
	poke()
	x.settle()

	// Quiescence before the final readings (steering only, bounded in polls):
	// a peer without the required service bits gives cause for a ban on every
	// connection the client opens to it, so a connection to such a peer that
	// is open right now (admitted late, mid-handshake) would have the ban
	// land between the last IsBanned reading and the reopening of the store.
	x.quiesce()

	// Phase 6: every connection to a banned address that got as far as a
	// completed handshake must be closed (generous watchdog).
	x.awaitClosures()

	// Final observations through the public API.
	final := x.observeEnd()
	final.Synced = synced
	final.LateHeld = x.lateHeld
	x.stopPoller()
	stopOK, _ := w.StopClient(60 * time.Second)
	if !stopOK {
		res.Inconcl("Stop did not return within 60s (C17's subject)")
		res.Sample = map[string]any{"plan": plan, "note": "stop watchdog"}
		return
	}
	x.readStore(final)
	x.judge(final)
	if os.Getenv("C13_ENF_LOG") != "" { // debugging aid for -c13-enf-k
		for _, l := range w.Log.Tail(1 << 20) {
			fmt.Fprintln(os.Stderr, l)
		}
	}
}

// fetchBlocks runs rounds of concurrent GetBlock calls for distinct blocks
// until the invalid-block server has served something (or three rounds).
func (x *enfRun) fetchBlocks() {
	e, w := x.e, x.e.W
	var bad *enfPeer
	for _, ep := range e.Peers {
		if ep.Bad != nil {
			bad = ep
		}
	}
	tip := e.Tip()
	next := int32(1)
	for round := 0; round < 3; round++ {
		if bad != nil && len(bad.Bad.snapshot()) > 0 {
			break
		}
		var wg sync.WaitGroup
		var okN, errN atomic.Int64
		for i := 0; i < e.Plan.GetBlocks && next <= tip.Height; i++ {
			n := tip.Ancestor(next)
			next += 1 + tip.Height/int32(3*e.Plan.GetBlocks+1)
			wg.Add(1)
			go func(h chainhash.Hash) {
				defer wg.Done()
				blk, err := w.Svc.GetBlock(h)
				if err != nil || blk == nil {
					errN.Add(1)
					return
				}
				okN.Add(1)
			}(n.Hash)
		}
		done := make(chan struct{})
		go func() { wg.Wait(); close(done) }()
		select {
		case <-done:
		case <-time.After(getBlockWatchdog):
			x.res.Inconcl("GetBlock calls still pending after the watchdog (C06/C12's subject)")
			return
		}
		x.res.Count("enf_getblock_ok", okN.Load())
		x.res.Count("enf_getblock_err", errN.Load())
	}
}

// quiesce waits, for at most quiescePolls polls, until every peer without the
// required service bits that the client ever opened a connection to has been
// seen banned and has no open connection at this instant.
func (x *enfRun) quiesce() {
	const quiescePolls = 1200
	w := x.e.W
	for i := 0; i < quiescePolls; i++ {
		busy := false
		for _, ep := range x.e.Peers {
			switch ep.Plan.Class {
			case clNoCF, clNoWit, clNoBoth:
			default:
				continue
			}
			a := ep.P.Addr
			if w.Net.TotalConns(a) == 0 {
				continue
			}
			if _, seen := x.sight(a); !seen || w.Net.OpenConns(a) > 0 {
				busy = true
			}
		}
		if !busy {
			if i > 0 {
				x.res.Count("enf_final_reading_waited_for_a_pending_service_ban", 1)
			}
			return
		}
		time.Sleep(5 * time.Millisecond)
	}
	x.res.Count("enf_final_reading_not_quiescent", 1)
}

// awaitClosures waits until no banned address has an open connection on
// which the handshake completed.
func (x *enfRun) awaitClosures() {
	w := x.e.W
	l2.WaitFor(closeWatchdog, func() bool {
		evs := w.Log.Snapshot()
		for _, ep := range x.e.Peers {
			if _, ok := x.sight(ep.P.Addr); !ok {
				continue
			}
			for _, cv := range connViews(w, ep.P.Addr, evs) {
				if cv.Open && cv.Handshook {
					return false
				}
			}
		}
		return true
	})
}

// connView is one connection of an address with the events that belong to it.
type connView struct {
	Index        int
	OpenSeq      int64
	Open         bool           // neither end closed (read at analysis time)
	VersionSeq   int64          // log Seq of the peer's own version message on this connection (0 = none)
	VersionSent  bool           // the peer sent its version => it had read the client's
	Handshook    bool           // handshake completed (client's verack read)
	HandshakeSeq int64          // log Seq of that moment (0 = never)
	SelfClosed   bool           // the PEER closed it ("disconnect by peer")
	Rx           map[string]int // messages received after the handshake, by command
	evs          []netsim.Event
}

// afterBan: the client dealt with this connection after the ban was recorded.
// Either it was opened after the ban was seen, or the peer sent its own
// version (and verack) after the ban was seen: the client adds a peer to its
// set — where it checks the ban — only once it has read the peer's verack.
func (c connView) afterBan(banSeq int64) bool {
	return c.OpenSeq >= banSeq || c.VersionSeq > banSeq
}

func (c connView) rxList() []string {
	out := make([]string, 0, len(c.Rx))
	for k, v := range c.Rx {
		out = append(out, fmt.Sprintf("%s×%d", k, v))
	}
	sort.Strings(out)
	return out
}

// connViews splits the event log of addr into its connections.
func connViews(w *l2.World, addr string, evs []netsim.Event) []connView {
	recs := w.Net.ConnRecs(addr)
	out := make([]connView, len(recs))
	for i, r := range recs {
		out[i] = connView{Index: i, OpenSeq: r.OpenSeq, Open: !r.C.Dead(), Rx: map[string]int{}}
	}
	if len(out) == 0 {
		return out
	}
	ci := 0
	for _, ev := range evs {
		if ev.Peer != addr || ev.Seq <= out[0].OpenSeq {
			continue
		}
		for ci+1 < len(out) && ev.Seq > out[ci+1].OpenSeq {
			ci++
		}
		c := &out[ci]
		c.evs = append(c.evs, ev)
		switch {
		case ev.Dir == "tx" && ev.Cmd == "version":
			c.VersionSent = true
			c.VersionSeq = ev.Seq
		case ev.Dir == "ev" && ev.Cmd == "handshake":
			c.Handshook = true
			c.HandshakeSeq = ev.Seq
		case ev.Dir == "ev" && ev.Cmd == "disconnect":
			c.SelfClosed = true
		case ev.Dir == "rx":
			c.Rx[ev.Cmd]++
		}
	}
	return out
}

// Messages a client may send on a connection without that connection being
// "kept": the handshake itself (not logged as rx at all) and keep-alives.
var harmlessRx = map[string]bool{"ping": true, "pong": true, "verack": true, "version": true, "sendaddrv2": true, "wtxidrelay": true}

// peerEnd is everything observed about one peer.
type peerEnd struct {
	Addr        string
	Class       string
	Label       string
	BannedAPI   bool   // IsBanned at the end
	SawBan      bool   // the poller saw IsBanned turn true
	BanSeq      int64  `json:",omitempty"`
	BanT        string `json:",omitempty"`
	OpenAtBan   int    `json:",omitempty"`
	StoreBanned bool
	StoreReason string `json:",omitempty"`
	StoreErr    string `json:",omitempty"`

	Conns               int
	PreBanConns         int
	PostBanConns        int
	PostBanMidHandshake int      // of those: opened before the ban was seen, peer's version sent after it
	PostBanVersion      int      // post-ban connections on which the client sent its version
	PostBanHandshook    int      // ... and completed the handshake
	PostBanRequests     []string `json:",omitempty"`
	OpenAtEnd           int
	OpenHandshook       int // open at the end with a completed handshake
	VersionSent         bool
	SelfDisconnects     int

	LieTold   string `json:",omitempty"` // how the lie was told: "", "cfheaders", "cfheaders-prev", "cfcheckpt", "cfcheckpt-only"
	LieRounds int    `json:",omitempty"` // checkpoint-only liar: cfcheckpt messages with the false checkpoint it sent
	// ConflictRounds: how often this liar answered, with its false filter
	// hash, a getcfheaders request an honest peer answered as well;
	// DisputedBlockServed: how often a peer then served the (true) disputed
	// block to the client (everything needed to prove the lie was in its hands).
	ConflictRounds      int `json:",omitempty"`
	DisputedBlockServed int `json:",omitempty"`
	// LiarOnlyRounds: of the ConflictRounds, those in which no honest peer
	// took part (the contradiction came from another liar, or from a peer
	// that backs up nothing it announces). SelfContradictions: how often
	// this peer itself then served, for the disputed block, a filter that
	// does not hash to the filter hash it had announced (its own two
	// messages prove the announcement false; no block needed).
	LiarOnlyRounds     int      `json:",omitempty"`
	SelfContradictions int      `json:",omitempty"`
	Detectable         string   `json:",omitempty"` // why the client could see the conflict ("" = it could not)
	DetectSeq          int64    `json:",omitempty"` // log Seq of the first message that made it visible
	BadServed          int      `json:",omitempty"` // mutated blocks sent in answer to getdata
	BadPrompt          int      `json:",omitempty"` // ... of which promptly
	Unanswered         []string `json:",omitempty"`
	LateAnswers        []string `json:",omitempty"`
	Excuse             string   `json:",omitempty"` // why a ban of this honest-class peer would be by design

	views []connView
}

type enfEnd struct {
	Synced        bool
	FilterTip     uint32
	BlockTip      uint32
	StoreTruth    string // "" = committed filter headers equal the ground truth
	LateHeld      string `json:",omitempty"` // why the late peers were never admitted
	HonestUp      int    // honest/slow peers with an open, handshaken connection
	MaxStallMs    int64
	Polls         int64
	Peers         []*peerEnd
	conflictsSeen bool
}

func (pe *peerEnd) noteDetect(seq int64) {
	if pe.DetectSeq == 0 || seq < pe.DetectSeq {
		pe.DetectSeq = seq
	}
}

func (x *enfRun) observeEnd() *enfEnd {
	e, w := x.e, x.e.W
	f := &enfEnd{}
	if _, h, err := w.Svc.BlockHeaders.ChainTip(); err == nil {
		f.BlockTip = h
	}
	if _, h, err := w.Svc.RegFilterHeaders.ChainTip(); err == nil {
		f.FilterTip = h
	}
	f.StoreTruth = w.ValidateStored(true)
	evs := w.Log.Snapshot()
	for _, ep := range e.Peers {
		pe := &peerEnd{Addr: ep.P.Addr, Class: ep.Plan.Class, Label: ep.Plan.label()}
		pe.BannedAPI = w.Svc.IsBanned(ep.P.Addr)
		if s, ok := x.sight(ep.P.Addr); ok {
			pe.SawBan, pe.BanSeq, pe.OpenAtBan = true, s.Seq, s.OpenConns
			pe.BanT = fmt.Sprintf("%.3fs", s.T.Seconds())
		}
		pe.views = connViews(w, ep.P.Addr, evs)
		pe.Conns = len(pe.views)
		for i, cv := range pe.views {
			if i == 0 {
				pe.VersionSent = cv.VersionSent
			}
			if cv.SelfClosed {
				pe.SelfDisconnects++
			}
			if cv.Open {
				pe.OpenAtEnd++
				if cv.Handshook {
					pe.OpenHandshook++
				}
			}
			if !pe.SawBan {
				continue
			}
			if !cv.afterBan(pe.BanSeq) {
				pe.PreBanConns++
				continue
			}
			if cv.OpenSeq < pe.BanSeq {
				pe.PostBanMidHandshake++
			}
			pe.PostBanConns++
			if cv.VersionSent {
				pe.PostBanVersion++
			}
			if cv.Handshook {
				pe.PostBanHandshook++
			}
			for cmd, n := range cv.Rx {
				if !harmlessRx[cmd] {
					pe.PostBanRequests = append(pe.PostBanRequests, fmt.Sprintf("conn#%d:%s×%d", cv.Index, cmd, n))
				}
			}
		}
		sort.Strings(pe.PostBanRequests)
		x.pairRequests(pe)
		f.Peers = append(f.Peers, pe)
		if (pe.Class == clHonest || pe.Class == clSlow) && pe.OpenHandshook > 0 {
			f.HonestUp++
		}
	}
	x.lieFacts(f, evs)
	f.MaxStallMs = time.Duration(x.stall.Load()).Milliseconds()
	f.Polls = x.polls.Load()
	return f
}

var answerOf = map[string]string{
	"getheaders": "headers", "getcfheaders": "cfheaders", "getcfilters": "cfilter",
	"getcfcheckpt": "cfcheckpt", "getdata": "block",
}

// pairRequests walks each connection (the peer answers strictly in order)
// and lists requests that got no answer or a late one.
func (x *enfRun) pairRequests(pe *peerEnd) {
	for _, cv := range pe.views {
		var pend *netsim.Event
		flush := func() {
			if pend != nil {
				pe.Unanswered = append(pe.Unanswered, fmt.Sprintf("conn#%d:%s(%s)", cv.Index, pend.Cmd, pend.Note))
				pend = nil
			}
		}
		for i := range cv.evs {
			ev := cv.evs[i]
			switch ev.Dir {
			case "rx":
				flush()
				if _, ok := answerOf[ev.Cmd]; ok {
					pend = &cv.evs[i]
				}
			case "tx":
				if pend != nil && answerOf[pend.Cmd] == ev.Cmd {
					if lag := ev.T - pend.T; lag > lateAnswer {
						pe.LateAnswers = append(pe.LateAnswers, fmt.Sprintf("conn#%d:%s after %dms", cv.Index, pend.Cmd, lag.Milliseconds()))
					}
					pend = nil
				}
			}
		}
		flush()
	}
}

// lieFacts works out, from the log alone, which lies were actually told and
// whether the client was in a position to notice (an honest peer answered
// the very same request, or an honest peer's checkpoints were on the table).
func (x *enfRun) lieFacts(f *enfEnd, evs []netsim.Event) {
	e := x.e
	tip := e.Tip()
	byAddr := map[string]*peerEnd{}
	for _, pe := range f.Peers {
		byAddr[pe.Addr] = pe
	}
	// Requests honest full-chain peers answered: note of getcfheaders ->
	// true; and the first Seq at which one of them sent checkpoints.
	honestAnswered := map[string]bool{}
	honestCPAnswered := map[string]bool{} // note of a getcfcheckpt an honest peer answered
	// Every full-chain peer that answered a getcfheaders request, by request.
	answers, roundOf := cfheadersAnswers(e, evs, func(addr string) []connView { return byAddr[addr].views })
	firstHonestCP := int64(-1)
	for _, ep := range e.Peers {
		switch ep.Plan.Class {
		case clHonest, clSlow, clFlaky:
		default:
			continue
		}
		for _, cv := range byAddr[ep.P.Addr].views {
			var pend *netsim.Event
			for i := range cv.evs {
				ev := cv.evs[i]
				if ev.Dir == "rx" {
					pend = nil
					if ev.Cmd == "getcfheaders" || ev.Cmd == "getcfcheckpt" {
						pend = &cv.evs[i]
					}
				} else if ev.Dir == "tx" {
					if ev.Cmd == "cfheaders" && pend != nil && pend.Cmd == "getcfheaders" {
						honestAnswered[pend.Note] = true
						pend = nil
					}
					if ev.Cmd == "cfcheckpt" && pend != nil && pend.Cmd == "getcfcheckpt" {
						honestCPAnswered[pend.Note] = true
						pend = nil
					}
					if ev.Cmd == "cfcheckpt" && (firstHonestCP < 0 || ev.Seq < firstHonestCP) {
						firstHonestCP = ev.Seq
					}
				}
			}
		}
	}
	for _, ep := range e.Peers {
		pe := byAddr[ep.P.Addr]
		if ep.Liar != nil {
			told := ep.Liar.ToldSnapshot()
			lieNode := tip.Ancestor(ep.Plan.Lie.Height)
			if lieNode == nil {
				continue
			}
			kind, hashTold := told[lieNode.Hash]
			if !hashTold {
				// a consistent liar may also have shown its false checkpoint only
				for h, k := range told {
					if n := e.W.G.Lookup(h); n != nil && tip.Ancestor(n.Height) == n && k == "checkpt-consistent" {
						pe.LieTold = "cfcheckpt"
					}
				}
				if ep.Plan.Lie.Kind != netsim.LieCheckpt && !ep.Liar.LiesAbout(lieNode) {
					continue // the lie could not be constructed for this block: the peer is honest
				}
			}
			if kind == netsim.LieCheckpt {
				// A round = the false checkpoint is on the client's table
				// (sent, and cached by the client) and the client asks
				// everybody for the cfheaders of the disputed interval; the
				// liar answers with the TRUE cfheaders.
				pe.LieTold = "cfcheckpt-only"
				toldCP := false
				for _, cv := range pe.views {
					var pend *netsim.Event
					for i := range cv.evs {
						ev := cv.evs[i]
						if ev.Dir == "rx" {
							pend = nil
							if ev.Cmd == "getcfcheckpt" || ev.Cmd == "getcfheaders" {
								pend = &cv.evs[i]
							}
							continue
						}
						if ev.Dir != "tx" || pend == nil {
							continue
						}
						switch {
						case ev.Cmd == "cfcheckpt" && pend.Cmd == "getcfcheckpt":
							toldCP = true
							if honestCPAnswered[pend.Note] {
								pe.Detectable = "an honest peer answered the same getcfcheckpt request"
							}
						case ev.Cmd == "cfheaders" && pend.Cmd == "getcfheaders" && toldCP:
							var start int32
							fmt.Sscanf(pend.Note, "start=%d", &start)
							if start < ep.Plan.Lie.Height && honestAnswered[pend.Note] {
								pe.LieRounds++
							}
						}
						pend = nil
					}
				}
				continue
			}
			// Find the getcfheaders requests it answered that cover the height.
			sentCP := false
			for _, cv := range pe.views {
				var pend *netsim.Event
				for i := range cv.evs {
					ev := cv.evs[i]
					if ev.Dir == "tx" && ev.Cmd == "cfcheckpt" {
						sentCP = true
					}
					if ev.Dir == "rx" {
						pend = nil
						if ev.Cmd == "getcfheaders" {
							pend = &cv.evs[i]
						}
						continue
					}
					if ev.Dir != "tx" || ev.Cmd != "cfheaders" || pend == nil {
						continue
					}
					var start, n int32
					var stop string
					fmt.Sscanf(pend.Note, "start=%d stop=%s", &start, &stop)
					fmt.Sscanf(ev.Note, "n=%d", &n)
					if start > ep.Plan.Lie.Height && n > 0 && pe.LieTold != "cfheaders" && ep.Plan.Lie.Kind != netsim.LieCheckpt {
						// A consistent liar's PrevFilterHeader above its lie
						// is false too. On the at-tip path the client
						// compares it with its own committed tip.
						pe.LieTold = "cfheaders-prev"
						lastCP := int32(e.Plan.ChainLen / 1000 * 1000)
						if f.StoreTruth == "" && start >= lastCP+1 && start > 1 {
							pe.Detectable = "its cfheaders carried a false previous filter header while the client's own committed filter headers are the true ones"
							pe.noteDetect(ev.Seq)
						}
					}
					if hashTold && ep.Plan.Lie.Height >= start && ep.Plan.Lie.Height < start+n {
						pe.LieTold = "cfheaders"
						f.conflictsSeen = true
						round := answers[roundOf(pend)]
						other := contradictor(round, ep, lieNode, start)
						byOther := "another peer (" + other + ") answered the same getcfheaders request with a different filter hash for that block"
						liarsOnly := other != "" && !e.Plan.checkpointed() && !anyHonestClass(round)
						if liarsOnly {
							pe.LiarOnlyRounds++
						}
						switch {
						case ep.Plan.Class == clBatchLiar && sentCP && int(ep.Plan.Lie.Height) <= e.Plan.ChainLen/1000*1000:
							pe.Detectable = "the response contradicts the (true) filter checkpoints this very peer had served before"
						case honestAnswered[pend.Note]:
							if pe.Detectable == "" || !liarsOnly {
								pe.Detectable = "an honest peer answered the same getcfheaders request"
							}
							if liarsOnly && pe.ConflictRounds == 0 {
								pe.Detectable = byOther // (the honest peers answered that request in a later round only)
							}
							pe.ConflictRounds++
						case other != "" && !e.Plan.checkpointed():
							if !strings.HasPrefix(pe.Detectable, "an honest peer") {
								pe.Detectable = byOther
							}
							pe.ConflictRounds++
						case pe.Detectable == "" && firstHonestCP >= 0 && firstHonestCP < ev.Seq && e.Plan.checkpointed() &&
							int(ep.Plan.Lie.Height) <= e.Plan.ChainLen/1000*1000:
							pe.Detectable = "an honest peer's filter checkpoints were known before the lie was told"
						}
						if pe.Detectable != "" {
							pe.noteDetect(ev.Seq)
						}
					}
					pend = nil
				}
			}
		}
		if ep.Liar != nil && pe.DetectSeq > 0 {
			if lieNode := tip.Ancestor(ep.Plan.Lie.Height); lieNode != nil {
				pfx := lieNode.Hash.String()[:8]
				for _, hp := range e.Peers {
					if hp.Bad != nil { // serves altered blocks
						continue
					}
					for _, cv := range byAddr[hp.P.Addr].views {
						for _, ev := range cv.evs {
							if ev.Dir == "tx" && ev.Cmd == "block" && ev.Seq > pe.DetectSeq && strings.HasPrefix(ev.Note, pfx) {
								pe.DisputedBlockServed++
							}
						}
					}
				}
				if ep.Liar.ClaimedHash(lieNode) != lieNode.FilterHash && ep.Plan.Lie.Kind == netsim.LieWrongHash {
					// This liar serves the TRUE filter of the block.
					for _, cv := range pe.views {
						for _, ev := range cv.evs {
							if ev.Dir == "tx" && ev.Cmd == "cfilter" && ev.Seq > pe.DetectSeq && strings.HasPrefix(ev.Note, "block="+pfx) {
								pe.SelfContradictions++
							}
						}
					}
				}
			}
		}
		if ep.Bad != nil {
			served := ep.Bad.snapshot()
			_ = served
			for _, cv := range pe.views {
				var pend *netsim.Event
				for i := range cv.evs {
					ev := cv.evs[i]
					if ev.Dir == "rx" {
						pend = nil
						if ev.Cmd == "getdata" {
							pend = &cv.evs[i]
						}
					} else if ev.Dir == "tx" && ev.Cmd == "block" && pend != nil {
						pe.BadServed++
						if ev.T-pend.T <= lateAnswer {
							pe.BadPrompt++
						}
						pend = nil
					}
				}
			}
		}
	}
	// Excuses for a ban of an honest-class peer (non-responders are banned
	// by design in detectBadPeers / resolveConflict).
	for _, pe := range f.Peers {
		switch pe.Class {
		case clHonest, clSlow, clStale, clFlaky:
		default:
			continue
		}
		switch {
		case len(pe.Unanswered) > 0:
			pe.Excuse = "a request of the client went unanswered: " + pe.Unanswered[0]
		case len(pe.LateAnswers) > 0:
			pe.Excuse = "an answer was late: " + pe.LateAnswers[0]
		case pe.SelfDisconnects > 0 && f.conflictsSeen:
			pe.Excuse = "the peer dropped its own connection in a session with filter-header conflicts"
		}
	}
}

// cfheadersAnswers lists, per round of getcfheaders requests, the full-chain
// peers that answered with a non-empty cfheaders message. A round is what the
// client sends to all its peers at once: the same request (log note: start
// and stop) with no getcfilters request to anybody in between (the client
// repeats a getcfheaders request only after a failed conflict resolution,
// which asks for the filter of the disputed block first). roundOf gives the
// key of the round a received getcfheaders belongs to.
func cfheadersAnswers(e *enfWorld, evs []netsim.Event, views func(addr string) []connView) (map[string][]*enfPeer, func(*netsim.Event) string) {
	var filterReqs []int64
	for _, ev := range evs {
		if ev.Dir == "rx" && ev.Cmd == "getcfilters" {
			filterReqs = append(filterReqs, ev.Seq)
		}
	}
	roundOf := func(req *netsim.Event) string {
		n := sort.Search(len(filterReqs), func(i int) bool { return filterReqs[i] >= req.Seq })
		return fmt.Sprintf("%s #%d", req.Note, n)
	}
	out := map[string][]*enfPeer{}
	for _, ep := range e.Peers {
		if !ep.full {
			continue
		}
		seen := map[string]bool{}
		for _, cv := range views(ep.P.Addr) {
			var pend *netsim.Event
			for i := range cv.evs {
				ev := cv.evs[i]
				switch {
				case ev.Dir == "rx":
					pend = nil
					if ev.Cmd == "getcfheaders" {
						pend = &cv.evs[i]
					}
				case ev.Dir == "tx" && ev.Cmd == "cfheaders" && pend != nil:
					var n int32
					fmt.Sscanf(ev.Note, "n=%d", &n)
					if key := roundOf(pend); n > 0 && !seen[key] {
						seen[key] = true
						out[key] = append(out[key], ep)
					}
					pend = nil
				}
			}
		}
	}
	return out, roundOf
}

func anyHonestClass(ps []*enfPeer) bool {
	for _, p := range ps {
		switch p.Plan.Class {
		case clHonest, clSlow, clFlaky:
			return true
		}
	}
	return false
}

// contradictor returns the label of a peer among those that answered the
// same getcfheaders request (first height: start) as the liar `me` whose
// announced filter hash for block n differs from the liar's, n being the
// FIRST block of the response the two disagree about ("" = no such peer).
// The client settles a disagreement at the lowest height first and discards
// the whole answer of a peer it finds wrong there: a peer that already
// differs from the liar below n does not put the liar's claim about n on the
// table.
func contradictor(answerers []*enfPeer, me *enfPeer, n *chaingen.Node, start int32) string {
	claim := func(p *enfPeer, b *chaingen.Node) chainhash.Hash {
		if p.Liar != nil {
			return p.Liar.ClaimedHash(b)
		}
		return b.FilterHash
	}
	if start < 1 {
		start = 1
	}
next:
	for _, q := range answerers {
		if q == me || claim(q, n) == claim(me, n) {
			continue
		}
		for h := start; h < n.Height; h++ {
			if b := n.Ancestor(h); b != nil && claim(q, b) != claim(me, b) {
				continue next
			}
		}
		return q.Plan.label()
	}
	return ""
}

// uncontradictedLiar (steering aid, read during the run): a liar of the
// first phase that answered a getcfheaders request covering its lie which no
// other peer answered with a different hash. "" = none.
func (x *enfRun) uncontradictedLiar() string {
	e, w := x.e, x.e.W
	evs := w.Log.Snapshot()
	views := map[string][]connView{}
	for _, ep := range e.Peers {
		views[ep.P.Addr] = connViews(w, ep.P.Addr, evs)
	}
	answers, _ := cfheadersAnswers(e, evs, func(addr string) []connView { return views[addr] })
	tip := e.Tip()
	for round, who := range answers {
		var start int32
		fmt.Sscanf(round, "start=%d", &start)
		for _, ep := range who {
			if ep.Liar == nil || ep.Plan.Late || ep.Plan.Lie.Height < start {
				continue
			}
			n := tip.Ancestor(ep.Plan.Lie.Height)
			if n == nil || !ep.Liar.LiesAbout(n) {
				continue
			}
			if contradictor(who, ep, n, start) == "" {
				return ep.Plan.label() + " peer " + ep.P.Addr
			}
		}
	}
	return ""
}

// readStore reopens the database after the client stopped and reads the ban
// record of every address.
func (x *enfRun) readStore(f *enfEnd) {
	w := x.e.W
	db, err := walletdb.Open("bdb", filepath.Join(w.Dir, "neutrino.db"), true, 10*time.Second, false)
	if err != nil {
		for _, pe := range f.Peers {
			pe.StoreErr = "reopen: " + err.Error()
		}
		return
	}
	defer db.Close()
	st, err := banman.NewStore(db)
	if err != nil {
		for _, pe := range f.Peers {
			pe.StoreErr = "NewStore: " + err.Error()
		}
		return
	}
	for _, pe := range f.Peers {
		ipn, err := banman.ParseIPNet(pe.Addr, nil)
		if err != nil {
			pe.StoreErr = err.Error()
			continue
		}
		s, err := st.Status(ipn)
		if err != nil {
			pe.StoreErr = err.Error()
			continue
		}
		pe.StoreBanned = s.Banned
		if s.Banned {
			pe.StoreReason = reasonName(s.Reason)
		}
	}
}

func reasonName(r banman.Reason) string {
	switch r {
	case banman.ExceededBanThreshold:
		return "ExceededBanThreshold"
	case banman.NoCompactFilters:
		return "NoCompactFilters"
	case banman.InvalidFilterHeader:
		return "InvalidFilterHeader"
	case banman.InvalidFilterHeaderCheckpoint:
		return "InvalidFilterHeaderCheckpoint"
	case banman.InvalidBlock:
		return "InvalidBlock"
	}
	return fmt.Sprintf("reason-%d", uint8(r))
}

// judge applies the oracle.
func (x *enfRun) judge(f *enfEnd) {
	e, w, res := x.e, x.e.W, x.res
	plan := e.Plan
	path := plan.path()
	stalled := time.Duration(x.stall.Load()) > stallLimit

	peerWitness := func(pe *peerEnd) any {
		var tail []string
		evs := w.Log.Snapshot()
		for _, ev := range evs {
			if ev.Peer == pe.Addr {
				tail = append(tail, fmt.Sprintf("%d %7.3fs %s %s %s", ev.Seq, ev.T.Seconds(), ev.Dir, ev.Cmd, ev.Note))
			}
		}
		if len(tail) > 70 {
			tail = append(append([]string{}, tail[:25]...), append([]string{"..."}, tail[len(tail)-45:]...)...)
		}
		var conns []map[string]any
		for _, cv := range pe.views {
			if len(conns) >= 12 {
				break
			}
			conns = append(conns, map[string]any{"conn": cv.Index, "open_seq": cv.OpenSeq, "open": cv.Open,
				"client_sent_version": cv.VersionSent, "handshake_completed": cv.Handshook, "closed_by_peer": cv.SelfClosed, "rx_after_handshake": cv.rxList()})
		}
		return map[string]any{"plan": plan, "peer": pe, "connections": conns, "peer_events": tail, "end": f,
			"replay": fmt.Sprintf("c13 -seed <seed> -c13-enf-k %d", plan.K)}
	}
	violate := func(pe *peerEnd, sig, what string) {
		res.Violate(sig, what, peerWitness(pe))
	}

	// A liar whose lie went to the client while nobody contradicted it.
	loneLiar := ""
	for _, pe := range f.Peers {
		if (pe.LieTold == "cfheaders" || pe.LieTold == "cfcheckpt") && pe.Detectable == "" {
			loneLiar = pe.Label + " peer " + pe.Addr
		}
	}
	bans, requiredBans := 0, 0
	for _, pe := range f.Peers {
		// Public API and store must tell the same story.
		if pe.StoreErr != "" {
			res.Inconcl("ban store unreadable after the client stopped: " + pe.StoreErr)
			continue
		}
		// The two reads are NOT simultaneous: IsBanned is read while the client
		// runs, the store is reopened after Stop returned. No scenario of this
		// family lifts a ban and bans last 24 h, so "API said banned, the
		// reopened store has no record" cannot be explained by anything that
		// happened in between: the ban was reported but is not durable. The
		// other direction decides nothing by itself: a ban recorded between the
		// last API reading and Stop (a peer that gave cause for a ban in the
		// session's last milliseconds) is exactly what it looks like. It is a
		// finding only when the harness had already SEEN the ban through the
		// API before that last reading (then the API went back on a ban the
		// store still holds).
		switch {
		case pe.BannedAPI && !pe.StoreBanned:
			violate(pe, evid.Sig("c13-enf/store/isbanned-disagrees-with-reopened-store", pe.Class),
				fmt.Sprintf("%s peer %s: IsBanned reported true at the end of the session but the ban store reopened after Stop has no record for the address (bans last 24 h and nothing lifts one in this session): the ban was reported but is not durable",
					pe.Label, pe.Addr))
		case !pe.BannedAPI && pe.StoreBanned && pe.SawBan:
			violate(pe, evid.Sig("c13-enf/store/isbanned-disagrees-with-reopened-store", pe.Class, "api-went-back-on-a-ban-it-had-reported"),
				fmt.Sprintf("%s peer %s: IsBanned was seen true during the session (log seq %d), reported false at the end of the session, and the ban store reopened after Stop says banned=true (reason %q)",
					pe.Label, pe.Addr, pe.BanSeq, pe.StoreReason))
		case !pe.BannedAPI && pe.StoreBanned:
			// Banned between the last API reading and the end of Stop.
			res.Count("enf_bans_recorded_between_last_api_reading_and_store_reopening", 1)
		}
		if pe.SawBan && !pe.BannedAPI {
			violate(pe, evid.Sig("c13-enf/store/ban-vanished", pe.Class),
				fmt.Sprintf("%s peer %s: IsBanned was true during the session and is false at its end (bans last 24 h)", pe.Label, pe.Addr))
		}
		banned := pe.StoreBanned || pe.BannedAPI
		if banned {
			bans++
			res.Count("enf_bans_"+orNone(pe.StoreReason), 1)
		}
		outcome := "not-banned"
		if banned {
			outcome = "banned:" + orNone(pe.StoreReason)
		}

		// (a)/(b): who MUST be banned, and why.
		mustReason := []string(nil)
		why := ""
		pathSuffix := ""
		switch pe.Class {
		case clNoCF, clNoWit, clNoBoth:
			if pe.VersionSent {
				mustReason = []string{"NoCompactFilters"}
				why = "it announced services without witness and/or compact filters in a version message the client read"
				res.Count("enf_missing_service_handshakes", 1)
			}
		case clLiar, clCPLiar, clRaceLiar, clBatchLiar:
			lieH := uint32(0)
			for _, ep := range e.Peers {
				if ep.P.Addr == pe.Addr {
					lieH = uint32(ep.Plan.Lie.Height)
				}
			}
			if pe.LieTold != "" {
				res.Count("enf_lies_told_"+pe.LieTold, 1)
			} else {
				res.Count("enf_lies_never_told", 1)
			}
			if strings.HasPrefix(pe.LieTold, "cfheaders") && pe.Detectable == "" {
				res.Count("enf_lies_told_without_visible_conflict", 1)
			}
			if strings.HasPrefix(pe.LieTold, "cfheaders") && pe.Detectable != "" && f.FilterTip >= lieH {
				mustReason = []string{"InvalidFilterHeader", "InvalidFilterHeaderCheckpoint"}
				why = "it served a provably false filter hash (" + pe.Label + ") while " + pe.Detectable +
					", and the client's committed filter headers passed that height"
			} else if pe.LieTold == "cfheaders" && pe.ConflictRounds >= conflictRounds &&
				(pe.DisputedBlockServed > 0 || pe.SelfContradictions > 0) && !e.Plan.checkpointed() {
				// Bounded progress instead of "eventually": the conflict was
				// on the client's table several times over and it was handed
				// what decides it (the block, or a filter from the liar
				// itself that does not hash to what the liar announced).
				mustReason = []string{"InvalidFilterHeader", "InvalidFilterHeaderCheckpoint"}
				why = fmt.Sprintf("it served a provably false filter hash (%s) while %s, %d times over, and after the conflict first became visible the disputed block was served to the client %d time(s) and the peer itself served %d time(s) a filter for that block that does not hash to the filter hash it announced; committed filter tip %d, lie at height %d",
					pe.Label, pe.Detectable, pe.ConflictRounds, pe.DisputedBlockServed, pe.SelfContradictions, f.FilterTip, lieH)
				pathSuffix = "/conflict-resolution-went-round-in-circles"
				if pe.LiarOnlyRounds >= pe.ConflictRounds {
					// (every peer of the conflict was a liar or a mute peer)
					pathSuffix += "/no-honest-peer-in-the-conflict"
				}
			}
			res.Count("enf_conflict_rounds_without_an_honest_peer", int64(pe.LiarOnlyRounds))
			if pe.SelfContradictions > 0 {
				res.Count("enf_lies_proven_by_the_liars_own_filter", 1)
			}
		case clCPOnly:
			res.Count("enf_checkpoint_only_lie_rounds", int64(pe.LieRounds))
			if pe.LieTold == "cfcheckpt-only" && pe.Detectable != "" && (pe.LieRounds >= cpOnlyRounds || banned) {
				mustReason = []string{"InvalidFilterHeaderCheckpoint", "InvalidFilterHeader"}
				why = fmt.Sprintf("it served a false filter checkpoint (its own cfheaders, which it served correctly, do not add up to it) while %s, and the client then went through %d round(s) of checkpoint conflict resolution (cfheaders of the disputed interval from the liar and from honest peers); committed filter tip %d of %d block headers",
					pe.Detectable, pe.LieRounds, f.FilterTip, f.BlockTip)
			}
		case clMute:
			// Not a subject of the property either way: it announced nothing
			// false, and banning a peer that does not answer is by design.
			res.Count("enf_mute_peers", 1)
			if banned {
				res.Count("enf_mute_peers_banned_as_non_responders", 1)
			}
		case clBadBlock:
			res.Count("enf_bad_blocks_served", int64(pe.BadServed))
			if pe.BadPrompt > 0 {
				mustReason = []string{"InvalidBlock"}
				why = "it answered the client's getdata with a block carrying the requested header and altered transactions (" + pe.Label + ")"
			}
		}
		if mustReason != nil {
			requiredBans++
			switch {
			case !banned:
				rule := "c13-enf/b/misbehaviour-not-banned"
				if pe.Class == clNoCF || pe.Class == clNoWit || pe.Class == clNoBoth {
					rule = "c13-enf/a/missing-service-not-banned"
				}
				violate(pe, evid.Sig(rule, pe.Label, path+pathSuffix),
					fmt.Sprintf("%s peer %s is NOT banned (IsBanned=%v, store banned=%v) although %s", pe.Label, pe.Addr, pe.BannedAPI, pe.StoreBanned, why))
			case !contains(mustReason, pe.StoreReason):
				violate(pe, evid.Sig("c13-enf/ab/wrong-reason", pe.Label, "recorded="+orNone(pe.StoreReason)),
					fmt.Sprintf("%s peer %s is banned with reason %s, expected %s: %s", pe.Label, pe.Addr, orNone(pe.StoreReason), strings.Join(mustReason, " or "), why))
			default:
				res.Count("enf_required_bans_found", 1)
				if pe.DetectSeq > 0 && x.syncSeq > 0 && pe.DetectSeq <= x.syncSeq && !x.bannedAtSync[pe.Addr] {
					violate(pe, evid.Sig("c13-enf/b/misbehaviour-banned-only-later", pe.Label, path, "recorded="+orNone(pe.StoreReason)),
						fmt.Sprintf("%s peer %s was NOT banned when the client had completed its initial sync (log seq %d) although %s (log seq %d); it was banned only later (seen at log seq %d, reason %s), by another mechanism",
							pe.Label, pe.Addr, x.syncSeq, why, pe.DetectSeq, pe.BanSeq, orNone(pe.StoreReason)))
				} else if pe.DetectSeq > 0 && x.syncSeq > 0 && pe.DetectSeq <= x.syncSeq {
					res.Count("enf_required_bans_in_place_at_sync_point", 1)
				}
			}
		}

		// (c): honest-class peers must not be banned (bans are exact).
		switch pe.Class {
		case clHonest, clSlow, clStale, clFlaky:
			res.Count("enf_honest_class_peers", 1)
			if banned {
				switch {
				case pe.Excuse != "":
					res.Inconcl("honest-class peer banned as a non-responder (by design): " + pe.Class)
					outcome += "/excused"
				case stalled:
					res.Inconcl("honest-class peer banned in a run with scheduling stalls: " + pe.Class)
					outcome += "/stalled"
				default:
					sig := evid.Sig("c13-enf/c/honest-peer-banned", pe.Class, "recorded="+orNone(pe.StoreReason), path, "committed-filter-headers=truth")
					extra := ""
					if f.StoreTruth != "" {
						// Another root cause: the client contradicts the peer
						// from FALSE filter headers it committed itself.
						how := "conflict-was-visible"
						if loneLiar != "" {
							how = "lone-liar-believed"
						}
						sig = evid.Sig("c13-enf/c/honest-peer-banned", "committed-filter-headers=false", how, path)
						extra = "; the client's own committed filter headers are FALSE (" + f.StoreTruth + ")"
						if loneLiar != "" {
							extra += ": it took them from " + loneLiar + " while no other peer was there to contradict it"
						}
					}
					violate(pe, sig,
						fmt.Sprintf("%s peer %s ended up banned (reason %s) although it answered every request of the client correctly and promptly (%d connections, no unanswered or late request, it never dropped a connection itself)%s",
							pe.Class, pe.Addr, orNone(pe.StoreReason), pe.Conns, extra))
				}
			} else {
				res.Count("enf_honest_class_not_banned", 1)
			}
		}

		// (d): no connection is kept to a banned address.
		shape := "no-later-connection"
		if pe.SawBan {
			res.Count("enf_bans_timestamped", 1)
			res.Count("enf_postban_connections", int64(pe.PostBanConns))
			res.Count("enf_postban_connections_ban_landed_mid_handshake", int64(pe.PostBanMidHandshake))
			res.Count("enf_postban_connections_client_sent_version", int64(pe.PostBanVersion))
			res.Count("enf_postban_connections_handshake_completed", int64(pe.PostBanHandshook))
			switch {
			case pe.PostBanHandshook > 0:
				shape = "later-connections-dropped-after-handshake"
			case pe.PostBanVersion > 0:
				shape = "later-connections-dropped-after-version"
			case pe.PostBanConns > 0:
				shape = "later-connections-dropped-before-version"
			}
			if len(pe.PostBanRequests) > 0 {
				first := strings.SplitN(strings.SplitN(pe.PostBanRequests[0], ":", 2)[1], "×", 2)[0]
				violate(pe, evid.Sig("c13-enf/d/request-on-connection-opened-after-ban", pe.Class, "first="+first),
					fmt.Sprintf("%s peer %s: on a connection opened (or whose handshake the peer answered) AFTER the ban was recorded the client sent request messages (%s): it used a connection to a banned address",
						pe.Label, pe.Addr, strings.Join(pe.PostBanRequests, ", ")))
			}
			if pe.OpenHandshook > 0 {
				when := "opened-before-ban"
				for _, cv := range pe.views {
					if cv.Open && cv.Handshook && cv.afterBan(pe.BanSeq) {
						when = "opened-after-ban"
					}
				}
				violate(pe, evid.Sig("c13-enf/d/connection-to-banned-address-kept", pe.Class, when),
					fmt.Sprintf("%s peer %s: banned (first seen at log seq %d), yet %d connection(s) with a completed handshake are still open %v after everything else was done (%s)",
						pe.Label, pe.Addr, pe.BanSeq, pe.OpenHandshook, closeWatchdog, when))
			}
		} else if banned {
			res.Inconcl("ban never seen by the poller (banned only at the very end)")
		}
		res.Mark(fmt.Sprintf("enf/peer/%s/%s/%s/%s", pe.Label, path, outcome, shape))
	}

	// (e): the bans did not take the client down.
	if f.HonestUp == 0 && f.LateHeld == "" {
		anyHonestBanned := false
		for _, pe := range f.Peers {
			if (pe.Class == clHonest || pe.Class == clSlow) && (pe.StoreBanned || pe.BannedAPI) {
				anyHonestBanned = true
			}
		}
		if !anyHonestBanned && !stalled {
			res.Violate(evid.Sig("c13-enf/e/no-honest-peer-connected-at-end", plan.Kind),
				"at the end of the session no honest peer has an open, handshaken connection although none of them is banned",
				map[string]any{"plan": plan, "end": f, "event_log_tail": w.Log.Tail(60)})
		}
	}
	if !f.Synced && len(res.Violations) > 0 {
		// the stall is the other face of a violation reported above
		res.Count("enf_scenarios_not_synced_with_violation", 1)
	} else if !f.Synced {
		res.Inconcl("client did not report the honest tip within the watchdog (C04's subject): " + plan.Kind)
	} else {
		res.Count("enf_scenarios_synced", 1)
	}
	if f.StoreTruth != "" {
		res.Count("enf_scenarios_with_false_committed_filter_headers", 1)
	}

	res.Count("enf_scenarios", 1)
	res.Count("enf_bans_observed", int64(bans))
	res.Count("enf_bans_required_by_oracle", int64(requiredBans))
	res.Count("enf_isbanned_polls", f.Polls)
	res.Count("enf_events_logged", w.Log.Len())
	res.Count("enf_peers", int64(len(f.Peers)))
	for _, pe := range f.Peers {
		res.Count("enf_connections", int64(pe.Conns))
		res.Count("enf_peer_self_disconnects", int64(pe.SelfDisconnects))
	}
	if plan.Kind == kindOnlyLiars {
		// What became of the liars-only phase.
		var first []string
		allBanned, liarRounds := true, 0
		for _, pe := range f.Peers {
			if pe.Class == clLiar || pe.Class == clMute {
				first = append(first, pe.Label)
				allBanned = allBanned && (pe.StoreBanned || pe.BannedAPI)
				liarRounds += pe.LiarOnlyRounds
			}
		}
		sort.Strings(first)
		out := "not-all-banned"
		switch {
		case strings.HasPrefix(f.LateHeld, "steering failed"):
			out = "steering-failed"
		case allBanned && f.Synced && f.LateHeld == "":
			out = "all-banned-then-synced-from-late-honest-peers"
		case allBanned:
			out = "all-banned"
		}
		res.Count("enf_onlyliars_scenarios", 1)
		if liarRounds > 0 {
			res.Count("enf_onlyliars_conflict_seen_among_liars_only", 1)
		}
		if allBanned {
			res.Count("enf_onlyliars_every_peer_of_the_conflict_banned", 1)
		}
		if f.LateHeld == "" {
			res.Count("enf_onlyliars_late_honest_peers_admitted", 1)
		}
		res.Mark(fmt.Sprintf("enf/onlyliars/%s/%s", strings.Join(first, "+"), out))
	}
	switch plan.Kind {
	case kindCPOnly:
		res.Nontrivial = bans > 0
		for _, pe := range f.Peers {
			if pe.Class == clCPOnly && pe.LieRounds >= cpOnlyRounds {
				res.Nontrivial = true
			}
		}
	case kindCtl:
		// The negative control observed something if the client synced with
		// its honest, stale, slow and disconnecting peers all connected.
		res.Nontrivial = f.Synced && f.HonestUp > 0
	default:
		res.Nontrivial = bans > 0
	}
	res.Sample = map[string]any{"plan": plan, "end": f}
}

func orNone(s string) string {
	if s == "" {
		return "none"
	}
	return s
}

func contains(xs []string, s string) bool {
	for _, x := range xs {
		if x == s {
			return true
		}
	}
	return false
}
