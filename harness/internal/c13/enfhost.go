package c13

import (
	"fmt"
	"math"
	"math/rand"
	"net/netip"
	"os"
	"strings"
	"sync"
	"sync/atomic"
	"time"

	"github.com/btcsuite/btcd/chainhash/v2"
	"github.com/btcsuite/btcd/wire/v2"
	"github.com/lightninglabs/neutrino/banman"

	"verif/internal/chaingen"
	"verif/internal/evid"
	"verif/internal/l2"
	"verif/internal/netsim"
)

// Enforcement half of C13, family "several peers on one IP address".
//
// Bans are records per IP address; peers are connections per ip:port. A host
// here is one IP address with 2-3 simulated peers on different ports, all of
// them connected to the client at once and past the handshake. The ports of a
// host misbehave at DIFFERENT moments: the first offender gets the IP banned
// while its neighbours stay connected; a neighbour that later serves a
// provably invalid item does so from an address that is ALREADY banned.
//
// The oracle is the property statement, per offender: a peer that served a
// provably invalid block / filter header / filter checkpoint (or announced
// services without witness or compact filters) is, once the client has judged
// the item, disconnected; the ban store, read independently of the client's
// own query path, holds a record for its IP with a reason that belongs to an
// offence a port of that IP committed; IsBanned says so for every port and
// every spelling of the address; and while the ban stands no new connection
// to any port of the IP completes a handshake (also across a restart of the
// client). After UnbanPeer none of these reports the address banned.
//
// NOT asserted: that a neighbour port which has not misbehaved is dropped the
// moment the IP is banned (the client keeps it; upstream's own integration
// test bans one of several nodes on 127.0.0.1 and goes on using the others).
// It is counted.

// Offence families.
const (
	offBlock    = "invalid-block"
	offHeader   = "false-filter-header"
	offCheckpt  = "false-filter-checkpoint"
	offServices = "missing-services"
)

// reasonsOf: ban reasons that belong to an offence family.
var reasonsOf = map[string][]string{
	offBlock:    {"InvalidBlock"},
	offHeader:   {"InvalidFilterHeader", "InvalidFilterHeaderCheckpoint"},
	offCheckpt:  {"InvalidFilterHeaderCheckpoint", "InvalidFilterHeader"},
	offServices: {"NoCompactFilters"},
}

// HostSpec is one simulated host: one IP address, several ports.
type HostSpec struct {
	IP    string // canonical spelling of the IP address
	Ports []int
	// Alt[i]: the client is TOLD port i's address in the other spelling of
	// the IP (IPv4: an IPv4-mapped IPv6 form; IPv6: expanded, upper case).
	Alt []bool
}

func (h HostSpec) addr() netip.Addr { return netip.MustParseAddr(h.IP) }

// kind: "v4", "v4-told-mapped" (at least one port told in the mapped
// spelling), "v6", "v6-told-expanded".
func (h HostSpec) kind() string {
	alt := false
	for _, a := range h.Alt {
		alt = alt || a
	}
	switch {
	case h.addr().Is4() && alt:
		return "v4-told-mapped"
	case h.addr().Is4():
		return "v4"
	case alt:
		return "v6-told-expanded"
	}
	return "v6"
}

// HostOp is one step of a host scenario.
type HostOp struct {
	// "offend": port Port of host Host serves an invalid item of family Kind
	// (How: block mutation / lie kind / which service bits are missing);
	// "drop": the port closes its own connection (nothing invalid);
	// "unban": UnbanPeer with the address of port Port (Alt: other spelling);
	// "restart": the client is stopped and started on the same data directory.
	Op   string
	Host int    `json:",omitempty"`
	Port int    `json:",omitempty"`
	Kind string `json:",omitempty"`
	How  string `json:",omitempty"`
	Alt  bool   `json:",omitempty"`
	Perm bool   `json:",omitempty"`
}

// HostPlan is one scenario of the family (pure function of seed and index).
type HostPlan struct {
	K        int
	Fixed    bool
	Seed     int64
	Preset   int
	Interval int
	ChainLen int
	Hosts    []HostSpec
	Honest   int // honest peers, each on an IP of its own
	// CP: a port that is a filter-checkpoint liar during the initial sync
	// (checkpointed chains only): the FIRST offender of its host.
	CP  *HostOp `json:",omitempty"`
	Ops []HostOp
}

func (p HostPlan) checkpointed() bool { return p.ChainLen >= wire.CFCheckptInterval }

// opsShape is the normalised shape of the step list.
func (p HostPlan) opsShape() string {
	var s []string
	if p.CP != nil {
		s = append(s, fmt.Sprintf("h%dp%d:%s@sync", p.CP.Host, p.CP.Port, offCheckpt))
	}
	for _, o := range p.Ops {
		switch o.Op {
		case "offend":
			s = append(s, fmt.Sprintf("h%dp%d:%s", o.Host, o.Port, o.Kind))
		case "drop":
			s = append(s, fmt.Sprintf("h%dp%d:drops", o.Host, o.Port))
		case "unban":
			t := fmt.Sprintf("unban-h%d-via-p%d", o.Host, o.Port)
			if o.Alt {
				t += "-other-spelling"
			}
			s = append(s, t)
		default:
			s = append(s, o.Op)
		}
	}
	return strings.Join(s, " > ")
}

// Describe is the fingerprint of the plan.
func (p HostPlan) Describe() string {
	var hs []string
	for _, h := range p.Hosts {
		hs = append(hs, fmt.Sprintf("%s×%dports", h.kind(), len(h.Ports)))
	}
	path := "at-tip"
	if p.checkpointed() {
		path = "checkpointed"
	}
	return fmt.Sprintf("enf/host| %s honest×%d %s| %s", strings.Join(hs, ","), p.Honest, path, p.opsShape())
}

// hostFixed is the number of FIXED scenarios of the family.
const hostFixed = 4

var hostPortPool = []int{18444, 18555, 18666, 8333, 18333, 28901}

// HostPlanFromSeed derives scenario k of the family.
func HostPlanFromSeed(seed int64, k int) HostPlan {
	p := HostPlan{K: k, Seed: seed*1_000_003 + int64(k) + 13_500_000, Preset: 0, Interval: 8, ChainLen: 150, Honest: 2}
	off := func(h, port int, kind, how string) HostOp {
		return HostOp{Op: "offend", Host: h, Port: port, Kind: kind, How: how}
	}
	switch k {
	case 0:
		// FIXED: two ports of one IPv4 host; port 0 serves an invalid block,
		// later port 1 serves an invalid block too.
		p.Fixed, p.Seed = true, 13_500_000
		p.Hosts = []HostSpec{{IP: "10.13.0.7", Ports: []int{18444, 18555}, Alt: []bool{false, false}}}
		p.Ops = []HostOp{off(0, 0, offBlock, mutValue), off(0, 1, offBlock, mutDrop)}
		return p
	case 1:
		// FIXED: three ports of one IPv4 host the client is told in IPv4-mapped
		// spelling. Port 0 comes back without the compact-filter service bit,
		// later port 1 serves a false filter hash in a dispute with honest
		// peers, later still port 2 serves an invalid block.
		p.Fixed, p.Seed = true, 13_500_001
		p.Hosts = []HostSpec{{IP: "10.13.1.7", Ports: []int{18444, 18555, 18666}, Alt: []bool{true, false, true}}}
		p.Ops = []HostOp{off(0, 0, offServices, clNoCF), off(0, 1, offHeader, netsim.LieWrongHash), off(0, 2, offBlock, mutWitness)}
		return p
	case 2:
		// FIXED: two ports of one IPv6 host. Port 0 lies about a filter
		// header; the ban is lifted (address given in the other spelling);
		// port 0 then serves an invalid block (the IP is not banned at that
		// moment) and finally port 1 does (the IP is).
		p.Fixed, p.Seed = true, 13_500_002
		p.Hosts = []HostSpec{{IP: "2001:db8:1300::7", Ports: []int{18444, 18555}, Alt: []bool{false, true}}}
		p.Ops = []HostOp{off(0, 0, offHeader, netsim.LieOmitScript),
			{Op: "unban", Host: 0, Port: 0, Alt: true, Perm: true},
			off(0, 0, offBlock, mutValue), off(0, 1, offBlock, mutValue)}
		return p
	case 3:
		// FIXED: an IPv4 host with two ports; port 0 serves an invalid block,
		// the client is restarted (the ban must still stand and keep every
		// port out), the ban is lifted, port 1 lies about a filter header and
		// then port 0 serves an invalid block again.
		p.Fixed, p.Seed = true, 13_500_003
		p.Hosts = []HostSpec{{IP: "10.13.3.7", Ports: []int{18444, 8333}, Alt: []bool{false, false}}}
		p.Ops = []HostOp{off(0, 0, offBlock, mutDrop), {Op: "restart"},
			{Op: "unban", Host: 0, Port: 0, Perm: true},
			off(0, 1, offHeader, netsim.LieUnserved), off(0, 0, offBlock, mutValue)}
		return p
	}

	// Seeded.
	r := rand.New(rand.NewSource(seed*1_000_003 + int64(k)*104_729 + 1357))
	p.Preset = k % chaingen.NumPresets
	p.Interval = 4 + r.Intn(13)
	p.ChainLen = 100 + r.Intn(151)
	nHosts := 1
	if r.Intn(3) == 0 {
		nHosts = 2
	}
	for h := 0; h < nHosts; h++ {
		hs := HostSpec{}
		fam := r.Intn(3) // 0 v4, 1 v4 told mapped, 2 v6
		if fam == 2 {
			hs.IP = fmt.Sprintf("2001:db8:%x::%x", 0x1300+h+1+r.Intn(40)*2, 1+r.Intn(0xfffe))
		} else {
			hs.IP = fmt.Sprintf("10.13.%d.%d", 10+h+2*r.Intn(100), 1+r.Intn(250))
		}
		n := 2 + r.Intn(2)
		perm := r.Perm(len(hostPortPool))
		for i := 0; i < n; i++ {
			hs.Ports = append(hs.Ports, hostPortPool[perm[i]])
			hs.Alt = append(hs.Alt, fam == 1 && (i == 0 || r.Intn(2) == 0) || fam == 2 && r.Intn(3) == 0)
		}
		p.Hosts = append(p.Hosts, hs)
	}
	blockMut := func() string { return []string{mutValue, mutDrop, mutWitness}[r.Intn(3)] }
	lie := func() string { return netsim.ProvableLies[r.Intn(len(netsim.ProvableLies))] }
	noSvc := func() string { return []string{clNoCF, clNoWit, clNoBoth}[r.Intn(3)] }
	// later: an offence that can be committed at any moment of a session.
	later := func(h, port int) HostOp {
		if r.Intn(2) == 0 {
			return off(h, port, offBlock, blockMut())
		}
		return off(h, port, offHeader, lie())
	}
	// any: one that needs the IP not to be banned at that moment as well (a
	// peer shows its service bits when it connects).
	anyOff := func(h, port int) HostOp {
		if r.Intn(3) == 0 {
			return off(h, port, offServices, noSvc())
		}
		return later(h, port)
	}
	var perHost [][]HostOp
	for h, hs := range p.Hosts {
		order := r.Perm(len(hs.Ports))
		var ops []HostOp
		first := anyOff(h, order[0])
		if h == 0 && r.Intn(4) == 0 {
			// The first offender lies about a filter checkpoint during the
			// initial sync.
			p.ChainLen = 1010 + r.Intn(291)
			p.CP = &HostOp{Op: "offend", Host: h, Port: order[0], Kind: offCheckpt, How: netsim.LieWrongHash}
		} else {
			ops = append(ops, first)
		}
		unban := HostOp{Op: "unban", Host: h, Port: order[r.Intn(len(order))], Alt: r.Intn(2) == 0, Perm: r.Intn(4) != 0}
		switch r.Intn(4) {
		case 0: // first offender, second offender (third one)
			if len(order) > 2 && r.Intn(2) == 0 {
				ops = append(ops, HostOp{Op: "drop", Host: h, Port: order[2]})
			}
			ops = append(ops, later(h, order[1]))
			if len(order) > 2 {
				ops = append(ops, later(h, order[2]))
			}
		case 1: // an unban in between: the first offender again, then its neighbour
			ops = append(ops, later(h, order[1]), unban, anyOff(h, order[0]), later(h, order[1]))
		case 2: // a restart, an unban, and two offenders again
			ops = append(ops, HostOp{Op: "restart"}, unban, anyOff(h, order[1]), later(h, order[0]))
		case 3: // unban right after the first offence
			ops = append(ops, unban, anyOff(h, order[len(order)-1]), later(h, order[0]))
			if len(order) > 2 {
				ops = append(ops, later(h, order[1]))
			}
		}
		perHost = append(perHost, ops)
	}
	// Interleave the hosts' step lists (order inside a host is kept).
	for {
		var live []int
		for h := range perHost {
			if len(perHost[h]) > 0 {
				live = append(live, h)
			}
		}
		if len(live) == 0 {
			break
		}
		h := live[r.Intn(len(live))]
		p.Ops = append(p.Ops, perHost[h][0])
		perHost[h] = perHost[h][1:]
	}
	return p
}

// ---------------------------------------------------------------------------

type servedBad struct {
	Hash    chainhash.Hash
	Applied string
}

// hostPort is one simulated peer of a host.
type hostPort struct {
	H    *hostRT
	Idx  int
	Addr string // canonical ip:port (what the client's peer.Addr() and the event log say)
	Alt  string // the other spelling
	Told string // the spelling given to the client in ConnectPeers
	P    *netsim.Peer

	mu       sync.Mutex
	armBlock string
	served   []servedBad
	liar     *netsim.Liar
	// offended: served something invalid since the host's ban was last lifted.
	offended bool
}

func (hp *hostPort) mutate(p *netsim.Peer, req wire.Message, honest []wire.Message) []wire.Message {
	hp.mu.Lock()
	arm, l := hp.armBlock, hp.liar
	hp.mu.Unlock()
	if _, ok := req.(*wire.MsgGetData); ok && arm != "" {
		out := make([]wire.Message, 0, len(honest))
		for _, m := range honest {
			blk, isBlk := m.(*wire.MsgBlock)
			if !isBlk || arm == "" {
				out = append(out, m)
				continue
			}
			nb, applied := mutateBlock(blk, arm)
			hp.mu.Lock()
			hp.served = append(hp.served, servedBad{blk.Header.BlockHash(), applied})
			hp.armBlock = "" // one invalid block per offence
			hp.mu.Unlock()
			arm = ""
			out = append(out, nb)
		}
		return out
	}
	if l != nil {
		return l.Mutate(p, req, honest)
	}
	return honest
}

func (hp *hostPort) label() string {
	return fmt.Sprintf("host %d port %d (%s)", hp.H.Idx, hp.Idx, hp.Addr)
}

// hostRT is the harness's record of one host.
type hostRT struct {
	Idx   int
	Spec  HostSpec
	Ports []*hostPort
	// Model: "no" / "yes".
	Banned string
	// Reasons: ban reasons that belong to the offences committed by ports of
	// this host since its ban was last lifted; LastFamily: the latest one.
	Reasons    []string
	LastFamily string
	Hist       []string
	// Spans during which the host was observed banned, in event-log
	// positions: [seen banned, UnbanPeer called).
	Spans [][2]int64
}

func (h *hostRT) histShape() string {
	if len(h.Hist) == 0 {
		return "fresh"
	}
	s := h.Hist
	if len(s) > 5 {
		s = append([]string{"..."}, s[len(s)-5:]...)
	}
	return strings.Join(s, ">")
}

type hostStep struct {
	Op      HostOp
	Outcome string
	Detail  string `json:",omitempty"`
}

type hostRun struct {
	plan   HostPlan
	w      *l2.World
	res    *l2.Result
	trunk  []*chaingen.Node
	hosts  []*hostRT
	honest []*netsim.Peer
	told   []string
	store  banman.Store
	steps  []hostStep

	tipMu sync.Mutex
	tip   *chaingen.Node
	grown int

	blocks  []*chaingen.Node // blocks not yet asked for, in seeded order
	aborted string
	bad     bool // a violation was reported: remaining steps are skipped
}

func (x *hostRun) Tip() *chaingen.Node { x.tipMu.Lock(); defer x.tipMu.Unlock(); return x.tip }

func (x *hostRun) abort(why string) {
	if x.aborted == "" {
		x.aborted = why
		x.res.Inconcl("host scenario: " + why)
	}
}

func (x *hostRun) allPeers() []*netsim.Peer {
	out := append([]*netsim.Peer(nil), x.honest...)
	for _, h := range x.hosts {
		for _, hp := range h.Ports {
			out = append(out, hp.P)
		}
	}
	return out
}

// grow moves every peer n blocks up the pre-generated trunk; the honest peers
// announce the new tip. False when the reserve is used up.
func (x *hostRun) grow(n int) bool {
	x.tipMu.Lock()
	h := int(x.tip.Height) + n
	if h > len(x.trunk) {
		x.tipMu.Unlock()
		return false
	}
	nt := x.trunk[h-1]
	x.tip = nt
	x.grown++
	style := x.grown
	x.tipMu.Unlock()
	for _, p := range x.allPeers() {
		p.View.SetTip(nt)
	}
	for _, p := range x.honest {
		if c := p.Conn(); c == nil || c.Dead() {
			continue
		}
		if style%2 == 0 {
			p.AnnounceInv(nt)
		} else {
			p.AnnounceHeaders(nt)
		}
	}
	return true
}

// awaitTip waits until the client reports the tip (re-announced every 3 s).
func (x *hostRun) awaitTip(deadline time.Duration) bool {
	start, last := time.Now(), time.Now()
	for time.Since(start) < deadline {
		if x.w.SyncedTo(x.Tip()) {
			return true
		}
		if time.Since(last) >= 3*time.Second {
			last = time.Now()
			x.grow(0)
		}
		time.Sleep(10 * time.Millisecond)
	}
	return x.w.SyncedTo(x.Tip())
}

func (x *hostRun) connected(addr string) bool { return x.w.Svc.PeerByAddr(addr) != nil }

func (x *hostRun) witness(extra map[string]any) any {
	var hs []map[string]any
	for _, h := range x.hosts {
		var ports []string
		for _, hp := range h.Ports {
			ports = append(ports, hp.Addr+" (told "+hp.Told+")")
		}
		hs = append(hs, map[string]any{"host": h.Idx, "ip": h.Spec.IP, "ports": ports, "model_banned": h.Banned,
			"reasons_of_offences_since_last_unban": h.Reasons, "history": h.Hist, "banned_spans_log_seq": h.Spans})
	}
	m := map[string]any{"plan": x.plan, "hosts": hs, "steps": x.steps, "event_log_tail": x.w.Log.Tail(140),
		"replay": fmt.Sprintf("c13 -tier <tier> -seed <seed> -c13-enf-k <classic scenarios of the tier>+%d", x.plan.K)}
	for k, v := range extra {
		m[k] = v
	}
	return m
}

func (x *hostRun) violate(sig, what string, extra map[string]any) {
	x.bad = true
	x.res.Violate(sig, what, x.witness(extra))
}

// status reads the ban record of an IP from the store opened next to the
// client (not through ChainService.IsBanned).
func (x *hostRun) status(addr string) (banman.Status, error) {
	ipn, err := banman.ParseIPNet(addr, nil)
	if err != nil {
		return banman.Status{}, err
	}
	return x.store.Status(ipn)
}

// spellings: every address form IsBanned is asked with for a host.
func (h *hostRT) spellings() []string {
	out := []string{h.Spec.IP}
	a := h.Spec.addr()
	if a.Is4() {
		out = append(out, spell(a, "mapped-dotted", 0), spell(a, "mapped-hex-expanded", 0))
	} else {
		out = append(out, spell(a, "v6-expanded", 0), spell(a, "v6-upper", 0))
	}
	for _, hp := range h.Ports {
		out = append(out, hp.Addr, hp.Alt)
	}
	return out
}

// checkpoint compares every host's ban state (store record, IsBanned in every
// spelling and for every port) with the model.
func (x *hostRun) checkpoint(where string) {
	if x.aborted != "" {
		return
	}
	res := x.res
	res.Count("enf_host_checkpoints", 1)
	for _, p := range x.honest {
		if x.w.Svc.IsBanned(p.Addr) {
			x.abort("an honest peer on an IP of its own ended up banned (" + where + "): the classic family's subject")
			return
		}
	}
	for _, h := range x.hosts {
		st, err := x.status(h.Spec.IP)
		if err != nil {
			x.abort("ban store unreadable: " + err.Error())
			return
		}
		reason := ""
		if st.Banned {
			reason = reasonName(st.Reason)
		}
		live := map[string]bool{}
		agree := true
		for _, s := range h.spellings() {
			live[s] = x.w.Svc.IsBanned(s)
			agree = agree && live[s] == st.Banned
			res.Count("enf_host_isbanned_readings", 1)
		}
		ex := map[string]any{"checkpoint": where, "host": h.Idx, "store_banned": st.Banned, "store_reason": reason, "isbanned": live}
		if !agree {
			x.violate(evid.Sig("c13-enf/host/isbanned-differs-between-ports-or-spellings-or-from-the-store", h.Spec.kind(), where),
				fmt.Sprintf("host %d (%s): the ban store says banned=%v for the IP, but IsBanned does not give that answer for every port and spelling of the address: %v (checkpoint %q, history %s)",
					h.Idx, h.Spec.IP, st.Banned, live, where, h.histShape()), ex)
			continue
		}
		switch {
		case h.Banned == "yes" && !st.Banned:
			x.violate(evid.Sig("c13-enf/host/ban-of-an-offenders-ip-not-on-record", h.LastFamily, h.Spec.kind(), where),
				fmt.Sprintf("host %d (%s): a port of it served a provably invalid item (%s; history %s) and nothing lifted the ban since, yet the ban store has no record for the IP and IsBanned is false for all its ports (checkpoint %q)",
					h.Idx, h.Spec.IP, h.LastFamily, h.histShape(), where), ex)
		case h.Banned == "yes" && !contains(h.Reasons, reason):
			x.violate(evid.Sig("c13-enf/host/wrong-reason", h.LastFamily, "recorded="+orNone(reason), h.Spec.kind()),
				fmt.Sprintf("host %d (%s) is banned with reason %s; the offences its ports committed since the ban was last lifted (%s) call for one of %v (checkpoint %q)",
					h.Idx, h.Spec.IP, orNone(reason), h.histShape(), h.Reasons, where), ex)
		case h.Banned == "yes":
			res.Count("enf_host_bans_confirmed_"+where, 1)
			if contains(reasonsOf[h.LastFamily], reason) {
				res.Count("enf_host_recorded_reason_is_that_of_the_latest_offence", 1)
			} else {
				res.Count("enf_host_recorded_reason_is_that_of_an_earlier_offence", 1)
			}
		case h.Banned == "no" && st.Banned:
			if len(h.Hist) > 0 && strings.HasPrefix(h.Hist[len(h.Hist)-1], "unban") {
				x.violate(evid.Sig("c13-enf/host/still-banned-after-unban", h.Spec.kind(), where),
					fmt.Sprintf("host %d (%s): UnbanPeer returned without an error and no port served anything invalid since, yet the address is reported banned (reason %s, checkpoint %q, history %s)",
						h.Idx, h.Spec.IP, reason, where, h.histShape()), ex)
			} else {
				x.abort("a host none of whose ports served anything invalid is banned (" + reason + ", " + where + "): by-design non-responder bans are the classic family's subject")
			}
		default:
			res.Count("enf_host_clean_hosts_confirmed", 1)
		}
	}
}

// noteBanned records that the host was just observed banned.
func (x *hostRun) noteBanned(h *hostRT, family string, by *hostPort) {
	for _, r := range reasonsOf[family] {
		if !contains(h.Reasons, r) {
			h.Reasons = append(h.Reasons, r)
		}
	}
	h.LastFamily = family
	h.Hist = append(h.Hist, fmt.Sprintf("p%d:%s", by.Idx, family))
	by.mu.Lock()
	by.offended = true
	by.mu.Unlock()
	if h.Banned != "yes" {
		h.Banned = "yes"
		seq := x.w.Log.Add("client", "ev", "c13-host-banned", fmt.Sprintf("host=%d observed banned", h.Idx))
		h.Spans = append(h.Spans, [2]int64{seq, math.MaxInt64})
	}
}

// judgeOffender applies the per-offender rules once the client has judged the
// invalid item. conn: the connection on which the item was served.
func (x *hostRun) judgeOffender(hp *hostPort, family, how string, conn *netsim.Conn, ipWasBanned bool, detail string) {
	h, w, res := hp.H, x.w, x.res
	ipState := "ip-not-banned-before"
	if ipWasBanned {
		ipState = "ip-already-banned-through-another-port"
	}
	res.Count("enf_host_offences_judged", 1)
	res.Count("enf_host_offences_judged_"+family, 1)
	res.Count("enf_host_offences_judged_"+ipState, 1)
	res.Count("enf_host_offences_judged_addr_"+h.Spec.kind(), 1)
	if strings.Contains(h.histShape(), "unban") {
		res.Count("enf_host_offences_judged_after_an_unban", 1)
	}
	if contains(h.Hist, "restart") {
		res.Count("enf_host_offences_judged_after_a_restart", 1)
	}
	shapeBefore := h.histShape()
	ex := map[string]any{"offender": hp.Addr, "offence": family + ":" + how, "ip_state_before": ipState, "detail": detail}

	// 1. banned. The record is written inside the client's judgement, before
	// the call / the sync that told us it judged returns; the watchdog only
	// covers a misunderstanding of that on our side.
	if !l2.WaitFor(closeWatchdog, func() bool { return w.Svc.IsBanned(hp.Addr) }) {
		x.violate(evid.Sig("c13-enf/host/offender-not-banned", family, ipState, h.Spec.kind()),
			fmt.Sprintf("%s served a provably invalid item (%s: %s; %s) and the client has judged it, yet IsBanned(%s) is false %v later (history of the host: %s)",
				hp.label(), family, how, detail, hp.Addr, closeWatchdog, shapeBefore), ex)
		return
	}
	x.noteBanned(h, family, hp)

	// 2. disconnected: the connection on which the item was served.
	outcome := "disconnected"
	if conn != nil && !l2.WaitFor(closeWatchdog, conn.Dead) {
		// Bounded progress instead of a clock: one more block is announced and
		// the client follows it to the end (block header, filter header from
		// all its peers) while the connection is still there.
		progressed := x.grow(1) && x.awaitTip(syncWatchdog)
		rxAfter := ""
		if progressed && !conn.Dead() {
			outcome = "kept"
			evs := w.Log.Snapshot()
			for i := len(evs) - 1; i >= 0 && i > len(evs)-400; i-- {
				if evs[i].Peer == hp.Addr && evs[i].Dir == "rx" && !harmlessRx[evs[i].Cmd] {
					rxAfter = fmt.Sprintf("; the last request it received: %s %s at log seq %d", evs[i].Cmd, evs[i].Note, evs[i].Seq)
					break
				}
			}
			ex["still_in_the_clients_peer_set"] = x.connected(hp.Addr)
			x.violate(evid.Sig("c13-enf/host/offender-not-disconnected", family, ipState, h.Spec.kind()),
				fmt.Sprintf("%s served a provably invalid item (%s: %s; %s), the client has judged it and reports the address banned, yet the connection on which it was served is still open %v later and after the client followed one more announced block to the tip with it%s (history of the host before: %s)",
					hp.label(), family, how, detail, closeWatchdog, rxAfter, shapeBefore), ex)
		} else if !conn.Dead() {
			x.abort("the offender's connection is still open after the watchdog, but the client made no further progress either (load?)")
			outcome = "unknown"
		}
	}
	res.Count("enf_host_offenders_"+outcome, 1)
	if ipWasBanned {
		res.Count("enf_host_second_offenders_"+outcome, 1)
	}

	// 3./4. store record, reason, IsBanned for every port and spelling.
	if !x.bad {
		x.checkpoint("after-offence")
	}

	// 5. the neighbours (counted, not judged).
	kept, gone := 0, 0
	for _, q := range h.Ports {
		q.mu.Lock()
		innocent := !q.offended
		q.mu.Unlock()
		if q == hp || !innocent {
			continue
		}
		if x.connected(q.Addr) {
			kept++
		} else {
			gone++
		}
	}
	res.Count("enf_host_unoffending_ports_of_a_banned_ip_still_connected", int64(kept))
	res.Count("enf_host_unoffending_ports_of_a_banned_ip_not_connected", int64(gone))
	res.Mark(fmt.Sprintf("enf/host/offence/%s/%s/%s/history=%s/%s/neighbours-kept=%d", family, h.Spec.kind(), ipState, shapeBefore, outcome, kept))

	// Let the connection manager redial the offender at least once (the
	// connections the "no handshake while the ban stands" rule looks at).
	if !x.bad && x.aborted == "" {
		from := int64(0)
		if n := len(h.Spans); n > 0 {
			from = h.Spans[n-1][0]
		}
		l2.WaitFor(redialWatchdog/2, func() bool {
			post := 0
			for _, c := range w.Net.ConnRecs(hp.Addr) {
				if c.OpenSeq >= from {
					post++
				}
			}
			return post >= 1
		})
	}
}

// nextBlocks hands out n blocks nobody asked for yet.
func (x *hostRun) nextBlocks(n int) []*chaingen.Node {
	if n > len(x.blocks) {
		n = len(x.blocks)
	}
	out := x.blocks[:n]
	x.blocks = x.blocks[n:]
	return out
}

type blockCall struct {
	Hash     chainhash.Hash
	Start    int64
	End      int64
	OK       bool
	Err      string
	returned atomic.Bool
}

// blockRound issues concurrent GetBlock calls. hung: the watchdog fired.
func (x *hostRun) blockRound(ns []*chaingen.Node) (calls []*blockCall, hung bool) {
	var wg sync.WaitGroup
	for _, n := range ns {
		c := &blockCall{Hash: n.Hash}
		calls = append(calls, c)
		wg.Add(1)
		go func() {
			defer wg.Done()
			c.Start = x.w.Log.Len()
			blk, err := x.w.Svc.GetBlock(c.Hash)
			c.End = x.w.Log.Len()
			c.OK = err == nil && blk != nil
			if err != nil {
				c.Err = err.Error()
			}
			c.returned.Store(true)
		}()
	}
	done := make(chan struct{})
	go func() { wg.Wait(); close(done) }()
	select {
	case <-done:
	case <-time.After(getBlockWatchdog):
		return calls, true
	}
	return calls, false
}

// offendBlock: the port answers the next getdata for a block with a block
// that carries the requested header and altered transactions.
func (x *hostRun) offendBlock(hp *hostPort, how string) (conn *netsim.Conn, detail string, ok bool) {
	w, res := x.w, x.res
	conn = hp.P.Conn()
	hp.mu.Lock()
	hp.armBlock = how
	first := len(hp.served)
	hp.mu.Unlock()
	defer func() { hp.mu.Lock(); hp.armBlock = ""; hp.mu.Unlock() }()
	for round := 0; round < 6; round++ {
		n := int(w.Svc.ConnectedCount()) + 2 + round%2
		ns := x.nextBlocks(n)
		if len(ns) == 0 {
			x.abort("no unfetched block left for an offence round")
			return nil, "", false
		}
		calls, hung := x.blockRound(ns)
		res.Count("enf_host_getblock_rounds", 1)
		if hung {
			x.abort("GetBlock calls still pending after the watchdog (C06/C12's subject)")
			return nil, "", false
		}
		for _, c := range calls {
			if c.OK {
				res.Count("enf_host_getblock_ok", 1)
			} else {
				res.Count("enf_host_getblock_err", 1)
			}
		}
		hp.mu.Lock()
		var sb *servedBad
		if len(hp.served) > first {
			sb = &hp.served[len(hp.served)-1]
		}
		hp.mu.Unlock()
		if sb == nil {
			continue
		}
		var call *blockCall
		for _, c := range calls {
			if c.Hash == sb.Hash {
				call = c
			}
		}
		// The peer-side log: the request and the answer.
		pfx := sb.Hash.String()[:8]
		var rx, tx *netsim.Event
		evs := w.Log.Snapshot()
		for i := range evs {
			ev := &evs[i]
			if ev.Peer != hp.Addr {
				continue
			}
			if ev.Dir == "rx" && ev.Cmd == "getdata" && strings.HasSuffix(ev.Note, pfx) {
				rx = ev
			}
			if ev.Dir == "tx" && ev.Cmd == "block" && strings.HasPrefix(ev.Note, pfx) && rx != nil {
				tx = ev
			}
		}
		// Had the client already turned to another peer for this block when
		// the invalid one was written (the request to this port timed out on
		// the client's side)? Then it may never have looked at it.
		reassigned := false
		for i := range evs {
			ev := &evs[i]
			if tx != nil && ev.Peer != hp.Addr && ev.Dir == "rx" && ev.Cmd == "getdata" && strings.HasSuffix(ev.Note, pfx) && ev.Seq < tx.Seq {
				reassigned = true
			}
		}
		detail = fmt.Sprintf("block %s, mutation %s", pfx, sb.Applied)
		switch {
		case call == nil || rx == nil || tx == nil:
			x.abort("the invalid block cannot be matched to a call and a request in the log (harness)")
			return conn, detail, false
		case !call.OK:
			x.abort("the GetBlock call during which the invalid block was served returned an error: " + call.Err)
			return conn, detail, false
		case tx.Seq >= call.End || tx.T-rx.T > lateAnswer || reassigned:
			// Written after the call had ended, or late: the client may or may
			// not have looked at it.
			res.Count("enf_host_offences_not_observable", 1)
			x.abort("the invalid block was served late, after the call had returned, or after the client had turned to another peer for that block: the client may not have looked at it")
			return conn, detail, false
		}
		res.Count("enf_host_invalid_blocks_served_in_call", 1)
		res.Count("enf_host_invalid_block_mutation_"+sb.Applied, 1)
		detail += fmt.Sprintf(", sent at log seq %d in answer to the getdata at %d; the GetBlock call for it returned the true block at log seq %d", tx.Seq, rx.Seq, call.End)
		return conn, detail, true
	}
	x.abort("the port that was to serve an invalid block was not asked for a block in 6 rounds of concurrent calls (precondition)")
	return conn, "", false
}

// offendHeader: the port announces a false filter hash for the next block of
// the chain; the honest peers announce the true one in answer to the same
// request.
func (x *hostRun) offendHeader(hp *hostPort, how string) (conn *netsim.Conn, howDone, detail string, ok bool) {
	w, res := x.w, x.res
	tip := x.Tip()
	if int(tip.Height) >= len(x.trunk) {
		x.abort("growth reserve used up")
		return nil, how, "", false
	}
	node := x.trunk[tip.Height] // height tip+1
	if how == netsim.LieOmitScript && netsim.OmittableScript(node) == nil {
		how = netsim.LieWrongHash
	}
	liar := netsim.NewLiar(x.plan.Seed+int64(node.Height)*31+int64(hp.Idx), netsim.Lie{Kind: how, Height: node.Height})
	conn = hp.P.Conn()
	hp.mu.Lock()
	hp.liar = liar
	hp.mu.Unlock()
	from := w.Log.Len()
	x.grow(1)
	if !x.awaitTip(syncWatchdog) {
		x.abort("the client did not follow the announced block within the watchdog (C04's subject)")
		return conn, how, "", false
	}
	// Was the lie told, and was it told in a dispute (an honest peer answered
	// the very same request)?
	told, toldIt := liar.FirstTold(node.Hash)
	if !toldIt || !liar.LiesAbout(node) {
		res.Count("enf_host_offences_not_observable", 1)
		x.abort("the port was not asked for the filter header of the new block (the lie was never told)")
		return conn, how, "", false
	}
	honestNotes := map[string]bool{}
	evs := w.Log.Snapshot()
	for _, p := range x.honest {
		var pend *netsim.Event
		for i := range evs {
			ev := &evs[i]
			if ev.Peer != p.Addr || ev.Seq <= from {
				continue
			}
			if ev.Dir == "rx" {
				pend = nil
				if ev.Cmd == "getcfheaders" {
					pend = ev
				}
			} else if ev.Dir == "tx" && ev.Cmd == "cfheaders" && pend != nil {
				honestNotes[pend.Note] = true
				pend = nil
			}
		}
	}
	inDispute := false
	var pend *netsim.Event
	for i := range evs {
		ev := &evs[i]
		if ev.Peer != hp.Addr || ev.Seq <= from {
			continue
		}
		if ev.Dir == "rx" {
			pend = nil
			if ev.Cmd == "getcfheaders" {
				pend = ev
			}
		} else if ev.Dir == "tx" && ev.Cmd == "cfheaders" && pend != nil {
			var start int32
			fmt.Sscanf(pend.Note, "start=%d", &start)
			if start <= node.Height && honestNotes[pend.Note] {
				inDispute = true
			}
			pend = nil
		}
	}
	if !inDispute {
		res.Count("enf_host_offences_not_observable", 1)
		x.abort("no honest peer answered the getcfheaders request the false filter hash was an answer to (no dispute)")
		return conn, how, "", false
	}
	res.Count("enf_host_false_filter_hashes_served_in_a_dispute", 1)
	res.Count("enf_host_false_filter_hash_kind_"+how, 1)
	detail = fmt.Sprintf("false filter hash (%s) for block %s at height %d first sent at log seq %d in answer to a getcfheaders request honest peers answered too; the client's committed filter headers then passed that height",
		how, node.Hash.String()[:8], node.Height, told)
	return conn, how, detail, true
}

// offendServices: the port drops its connection and, when the client dials it
// again, announces services without witness and/or compact filters.
func (x *hostRun) offendServices(hp *hostPort, how string) (conn *netsim.Conn, detail string, ok bool) {
	w := x.w
	switch how {
	case clNoCF:
		hp.P.Services = wire.SFNodeNetwork | wire.SFNodeWitness
	case clNoWit:
		hp.P.Services = wire.SFNodeNetwork | wire.SFNodeCF
	default:
		hp.P.Services = wire.SFNodeNetwork
	}
	before := w.Net.TotalConns(hp.Addr)
	hp.P.Disconnect()
	var seen *connView
	if !l2.WaitFor(closeWatchdog, func() bool {
		for _, cv := range connViews(w, hp.Addr, w.Log.Snapshot()) {
			if cv.Index >= before && cv.VersionSent && !cv.Open {
				c := cv
				seen = &c
				return true
			}
		}
		return false
	}) {
		x.abort("the client did not dial the port again (or did not finish with the new connection) within the watchdog")
		return nil, "", false
	}
	x.res.Count("enf_host_versions_without_required_services_sent", 1)
	for _, r := range w.Net.ConnRecs(hp.Addr) {
		if r.Index == seen.Index {
			conn = r.C
		}
	}
	detail = fmt.Sprintf("version message announcing %s sent at log seq %d on connection #%d, which the client then closed", how, seen.VersionSeq, seen.Index)
	return conn, detail, true
}

// HostScenario runs scenario k of the family (in a child process).
func HostScenario(seed int64, k int, res *l2.Result) {
	plan := HostPlanFromSeed(seed, k)
	res.Name = fmt.Sprintf("c13-enf-host-%d", k)
	res.Fingerprint = plan.Describe()
	res.Count("enf_host_scenarios", 1)
	if plan.Fixed {
		res.Count("enf_host_scenarios_fixed", 1)
	}

	headerOps := 0
	for _, o := range plan.Ops {
		if o.Kind == offHeader {
			headerOps++
		}
	}
	reserve := headerOps + len(plan.Ops) + 8
	total := plan.ChainLen + reserve
	span := time.Duration(total+400) * 6 * time.Second
	if span < 2*time.Hour {
		span = 2 * time.Hour
	}
	if span > 20*time.Hour {
		span = 20 * time.Hour
	}
	w := l2.NewWorld(l2.Config{Seed: plan.Seed, Preset: plan.Preset, Interval: plan.Interval, SpacingSec: 4, GenesisAgo: span})
	defer w.Cleanup()
	trunk := w.G.Extend(w.G.Genesis, total, chaingen.PaceNormal)
	tip := trunk[plan.ChainLen-1]
	if plan.checkpointed() {
		w.G.SetCheckpoints(tip, headerCheckpoint)
	}
	x := &hostRun{plan: plan, w: w, res: res, trunk: trunk, tip: tip}
	br := rand.New(rand.NewSource(plan.Seed ^ 0x5e1ec7))
	x.blocks = append(x.blocks, trunk[:plan.ChainLen]...)
	br.Shuffle(len(x.blocks), func(i, j int) { x.blocks[i], x.blocks[j] = x.blocks[j], x.blocks[i] })

	// Peers: the honest ones first or last (which peer the client syncs from
	// varies with k), the ports of every host.
	addHonest := func() {
		for i := 0; i < plan.Honest; i++ {
			p := w.AddPeer(tip)
			x.honest = append(x.honest, p)
			x.told = append(x.told, p.Addr)
		}
	}
	if k%2 == 0 {
		addHonest()
	}
	for hi, hs := range plan.Hosts {
		h := &hostRT{Idx: hi, Spec: hs, Banned: "no"}
		a := hs.addr()
		for pi, port := range hs.Ports {
			canon := netip.AddrPortFrom(a, uint16(port)).String()
			var alt string
			if a.Is4() {
				alt = spell(a, []string{"mapped-dotted+port", "mapped-hex-upper+port"}[pi%2], port)
			} else {
				alt = spell(a, "v6-expanded-upper+port", port)
			}
			p := w.AddPeerAt(canon, tip)
			if p.Addr != canon {
				res.Inconcl("harness: address " + canon + " registered as " + p.Addr)
				return
			}
			hp := &hostPort{H: h, Idx: pi, Addr: canon, Alt: alt, Told: canon, P: p}
			if hs.Alt[pi] {
				hp.Told = alt
			}
			p.Mutate = hp.mutate
			h.Ports = append(h.Ports, hp)
			x.told = append(x.told, hp.Told)
		}
		x.hosts = append(x.hosts, h)
		res.Count("enf_host_hosts_addr_"+hs.kind(), 1)
		res.Count(fmt.Sprintf("enf_host_hosts_with_%d_ports", len(hs.Ports)), 1)
	}
	if k%2 != 0 {
		addHonest()
	}

	// The checkpoint liar of the initial sync.
	var cpPort *hostPort
	var cpLiar *netsim.Liar
	var cpNode *chaingen.Node
	if plan.CP != nil {
		cpPort = x.hosts[plan.CP.Host].Ports[plan.CP.Port]
		lr := rand.New(rand.NewSource(plan.Seed ^ 0xc9))
		cpNode = tip.Ancestor(int32(1 + lr.Intn(headerCheckpoint)))
		cpLiar = netsim.NewLiar(plan.Seed+77, netsim.Lie{Kind: plan.CP.How, Height: cpNode.Height})
		cpPort.liar = cpLiar
		// Steering: nobody serves block headers before every peer had its
		// chance to connect (the client asks "all peers" for filter
		// checkpoints the moment its block headers are complete).
		var released atomic.Bool
		settled := func(p *netsim.Peer) bool {
			return w.Net.TotalConns(p.Addr) > 0 && (p.IsReady() || w.Net.OpenConns(p.Addr) == 0)
		}
		for _, p := range x.allPeers() {
			p.OnMsg = func(_ *netsim.Peer, m wire.Message) bool {
				if _, ok := m.(*wire.MsgGetHeaders); ok && !released.Load() {
					l2.WaitFor(12*time.Second, func() bool {
						for _, o := range x.allPeers() {
							if !settled(o) {
								return false
							}
						}
						return true
					})
					time.Sleep(60 * time.Millisecond)
					released.Store(true)
				}
				return false
			}
		}
	}

	if err := w.StartClient(x.told, l2.ClientOpts{}); err != nil {
		res.Inconcl("client start failed: " + err.Error())
		return
	}
	stopped := false
	defer func() {
		if !stopped {
			_, _ = w.StopClient(60 * time.Second)
		}
	}()
	openStore := func() bool {
		st, err := banman.NewStore(w.DB)
		if err != nil {
			x.abort("cannot open the ban store next to the client: " + err.Error())
			return false
		}
		x.store = st
		return true
	}
	if !openStore() {
		return
	}
	if !x.awaitTip(syncWatchdog) {
		x.abort("initial sync did not complete within the watchdog")
	}
	// allIn waits until every port of every host the model says is not banned
	// (and every honest peer) is in the client's peer set.
	allIn := func(where string) {
		if x.aborted != "" {
			return
		}
		for _, p := range x.honest {
			a := p.Addr
			if !l2.WaitFor(closeWatchdog, func() bool { return x.connected(a) }) {
				x.abort("an honest peer was not connected within the watchdog (" + where + ")")
				return
			}
		}
		for _, h := range x.hosts {
			if h.Banned != "no" {
				continue
			}
			for _, hp := range h.Ports {
				a := hp.Addr
				if hp == cpPort && where == "after-start" {
					continue // (may be banned by now)
				}
				if !l2.WaitFor(closeWatchdog, func() bool { return x.connected(a) }) {
					x.abort("a port of a host the client has no reason to refuse was not connected within the watchdog (" + where + ")")
					return
				}
			}
		}
		time.Sleep(60 * time.Millisecond) // steering: the query workers of new connections
	}
	allIn("after-start")

	if cpPort != nil && x.aborted == "" {
		// Judge the checkpoint liar of the initial sync.
		told, toldIt := cpLiar.FirstTold(cpNode.Hash)
		firstHonestCP := int64(-1)
		for _, ev := range w.Log.Snapshot() {
			for _, p := range x.honest {
				if ev.Peer == p.Addr && ev.Dir == "tx" && ev.Cmd == "cfcheckpt" && (firstHonestCP < 0 || ev.Seq < firstHonestCP) {
					firstHonestCP = ev.Seq
				}
			}
		}
		if !toldIt || firstHonestCP < 0 || firstHonestCP > told {
			res.Count("enf_host_offences_not_observable", 1)
			x.abort("the checkpoint liar was not asked for the disputed filter headers while honest checkpoints were known (steering)")
		} else {
			res.Count("enf_host_false_checkpoints_served_in_a_dispute", 1)
			var conn *netsim.Conn
			if rs := w.Net.ConnRecs(cpPort.Addr); len(rs) > 0 {
				conn = rs[0].C
			}
			x.steps = append(x.steps, hostStep{Op: *plan.CP, Outcome: "delivered"})
			x.judgeOffender(cpPort, offCheckpt, plan.CP.How, conn, false,
				fmt.Sprintf("false filter checkpoint and matching false filter hash for block %s at height %d (below the checkpoint at %d), first sent at log seq %d after an honest peer's checkpoints (log seq %d); the client then completed its initial sync",
					cpNode.Hash.String()[:8], cpNode.Height, headerCheckpoint, told, firstHonestCP))
		}
	} else {
		x.checkpoint("after-start")
	}

	for _, op := range plan.Ops {
		if x.aborted != "" || x.bad {
			break
		}
		step := hostStep{Op: op}
		switch op.Op {
		case "offend":
			h := x.hosts[op.Host]
			hp := h.Ports[op.Port]
			ipWasBanned := h.Banned == "yes"
			switch {
			case !x.connected(hp.Addr):
				// (its own connection went when it, or the IP, was banned)
				step.Outcome = "skipped: the port is not connected"
				res.Count("enf_host_offences_skipped_port_not_connected", 1)
			case op.Kind == offServices && ipWasBanned:
				step.Outcome = "skipped: a port of a banned IP cannot come back to show its service bits"
				res.Count("enf_host_offences_skipped_port_not_connected", 1)
			default:
				var conn *netsim.Conn
				var detail string
				how, ok := op.How, false
				switch op.Kind {
				case offBlock:
					conn, detail, ok = x.offendBlock(hp, op.How)
				case offHeader:
					conn, how, detail, ok = x.offendHeader(hp, op.How)
				case offServices:
					conn, detail, ok = x.offendServices(hp, op.How)
				}
				if !ok {
					step.Outcome = "not delivered: " + x.aborted
					break
				}
				step.Outcome, step.Detail = "delivered", detail
				x.steps = append(x.steps, step)
				x.judgeOffender(hp, op.Kind, how, conn, ipWasBanned, detail)
				continue
			}

		case "drop":
			hp := x.hosts[op.Host].Ports[op.Port]
			if x.connected(hp.Addr) {
				hp.P.Disconnect()
				res.Count("enf_host_ports_dropping_their_own_connection", 1)
				if x.hosts[op.Host].Banned == "yes" {
					res.Count("enf_host_ports_of_a_banned_ip_dropping_their_own_connection", 1)
				}
				// Give the redial a moment (refused or not, by the ban state).
				n0 := w.Net.TotalConns(hp.Addr)
				l2.WaitFor(redialWatchdog/2, func() bool { return w.Net.TotalConns(hp.Addr) > n0 })
				step.Outcome = "dropped"
			} else {
				step.Outcome = "skipped: not connected"
			}

		case "unban":
			h := x.hosts[op.Host]
			if h.Banned != "yes" {
				step.Outcome = "skipped: not banned"
				res.Count("enf_host_unbans_skipped", 1)
				break
			}
			hp := h.Ports[op.Port]
			addr := hp.Addr
			if op.Alt {
				addr = hp.Alt
			}
			// The host comes back reformed.
			for _, q := range h.Ports {
				q.mu.Lock()
				q.liar, q.armBlock, q.offended = nil, "", false
				q.mu.Unlock()
				q.P.Services = wire.SFNodeNetwork | wire.SFNodeWitness | wire.SFNodeCF
			}
			seq := w.Log.Add("client", "ev", "c13-host-unban", fmt.Sprintf("host=%d UnbanPeer(%s, %v)", h.Idx, addr, op.Perm))
			if n := len(h.Spans); n > 0 {
				h.Spans[n-1][1] = seq
			}
			err := w.Svc.UnbanPeer(addr, op.Perm)
			res.Count("enf_host_unbans", 1)
			if op.Alt {
				res.Count("enf_host_unbans_by_other_spelling", 1)
			}
			if err != nil {
				// UnbanPeer lifts the ban and then asks for a connection; the
				// second half fails for an address that is still connected.
				res.Count("enf_host_unbans_returning_an_error", 1)
				step.Detail = "UnbanPeer: " + err.Error()
				if w.Svc.IsBanned(hp.Addr) {
					x.abort("UnbanPeer returned an error and the address is still banned (precondition of the next step): " + err.Error())
					break
				}
			}
			h.Banned, h.Reasons, h.LastFamily = "no", nil, ""
			h.Hist = append(h.Hist, "unban")
			step.Outcome = "unbanned"
			x.checkpoint("after-unban")
			allIn("after-unban")
			if x.aborted == "" {
				res.Count("enf_host_hosts_reconnected_after_unban", 1)
			}

		case "restart":
			if ok, _ := w.StopClient(90 * time.Second); !ok {
				x.abort("restart failed: Stop did not return within 90 s (C17's subject)")
				stopped = true
				break
			}
			// A connection the stopping client was handed and never closed
			// (it refuses a banned address by asking its connection manager to
			// disconnect, which does nothing once that is stopping) would keep
			// the simulated peer, which serves one connection at a time, busy
			// for good: the peers hang up themselves.
			for _, p := range x.allPeers() {
				if c := p.Conn(); c != nil && !c.Dead() {
					_ = c.Close()
					res.Count("enf_host_connections_left_open_by_the_stopped_client", 1)
				}
			}
			if err := w.StartClient(x.told, l2.ClientOpts{Dir: w.Dir}); err != nil {
				x.abort("restart failed: " + err.Error())
				stopped = true
				break
			}
			res.Count("enf_host_restarts", 1)
			if !openStore() {
				break
			}
			for _, h := range x.hosts {
				h.Hist = append(h.Hist, "restart")
			}
			if !x.awaitTip(syncWatchdog) {
				x.abort("the restarted client did not report the tip within the watchdog")
				break
			}
			allIn("after-restart")
			x.checkpoint("after-restart")
			// The banned hosts are dialled by the new client as well.
			for _, h := range x.hosts {
				if h.Banned != "yes" {
					continue
				}
				from := w.Log.Len()
				for _, hp := range h.Ports {
					a := hp.Addr
					l2.WaitFor(redialWatchdog/2, func() bool {
						for _, c := range w.Net.ConnRecs(a) {
							if c.OpenSeq >= from {
								return true
							}
						}
						return false
					})
				}
			}
			step.Outcome = "restarted"
		}
		x.steps = append(x.steps, step)
	}

	// One more announced block at the end: a connection the client kept would
	// be used now.
	if x.aborted == "" && !x.bad {
		if x.grow(1) && !x.awaitTip(syncWatchdog) {
			x.abort("the client did not follow the last announced block within the watchdog")
		}
		x.checkpoint("at-end")
	}

	// Stop, and read the ban records from the reopened database.
	evs := w.Log.Snapshot()
	okStop, _ := w.StopClient(60 * time.Second)
	stopped = true
	if !okStop {
		res.Inconcl("Stop did not return within 60s (C17's subject)")
		res.Sample = map[string]any{"plan": plan, "note": "stop watchdog"}
		return
	}
	if x.aborted == "" && !x.bad {
		probe := &enfEnd{}
		for _, h := range x.hosts {
			probe.Peers = append(probe.Peers, &peerEnd{Addr: h.Ports[0].Addr})
		}
		(&enfRun{e: &enfWorld{W: w}}).readStore(probe)
		for i, h := range x.hosts {
			pe := probe.Peers[i]
			switch {
			case pe.StoreErr != "":
				res.Inconcl("ban store unreadable after the client stopped: " + pe.StoreErr)
			case h.Banned == "yes" && !pe.StoreBanned:
				x.violate(evid.Sig("c13-enf/host/ban-of-an-offenders-ip-not-on-record", h.LastFamily, h.Spec.kind(), "reopened-after-stop"),
					fmt.Sprintf("host %d (%s) was banned at the end of the session (history %s) but the database reopened after Stop has no ban record for it", h.Idx, h.Spec.IP, h.histShape()), nil)
			case h.Banned == "yes" && !contains(h.Reasons, pe.StoreReason):
				x.violate(evid.Sig("c13-enf/host/wrong-reason", h.LastFamily, "recorded="+orNone(pe.StoreReason), h.Spec.kind()),
					fmt.Sprintf("host %d (%s): the database reopened after Stop holds reason %s, expected one of %v", h.Idx, h.Spec.IP, pe.StoreReason, h.Reasons), nil)
			case h.Banned == "no" && pe.StoreBanned:
				x.violate(evid.Sig("c13-enf/host/still-banned-after-unban", h.Spec.kind(), "reopened-after-stop"),
					fmt.Sprintf("host %d (%s) was not banned at the end of the session (history %s) but the database reopened after Stop holds a ban record (%s)", h.Idx, h.Spec.IP, h.histShape(), pe.StoreReason), nil)
			default:
				res.Count("enf_host_records_confirmed_in_the_reopened_database", 1)
			}
		}
	}

	// While a ban stands, no new connection to any port of the IP completes a
	// handshake (from the log; whatever else happened in the scenario).
	for _, h := range x.hosts {
		for _, hp := range h.Ports {
			for _, cv := range connViews(w, hp.Addr, evs) {
				// in: opened while the ban stood; done: the handshake completed
				// while it still stood (a connection opened a moment before
				// UnbanPeer may rightly complete it afterwards).
				in, done := false, false
				for _, s := range h.Spans {
					if cv.OpenSeq >= s[0] && cv.OpenSeq < s[1] {
						in = true
						done = cv.Handshook && cv.HandshakeSeq < s[1]
					}
				}
				if !in {
					continue
				}
				res.Count("enf_host_connections_opened_while_the_ip_was_banned", 1)
				if cv.VersionSent {
					res.Count("enf_host_connections_opened_while_banned_peer_sent_its_version", 1)
				}
				if cv.Handshook && !done {
					res.Count("enf_host_connections_opened_just_before_an_unban_completed_afterwards", 1)
				}
				if !done {
					continue
				}
				hp.mu.Lock()
				who := "unoffending-port"
				if hp.offended {
					who = "offender-port"
				}
				hp.mu.Unlock()
				x.violate(evid.Sig("c13-enf/host/handshake-completed-while-the-ip-was-banned", who, h.Spec.kind()),
					fmt.Sprintf("%s: connection #%d was opened at log seq %d, while the IP was banned (spans %v), and the handshake on it completed; requests received on it: %v",
						hp.label(), cv.Index, cv.OpenSeq, h.Spans, cv.rxList()), nil)
			}
		}
	}

	res.Nontrivial = res.Counters["enf_host_offences_judged_ip-already-banned-through-another-port"] > 0
	if x.aborted != "" {
		res.Count("enf_host_scenarios_cut_short", 1)
	} else {
		res.Count("enf_host_scenarios_completed", 1)
	}
	var hs []map[string]any
	for _, h := range x.hosts {
		hs = append(hs, map[string]any{"host": h.Idx, "ip": h.Spec.IP, "history": h.Hist, "model_banned": h.Banned, "spans": h.Spans})
	}
	res.Sample = map[string]any{"plan": plan, "steps": x.steps, "hosts": hs, "cut_short": x.aborted}
	if os.Getenv("C13_ENF_LOG") != "" { // debugging aid for -c13-enf-k
		for _, l := range w.Log.Tail(1 << 20) {
			fmt.Fprintln(os.Stderr, l)
		}
	}
}
