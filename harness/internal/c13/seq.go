package c13

import (
	"errors"
	"fmt"
	"math"
	"math/rand"
	"net"
	"net/netip"
	"os"
	"path/filepath"
	"strings"
	"time"

	"github.com/btcsuite/btcwallet/walletdb"
	_ "github.com/btcsuite/btcwallet/walletdb/bdb" // bbolt driver
	"github.com/lightninglabs/neutrino/banman"

	"verif/internal/evid"
)

// allReasons are all defined banman.Reason values.
var allReasons = []banman.Reason{
	banman.ExceededBanThreshold, banman.NoCompactFilters,
	banman.InvalidFilterHeader, banman.InvalidFilterHeaderCheckpoint,
	banman.InvalidBlock,
}

// Durations are chosen AWAY from the clock: already lapsed (negative, zero) or
// unable to lapse during a run (hours and more).
type durChoice struct {
	class string
	d     time.Duration
}

var durChoices = []durChoice{
	{"neg", -time.Nanosecond}, {"neg", -time.Second}, {"neg", -time.Hour},
	{"neg", -24 * 365 * time.Hour}, {"neg", time.Duration(math.MinInt64)},
	{"zero", 0}, {"zero", 0},
	{"hours", time.Hour}, {"hours", 3 * time.Hour}, {"hours", 24 * time.Hour},
	{"hours", 2 * time.Hour}, {"hours", 24 * 30 * time.Hour},
	{"huge", 24 * 365 * 50 * time.Hour}, {"huge", time.Duration(math.MaxInt64)},
}

// Op is one scripted operation, written out so that a witness is readable and
// replayable by hand.
type Op struct {
	I        int    `json:"i"`
	Kind     string `json:"op"` // ban | unban | status | reopen
	Addr     string `json:"addr,omitempty"`
	Spelling string `json:"spelling,omitempty"`
	Text     string `json:"text,omitempty"`
	Mask     int    `json:"mask_ones"` // -1 = nil mask (client form)
	Reason   uint8  `json:"reason,omitempty"`
	Dur      string `json:"duration,omitempty"`
	DurClass string `json:"duration_class,omitempty"`
	Check    string `json:"check"` // none | key | sample | sweep

	addr int
	dur  time.Duration
	port int
}

type pair struct {
	addr int
	ones int
}

// genSequence derives the op list of sequence idx purely from (seed, idx).
// Regular sequences use the whole address pool and sampled comparisons; dense
// sequences use a 4-address universe and compare EVERY spelling of EVERY
// touched (address, mask) after (almost) every op.
func genSequence(seed int64, idx int, dense bool, nOps int) ([]Op, []int) {
	rng := rand.New(rand.NewSource(mix(seed, int64(idx))))
	var universe []int
	if dense {
		// two IPv4 + two IPv6, preferring prefix-sharing neighbours
		p := rng.Perm(len(baseAddrs))
		n4, n6 := 0, 0
		for _, i := range p {
			if baseAddrs[i].Is4() && n4 < 2 {
				universe = append(universe, i)
				n4++
			} else if !baseAddrs[i].Is4() && n6 < 2 {
				universe = append(universe, i)
				n6++
			}
		}
	} else {
		for i := range baseAddrs {
			universe = append(universe, i)
		}
	}

	var touched []pair
	seen := map[pair]bool{}
	pickMask := func(a netip.Addr) int {
		al, odd := v6Aligned, v6Odd
		if a.Is4() {
			al, odd = v4Aligned, v4Odd
		}
		if dense {
			al, odd = al[:1], odd[:1] // keeps the swept universe small
		}
		switch x := rng.Intn(100); {
		case x < 38:
			return -1
		case x < 48:
			return a.BitLen()
		case x < 80:
			return al[rng.Intn(len(al))]
		case x < 93:
			return odd[rng.Intn(len(odd))]
		}
		return 0
	}

	ops := make([]Op, 0, nOps)
	for i := 0; i < nOps; i++ {
		op := Op{I: i, Mask: -1}
		switch x := rng.Intn(100); {
		case x < 34:
			op.Kind = "ban"
		case x < 50:
			op.Kind = "unban"
		case x < 94:
			op.Kind = "status"
		default:
			op.Kind = "reopen"
		}
		if dense && op.Kind == "status" && rng.Intn(2) == 0 {
			// the sweeps already are status queries; shift weight to mutations
			op.Kind = []string{"ban", "unban", "reopen"}[rng.Intn(3)]
		}

		if op.Kind != "reopen" {
			var p pair
			if len(touched) > 0 && rng.Intn(100) < 62 {
				// Return to a network used before — possibly through a
				// different address of the same network.
				p = touched[rng.Intn(len(touched))]
				if rng.Intn(4) == 0 {
					k := canonKey(baseAddrs[p.addr], p.ones)
					var same []int
					for _, j := range universe {
						if baseAddrs[j].Is4() == baseAddrs[p.addr].Is4() &&
							canonKey(baseAddrs[j], p.ones) == k {
							same = append(same, j)
						}
					}
					p.addr = same[rng.Intn(len(same))]
				}
			} else {
				p.addr = universe[rng.Intn(len(universe))]
				p.ones = pickMask(baseAddrs[p.addr])
			}
			if !seen[p] {
				seen[p] = true
				touched = append(touched, p)
			}
			a := baseAddrs[p.addr]
			kinds := kindsFor(a)
			op.addr = p.addr
			op.Addr = a.String()
			op.Mask = p.ones
			op.Spelling = kinds[rng.Intn(len(kinds))]
			op.port = ports[rng.Intn(len(ports))]
			op.Text = spell(a, op.Spelling, op.port)
			if op.Kind == "ban" {
				dc := durChoices[rng.Intn(len(durChoices))]
				op.dur, op.Dur, op.DurClass = dc.d, dc.d.String(), dc.class
				op.Reason = uint8(allReasons[rng.Intn(len(allReasons))])
			}
		}

		// How much is compared after the op. "none" keeps lapsed records
		// physically in the database (Status deletes them lazily), so that
		// later bans, unbans and reopens meet them.
		x := rng.Intn(100)
		if dense {
			if x < 82 {
				op.Check = "sweep"
			} else {
				op.Check = "none"
			}
		} else {
			switch {
			case op.Kind == "reopen" && x < 3:
				op.Check = "sweep"
			case op.Kind == "reopen" && x < 80:
				op.Check = "sample"
			case op.Kind == "reopen":
				op.Check = "none"
			case x < 64:
				op.Check = "key"
			case x < 80:
				op.Check = "sample"
			case x < 81 && rng.Intn(5) == 0:
				op.Check = "sweep"
			default:
				op.Check = "none"
			}
		}
		ops = append(ops, op)
	}
	// Every sequence ends with a reopen and a full sweep.
	ops = append(ops, Op{I: nOps, Kind: "reopen", Mask: -1, Check: "sweep"})
	return ops, universe
}

func mix(a, b int64) int64 {
	z := uint64(a)*0x9E3779B97F4A7C15 + uint64(b)*0xBF58476D1CE4E5B9 + 0x94D049BB133111EB
	z ^= z >> 30
	z *= 0xBF58476D1CE4E5B9
	z ^= z >> 27
	z *= 0x94D049BB133111EB
	z ^= z >> 31
	return int64(z)
}

// ---------------------------------------------------------------------------

type dbh struct {
	path  string
	db    walletdb.DB
	store banman.Store
}

func openStore(path string, create bool) (*dbh, error, error) {
	var (
		db  walletdb.DB
		err error
	)
	if create {
		db, err = walletdb.Create("bdb", path, true, 10*time.Second, false)
	} else {
		db, err = walletdb.Open("bdb", path, true, 10*time.Second, false)
	}
	if err != nil {
		return nil, err, nil
	}
	st, err := banman.NewStore(db)
	if err != nil {
		_ = db.Close()
		return nil, nil, err
	}
	return &dbh{path: path, db: db, store: st}, nil, nil
}

// guarded runs f and turns a panic of the code under test into an error value.
func guarded(f func() error) (err error, panicked any) {
	defer func() {
		if p := recover(); p != nil {
			panicked = p
		}
	}()
	return f(), nil
}

// storeFault says whether an error is one the ban store itself produced (as
// opposed to the environment: I/O, file locks).
func storeFault(err error) bool {
	return errors.Is(err, banman.ErrUnsupportedIP) ||
		errors.Is(err, banman.ErrCorruptedStore) ||
		strings.Contains(err.Error(), "unable to encode") ||
		strings.Contains(err.Error(), "unsupported IP")
}

// seqStats are the per-sequence measurements merged into the run counters.
type seqStats struct {
	ops                     map[string]int64
	comparisons             int64
	expBanned               int64
	expLapsed               int64
	expAbsent               int64
	cmpFirstAfterReopen     int64
	reopens                 int64
	lapsedUnqueriedAtReopen int64
	overwrites              int64
	unbanAbsent             int64
	expiryChecks            int64
	fps                     map[string]bool
	spellings               map[string]bool // "<addr>|<kind>"
	kinds                   map[string]bool
}

type seqRunner struct {
	r       *evid.Run
	seed    int64
	idx     int
	dense   bool
	ops     []Op
	h       *dbh
	model   *Bans
	reopn   int
	touched []pair
	seenP   map[pair]bool
	rng     *rand.Rand // choices of the comparison sampler (derived from seed)
	st      *seqStats
	cur     int // index of the op being executed
	dead    bool
}

type witness struct {
	Sequence int    `json:"sequence"`
	Dense    bool   `json:"dense"`
	Replay   string `json:"replay_hint"`
	FailedAt int    `json:"failed_at_op"`
	Query    any    `json:"query,omitempty"`
	Expected any    `json:"expected,omitempty"`
	Observed any    `json:"observed,omitempty"`
	Ops      []Op   `json:"ops_so_far"`
}

func (s *seqRunner) witness(q, exp, obs any) witness {
	return witness{
		Sequence: s.idx, Dense: s.dense,
		Replay:   fmt.Sprintf("VERIF_SEED=%d ./check C13 %s -c13-seq %d", s.seed, s.r.Tier, s.idx),
		FailedAt: s.cur, Query: q, Expected: exp, Observed: obs,
		Ops: s.ops[:min(s.cur+1, len(s.ops))],
	}
}

func (s *seqRunner) violation(sig, what string, q, exp, obs any) {
	s.r.Violation(sig, what, s.witness(q, exp, obs))
	s.dead = true // the model may be out of step from here on
}

func (s *seqRunner) touch(p pair) {
	if !s.seenP[p] {
		s.seenP[p] = true
		s.touched = append(s.touched, p)
	}
}

// parse turns a spelling into the IP network the client would use. A failure
// on a valid spelling means that spelling denotes no record at all.
func (s *seqRunner) parse(text, kind string, a netip.Addr, ones int, opKind string) *net.IPNet {
	var ipn *net.IPNet
	err, pan := guarded(func() (e error) {
		ipn, e = banman.ParseIPNet(text, ipMask(a, ones))
		return
	})
	if pan != nil {
		s.violation(evid.Sig("panic", "ParseIPNet", "spelling="+kind),
			fmt.Sprintf("ParseIPNet(%q) panicked: %v", text, pan), text, nil, fmt.Sprint(pan))
		return nil
	}
	if err != nil {
		s.violation(evid.Sig("spelling-rejected", "op="+opKind, "spelling="+kind,
			"family="+family(a), "mask="+maskClass(a, ones)),
			fmt.Sprintf("%q is a textual form of IP address %v but ParseIPNet rejects it: %v", text, a, err),
			text, "parsed", err.Error())
		return nil
	}
	return ipn
}

type statusView struct {
	Banned     bool   `json:"banned"`
	Reason     uint8  `json:"reason"`
	Expiration string `json:"expiration,omitempty"`
}

// compare queries Status for (address, mask) through one spelling and checks
// the answer against the model. scripted tells whether this is a scripted
// status op (for the fingerprint) or a post-op comparison.
func (s *seqRunner) compare(p pair, kind string, port int, scripted bool) {
	if s.dead {
		return
	}
	a := baseAddrs[p.addr]
	text := spell(a, kind, port)
	ipn := s.parse(text, kind, a, p.ones, "status")
	if ipn == nil {
		return
	}
	key := canonKey(a, p.ones)
	rc := s.model.Get(key)

	var got banman.Status
	qStart := time.Now()
	err, pan := guarded(func() (e error) {
		got, e = s.h.store.Status(ipn)
		return
	})
	s.st.comparisons++
	s.st.spellings[a.String()+"|"+kind] = true
	s.st.kinds[kind] = true
	first := s.model.FirstSinceReopen(key) && s.reopn > 0
	if first {
		s.st.cmpFirstAfterReopen++
	}

	shape := func() []string {
		last, dc, same, reop := "none", "none", "n/a", "n"
		if rc != nil {
			last, dc = "ban", "active"
			if rc.Lapsed {
				dc = "lapsed"
			}
			same = "n"
			if rc.BanSpell == kind {
				same = "y"
			}
			if rc.Reopened {
				reop = "y"
			}
		} else if s.reopn > 0 {
			reop = "y"
		}
		mc := "net"
		if p.ones < 0 || p.ones == a.BitLen() {
			mc = "host"
		}
		return []string{"last=" + last, "family=" + family(a), "mask=" + mc,
			"ban=" + dc, "same-spelling-as-ban=" + same, "reopened-since=" + reop}
	}
	q := map[string]any{"text": text, "spelling": kind, "mask_ones": p.ones, "record": key.String()}
	obs := statusView{Banned: got.Banned, Reason: uint8(got.Reason)}
	if !got.Expiration.IsZero() {
		obs.Expiration = got.Expiration.UTC().Format(time.RFC3339Nano)
	}

	if pan != nil {
		s.violation(evid.Sig(append([]string{"panic", "Status"}, shape()...)...),
			fmt.Sprintf("Status(%v) [spelling %q] panicked: %v", ipn, text, pan), q, nil, fmt.Sprint(pan))
		return
	}
	if err != nil {
		if storeFault(err) {
			s.violation(evid.Sig(append([]string{"status-error"}, shape()...)...),
				fmt.Sprintf("Status(%v) [spelling %q] failed: %v", ipn, text, err), q, nil, err.Error())
		} else {
			s.r.Inconclusive("Status returned an environment error: " + err.Error())
			s.dead = true
		}
		return
	}

	expBanned := rc != nil && !rc.Lapsed
	switch {
	case rc == nil:
		s.st.expAbsent++
	case rc.Lapsed:
		s.st.expLapsed++
	default:
		s.st.expBanned++
	}
	if rc != nil {
		rc.Queried = true
	}

	if got.Banned != expBanned {
		exp := statusView{Banned: expBanned}
		why := "no ban is recorded for this network (never banned, or lifted)"
		if rc != nil {
			exp.Reason = rc.Reason
			why = fmt.Sprintf("last ban: op %d via %s for %v (%s), reason %d", rc.BanOpIdx, rc.BanSpell, rc.Dur, rc.DurClass, rc.Reason)
		}
		s.violation(evid.Sig(append([]string{"status-flag", fmt.Sprintf("expect-banned=%v", expBanned)}, shape()...)...),
			fmt.Sprintf("Status of %v through %q reports banned=%v, expected %v: %s", key, text, got.Banned, expBanned, why),
			q, exp, obs)
		return
	}
	if !expBanned {
		return
	}
	if uint8(got.Reason) != rc.Reason {
		s.violation(evid.Sig(append([]string{"status-reason"}, shape()...)...),
			fmt.Sprintf("Status of %v through %q reports reason %d, recorded reason is %d", key, text, got.Reason, rc.Reason),
			q, statusView{Banned: true, Reason: rc.Reason}, obs)
		return
	}

	// expiry-stable (clock-free): the absolute expiry of one ban is the same
	// in every report, also after reopening.
	s.st.expiryChecks++
	if rc.SeenExp.IsZero() {
		rc.SeenExp = got.Expiration
	} else if !got.Expiration.Equal(rc.SeenExp) {
		s.violation(evid.Sig(append([]string{"expiry-unstable"}, shape()...)...),
			fmt.Sprintf("Status of %v reports expiry %v, an earlier query of the same ban reported %v (no ban/unban in between)",
				key, got.Expiration.UTC(), rc.SeenExp.UTC()),
			q, rc.SeenExp.UTC().Format(time.RFC3339Nano), obs)
		return
	}
	// expiry-sanity (loose; tolerance is huge relative to scheduling noise):
	// expiry = moment of the ban + duration, +-2 s; and in the future.
	lo := rc.T0.Add(rc.Dur).Add(-2 * time.Second)
	hi := rc.T1.Add(rc.Dur).Add(2 * time.Second)
	var off time.Duration
	switch {
	case got.Expiration.Before(lo):
		off = lo.Sub(got.Expiration)
	case got.Expiration.After(hi):
		off = got.Expiration.Sub(hi)
	}
	if !got.Expiration.After(qStart) && off == 0 {
		off = time.Hour // banned but expiry not in the future
	}
	if off > 0 {
		if off < 60*time.Second {
			s.r.Inconclusive("expiry off ban-time+duration by more than 2 s but less than 60 s")
			return
		}
		s.violation(evid.Sig(append([]string{"expiry-wrong"}, shape()...)...),
			fmt.Sprintf("Status of %v reports expiry %v; the ban was placed at %v for %v (off by %v beyond the 2 s tolerance)",
				key, got.Expiration.UTC(), rc.T0.UTC().Format(time.RFC3339), rc.Dur, off),
			q, fmt.Sprintf("within 2s of %v", rc.T0.Add(rc.Dur).UTC().Format(time.RFC3339)), obs)
	}
	_ = scripted
}

// compareKey: every spelling of the op's address under the op's mask; for the
// default and the explicit full mask alternately both forms (they are the same
// record).
func (s *seqRunner) compareKey(p pair) {
	a := baseAddrs[p.addr]
	for i, k := range kindsFor(a) {
		q := p
		if i%2 == 1 {
			if p.ones < 0 {
				q.ones = a.BitLen()
			} else if p.ones == a.BitLen() {
				q.ones = -1
			}
		}
		s.compare(q, k, ports[s.rng.Intn(len(ports))], false)
	}
}

func (s *seqRunner) compareSample(n int) {
	for i := 0; i < n && len(s.touched) > 0; i++ {
		p := s.touched[s.rng.Intn(len(s.touched))]
		ks := kindsFor(baseAddrs[p.addr])
		s.compare(p, ks[s.rng.Intn(len(ks))], ports[s.rng.Intn(len(ports))], false)
	}
}

// compareSweep: EVERY spelling of EVERY (address, mask) touched so far.
func (s *seqRunner) compareSweep() {
	for _, p := range s.touched {
		for _, k := range kindsFor(baseAddrs[p.addr]) {
			s.compare(p, k, ports[s.rng.Intn(len(ports))], false)
		}
	}
}

func (s *seqRunner) fingerprint(op Op, key netip.Prefix, rc *rec) (string, bool) {
	if op.Kind == "reopen" {
		n, lu := 0, 0
		for _, r := range s.model.m {
			n++
			if r.Lapsed && !r.Queried {
				lu++
			}
		}
		return fmt.Sprintf("reopen/records=%s/lapsed-unqueried=%v", bucket(n), lu > 0), n > 0
	}
	a := baseAddrs[op.addr]
	dc := op.DurClass
	nontrivial := true
	if op.Kind != "ban" {
		dc = "none"
		if rc != nil {
			dc = rc.DurClass
		}
		nontrivial = rc != nil
	}
	after := s.reopn > 0 && !s.model.sinceReopen[key]
	return fmt.Sprintf("%s/%s/%s/mask=%s/dur=%s/after-reopen=%v",
		op.Kind, op.Spelling, family(a), maskClass(a, op.Mask), dc, after), nontrivial
}

func bucket(n int) string {
	switch {
	case n == 0:
		return "0"
	case n < 4:
		return "1-3"
	case n < 16:
		return "4-15"
	}
	return "16+"
}

func (s *seqRunner) reopen() bool {
	if err := s.h.db.Close(); err != nil {
		s.r.Inconclusive("closing the database failed: " + err.Error())
		s.dead = true
		return false
	}
	var (
		h             *dbh
		envErr, stErr error
	)
	_, pan := guarded(func() error {
		h, envErr, stErr = openStore(s.h.path, false)
		return nil
	})
	switch {
	case pan != nil:
		s.violation(evid.Sig("panic", "reopen"), fmt.Sprintf("reopening the ban store panicked: %v", pan), nil, nil, fmt.Sprint(pan))
		return false
	case envErr != nil:
		s.r.Inconclusive("reopening the database file failed: " + envErr.Error())
		s.dead = true
		return false
	case stErr != nil:
		s.violation(evid.Sig("reopen-newstore-error"), fmt.Sprintf("banman.NewStore on the reopened database failed: %v", stErr), nil, nil, stErr.Error())
		return false
	}
	s.h = h
	s.reopn++
	n, lu := s.model.Reopen()
	_ = n
	s.st.reopens++
	s.st.lapsedUnqueriedAtReopen += int64(lu)
	return true
}

// run executes the sequence against a fresh database in dir.
func (s *seqRunner) run(dir string) {
	path := filepath.Join(dir, fmt.Sprintf("seq-%d.db", s.idx))
	defer os.Remove(path)
	h, envErr, stErr := openStore(path, true)
	if envErr != nil || stErr != nil {
		s.r.Inconclusive(fmt.Sprintf("cannot create ban store: %v %v", envErr, stErr))
		return
	}
	s.h = h
	defer func() {
		if s.h != nil && s.h.db != nil {
			_ = s.h.db.Close()
		}
	}()

	for i, op := range s.ops {
		if s.dead {
			break
		}
		s.cur = i
		s.st.ops[op.Kind]++
		if op.Kind == "reopen" {
			fp, nt := s.fingerprint(op, netip.Prefix{}, nil)
			if nt {
				s.st.fps[fp] = true
			}
			if !s.reopen() {
				break
			}
		} else {
			a := baseAddrs[op.addr]
			p := pair{op.addr, op.Mask}
			key := canonKey(a, op.Mask)
			rc := s.model.Get(key)
			fp, nt := s.fingerprint(op, key, rc)
			if nt {
				s.st.fps[fp] = true
			}
			s.touch(p)
			s.st.spellings[a.String()+"|"+op.Spelling] = true
			s.st.kinds[op.Spelling] = true

			switch op.Kind {
			case "status":
				s.compare(p, op.Spelling, op.port, true)

			case "ban", "unban":
				ipn := s.parse(op.Text, op.Spelling, a, op.Mask, op.Kind)
				if ipn == nil {
					break
				}
				t0 := time.Now()
				err, pan := guarded(func() error {
					if op.Kind == "ban" {
						return s.h.store.BanIPNet(ipn, banman.Reason(op.Reason), op.dur)
					}
					return s.h.store.UnbanIPNet(ipn)
				})
				t1 := time.Now()
				sh := []string{"family=" + family(a), "mask=" + maskClass(a, op.Mask), "spelling=" + op.Spelling}
				if pan != nil {
					s.violation(evid.Sig(append([]string{"panic", op.Kind}, sh...)...),
						fmt.Sprintf("%s(%v) [spelling %q] panicked: %v", op.Kind, ipn, op.Text, pan), op, nil, fmt.Sprint(pan))
					break
				}
				if err != nil {
					if storeFault(err) {
						existed := "record-absent"
						if rc != nil {
							existed = "record-present"
						}
						s.violation(evid.Sig(append([]string{op.Kind + "-error", existed}, sh...)...),
							fmt.Sprintf("%s(%v) [spelling %q] failed: %v", op.Kind, ipn, op.Text, err), op, "nil error", err.Error())
					} else {
						s.r.Inconclusive(op.Kind + " returned an environment error: " + err.Error())
						s.dead = true
					}
					break
				}
				s.model.FirstSinceReopen(key)
				if op.Kind == "ban" {
					nr := &rec{Reason: op.Reason, Dur: op.dur, DurClass: op.DurClass,
						Lapsed: op.dur <= 0, T0: t0, T1: t1, BanSpell: op.Spelling, BanOpIdx: i}
					s.model.Ban(key, nr)
					if nr.Overwrote {
						s.st.overwrites++
					}
				} else if !s.model.Unban(key) {
					s.st.unbanAbsent++
				}
			}
		}
		if s.dead {
			break
		}
		switch op.Check {
		case "key":
			// After a ban or unban: every spelling of the touched network.
			// After a scripted status: three more spellings of it.
			switch op.Kind {
			case "ban", "unban":
				s.compareKey(pair{op.addr, op.Mask})
			case "status":
				ks := kindsFor(baseAddrs[op.addr])
				for j := 0; j < 3; j++ {
					s.compare(pair{op.addr, op.Mask}, ks[s.rng.Intn(len(ks))], ports[s.rng.Intn(len(ports))], false)
				}
			}
			s.compareSample(2)
		case "sample":
			n := 3
			if op.Kind == "reopen" {
				n = 12
			}
			s.compareSample(n)
		case "sweep":
			s.compareSweep()
		}
	}
}
