package c13

import (
	"fmt"
	"math/rand"
	"os"
	"path/filepath"
	"sync"
	"time"

	"github.com/lightninglabs/neutrino/banman"

	"verif/internal/evid"
)

// The timed set: real 2 s bans. This is the single place where elapsed real
// time enters an assertion (the store itself calls time.Now). A query is
// judged only when the MONOTONIC clock shows it fell clearly inside the ban
// (the query returned less than 1 s after the ban call started: the store
// truncates the expiry to whole seconds, so a 2 s ban lasts more than 1 s) or
// clearly outside it (the query started more than 3.2 s after the ban call
// returned); anything else, and any run in which the wall clock was stepped
// relative to the monotonic clock, is inconclusive.

const (
	shortBan     = 2 * time.Second
	clearlyIn    = 1 * time.Second
	clearlyOut   = 3200 * time.Millisecond
	queryOutAt   = 3350 * time.Millisecond
	maxClockSkew = 200 * time.Millisecond
)

type timedEvent struct {
	Step     string  `json:"step"`
	AtS      float64 `json:"t_since_ban_call_start_s"`
	Text     string  `json:"text,omitempty"`
	Verdict  string  `json:"verdict,omitempty"`
	Banned   *bool   `json:"banned,omitempty"`
	Reason   uint8   `json:"reason,omitempty"`
	Expected string  `json:"expected,omitempty"`
}

type timedCase struct {
	Case         int          `json:"timed_case"`
	Addr         string       `json:"addr"`
	Mask         int          `json:"mask_ones"`
	Variant      string       `json:"variant"`
	ReopenIn     bool         `json:"reopen_before_lapse"`
	ClosedAcross bool         `json:"closed_across_lapse"`
	Events       []timedEvent `json:"events"`
}

// Variants:
//
//	plain    ban 2 s                       -> banned early, not banned late
//	extend   ban 2 s, then ban 3 h         -> banned early and late
//	shorten  ban 3 h, then ban 2 s         -> banned early, not banned late
//	lift     ban 2 s, unban                -> not banned early nor late
var timedVariants = []string{"plain", "plain", "extend", "shorten", "lift"}

func runTimedSet(r *evid.Run, dir string, n int) {
	var wg sync.WaitGroup
	for i := 0; i < n; i++ {
		wg.Add(1)
		go func(i int) {
			defer wg.Done()
			runTimedCase(r, dir, i)
		}(i)
	}
	wg.Wait()
}

func runTimedCase(r *evid.Run, dir string, i int) {
	rng := rand.New(rand.NewSource(mix(r.Seed, int64(1_000_000+i))))
	ai := rng.Intn(len(baseAddrs))
	a := baseAddrs[ai]
	kinds := kindsFor(a)
	ones := -1
	if rng.Intn(3) == 0 {
		if a.Is4() {
			ones = v4Aligned[rng.Intn(len(v4Aligned))]
		} else {
			ones = v6Aligned[rng.Intn(len(v6Aligned))]
		}
	}
	tc := &timedCase{Case: i, Addr: a.String(), Mask: ones,
		Variant:  timedVariants[i%len(timedVariants)],
		ReopenIn: rng.Intn(2) == 0, ClosedAcross: rng.Intn(2) == 0}
	reason := allReasons[rng.Intn(len(allReasons))]
	reason2 := allReasons[rng.Intn(len(allReasons))]
	// A control record banned for hours in the same database.
	ci := (ai + 1 + rng.Intn(len(baseAddrs)-1)) % len(baseAddrs)
	for canonKey(baseAddrs[ci], -1) == canonKey(a, ones) {
		ci = (ci + 1) % len(baseAddrs)
	}
	ctl := baseAddrs[ci]

	path := filepath.Join(dir, fmt.Sprintf("timed-%d.db", i))
	defer os.Remove(path)
	h, envErr, stErr := openStore(path, true)
	if envErr != nil || stErr != nil {
		r.Inconclusive(fmt.Sprintf("timed: cannot create ban store: %v %v", envErr, stErr))
		return
	}
	defer func() { _ = h.db.Close() }()

	fpBase := fmt.Sprintf("timed/%s/%s/mask=%s/reopen-in=%v/closed-across=%v",
		tc.Variant, family(a), maskClass(a, ones), tc.ReopenIn, tc.ClosedAcross)
	judged := 0
	dead := false
	defer func() {
		r.Case(fpBase, judged > 0)
		r.Count("timed_cases", 1)
	}()
	fail := func(sig, what string) {
		r.Violation(sig, what, tc)
		dead = true
	}
	parse := func(k string) (string, func() (banman.Status, error)) {
		text := spell(a, k, ports[rng.Intn(len(ports))])
		ipn, err := banman.ParseIPNet(text, ipMask(a, ones))
		if err != nil {
			fail(evid.Sig("spelling-rejected", "op=timed", "spelling="+k, "family="+family(a), "mask="+maskClass(a, ones)),
				fmt.Sprintf("%q is a textual form of %v but ParseIPNet rejects it: %v", text, a, err))
			return text, nil
		}
		return text, func() (banman.Status, error) { return h.store.Status(ipn) }
	}
	ban := func(k string, rs banman.Reason, d time.Duration) (t0, t1 time.Time, ok bool) {
		text := spell(a, k, ports[rng.Intn(len(ports))])
		ipn, err := banman.ParseIPNet(text, ipMask(a, ones))
		if err != nil {
			fail(evid.Sig("spelling-rejected", "op=timed", "spelling="+k, "family="+family(a), "mask="+maskClass(a, ones)),
				fmt.Sprintf("%q is a textual form of %v but ParseIPNet rejects it: %v", text, a, err))
			return
		}
		t0 = time.Now()
		err = h.store.BanIPNet(ipn, rs, d)
		t1 = time.Now()
		if err != nil {
			r.Inconclusive("timed: BanIPNet failed: " + err.Error())
			dead = true
			return
		}
		tc.Events = append(tc.Events, timedEvent{Step: fmt.Sprintf("ban %v reason %d", d, rs), Text: text})
		return t0, t1, true
	}
	reopen := func() {
		_ = h.db.Close()
		nh, e1, e2 := openStore(path, false)
		if e1 != nil || e2 != nil {
			r.Inconclusive(fmt.Sprintf("timed: reopen failed: %v %v", e1, e2))
			dead = true
			return
		}
		h = nh
	}

	// Control ban first.
	ctlNet, err := banman.ParseIPNet(ctl.String(), nil)
	if err != nil || h.store.BanIPNet(ctlNet, banman.InvalidBlock, 3*time.Hour) != nil {
		r.Inconclusive("timed: control ban failed")
		return
	}

	// The bans under test. T0/T1 bracket the call that places the 2 s ban.
	var T0, T1 time.Time
	expectLate := false // banned after the 2 s lapsed?
	expectEarly := true
	wantReason := reason
	var ok bool
	switch tc.Variant {
	case "plain":
		T0, T1, ok = ban(kinds[rng.Intn(len(kinds))], reason, shortBan)
	case "extend":
		T0, T1, ok = ban(kinds[rng.Intn(len(kinds))], reason, shortBan)
		if ok {
			_, _, ok = ban(kinds[rng.Intn(len(kinds))], reason2, 3*time.Hour)
		}
		expectLate, wantReason = true, reason2
	case "shorten":
		_, _, ok = ban(kinds[rng.Intn(len(kinds))], reason2, 3*time.Hour)
		if ok {
			T0, T1, ok = ban(kinds[rng.Intn(len(kinds))], reason, shortBan)
		}
	case "lift":
		T0, T1, ok = ban(kinds[rng.Intn(len(kinds))], reason, shortBan)
		if ok {
			text := spell(a, kinds[rng.Intn(len(kinds))], 8333)
			ipn, perr := banman.ParseIPNet(text, ipMask(a, ones))
			if perr != nil || h.store.UnbanIPNet(ipn) != nil {
				r.Inconclusive("timed: unban failed")
				return
			}
			tc.Events = append(tc.Events, timedEvent{Step: "unban", Text: text})
		}
		expectEarly = false
	}
	if !ok || dead {
		return
	}
	wall0 := T0.Round(0)

	// query asks once and judges the answer if the monotonic clock allows.
	query := func(step string) {
		if dead {
			return
		}
		k := kinds[rng.Intn(len(kinds))]
		text, f := parse(k)
		if f == nil {
			return
		}
		qs := time.Now()
		st, err := f()
		qe := time.Now()
		ev := timedEvent{Step: step, Text: text, AtS: qs.Sub(T0).Seconds()}
		recorded := false
		record := func() {
			if !recorded {
				tc.Events = append(tc.Events, ev)
				recorded = true
			}
		}
		defer record()
		if err != nil {
			ev.Verdict = "inconclusive: " + err.Error()
			r.Inconclusive("timed: Status failed: " + err.Error())
			return
		}
		b := st.Banned
		ev.Banned, ev.Reason = &b, uint8(st.Reason)
		// Wall clock stepped against the monotonic clock?
		skew := qe.Round(0).Sub(wall0) - qe.Sub(T0)
		if skew < -maxClockSkew || skew > maxClockSkew {
			ev.Verdict = "inconclusive: wall clock stepped"
			r.Inconclusive("timed: wall clock stepped relative to the monotonic clock")
			return
		}
		var want bool
		switch {
		case qe.Sub(T0) < clearlyIn:
			want = expectEarly
			ev.Expected = fmt.Sprintf("banned=%v (clearly before the lapse)", want)
		case qs.Sub(T1) > clearlyOut:
			want = expectLate
			ev.Expected = fmt.Sprintf("banned=%v (clearly after the lapse)", want)
		default:
			ev.Verdict = "inconclusive: too close to the lapse"
			r.Inconclusive("timed: query fell between 1 s and 3.2 s after the ban")
			return
		}
		judged++
		r.Count("timed_queries_judged", 1)
		phase := "late"
		if qe.Sub(T0) < clearlyIn {
			phase = "early"
		}
		if st.Banned != want {
			ev.Verdict = "VIOLATION"
			record()
			fail(evid.Sig("timed-status-flag", "variant="+tc.Variant, "phase="+phase, "step="+step,
				fmt.Sprintf("expect-banned=%v", want), "family="+family(a), "mask="+maskClass(a, ones)),
				fmt.Sprintf("2 s ban of %v (%s): query %q %.2f s after the ban reports banned=%v, expected %v",
					canonKey(a, ones), tc.Variant, text, qs.Sub(T0).Seconds(), st.Banned, want))
			return
		}
		if want && st.Reason != wantReason {
			ev.Verdict = "VIOLATION"
			record()
			fail(evid.Sig("timed-status-reason", "variant="+tc.Variant, "phase="+phase, "step="+step),
				fmt.Sprintf("query %q reports reason %d, recorded reason is %d", text, st.Reason, wantReason))
			return
		}
		ev.Verdict = "ok"
	}
	control := func(step string) {
		if dead {
			return
		}
		st, err := h.store.Status(ctlNet)
		if err != nil {
			r.Inconclusive("timed: control Status failed: " + err.Error())
			return
		}
		if !st.Banned || st.Reason != banman.InvalidBlock {
			fail(evid.Sig("timed-control-lost", "step="+step),
				fmt.Sprintf("control record %v (3 h ban) reports banned=%v reason=%d at step %s", ctl, st.Banned, st.Reason, step))
		}
	}

	query("early")
	if tc.ReopenIn {
		reopen()
		query("early-after-reopen")
	}
	control("early")
	if dead {
		return
	}
	if tc.ClosedAcross {
		_ = h.db.Close()
	}
	if d := queryOutAt - time.Since(T1); d > 0 {
		time.Sleep(d)
	}
	if tc.ClosedAcross {
		nh, e1, e2 := openStore(path, false)
		if e1 != nil || e2 != nil {
			r.Inconclusive(fmt.Sprintf("timed: reopen failed: %v %v", e1, e2))
			return
		}
		h = nh
	}
	query("late")
	query("late-again") // after the lazy deletion
	reopen()
	query("late-after-reopen")
	control("late")

	if i < 2 {
		r.Sample(tc)
	}
}
