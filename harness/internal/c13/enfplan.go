package c13

import (
	"fmt"
	"math/rand"
	"sort"
	"sync"
	"sync/atomic"
	"time"

	"github.com/btcsuite/btcd/chainhash/v2"
	"github.com/btcsuite/btcd/txscript/v2"
	"github.com/btcsuite/btcd/wire/v2"

	"verif/internal/chaingen"
	"verif/internal/l2"
	"verif/internal/netsim"
)

// Enforcement half of C13 (engine L2): "Peers that do not offer witness and
// compact-filter service, or that serve a provably invalid block, filter
// header or filter checkpoint, are banned and disconnected, and the client
// does not keep a connection to a banned address."
//
// This file: the scenario family (pure function of seed and index) and the
// construction of its world.

// Peer classes of the enforcement scenarios.
const (
	clHonest    = "honest"
	clSlow      = "slow"  // honest, a delay before every response
	clStale     = "stale" // honest, stuck on an ancestor of the best chain
	clFlaky     = "flaky" // honest, merely disconnects now and then
	clNoCF      = "no-cf" // Services = Network|Witness
	clNoWit     = "no-witness"
	clNoBoth    = "no-cf-no-witness"
	clLiar      = "liar"         // provable filter-header lie served on the at-tip path
	clCPLiar    = "cp-liar"      // provable lie below a filter checkpoint: false checkpoint + consistent cfheaders
	clBadBlock  = "bad-block"    // honest except getdata(block): right header, mutated transactions
	clRaceLiar  = "race-liar"    // liar that drops its connection after lying and completes its re-handshake only once banned
	clBatchLiar = "batch-liar"   // TRUE filter checkpoints, false cfheaders below a checkpoint (contradicts the checkpoints in the batch fetch)
	kindLate    = "liar-late"    // at-tip liar admitted only after the client synced: its lie shows as a false previous filter header
	kindBatch   = "liar-batch"   // checkpointed: the batch-liar is the only peer at first
	clCPOnly    = "cp-only-liar" // false filter checkpoint, honest cfheaders (the checkpoint is provably not what its own cfheaders add up to)
	kindCPOnly  = "checkpoint-only-liar"
	// clMute announces the true filter hashes and then never answers a
	// getcfilters or getdata request: it can back up nothing it announced.
	clMute = "mute-on-filters"
	// kindOnlyLiars: while the filter headers are first fetched every
	// connected peer is either a provable liar (all about the SAME block,
	// with different false hashes, so they contradict each other) or a mute
	// peer; the honest peers are admitted once all of those are banned.
	kindOnlyLiars = "only-liars-then-honest"
	kindLone    = "lone-liar-then-honest"
	kindOdd     = "liar-about-unparseable-script"
	kindRace    = "redial-race"
	kindSvc     = "services"
	kindLiar    = "liar-tip"
	kindLiarCP  = "liar-cp"
	kindBlock   = "bad-block"
	kindCtl     = "control"
	kindMixed   = "mixed"
	kindMixCP   = "mixed-cp"
)

var enfKindCycle = []string{kindSvc, kindLiar, kindLiarCP, kindBlock, kindCtl, kindMixed, kindMixCP, kindLate, kindBatch, kindOnlyLiars}

// enfFixed is the number of FIXED scenarios (k = 0..enfFixed-1); the seeded
// ones cycle through enfKindCycle from there.
const enfFixed = 6

// Block mutations of the bad-block server.
const (
	mutValue   = "tx-value"     // an output value of the last transaction changed: merkle root mismatch
	mutDrop    = "tx-dropped"   // last transaction removed: merkle root mismatch
	mutWitness = "witness-flip" // a witness byte flipped: txids (merkle root) intact, witness commitment broken
)

// EnfPeerPlan describes one simulated peer.
type EnfPeerPlan struct {
	Class    string
	Lie      *netsim.Lie `json:",omitempty"`
	At       int32       `json:",omitempty"` // stale: height of its tip
	DelayMs  int         `json:",omitempty"` // slow
	BlockMut string      `json:",omitempty"` // bad-block
	// Late: dials to this peer are refused until the client reported the
	// initial honest tip.
	Late bool `json:",omitempty"`
	// Odd: an omit-script lie is about an output script that does not parse
	// (BIP158 commits to it all the same), if the chain has one.
	Odd bool `json:",omitempty"`
}

// EnfPlan is one enforcement scenario.
type EnfPlan struct {
	K        int
	Kind     string
	Seed     int64
	Preset   int
	Interval int
	ChainLen int
	Peers    []EnfPeerPlan
	First    int // index of the peer admitted first (-1: all at once)
	// AdmitOn: when the others are admitted: "" = the first peer finished (or
	// lost) its handshake; "banned" = the first peer was seen banned.
	AdmitOn string `json:",omitempty"`
	// Hold: no peer serves block headers before every peer had its chance
	// to connect (steering: otherwise the client's "ask all peers for filter
	// headers" usually runs before the slower half of the peers is in).
	Hold      bool
	GetBlocks int // concurrent GetBlock calls per round after sync (0 = none)
}

func (p EnfPlan) checkpointed() bool { return p.ChainLen >= wire.CFCheckptInterval }

func (p EnfPlan) path() string {
	if p.checkpointed() {
		return "checkpointed"
	}
	return "at-tip"
}

func (p EnfPlan) has(class string) bool {
	for _, pp := range p.Peers {
		if pp.Class == class {
			return true
		}
	}
	return false
}

func (pp EnfPeerPlan) label() string {
	switch pp.Class {
	case clLiar, clCPLiar, clRaceLiar, clCPOnly, clBatchLiar:
		l := pp.Class + ":" + pp.Lie.Kind
		if pp.Odd {
			l += ":unparseable-script"
		}
		if pp.Late {
			l += ":late"
		}
		return l
	case clHonest, clSlow:
		if pp.Late {
			return pp.Class + ":late"
		}
	case clBadBlock:
		return pp.Class + ":" + pp.BlockMut
	}
	return pp.Class
}

// Describe is the shape of the plan (peer-mix multiset x chain class x who
// connects first).
func (p EnfPlan) Describe() string {
	cnt := map[string]int{}
	for _, pp := range p.Peers {
		cnt[pp.label()]++
	}
	ks := make([]string, 0, len(cnt))
	for k := range cnt {
		ks = append(ks, k)
	}
	sort.Strings(ks)
	s := ""
	for _, k := range ks {
		s += fmt.Sprintf("%s×%d ", k, cnt[k])
	}
	first := "all-at-once"
	if p.First >= 0 && p.First < len(p.Peers) {
		first = "first=" + p.Peers[p.First].Class
	}
	if p.AdmitOn != "" {
		first += "-until-" + p.AdmitOn
	}
	if p.Hold {
		first += " all-in-before-headers"
	}
	return fmt.Sprintf("enf/%s| %s| %s %s", p.Kind, s, p.path(), first)
}

// EnfPlanFromSeed derives scenario k (pure function of seed and k).
func EnfPlanFromSeed(seed int64, k int) EnfPlan {
	r := rand.New(rand.NewSource(seed*1_000_003 + int64(k)*7919 + 1313))
	p := EnfPlan{K: k, Seed: seed*1_000_003 + int64(k) + 13_000_000, First: -1}
	p.Preset = k % chaingen.NumPresets
	p.Interval = 4 + r.Intn(13)
	switch k {
	case 0:
		p.Kind = kindRace
	case 1:
		p.Kind = kindCPOnly
	case 2:
		p.Kind = kindLone
	case 3:
		p.Kind = kindOdd
	case 4, 5:
		p.Kind = kindOnlyLiars
	default:
		p.Kind = enfKindCycle[(k-enfFixed)%len(enfKindCycle)]
	}
	tipLen := 100 + r.Intn(301)
	cpLen := 1010 + r.Intn(1191)
	provable := func() string { return netsim.ProvableLies[r.Intn(len(netsim.ProvableLies))] }
	honest := func(n int) {
		for i := 0; i < n; i++ {
			p.Peers = append(p.Peers, EnfPeerPlan{Class: clHonest})
		}
	}
	add := func(pp EnfPeerPlan) { p.Peers = append(p.Peers, pp) }
	slow := func() EnfPeerPlan {
		return EnfPeerPlan{Class: clSlow, DelayMs: []int{15, 60, 200}[r.Intn(3)]}
	}
	stale := func() EnfPeerPlan {
		lo := 1
		if p.checkpointed() {
			// Above the block-header checkpoint (see buildEnf): a sync peer
			// whose chain ends below it stalls header sync — C04's known
			// finding, not this property's subject.
			lo = headerCheckpoint + 1
		}
		return EnfPeerPlan{Class: clStale, At: int32(lo + r.Intn(p.ChainLen-lo))}
	}
	noSvc := func() EnfPeerPlan {
		return EnfPeerPlan{Class: []string{clNoCF, clNoWit, clNoBoth}[r.Intn(3)]}
	}
	bad := func() EnfPeerPlan {
		return EnfPeerPlan{Class: clBadBlock, BlockMut: []string{mutValue, mutDrop, mutWitness}[r.Intn(3)]}
	}
	lastCP := func() int { return p.ChainLen / wire.CFCheckptInterval * wire.CFCheckptInterval }
	tipLiar := func() EnfPeerPlan {
		lo := 1
		if p.checkpointed() {
			lo = lastCP() + 1
		}
		if lo > p.ChainLen {
			lo = p.ChainLen
		}
		l := EnfPeerPlan{Class: clLiar, Lie: &netsim.Lie{Kind: provable(), Height: int32(lo + r.Intn(p.ChainLen-lo+1))}}
		l.Odd = l.Lie.Kind == netsim.LieOmitScript && r.Intn(2) == 0
		return l
	}
	cpLiar := func() EnfPeerPlan {
		return EnfPeerPlan{Class: clCPLiar, Lie: &netsim.Lie{Kind: provable(), Height: int32(1 + r.Intn(lastCP()))}}
	}

	switch p.Kind {
	case kindRace:
		// FIXED scenario (does not depend on the seed beyond the chain
		// contents): the ban of a liar lands while the client is in the
		// middle of a fresh handshake with that same address.
		p.ChainLen = 150
		p.Preset, p.Interval = 0, 8
		honest(2)
		add(EnfPeerPlan{Class: clRaceLiar, Lie: &netsim.Lie{Kind: netsim.LieWrongHash, Height: 75}})
		p.Hold = true
		return p

	case kindCPOnly:
		// FIXED scenario: a peer whose filter CHECKPOINT at height 1000 is
		// false while the cfheaders it serves are the true ones.
		p.ChainLen = 1200
		p.Preset, p.Interval = 0, 8
		honest(2)
		add(EnfPeerPlan{Class: clCPOnly, Lie: &netsim.Lie{Kind: netsim.LieCheckpt, Height: 1000}})
		p.Hold = true
		return p

	case kindOdd:
		// FIXED scenario: one honest peer and one peer whose filter for a
		// block leaves out an output script that does not parse.
		p.ChainLen = 150
		p.Preset, p.Interval = 0, 8
		honest(1)
		add(EnfPeerPlan{Class: clLiar, Lie: &netsim.Lie{Kind: netsim.LieOmitScript, Height: 75}, Odd: true})
		p.Hold = true
		return p

	case kindLone:
		// FIXED scenario: a filter-header liar is the client's ONLY peer
		// during the initial sync (nobody contradicts it); two honest peers
		// are admitted afterwards.
		p.ChainLen = 150
		p.Preset, p.Interval = 0, 8
		add(EnfPeerPlan{Class: clLiar, Lie: &netsim.Lie{Kind: netsim.LieWrongHash, Height: 75}})
		add(EnfPeerPlan{Class: clHonest, Late: true})
		add(EnfPeerPlan{Class: clHonest, Late: true})
		return p

	case kindOnlyLiars:
		wrong := func(h int32) EnfPeerPlan {
			return EnfPeerPlan{Class: clLiar, Lie: &netsim.Lie{Kind: netsim.LieWrongHash, Height: h}}
		}
		if k < enfFixed {
			// Two FIXED scenarios. 4: two peers announce two different false
			// filter hashes for the same block (each serves the true filter,
			// which proves its own announcement false) and nobody else is
			// there; 5: one such liar and a peer that announces the true hash
			// and then answers no filter or block request. Two honest peers
			// are admitted once both are banned.
			p.ChainLen = 150
			p.Preset, p.Interval = 0, 8
			add(wrong(75))
			if k == 4 {
				add(wrong(75))
			} else {
				add(EnfPeerPlan{Class: clMute})
			}
			add(EnfPeerPlan{Class: clHonest, Late: true})
			add(EnfPeerPlan{Class: clHonest, Late: true})
			p.Hold = true
			return p
		}
		// Seeded: 2-3 peers none of which can back up what it announced
		// about one block (the lies are all self-contradicting or unserved:
		// a liar whose filter matches its false hash would simply be
		// believed once the others are gone, the lone-liar finding).
		p.ChainLen = tipLen
		h := int32(1 + r.Intn(p.ChainLen))
		unserved := EnfPeerPlan{Class: clLiar, Lie: &netsim.Lie{Kind: netsim.LieUnserved, Height: h}}
		mute := EnfPeerPlan{Class: clMute}
		add(wrong(h))
		switch r.Intn(6) {
		case 0:
			add(wrong(h))
		case 1:
			add(unserved)
		case 2:
			add(mute)
		case 3:
			add(wrong(h))
			add(wrong(h))
		case 4:
			add(wrong(h))
			add(mute)
		case 5:
			add(unserved)
			add(mute)
		}
		for i, n := 0, 1+r.Intn(2); i < n; i++ {
			add(EnfPeerPlan{Class: clHonest, Late: true})
		}
		if r.Intn(3) == 0 {
			sl := slow()
			sl.Late = true
			add(sl)
		}

	case kindSvc:
		p.ChainLen = tipLen
		honest(1 + r.Intn(2))
		n := 0
		for _, c := range []string{clNoCF, clNoWit, clNoBoth} {
			if r.Intn(5) < 3 {
				add(EnfPeerPlan{Class: c})
				n++
			}
		}
		if n == 0 {
			add(noSvc())
		}
		if r.Intn(3) == 0 {
			add(stale())
		}
		if r.Intn(3) == 0 {
			add(slow())
		}

	case kindLiar:
		p.ChainLen = tipLen
		honest(1 + r.Intn(2))
		for i, n := 0, 1+r.Intn(2); i < n; i++ {
			add(tipLiar())
		}
		if r.Intn(2) == 0 {
			add(noSvc())
		}
		if r.Intn(3) == 0 {
			add(slow())
		}

	case kindLiarCP:
		p.ChainLen = cpLen
		honest(1 + r.Intn(2))
		add(cpLiar())
		if r.Intn(3) == 0 && p.ChainLen > lastCP() {
			add(tipLiar())
		}
		if r.Intn(3) == 0 {
			add(noSvc())
		}

	case kindBlock:
		p.ChainLen = tipLen
		honest(1 + r.Intn(2))
		add(bad())
		if r.Intn(2) == 0 {
			add(noSvc())
		}
		if r.Intn(3) == 0 {
			add(stale())
		}

	case kindLate:
		p.ChainLen = tipLen
		honest(1 + r.Intn(2))
		l := tipLiar()
		l.Late = true
		add(l)
		if r.Intn(3) == 0 {
			add(noSvc())
		}
		if r.Intn(3) == 0 {
			add(slow())
		}

	case kindBatch:
		p.ChainLen = cpLen
		honest(1 + r.Intn(2))
		bl := cpLiar()
		bl.Class = clBatchLiar
		add(bl)
		if r.Intn(3) == 0 {
			add(noSvc())
		}

	case kindCtl:
		// Negative control: nobody misbehaves; nobody may end up banned.
		p.ChainLen = tipLen
		if r.Intn(4) == 0 {
			p.ChainLen = cpLen
		}
		honest(2 + r.Intn(2))
		add(stale())
		add(slow())
		add(EnfPeerPlan{Class: clFlaky})

	case kindMixed, kindMixCP:
		p.ChainLen = tipLen
		if p.Kind == kindMixCP {
			p.ChainLen = cpLen
		}
		honest(1 + r.Intn(2))
		liars := 0
		if p.Kind == kindMixCP {
			add(cpLiar())
			liars++
		}
		for i, n := 0, 3+r.Intn(3); i < n && len(p.Peers) < 8; i++ {
			switch r.Intn(8) {
			case 0, 1:
				add(noSvc())
			case 2, 3:
				if liars < 2 && p.ChainLen > lastCP() {
					add(tipLiar())
					liars++
				} else {
					add(noSvc())
				}
			case 4:
				if !p.has(clBadBlock) {
					add(bad())
				} else {
					add(slow())
				}
			case 5:
				add(stale())
			case 6:
				add(slow())
			case 7:
				if !p.has(clFlaky) {
					add(EnfPeerPlan{Class: clFlaky})
				} else {
					add(stale())
				}
			}
		}
	}
	r.Shuffle(len(p.Peers), func(i, j int) { p.Peers[i], p.Peers[j] = p.Peers[j], p.Peers[i] })
	if r.Intn(2) == 0 {
		p.First = r.Intn(len(p.Peers))
		if p.Peers[p.First].Late {
			p.First = -1
		}
	}
	if p.Kind == kindBatch {
		// The batch liar alone first: its (true) checkpoints are the ones
		// the client works with, and the batch request can only go to it.
		for i, pp := range p.Peers {
			if pp.Class == clBatchLiar {
				p.First, p.AdmitOn = i, "banned"
			}
		}
	}
	p.Hold = r.Intn(4) != 0 && p.Kind != kindBatch // (the others only come in once the batch liar is banned)
	if p.has(clBadBlock) {
		p.GetBlocks = len(p.Peers) + 2
	}
	if p.Kind == kindOnlyLiars {
		// Every peer of the first phase must be in before the client asks
		// "all peers" for filter headers.
		p.First, p.AdmitOn, p.Hold = -1, "", true
	}
	return p
}

// ---------------------------------------------------------------------------

// headerCheckpoint: chains of the checkpointed class carry one block-header
// checkpoint at this height. The client does not consider its block headers
// synced below it, so the filter-header sync deterministically starts on the
// CHECKPOINTED path (getcfcheckpt from all peers, then batches) instead of
// racing the first headers message (with a genesis block only hours old the
// client is "current" at height 0 and would otherwise often fetch everything
// on the at-tip path).
const headerCheckpoint = 1000

// growReserve blocks beyond the initial tip are generated up front: the
// generator's maps are not safe for writing while the peers answer from them.
const growReserve = 14

// enfPeer is one built peer with what the oracle needs to know about it.
type enfPeer struct {
	Plan EnfPeerPlan
	P    *netsim.Peer
	Liar *netsim.Liar
	Bad  *badBlocks
	// full: serves the whole best chain (everything but stale peers).
	full bool
	// flaky / race-liar bookkeeping
	rxN  atomic.Int64
	lied atomic.Bool
}

// badBlocks is the behaviour of the invalid-block server.
type badBlocks struct {
	Mut    string
	mu     sync.Mutex
	served map[chainhash.Hash]string // block hash -> mutation actually applied
}

func (b *badBlocks) snapshot() map[chainhash.Hash]string {
	b.mu.Lock()
	defer b.mu.Unlock()
	out := make(map[chainhash.Hash]string, len(b.served))
	for k, v := range b.served {
		out[k] = v
	}
	return out
}

// mutateBlock returns a copy of blk with the SAME header and altered
// transactions, and the mutation that was applied.
func mutateBlock(blk *wire.MsgBlock, mut string) (*wire.MsgBlock, string) {
	nb := &wire.MsgBlock{Header: blk.Header}
	for _, tx := range blk.Transactions {
		nb.Transactions = append(nb.Transactions, tx.Copy())
	}
	n := len(nb.Transactions)
	switch mut {
	case mutWitness:
		for i := 1; i < n; i++ {
			for _, in := range nb.Transactions[i].TxIn {
				for _, item := range in.Witness {
					if len(item) > 0 {
						item[len(item)/2] ^= 0x01
						return nb, mutWitness
					}
				}
			}
		}
	case mutDrop:
		if n >= 2 {
			nb.Transactions = nb.Transactions[:n-1]
			return nb, mutDrop
		}
	}
	// Fallback (and mutValue): change one output value of the last tx.
	last := nb.Transactions[n-1]
	for _, o := range last.TxOut {
		if o.Value > 0 {
			o.Value--
			return nb, mutValue
		}
	}
	last.TxOut[0].Value++
	return nb, mutValue
}

func (b *badBlocks) mutate(p *netsim.Peer, req wire.Message, honest []wire.Message) []wire.Message {
	if _, ok := req.(*wire.MsgGetData); !ok {
		return honest
	}
	out := make([]wire.Message, 0, len(honest))
	for _, m := range honest {
		blk, ok := m.(*wire.MsgBlock)
		if !ok {
			out = append(out, m)
			continue
		}
		nb, applied := mutateBlock(blk, b.Mut)
		b.mu.Lock()
		b.served[blk.Header.BlockHash()] = applied
		b.mu.Unlock()
		out = append(out, nb)
	}
	return out
}

// enfWorld is a built scenario.
type enfWorld struct {
	Plan  EnfPlan
	W     *l2.World
	Trunk []*chaingen.Node // Trunk[i] has height i+1; includes the growth reserve
	Peers []*enfPeer
	tipMu sync.Mutex
	tip   *chaingen.Node
	grown int
	// onBanSeen is told when a scripted peer itself saw IsBanned turn true.
	onBanSeen func(addr string)
	// isBanSeen: has the run already seen this address banned?
	isBanSeen func(addr string) bool
}

func (e *enfWorld) Tip() *chaingen.Node { e.tipMu.Lock(); defer e.tipMu.Unlock(); return e.tip }

// buildEnf creates world, chain and peers (client not started). It may adjust
// lie heights/kinds to blocks where the lie can be told; the adjusted plan is
// what the evidence shows.
func buildEnf(p EnfPlan) *enfWorld {
	total := p.ChainLen + growReserve
	span := time.Duration(total+400) * 6 * time.Second
	if span < 2*time.Hour {
		span = 2 * time.Hour
	}
	if span > 20*time.Hour {
		span = 20 * time.Hour
	}
	w := l2.NewWorld(l2.Config{Seed: p.Seed, Preset: p.Preset, Interval: p.Interval, SpacingSec: 4, GenesisAgo: span})
	trunk := w.G.Extend(w.G.Genesis, total, chaingen.PaceNormal)
	tip := trunk[p.ChainLen-1]
	e := &enfWorld{Plan: p, W: w, Trunk: trunk, tip: tip}
	if p.checkpointed() {
		w.G.SetCheckpoints(tip, headerCheckpoint)
	}

	for i := range p.Peers {
		pp := &e.Plan.Peers[i]
		ep := &enfPeer{Plan: *pp, full: true}
		switch pp.Class {
		case clHonest:
			ep.P = w.AddPeer(tip)
		case clSlow:
			ep.P = w.AddPeer(tip)
			ep.P.Delay = time.Duration(pp.DelayMs) * time.Millisecond
		case clStale:
			ep.P = w.AddPeer(tip.Ancestor(pp.At))
			ep.full = false
		case clFlaky:
			ep.P = w.AddPeer(tip)
			ep.P.OnMsg = func(_ *netsim.Peer, _ wire.Message) bool {
				// Merely disconnect: once, while answering its third request.
				if ep.rxN.Add(1) == 3 {
					go ep.P.Disconnect()
				}
				return false
			}
		case clMute:
			ep.P = w.AddPeer(tip)
			ep.P.Mutate = func(_ *netsim.Peer, req wire.Message, honest []wire.Message) []wire.Message {
				switch req.(type) {
				case *wire.MsgGetCFilters, *wire.MsgGetData:
					return nil
				}
				return honest
			}
		case clNoCF:
			ep.P = w.AddPeer(tip)
			ep.P.Services = wire.SFNodeNetwork | wire.SFNodeWitness
		case clNoWit:
			ep.P = w.AddPeer(tip)
			ep.P.Services = wire.SFNodeNetwork | wire.SFNodeCF
		case clNoBoth:
			ep.P = w.AddPeer(tip)
			ep.P.Services = wire.SFNodeNetwork
		case clLiar, clCPLiar, clRaceLiar, clCPOnly, clBatchLiar:
			e.fitLie(pp)
			ep.Plan = *pp
			ep.P = w.AddLiar(tip, *pp.Lie)
			ep.Liar = w.Liars[ep.P.Addr]
			if pp.Class == clRaceLiar {
				e.armRaceLiar(ep)
			}
			if pp.Class == clBatchLiar {
				inner := ep.Liar.Mutate
				ep.P.Mutate = func(p *netsim.Peer, req wire.Message, honest []wire.Message) []wire.Message {
					if _, ok := req.(*wire.MsgGetCFCheckpt); ok {
						return honest // the TRUE checkpoints
					}
					return inner(p, req, honest)
				}
			}
		case clBadBlock:
			ep.P = w.AddPeer(tip)
			ep.Bad = &badBlocks{Mut: pp.BlockMut, served: map[chainhash.Hash]string{}}
			ep.P.Mutate = ep.Bad.mutate
		default:
			panic("unknown class " + pp.Class)
		}
		if ep.P.PreVersion == nil {
			e.armAnnounceWhenBanned(ep)
		}
		e.Peers = append(e.Peers, ep)
	}
	return e
}

// armAnnounceWhenBanned makes a peer that is already known to be banned push:
// on every connection the client lets it complete a handshake on, it at once
// announces a block the client does not know (an unsolicited inv, which the
// client normally answers with getheaders). On the unchanged client such a
// connection never gets as far as the peer's version message, so this does
// nothing; it only makes "a later connection to a banned address carries no
// request" a sharper observation than waiting for the client's own next
// query.
func (e *enfWorld) armAnnounceWhenBanned(ep *enfPeer) {
	ep.P.PreVersion = func(p *netsim.Peer) {
		if e.isBanSeen == nil || !e.isBanSeen(p.Addr) {
			return
		}
		c := p.Conn()
		if c == nil {
			return
		}
		go func() {
			l2.WaitFor(3*time.Second, func() bool { return c.Dead() || p.IsReady() })
			if c.Dead() {
				return
			}
			tip := e.Tip()
			if int(tip.Height) < len(e.Trunk) {
				p.AnnounceInv(e.Trunk[tip.Height]) // the block after the current tip
			}
		}()
	}
}

// fitLie moves an omit-script lie to the nearest block (inside the same
// region of the chain) that has a script which can be omitted, or turns it
// into a wrong-hash lie when there is none.
func (e *enfWorld) fitLie(pp *EnfPeerPlan) {
	if pp.Lie.Kind != netsim.LieOmitScript {
		return
	}
	lo, hi := int32(1), int32(e.Plan.ChainLen)
	if e.Plan.checkpointed() {
		last := int32(e.Plan.ChainLen / wire.CFCheckptInterval * wire.CFCheckptInterval)
		if pp.Class == clCPLiar || pp.Class == clBatchLiar {
			hi = last
		} else {
			lo = last + 1
		}
	}
	if pp.Odd {
		for d := int32(0); d <= hi-lo; d++ {
			for _, h := range []int32{pp.Lie.Height + d, pp.Lie.Height - d} {
				if h < lo || h > hi {
					continue
				}
				if sc := netsim.OmittableScript(e.Trunk[h-1]); sc != nil && txscript.IsUnspendable(sc) {
					pp.Lie.Height = h
					return
				}
			}
		}
		pp.Odd = false
	}
	for d := int32(0); d <= hi-lo; d++ {
		for _, h := range []int32{pp.Lie.Height + d, pp.Lie.Height - d} {
			if h < lo || h > hi {
				continue
			}
			if netsim.OmittableScript(e.Trunk[h-1]) != nil {
				pp.Lie.Height = h
				return
			}
		}
	}
	pp.Lie.Kind = netsim.LieWrongHash
}

// armRaceLiar: after its lie was sent, the liar drops its connection on the
// next message it receives (the client's filter request of the conflict
// resolution), and on every later connection it holds its own version message
// back until the client reports the address banned. The client therefore
// finds itself in the middle of a handshake with the address at the moment
// the ban is recorded.
func (e *enfWorld) armRaceLiar(ep *enfPeer) {
	inner := ep.Liar.Mutate
	ep.P.Mutate = func(p *netsim.Peer, req wire.Message, honest []wire.Message) []wire.Message {
		out := inner(p, req, honest)
		if _, ok := req.(*wire.MsgGetCFHeaders); ok && len(ep.Liar.ToldSnapshot()) > 0 {
			ep.lied.Store(true)
		}
		return out
	}
	var dropped atomic.Bool
	ep.P.OnMsg = func(p *netsim.Peer, m wire.Message) bool {
		if _, ping := m.(*wire.MsgPing); ping {
			return false
		}
		if ep.lied.Load() && dropped.CompareAndSwap(false, true) {
			p.Disconnect()
			return true
		}
		return false
	}
	ep.P.PreVersion = func(p *netsim.Peer) {
		if !dropped.Load() {
			return
		}
		if l2.WaitFor(25*time.Second, func() bool {
			svc := e.W.Svc
			return svc != nil && svc.IsBanned(p.Addr)
		}) && e.onBanSeen != nil {
			// Put the sighting on the log's sequence BEFORE this peer's
			// version goes out: whatever the client does with this
			// connection from here on, it does after the ban was recorded.
			e.onBanSeen(p.Addr)
		}
	}
}

// grow moves every full-chain peer n blocks up the pre-generated trunk and
// lets the honest ones announce the new tip. Returns false when the reserve
// is used up.
func (e *enfWorld) grow(n int) bool {
	e.tipMu.Lock()
	h := int(e.tip.Height) + n
	if h > len(e.Trunk) {
		e.tipMu.Unlock()
		return false
	}
	nt := e.Trunk[h-1]
	e.tip = nt
	e.grown += n
	style := e.grown
	e.tipMu.Unlock()
	for _, ep := range e.Peers {
		if ep.full {
			ep.P.View.SetTip(nt)
		}
	}
	for _, ep := range e.Peers {
		switch ep.Plan.Class {
		case clHonest, clSlow, clFlaky:
			if c := ep.P.Conn(); c == nil || c.Dead() {
				continue
			}
			if style%2 == 0 {
				ep.P.AnnounceInv(nt)
			} else {
				ep.P.AnnounceHeaders(nt)
			}
		}
	}
	return true
}
