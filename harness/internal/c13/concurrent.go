package c13

import (
	"fmt"
	"net"
	"os"
	"path/filepath"
	"sync"
	"time"

	"github.com/btcsuite/btcwallet/walletdb"
	_ "github.com/btcsuite/btcwallet/walletdb/bdb"
	"github.com/lightninglabs/neutrino/banman"

	"verif/internal/evid"
)

// runConcurrentSet: callers of the ban store run concurrently in the client
// (status queries from the peer handler and the address filter, bans from
// query workers, the block manager and version callbacks). Each round leaves a
// LAPSED record of one network in the file, then one goroutine bans that
// network for an hour while others query it. Whatever the interleaving, the
// ban issued last is in force when everybody has returned, and no query
// reports anything but "not banned" or that ban.
func runConcurrentSet(r *evid.Run, dir string, rounds int) {
	path := filepath.Join(dir, "c13-concurrent.db")
	db, err := walletdb.Create("bdb", path, true, 10*time.Second, false)
	if err != nil {
		r.Inconclusive("concurrent set: " + err.Error())
		return
	}
	defer func() { db.Close(); os.Remove(path) }()
	st, err := banman.NewStore(db)
	if err != nil {
		r.Inconclusive("concurrent set: " + err.Error())
		return
	}
	for i := 0; i < rounds; i++ {
		ip := net.IPv4(10, 77, byte(i/250), byte(1+i%250))
		nw := &net.IPNet{IP: ip, Mask: net.CIDRMask(32, 32)}
		old, fresh := banman.ExceededBanThreshold, banman.InvalidBlock
		if err := st.BanIPNet(nw, old, -time.Hour); err != nil {
			r.Inconclusive("concurrent set: " + err.Error())
			return
		}
		readers := 1 + i%3
		var wg sync.WaitGroup
		start := make(chan struct{})
		var mu sync.Mutex
		var odd []string
		for q := 0; q < readers; q++ {
			wg.Add(1)
			go func() {
				defer wg.Done()
				<-start
				for k := 0; k < 2; k++ {
					s, err := st.Status(nw)
					if err != nil || (s.Banned && s.Reason != fresh) {
						mu.Lock()
						odd = append(odd, fmt.Sprintf("Status during the race: banned=%v reason=%v err=%v", s.Banned, s.Reason, err))
						mu.Unlock()
					}
				}
			}()
		}
		wg.Add(1)
		var banErr error
		go func() {
			defer wg.Done()
			<-start
			banErr = st.BanIPNet(nw, fresh, time.Hour)
		}()
		close(start)
		wg.Wait()
		r.Case(fmt.Sprintf("concurrent|lapsed-record|readers=%d", readers), true)
		r.Count("concurrent_rounds", 1)
		if banErr != nil {
			r.Inconclusive("concurrent set: ban failed: " + banErr.Error())
			continue
		}
		s, err := st.Status(nw)
		witness := map[string]any{"network": nw.String(), "readers": readers, "round": i, "during": odd}
		switch {
		case err != nil:
			r.Violation(evid.Sig("status-error", "concurrent"), "Status failed after a ban raced status queries: "+err.Error(), witness)
		case !s.Banned || s.Reason != fresh:
			r.Violation(evid.Sig("ban-lost", "concurrent", "lapsed-record-collected-by-racing-status"),
				fmt.Sprintf("%s was banned for an hour (reason %v) while %d goroutine(s) queried its status (a lapsed earlier record was still in the file); after every call had returned Status reports banned=%v reason=%v",
					nw, fresh, readers, s.Banned, s.Reason), witness)
		case len(odd) > 0:
			r.Violation(evid.Sig("status-flag", "concurrent", "stale-record-reported"), odd[0], witness)
		}
	}
}
