package c13

import (
	"net/netip"
	"time"
)

// rec is what the model remembers about the last BanIPNet on one record.
type rec struct {
	Reason   uint8
	Dur      time.Duration
	DurClass string
	Lapsed   bool // duration <= 0: lapsed from the start; hours/huge never lapse during a run

	// Bracket of the BanIPNet call on the process clock (monotonic reading
	// attached); used only by the loose expiry sanity rule.
	T0, T1 time.Time

	// First Expiration reported by Status for this ban (zero until seen).
	SeenExp time.Time

	Queried   bool   // some Status looked at this record since the ban
	BanSpell  string // spelling kind used by the ban
	BanOpIdx  int
	Reopened  bool // a close/reopen happened after the ban
	Overwrote bool // the ban replaced an existing record
}

// Bans is the reference model (the design's ref.Bans): a map keyed by the
// canonical netip.Prefix of (unmapped address, mask). Semantics, read off the
// store's code and documentation:
//
//   - BanIPNet replaces any record of the same network (reason and expiry of
//     the LAST ban count);
//   - UnbanIPNet removes the record; lifting a ban that does not exist is a
//     silent no-op;
//   - Status answers per exact (network address, mask) record — a host inside
//     a banned /24 is not thereby banned under its /32 record;
//   - a record is banned iff it exists and its ban has not lapsed; the lazy
//     deletion of lapsed records by Status is not observable and not modelled;
//   - closing and reopening the database changes nothing.
type Bans struct {
	m map[netip.Prefix]*rec
	// keys touched by any scripted op or comparison since the last reopen
	sinceReopen map[netip.Prefix]bool
}

func NewBans() *Bans {
	return &Bans{m: map[netip.Prefix]*rec{}, sinceReopen: map[netip.Prefix]bool{}}
}

func (b *Bans) Ban(k netip.Prefix, r *rec) {
	if old, ok := b.m[k]; ok {
		r.Overwrote = true
		_ = old
	}
	b.m[k] = r
}

func (b *Bans) Unban(k netip.Prefix) (existed bool) {
	_, existed = b.m[k]
	delete(b.m, k)
	return existed
}

func (b *Bans) Get(k netip.Prefix) *rec { return b.m[k] }

// Reopen notes a close/reopen; it returns how many records exist and how many
// of them are lapsed bans that no Status has looked at yet (these are still
// physically in the database and must not resurface as banned).
func (b *Bans) Reopen() (records, lapsedUnqueried int) {
	for _, r := range b.m {
		r.Reopened = true
		records++
		if r.Lapsed && !r.Queried {
			lapsedUnqueried++
		}
	}
	b.sinceReopen = map[netip.Prefix]bool{}
	return
}

// FirstSinceReopen reports whether k has not been touched since the last
// reopen (and marks it touched).
func (b *Bans) FirstSinceReopen(k netip.Prefix) bool {
	if b.sinceReopen[k] {
		return false
	}
	b.sinceReopen[k] = true
	return true
}
