// Package c13 holds the store half of the C13 check: the real banman.Store
// over a real bbolt database is driven with seeded ban / unban / status /
// reopen sequences and every answer is compared with the reference model
// Bans (the design's ref.Bans).
package c13

import (
	"fmt"
	"net"
	"net/netip"
	"strings"
)

// Family of a base address as the Go standard library sees it after
// unmapping: an IPv4-mapped IPv6 spelling belongs to family 4.
func family(a netip.Addr) string {
	if a.Is4() {
		return "v4"
	}
	return "v6"
}

// baseAddrs is the pool of base addresses. Several share /24, /16, /8 (IPv4)
// or /127, /64, /48, /32 (IPv6) prefixes so that wide masks make distinct
// addresses denote one network record. The IPv6 part contains addresses that
// embed 1.2.3.4 WITHOUT being the IPv4-mapped form (IPv4-compatible, NAT64,
// SIIT): these are different IP addresses and must be different records.
var baseAddrs = mustAddrs(
	"1.2.3.4", "1.2.3.77", "1.2.200.9", "1.77.0.1", "10.0.0.1", "127.0.0.1",
	"192.168.1.1", "172.217.6.46", "0.0.0.0", "255.255.255.255", "100.64.0.255",
	"2001:db8::1", "2001:db8::2", "2001:db8::3", "2001:db8:0:1::1",
	"2001:db8:a0b:12f0::1", "2001:db8:0:0:1:0:0:1", "::1", "::", "fe80::1:2",
	"::102:304", "64:ff9b::102:304", "1:2:3:4:5:6:7:8",
	"ffff:ffff:ffff:ffff:ffff:ffff:ffff:ffff", "0:0:0:0:ffff:0:102:304",
)

func mustAddrs(ss ...string) []netip.Addr {
	out := make([]netip.Addr, len(ss))
	for i, s := range ss {
		a := netip.MustParseAddr(s)
		if a.Unmap() != a {
			panic("base address must not be IPv4-mapped: " + s)
		}
		out[i] = a
	}
	return out
}

// Spelling kinds per family. Every kind is a textual form of the SAME IP
// address (checked against net/netip in selfCheckSpellings, independently of
// the code under test).
var (
	v4Kinds = []string{
		"v4", "v4+port", "mapped-dotted", "mapped-dotted-upper",
		"mapped-hex", "mapped-hex-expanded", "mapped-expanded-dotted",
		"mapped-dotted+port", "mapped-hex-upper+port",
	}
	v6Kinds = []string{
		"v6-canon", "v6-expanded", "v6-noleading", "v6-upper",
		"v6-upper-expanded", "v6-altcompress", "v6-dotted-tail",
		"v6-canon+port", "v6-expanded-upper+port",
	}
)

func kindsFor(a netip.Addr) []string {
	if a.Is4() {
		return v4Kinds
	}
	return v6Kinds
}

var ports = []int{8333, 18333, 1, 65535, 18444}

// spell writes address a in the given textual form. port is only used by the
// "+port" kinds.
func spell(a netip.Addr, kind string, port int) string {
	if a.Is4() {
		b := a.As4()
		dotted := fmt.Sprintf("%d.%d.%d.%d", b[0], b[1], b[2], b[3])
		hi := uint16(b[0])<<8 | uint16(b[1])
		lo := uint16(b[2])<<8 | uint16(b[3])
		switch kind {
		case "v4":
			return dotted
		case "v4+port":
			return fmt.Sprintf("%s:%d", dotted, port)
		case "mapped-dotted":
			return "::ffff:" + dotted
		case "mapped-dotted-upper":
			return "::FFFF:" + dotted
		case "mapped-hex":
			return fmt.Sprintf("::ffff:%x:%x", hi, lo)
		case "mapped-hex-expanded":
			return fmt.Sprintf("0000:0000:0000:0000:0000:ffff:%04x:%04x", hi, lo)
		case "mapped-expanded-dotted":
			return "0:0:0:0:0:ffff:" + dotted
		case "mapped-dotted+port":
			return fmt.Sprintf("[::ffff:%s]:%d", dotted, port)
		case "mapped-hex-upper+port":
			return fmt.Sprintf("[::FFFF:%X:%X]:%d", hi, lo, port)
		}
		panic("unknown v4 spelling kind " + kind)
	}

	b := a.As16()
	var g [8]uint16
	for i := range g {
		g[i] = uint16(b[2*i])<<8 | uint16(b[2*i+1])
	}
	join := func(format string, gs []uint16) string {
		parts := make([]string, len(gs))
		for i, v := range gs {
			parts[i] = fmt.Sprintf(format, v)
		}
		return strings.Join(parts, ":")
	}
	canon := a.String()
	switch kind {
	case "v6-canon":
		return canon
	case "v6-expanded":
		return join("%04x", g[:])
	case "v6-noleading":
		return join("%x", g[:])
	case "v6-upper":
		return strings.ToUpper(canon)
	case "v6-upper-expanded":
		return join("%04X", g[:])
	case "v6-altcompress":
		return altCompress(g)
	case "v6-dotted-tail":
		return fmt.Sprintf("%s:%d.%d.%d.%d", join("%x", g[:6]),
			b[12], b[13], b[14], b[15])
	case "v6-canon+port":
		return fmt.Sprintf("[%s]:%d", canon, port)
	case "v6-expanded-upper+port":
		return fmt.Sprintf("[%s]:%d", join("%04X", g[:]), port)
	}
	panic("unknown v6 spelling kind " + kind)
}

// altCompress writes the address with "::" standing for a zero run that is
// NOT the one the canonical (RFC 5952) form picks: the last zero run if there
// are several, otherwise the canonical run shortened by its first group. With
// no zero group at all it degenerates to the uncompressed form.
func altCompress(g [8]uint16) string {
	type run struct{ start, n int }
	var runs []run
	for i := 0; i < 8; {
		if g[i] != 0 {
			i++
			continue
		}
		j := i
		for j < 8 && g[j] == 0 {
			j++
		}
		runs = append(runs, run{i, j - i})
		i = j
	}
	if len(runs) == 0 {
		parts := make([]string, 8)
		for i, v := range g {
			parts[i] = fmt.Sprintf("%x", v)
		}
		return strings.Join(parts, ":")
	}
	// The canonical choice: longest run, leftmost on ties.
	ci := 0
	for i, r := range runs {
		if r.n > runs[ci].n {
			ci = i
		}
	}
	var pick run
	switch {
	case len(runs) > 1 && ci != len(runs)-1:
		pick = runs[len(runs)-1]
	case len(runs) > 1:
		pick = runs[0]
	case runs[0].n >= 2:
		pick = run{runs[0].start + 1, runs[0].n - 1}
	default:
		pick = runs[0]
	}
	hex := func(gs []uint16) string {
		parts := make([]string, len(gs))
		for i, v := range gs {
			parts[i] = fmt.Sprintf("%x", v)
		}
		return strings.Join(parts, ":")
	}
	return hex(g[:pick.start]) + "::" + hex(g[pick.start+pick.n:])
}

// selfCheckSpellings verifies, with net/netip only, that every generated
// spelling of every base address really denotes that IP address (an
// IPv4-mapped IPv6 spelling denotes the IPv4 address: Addr.Unmap). A failure
// is a harness bug, never a finding.
func selfCheckSpellings() error {
	for _, a := range baseAddrs {
		for _, k := range kindsFor(a) {
			s := spell(a, k, 8333)
			var got netip.Addr
			if strings.HasSuffix(k, "+port") {
				ap, err := netip.ParseAddrPort(s)
				if err != nil {
					return fmt.Errorf("spelling %q (%s of %v) is not an addr:port: %v", s, k, a, err)
				}
				got = ap.Addr()
			} else {
				p, err := netip.ParseAddr(s)
				if err != nil {
					return fmt.Errorf("spelling %q (%s of %v) is not an IP address: %v", s, k, a, err)
				}
				got = p
			}
			if got.Zone() != "" || got.Unmap() != a {
				return fmt.Errorf("spelling %q (%s) denotes %v, not %v", s, k, got, a)
			}
		}
	}
	return nil
}

// Mask classes. ones == -1 stands for "no mask given" (nil), the only form
// the client itself produces; every explicit mask is built with net.CIDRMask
// in the byte length of the address family. Mixed-length masks are outside
// the statement and never generated.
var (
	v4Aligned = []int{24, 16, 8}
	v4Odd     = []int{31, 25, 17, 9, 1}
	v6Aligned = []int{64, 48, 32, 96, 120}
	v6Odd     = []int{127, 65, 49, 33, 1}
)

func maskClass(a netip.Addr, ones int) string {
	switch {
	case ones < 0:
		return "default"
	case ones == a.BitLen():
		return "full"
	case ones == 0:
		return "zero"
	case ones%8 == 0:
		return "aligned"
	}
	return "odd"
}

// ipMask builds the mask handed to banman.ParseIPNet.
func ipMask(a netip.Addr, ones int) net.IPMask {
	if ones < 0 {
		return nil
	}
	return net.CIDRMask(ones, a.BitLen())
}

// canonKey is the model's record identity: the canonical prefix of
// (unmapped address, mask).
func canonKey(a netip.Addr, ones int) netip.Prefix {
	if ones < 0 {
		ones = a.BitLen()
	}
	return netip.PrefixFrom(a, ones).Masked()
}
