package c12

import (
	"regexp"
	"runtime"
	"sort"
	"strconv"
	"strings"
)

// Goroutine dumps are the only basis of a "never terminates" verdict of the
// network-level (L2) family: see l2Exec.judgeStuck.

// l2G is one goroutine of a dump.
type l2G struct {
	ID     int
	State  string   // "select", "chan receive", "sync.RWMutex.Lock", "running", ...
	Frames []string // "pkg.func file.go:123", innermost first
}

var l2HdrRe = regexp.MustCompile(`^goroutine (\d+) \[([^\],]+)(?:, [^\]]*)?\]:$`)

// l2DumpAll returns the stacks of all goroutines.
func l2DumpAll() string {
	buf := make([]byte, 1<<20)
	for {
		n := runtime.Stack(buf, true)
		if n < len(buf) {
			return string(buf[:n])
		}
		buf = make([]byte, 2*len(buf))
	}
}

// l2CurGID returns the id of the calling goroutine (parsed from its own stack
// header; used only to find the goroutine again in a dump).
func l2CurGID() int {
	buf := make([]byte, 64)
	n := runtime.Stack(buf, false)
	f := strings.Fields(string(buf[:n]))
	if len(f) >= 2 {
		id, _ := strconv.Atoi(f[1])
		return id
	}
	return -1
}

// l2ParseDump splits a runtime.Stack(all) dump.
func l2ParseDump(s string) map[int]*l2G {
	out := map[int]*l2G{}
	for _, blk := range strings.Split(s, "\n\n") {
		lines := strings.Split(strings.TrimSpace(blk), "\n")
		if len(lines) == 0 {
			continue
		}
		m := l2HdrRe.FindStringSubmatch(strings.TrimSpace(lines[0]))
		if m == nil {
			continue
		}
		id, _ := strconv.Atoi(m[1])
		g := &l2G{ID: id, State: m[2]}
		for i := 1; i < len(lines); i++ {
			l := lines[i]
			if strings.HasPrefix(l, "\t") || strings.HasPrefix(l, "created by ") {
				continue
			}
			fn := l
			if j := strings.LastIndex(fn, "("); j > 0 {
				fn = fn[:j]
			}
			loc := ""
			if i+1 < len(lines) && strings.HasPrefix(lines[i+1], "\t") {
				loc = strings.TrimSpace(lines[i+1])
				if j := strings.Index(loc, " +0x"); j > 0 {
					loc = loc[:j]
				}
				if j := strings.LastIndex(loc, "/"); j >= 0 {
					loc = loc[j+1:]
				}
			}
			g.Frames = append(g.Frames, fn+" "+loc)
		}
		out[id] = g
	}
	return out
}

// key is the comparable shape of a goroutine: state plus every frame with its
// source line.
func (g *l2G) key() string { return g.State + "\n" + strings.Join(g.Frames, "\n") }

// has reports whether some frame contains sub.
func (g *l2G) has(sub string) bool {
	for _, f := range g.Frames {
		if strings.Contains(f, sub) {
			return true
		}
	}
	return false
}

func (g *l2G) moving() bool { return g.State == "running" || g.State == "runnable" }

const (
	l2ClientPkg = "github.com/lightninglabs/neutrino"
	l2QueryPkg  = "github.com/lightninglabs/neutrino/query."
	l2ReadLoop  = "github.com/btcsuite/btcd/peer.(*Peer).inHandler"
)

// innerClientFunc returns the innermost frame (function name only, package
// path shortened) that belongs to the client's own module: where the goroutine
// is parked.
func (g *l2G) innerClientFunc() string {
	for _, f := range g.Frames {
		if strings.HasPrefix(f, l2ClientPkg) {
			fn := strings.Fields(f)[0]
			fn = strings.TrimPrefix(fn, l2ClientPkg)
			return strings.TrimLeft(fn, "./")
		}
	}
	return "none"
}

// top returns the first n frames.
func (g *l2G) top(n int) []string {
	if len(g.Frames) < n {
		n = len(g.Frames)
	}
	return append([]string{g.State}, g.Frames[:n]...)
}

// l2Census lists where the goroutines that run client code are parked.
func l2Census(d map[int]*l2G) []string {
	c := map[string]int{}
	for _, g := range d {
		if fn := g.innerClientFunc(); fn != "none" {
			c[g.State+" @ "+fn]++
		}
	}
	var out []string
	for k, n := range c {
		out = append(out, strconv.Itoa(n)+"x "+k)
	}
	sort.Strings(out)
	return out
}
