package c12

// Family "idlestall": batches submitted with the ProgressTimeout option (plus
// Timeout / NumRetries / NoRetryMax in every combination, several batches at
// once) that first make progress — 0, 1 or k of their requests are answered —
// and then stall for good: every peer closes OnDisconnect on the next request
// it receives, leaves while holding it, or stays connected and never answers
// again. From then on nothing the dispatcher could react to arrives any more
// (no peer: no job result at all; silent peers: nothing but worker timeouts),
// so the batch's idle timer is the only thing that can give it its verdict.
//
// Oracle (the property's: every batch gets exactly one verdict; a batch with an
// idle timeout that stops making progress gets it): the verdict has to arrive.
// "It did not" is never concluded from the wall clock alone, see
// awaitIdleVerdicts and evalIdleStall.

import (
	"fmt"
	"math/rand"
	"sort"
	"strings"
	"sync"
	"time"

	"github.com/lightninglabs/neutrino/query"
)

var (
	// IdleStallWatchdog: complete silence in the scenario (no harness event)
	// for this long, while a batch with an idle timeout of at most 300 ms is
	// still without a verdict. Typical wait: the idle timeout itself.
	IdleStallWatchdog = 12 * time.Second
	// IdleRefTimers: in addition the harness's own timer of the batch's idle
	// duration must have fired this many times in a row, each armed after the
	// previous one fired and all after the last event of the scenario.
	IdleRefTimers = 20
)

const hourMs = 3600 * 1000

// idleWd is what the idle-stall watchdog recorded for one batch.
type idleWd struct {
	seq       int
	line      string
	parked    bool
	stack     string
	connected []string // peer instances taken by the dispatcher and not disconnected
	refTimers int
	refDur    time.Duration
	quietMs   int64
}

// GenerateIdleStall returns m scenarios of the idle-stall family with ids
// firstID.. ; scenario j depends only on (seed, j). The first two are fixed
// (seed-independent).
func GenerateIdleStall(seed int64, m, firstID int) []Scenario {
	out := make([]Scenario, 0, m)
	for j := 0; j < m; j++ {
		var sc Scenario
		switch j {
		case 0:
			// One peer answers request 1, receives request 2 and
			// disconnects. Unlimited retries, hard timeout far away: only
			// the idle timer can end the batch.
			sc = Scenario{
				Kind: "idlestall", Stall: "disconnect",
				Peers: []PeerSpec{{
					Name: "p0", Addr: "10.0.3.1:8333", Connect: Trigger{Kind: "start"},
					Script: []Outcome{{Kind: OAnswer}, {Kind: ODisconnect}},
				}},
				Batches: []BatchSpec{{
					NReq: 3, Submit: Trigger{Kind: "start"},
					Opt: OptSpec{Retries: -1, NoRetryMax: true, HardMs: hourMs, IdleMs: 200},
				}},
			}
		case 1:
			// Two batches at once on one peer that answers three requests
			// and then stays connected without ever answering again: the
			// first batch completes, the second has one success and stalls
			// with its second request at the silent peer.
			sc = Scenario{
				Kind: "idlestall", Stall: "silent",
				Peers: []PeerSpec{{
					Name: "p0", Addr: "10.0.3.1:8333", Connect: Trigger{Kind: "start"},
					Script:     []Outcome{{Kind: OAnswer}, {Kind: OPartial, N: 2}, {Kind: OAnswer}},
					TailSilent: true,
				}},
				Batches: []BatchSpec{
					{NReq: 2, Submit: Trigger{Kind: "start"},
						Opt: OptSpec{Retries: 3, HardMs: hourMs, IdleMs: 100}},
					{NReq: 3, Submit: Trigger{Kind: "deliveries", N: 1, FallbackMs: 2000},
						Opt: OptSpec{Retries: -1, NoRetryMax: true, HardMs: 20000, IdleMs: 100}},
				},
			}
		default:
			rng := rand.New(rand.NewSource(seed*1_000_003 + int64(j)*104_729 + 991))
			sc = genIdleStall(rng)
		}
		sc.ID = firstID + j
		out = append(out, sc)
	}
	return out
}

func genIdleStall(rng *rand.Rand) Scenario {
	sc := Scenario{Kind: "idlestall"}
	sc.Stall = []string{"disconnect", "leave", "silent", "mixed"}[pickW(rng, 40, 15, 25, 20)]
	stays := sc.Stall == "silent" || sc.Stall == "mixed"

	// Batches: 1-3, most with an idle timeout.
	idles := []int{50, 100, 200, 300}
	if stays {
		// The rule for peers that stay connected counts worker timeouts
		// (2 s each) against the idle timeout: keep the ratio large.
		idles = []int{50, 100, 200}
	}
	nb := 1 + pickW(rng, 45, 35, 20)
	for i := 0; i < nb; i++ {
		o := OptSpec{Retries: -1}
		switch pickW(rng, 45, 20, 35) {
		case 0:
			o.NoRetryMax = true
			if rng.Intn(4) == 0 {
				o.Retries = 1 + rng.Intn(3) // must have no effect
			}
		case 2:
			o.Retries = 1 + rng.Intn(3)
		}
		// (Timeout(0) means "already expired": the first job result ends the
		// batch.)
		switch pickW(rng, 40, 25, 5, 15, 15) {
		case 0:
			o.HardMs = hourMs
		case 2:
			o.HardMs = -1
		case 3:
			o.HardMs = []int{40, 300}[rng.Intn(2)]
		case 4:
			o.HardMs = 20000
		}
		if i == 0 || rng.Intn(100) < 80 {
			o.IdleMs = idles[rng.Intn(len(idles))]
		}
		b := BatchSpec{Opt: o, NReq: 1 + rng.Intn(5), Submit: Trigger{Kind: "start"}}
		if i == 0 && b.NReq < 2 {
			b.NReq = 2
		}
		if i > 0 {
			switch pickW(rng, 55, 30, 15) {
			case 1:
				b.Submit = Trigger{Kind: "deliveries", N: 1 + rng.Intn(3), FallbackMs: 10 + rng.Intn(40)}
			case 2:
				b.Submit = Trigger{Kind: "sleep", N: rng.Intn(25)}
			}
		}
		sc.Batches = append(sc.Batches, b)
	}

	// Successes before the stall, counted in the batch the stall falls into
	// (batch t; the batches before it are served completely if they were
	// submitted first): none, one, or several — always fewer than that batch
	// has requests, so that something is left unanswered.
	t := rng.Intn(nb)
	if sc.Batches[t].Opt.IdleMs == 0 {
		t = 0
	}
	in := 0
	switch pickW(rng, 12, 33, 55) {
	case 1:
		in = 1
	case 2:
		in = 2 + rng.Intn(3)
	}
	if sc.Batches[t].NReq <= in {
		sc.Batches[t].NReq = in + 1 + rng.Intn(2)
	}
	k := in
	for i := 0; i < t; i++ {
		k += sc.Batches[i].NReq
	}
	np := 1 + pickW(rng, 50, 30, 20)
	share := make([]int, np)
	for i := 0; i < k; i++ {
		share[rng.Intn(np)]++
	}
	for i := 0; i < np; i++ {
		p := PeerSpec{Name: fmt.Sprintf("p%d", i), Addr: fmt.Sprintf("10.0.3.%d:8333", i+1),
			Connect: Trigger{Kind: "start"}}
		if rng.Intn(100) < 25 {
			p.Connect = Trigger{Kind: "sleep", N: rng.Intn(20)}
		}
		for s := 0; s < share[i]; s++ {
			switch pickW(rng, 55, 20, 25) {
			case 0:
				p.Script = append(p.Script, Outcome{Kind: OAnswer})
			case 1:
				p.Script = append(p.Script, Outcome{Kind: OUnrelated, N: 1 + rng.Intn(3)})
			case 2:
				p.Script = append(p.Script, Outcome{Kind: OPartial, N: 1 + rng.Intn(3)})
			}
		}
		end := sc.Stall
		if end == "mixed" {
			end = []string{"disconnect", "leave", "silent"}[pickW(rng, 40, 15, 45)]
			if i == np-1 {
				end = "silent" // at least one peer stays
			}
		}
		switch end {
		case "disconnect":
			if rng.Intn(3) == 0 {
				p.Script = append(p.Script, Outcome{Kind: OPartialDisconnect, N: 1 + rng.Intn(2)})
			} else {
				p.Script = append(p.Script, Outcome{Kind: ODisconnect})
			}
		case "leave":
			p.TailSilent = true
			if rng.Intn(3) == 0 {
				p.Script = append(p.Script, Outcome{Kind: OPartialSilence, N: 1 + rng.Intn(2)})
			}
			t := Trigger{Kind: "deliveries", N: k + 1 + rng.Intn(np), FallbackMs: 15 + rng.Intn(60)}
			p.Leave = &t
		case "silent":
			p.TailSilent = true
			if rng.Intn(3) == 0 {
				p.Script = append(p.Script, Outcome{Kind: OPartialSilence, N: 1 + rng.Intn(2)})
			}
		}
		sc.Peers = append(sc.Peers, p)
	}
	sc.QueryAfterStop = rng.Intn(4) == 0
	return sc
}

// runIdleStall drives one scenario of the family: everything is set off at its
// trigger, the batches with an idle timeout are awaited, then (unless one of
// them is stuck) the usual probe phase and Stop.
func (st *state) runIdleStall(submits *sync.WaitGroup) {
	var main []*hBatch
	for _, bs := range st.sc.Batches {
		main = append(main, st.newBatch(bs, false))
	}
	for _, p := range st.peers {
		go st.peerActor(p)
	}
	for _, b := range main {
		b := b
		submits.Add(1)
		go func() {
			defer submits.Done()
			st.waitTrigger(b.spec.Submit)
			st.submit(b)
		}()
	}
	for _, p := range st.peers {
		st.waitChan(p.actorDone)
	}
	for _, b := range main {
		st.waitChan(b.queryDone)
	}
	if !st.awaitIdleVerdicts(main) {
		st.probePhase(main)
	}
	st.stop()
}

// awaitIdleVerdicts waits until every submitted batch that has an idle timeout
// has its verdict. It gives up (and reports true) in two situations, neither
// of which is a verdict by itself:
//
//   - evidence: for every batch still open the recorded history already shows
//     that it outlived several complete worker timeouts since its last
//     successful query (idleOutlived): evaluated from the history alone.
//   - watchdog: nothing at all happened in the scenario for IdleStallWatchdog
//     AND the harness's own timer of the longest idle duration fired
//     IdleRefTimers times in a row in that silence. Then the dispatcher
//     goroutine is sampled twice, 2 s apart, and what was seen is stored with
//     every batch still open; evalIdleStall decides.
func (st *state) awaitIdleVerdicts(main []*hBatch) (stuck bool) {
	var idle []*hBatch
	maxD := time.Duration(0)
	for _, b := range main {
		if b.spec.Opt.IdleMs > 0 && isClosed(b.queryDone) {
			idle = append(idle, b)
			if d := time.Duration(b.spec.Opt.IdleMs) * time.Millisecond; d > maxD {
				maxD = d
			}
		}
	}
	if len(idle) == 0 {
		return false
	}
	open := func() []*hBatch { // caller holds st.mu
		var o []*hBatch
		for _, b := range idle {
			if len(b.verdicts) == 0 {
				o = append(o, b)
			}
		}
		return o
	}
	ticks := 0
	st.mu.Lock()
	mark := st.lastEvent
	st.mu.Unlock()
	for {
		// One reference timer of the longest idle duration.
		if st.wait(func() bool { return len(open()) == 0 }, maxD) {
			return false
		}
		select {
		case <-st.done:
			return false
		default:
		}
		st.mu.Lock()
		last := st.lastEvent
		disc := st.discSeqLocked()
		proven := true
		for _, b := range open() {
			if cycles, _ := st.idleOutlived(b, disc); !enoughCycles(cycles, b.spec.Opt.IdleMs) {
				proven = false
			}
		}
		if proven && len(open()) > 0 {
			st.logLocked(Event{K: "idle_stall_outlived_worker_timeouts", B: -1, R: -1})
			st.mu.Unlock()
			return true
		}
		st.mu.Unlock()
		if !last.Equal(mark) {
			mark, ticks = last, 0
			continue
		}
		ticks++
		if ticks >= IdleRefTimers && time.Since(last) >= IdleStallWatchdog {
			break
		}
	}

	line, parked, stack := st.dispatcherParked()
	st.mu.Lock()
	defer st.mu.Unlock()
	var conn []string
	for _, p := range st.peers {
		p.mu.Lock()
		if p.connected && !p.discClosed {
			conn = append(conn, p.spec.Name)
		}
		p.mu.Unlock()
	}
	quiet := time.Since(st.lastEvent).Milliseconds()
	left := open()
	if len(left) == 0 {
		return false
	}
	seq := st.logLocked(Event{K: "idle_stall_watchdog", B: -1, R: -1,
		X: fmt.Sprintf("dispatcher at workmanager.go:%s parked=%v connected=%v ref_timers=%d", line, parked, conn, ticks)})
	for _, b := range left {
		b.idleWd = &idleWd{seq: seq, line: line, parked: parked, stack: stack,
			connected: conn, refTimers: ticks, refDur: maxD, quietMs: quiet}
	}
	return true
}

// discSeqLocked: peer instance -> seq of its disconnect. Caller holds st.mu.
func (st *state) discSeqLocked() map[string]int {
	m := map[string]int{}
	for _, e := range st.log {
		if e.K == "peer_disc" && m[e.P] == 0 {
			m[e.P] = e.Seq
		}
	}
	return m
}

// lastSuccess is the seq of the latest HandleResp call of the batch that
// returned Finished (0: none), and how many requests were answered.
func (b *hBatch) lastSuccess() (seq, answered int) {
	for _, r := range b.reqs {
		if r.finishedSeq != 0 {
			answered++
			if r.finishedSeq > seq {
				seq = r.finishedSeq
			}
		}
	}
	return seq, answered
}

// idleOutlived counts, for the request of the batch where the count is
// largest, the complete worker timeouts the batch demonstrably lived through
// since its last successful query: a delivery of the request (after that
// success) to a peer that never sends the final answer and did not disconnect,
// FOLLOWED BY another delivery of the same request. A worker only hands a
// request to its peer if the batch has not been ended (it checks the batch's
// cancel channels first), and a request at a connected silent peer comes back
// to the dispatcher by nothing but the worker's own timeout (>= 2 s, timers
// never fire early) — so each such pair proves 2 s without a success during
// which the batch stayed alive. lastSeq is the seq of the delivery that closes
// the last counted pair. Caller holds st.mu.
func (st *state) idleOutlived(b *hBatch, disc map[string]int) (cycles, lastSeq int) {
	since, _ := b.lastSuccess()
	for _, r := range b.reqs {
		if r.finishedSeq != 0 {
			continue
		}
		n, last := 0, 0
		for i := 0; i+1 < len(r.deliveries); i++ {
			d, next := r.deliveries[i], r.deliveries[i+1]
			if d.seq < since {
				continue
			}
			if d.outcome != OSilence && d.outcome != OPartialSilence {
				continue
			}
			if ds := disc[d.peer.spec.Name]; ds != 0 && ds < next.seq {
				continue
			}
			n++
			last = next.seq
		}
		if n > cycles {
			cycles, lastSeq = n, last
		}
	}
	return cycles, lastSeq
}

// enoughCycles: the counted worker timeouts (each at least minWorkerTimeout)
// add up to at least twenty idle timeouts, and there are at least two.
func enoughCycles(cycles, idleMs int) bool {
	return cycles >= 2 &&
		time.Duration(cycles)*minWorkerTimeout >= 20*time.Duration(idleMs)*time.Millisecond
}

func succClass(n int) string {
	switch {
	case n == 0:
		return "none"
	case n == 1:
		return "one"
	}
	return "many"
}

// evalIdleStall applies the family's rule. Caller (evaluate) holds st.mu and
// has filled st.discSeq.
func (st *state) evalIdleStall(res *Result, vio func(string, string, map[string]any)) (fpSuffix string) {
	res.Counters["idlestall_scenarios"]++
	classes := map[string]bool{}
	concurrent := 0
	takenSeq := map[string]int{}
	for _, e := range st.log {
		if e.K == "peer_taken" && takenSeq[e.P] == 0 {
			takenSeq[e.P] = e.Seq
		}
	}
	for _, b := range st.batches {
		if b.probe || b.spec.Opt.IdleMs <= 0 || !isClosed(b.queryDone) || b == st.afterStopBatch {
			continue
		}
		concurrent++
		d := time.Duration(b.spec.Opt.IdleMs) * time.Millisecond
		res.Counters["idlestall_batches_with_idle_timeout"]++
		since, answered := b.lastSuccess()
		progressed := "none"
		if answered > 0 {
			progressed = "some"
		}
		unanswered := len(b.reqs) - answered
		var v *verdict
		if len(b.verdicts) > 0 {
			v = &b.verdicts[0]
		}

		// What the stall looked like when the verdict came (or at the end).
		end := len(st.log) + 1
		if v != nil {
			end = v.seq
		}
		connected, silentHeld := 0, 0
		for _, p := range st.peers {
			ts, ds := takenSeq[p.spec.Name], st.discSeq[p.spec.Name]
			if ts != 0 && ts < end && (ds == 0 || ds > end) {
				connected++
			}
		}
		for _, r := range b.reqs {
			if n := len(r.deliveries); r.finishedSeq == 0 && n > 0 && silent(r.deliveries[n-1].outcome) &&
				r.deliveries[n-1].seq < end {
				silentHeld++
			}
		}
		if v != nil && v.err == query.ErrQueryTimeout && unanswered > 0 && v.seq > since {
			classes[succClass(answered)] = true
			res.Counters["idlestall_timeout_verdicts_after_successes_"+succClass(answered)]++
			if answered > 0 {
				switch {
				case connected == 0:
					res.Counters["idlestall_progress_then_stall_judged_no_peer_connected"]++
				case silentHeld > 0:
					res.Counters["idlestall_progress_then_stall_judged_peers_silent"]++
				default:
					res.Counters["idlestall_progress_then_stall_judged_other"]++
				}
			}
		}

		// Rule, part 1 (peers that stay connected and never answer): the
		// batch was still alive after several complete worker timeouts
		// without a success.
		cycles, lastSeq := st.idleOutlived(b, st.discSeq)
		if cycles > 0 && (v == nil || v.seq > lastSeq) {
			extra := map[string]any{
				"batch": b.idx, "idle_timeout_ms": b.spec.Opt.IdleMs,
				"worker_timeouts_outlived_since_last_success": cycles,
				"answered_requests":                           answered,
			}
			if enoughCycles(cycles, b.spec.Opt.IdleMs) {
				vio("idle-timeout-verdict-missing/stall=peers-silent/successes="+progressed+"/opts="+b.optKinds(),
					fmt.Sprintf("batch %d (idle timeout %v, %d of %d requests answered): after its last successful query an unanswered request sat through %d complete worker timeouts (>= %v each) at connected peers that never answered and was handed out again — the batch was still alive >= %v after it last made progress",
						b.idx, d, answered, len(b.reqs), cycles, minWorkerTimeout, time.Duration(cycles)*minWorkerTimeout), extra)
			} else {
				st.incon = append(st.incon, "idle-batch-outlived-one-worker-timeout")
			}
		}

		// Rule, part 2 (nothing can arrive any more): the stall watchdog
		// fired with this batch open.
		wd := b.idleWd
		if wd == nil || (v != nil && v.seq < wd.seq) {
			continue
		}
		extra := map[string]any{
			"batch": b.idx, "idle_timeout_ms": b.spec.Opt.IdleMs, "answered_requests": answered,
			"silence_before_watchdog_ms":               wd.quietMs,
			"harness_timers_fired_in_a_row":            wd.refTimers,
			"harness_timer_duration_ms":                wd.refDur.Milliseconds(),
			"connected_peers_at_watchdog":              wd.connected,
			"dispatcher_parked_at_workmanager_go_line": wd.line,
			"dispatcher_same_statement_in_two_samples": wd.parked,
			"dispatcher_stack":                         wd.stack,
		}
		switch {
		case v != nil && v.err != query.ErrWorkManagerShuttingDown:
			st.incon = append(st.incon, "idle-verdict-arrived-after-stall-watchdog")
		case len(wd.connected) > 0:
			if !enoughCycles(cycles, b.spec.Opt.IdleMs) {
				st.incon = append(st.incon, "idle-stall-watchdog-with-connected-peers")
			}
		case !wd.parked:
			st.incon = append(st.incon, "idle-stall-watchdog-dispatcher-not-parked")
		default:
			how := "Stop then ended it with the shutdown error, so it was still registered"
			if v == nil {
				how = "not even Stop produced a value"
			}
			vio("idle-timeout-verdict-missing/stall=no-peer-connected/successes="+progressed+"/opts="+b.optKinds(),
				fmt.Sprintf("batch %d (idle timeout %v, %d of %d requests answered) got no verdict: every peer had disconnected, nothing happened for %d ms, %d harness timers of %v fired one after the other meanwhile, and the dispatcher goroutine was parked at workmanager.go:%s in two samples 2 s apart; %s",
					b.idx, d, answered, len(b.reqs), wd.quietMs, wd.refTimers, wd.refDur, wd.line, how), extra)
		}
	}
	if concurrent > 1 {
		res.Counters["idlestall_scenarios_with_several_idle_batches"]++
	}
	var cs []string
	for c := range classes {
		cs = append(cs, c)
	}
	sort.Strings(cs)
	if len(cs) == 0 {
		cs = []string{"-"}
	}
	return "/stall=" + st.sc.Stall + "/succ=" + strings.Join(cs, ",")
}
