package c12

// Family "quietreconn": peers that drop their connection WHILE IDLE and come
// back under the same address (what every persistent / --connect / AddPeer
// peer does), with no batch in flight between the disconnect and the
// re-announce, followed by batches for which the re-connected peer is the only
// connected peer able to answer (the others never connected, have left, or
// stay connected without ever answering).
//
// A scenario is a list of steps executed one after the other, each at a
// quiescent point (the previous batch's verdict was read, so every worker's
// result has been handled): connect / leave / reconnect (close the old
// instance's OnDisconnect and offer a NEW Peer object with the same Addr();
// with no pause, with a pause, or — "overlap" — the new object is announced a
// moment before the old one's OnDisconnect is closed, as the real server may do
// when a re-dialled connection completes its handshake before the old
// connection's done handler ran) / batch. It ends with a roll call: a fresh
// peer connects and a batch without any timer and with as many requests as
// there are connected peers is submitted, then Stop.
//
// Oracle (the property's "unanswered requests are re-issued to an available
// peer"; every batch gets its verdict; success when all are answered), judged
// from the recorded history alone, see evalQuiet: a batch that has more
// requests than there are OTHER connected peers, accepted while peer q was
// connected, idle and responsive, cannot end — whatever its verdict — without
// one request having been sent to q: the dispatcher hands out queued requests
// to free workers before it looks at any result or timer.

import (
	"fmt"
	"math/rand"
	"sort"
	"strings"
	"sync"
	"time"

	"github.com/lightninglabs/neutrino/query"
)

// QStep is one step of a quietreconn scenario.
type QStep struct {
	// Op: "connect" (offer Peers[Peer]), "leave" (close its OnDisconnect),
	// "reconnect" (Peers[Peer] is the NEW instance; its ReconnectOf names
	// the old one), "batch".
	Op   string `json:"op"`
	Peer int    `json:"peer,omitempty"`
	// reconnect: pause between closing the old instance's OnDisconnect and
	// offering the new instance.
	GapMs int `json:"gap_ms,omitempty"`
	// reconnect: the new instance is offered first; the old instance's
	// OnDisconnect is closed right after the dispatcher took the new one.
	Overlap bool       `json:"overlap,omitempty"`
	Batch   *BatchSpec `json:"batch,omitempty"`
}

// responsive reports whether the instance answers every request it is sent.
func (p PeerSpec) responsive() bool {
	if p.TailSilent || p.PreDisconnected {
		return false
	}
	for _, o := range p.Script {
		if silent(o.Kind) || disconnects(o.Kind) {
			return false
		}
	}
	return true
}

// GenerateQuietReconnect returns m scenarios of the family with ids firstID..;
// scenario j depends only on (seed, j). The first three are fixed.
func GenerateQuietReconnect(seed int64, m, firstID int) []Scenario {
	out := make([]Scenario, 0, m)
	for j := 0; j < m; j++ {
		var sc Scenario
		switch j {
		case 0:
			// One peer, connected and idle; it disconnects and a new Peer
			// object with the same address is announced; then a 3-request
			// batch with ProgressTimeout(300ms) + Timeout(1h).
			sc = Scenario{
				Kind: "quietreconn", Others: "none",
				Peers: []PeerSpec{
					{Name: "t0", Addr: "10.0.4.1:8333"},
					{Name: "t1", Addr: "10.0.4.1:8333", ReconnectOf: 1},
				},
				Steps: []QStep{
					{Op: "connect", Peer: 0},
					{Op: "reconnect", Peer: 1},
					{Op: "batch", Batch: &BatchSpec{NReq: 3,
						Opt: OptSpec{Retries: -1, HardMs: hourMs, IdleMs: 300}}},
				},
			}
		case 1:
			// Two peers serve a batch; the second one leaves while idle, the
			// first one re-connects twice in a row; then a batch with
			// unlimited retries and no timer at all (what the block manager
			// uses for filter headers).
			sc = Scenario{
				Kind: "quietreconn", Others: "gone",
				Peers: []PeerSpec{
					{Name: "t0", Addr: "10.0.4.1:8333", Script: []Outcome{{Kind: OPartial, N: 2}}},
					{Name: "o0", Addr: "10.0.4.2:8333"},
					{Name: "t1", Addr: "10.0.4.1:8333", ReconnectOf: 1},
					{Name: "t2", Addr: "10.0.4.1:8333", ReconnectOf: 3},
				},
				Steps: []QStep{
					{Op: "connect", Peer: 0},
					{Op: "connect", Peer: 1},
					{Op: "batch", Batch: &BatchSpec{NReq: 4, Opt: OptSpec{Retries: -1}}},
					{Op: "leave", Peer: 1},
					{Op: "reconnect", Peer: 2, GapMs: 3},
					{Op: "reconnect", Peer: 3},
					{Op: "batch", Batch: &BatchSpec{NReq: 2,
						Opt: OptSpec{Retries: -1, NoRetryMax: true, HardMs: hourMs}}},
				},
			}
		case 2:
			// The new connection is announced before the old one is reported
			// gone; another peer stays connected and never answers.
			sc = Scenario{
				Kind: "quietreconn", Others: "silent",
				Peers: []PeerSpec{
					{Name: "t0", Addr: "10.0.4.1:8333"},
					{Name: "t1", Addr: "10.0.4.1:8333", ReconnectOf: 1},
					{Name: "s0", Addr: "10.0.4.2:8333", TailSilent: true},
				},
				Steps: []QStep{
					{Op: "connect", Peer: 0},
					{Op: "batch", Batch: &BatchSpec{NReq: 1, Opt: OptSpec{Retries: -1}}},
					{Op: "reconnect", Peer: 1, Overlap: true},
					{Op: "connect", Peer: 2},
					{Op: "batch", Batch: &BatchSpec{NReq: 3,
						Opt: OptSpec{Retries: 3, HardMs: hourMs}}},
				},
			}
		default:
			rng := rand.New(rand.NewSource(seed*1_000_003 + int64(j)*130_003 + 4211))
			sc = genQuietReconnect(rng)
		}
		sc.ID = firstID + j
		out = append(out, sc)
	}
	return out
}

func genQuietReconnect(rng *rand.Rand) Scenario {
	sc := Scenario{Kind: "quietreconn"}
	sc.Others = []string{"none", "gone", "silent", "stay-then-gone"}[pickW(rng, 30, 30, 20, 20)]

	goodScript := func() []Outcome {
		var s []Outcome
		for l := pickW(rng, 50, 30, 20); l > 0; l-- {
			switch pickW(rng, 40, 30, 30) {
			case 0:
				s = append(s, Outcome{Kind: OAnswer})
			case 1:
				s = append(s, Outcome{Kind: OUnrelated, N: 1 + rng.Intn(3)})
			case 2:
				s = append(s, Outcome{Kind: OPartial, N: 1 + rng.Intn(3)})
			}
		}
		return s
	}
	add := func(p PeerSpec) int {
		sc.Peers = append(sc.Peers, p)
		return len(sc.Peers) - 1
	}
	step := func(s QStep) { sc.Steps = append(sc.Steps, s) }
	// addrs: distinct addresses the dispatcher has been given so far. Its map
	// of workers is keyed by address and pruned lazily, so that many entries
	// (dead or alive) may each take one request off the queue before the peer
	// under judgement is reached.
	addrs := 0
	batch := func(judged bool) {
		o := OptSpec{Retries: -1}
		switch pickW(rng, 35, 35, 30) {
		case 1:
			o.NoRetryMax = true
		case 2:
			o.Retries = 2 + rng.Intn(3)
		}
		switch pickW(rng, 40, 45, 15) {
		case 1:
			o.HardMs = hourMs
		case 2:
			o.HardMs = 20000
		}
		if judged && sc.Others != "silent" && rng.Intn(100) < 55 {
			// (with unresponsive peers around an idle timeout legitimately
			// ends the batch: less to judge)
			o.IdleMs = []int{200, 300, 1000}[rng.Intn(3)]
		} else if rng.Intn(100) < 20 {
			o.IdleMs = []int{1000, 3000}[rng.Intn(2)]
		}
		if o.NoRetryMax && o.IdleMs == 0 && o.HardMs == 0 {
			o.HardMs = hourMs
		}
		if rng.Intn(100) < 15 {
			o.Encoding = 1 + rng.Intn(2)
		}
		n := 1 + rng.Intn(4)
		if judged {
			// more requests than there are other addresses
			n = addrs + rng.Intn(3)
			if n < 1 {
				n = 1
			}
		}
		step(QStep{Op: "batch", Batch: &BatchSpec{NReq: n, Opt: o}})
	}

	// The peer that will re-connect, and the peers around it.
	target := add(PeerSpec{Name: "t", Addr: "10.0.4.1:8333", Script: goodScript()})
	step(QStep{Op: "connect", Peer: target})
	addrs++
	var others []int
	nOthers := 0
	if sc.Others != "none" {
		nOthers = 1 + pickW(rng, 60, 40)
	}
	early := sc.Others == "gone" || sc.Others == "stay-then-gone"
	for i := 0; i < nOthers; i++ {
		p := PeerSpec{Name: fmt.Sprintf("o%d", i), Addr: fmt.Sprintf("10.0.4.%d:8333", i+2)}
		if sc.Others == "silent" {
			p.Name = fmt.Sprintf("s%d", i)
			p.TailSilent = true
		} else {
			p.Script = goodScript()
		}
		others = append(others, add(p))
	}
	if early {
		for _, o := range others {
			step(QStep{Op: "connect", Peer: o})
			addrs++
		}
	}
	// Warm-up batches: every connected peer is responsive.
	for w := pickW(rng, 35, 40, 25); w > 0; w-- {
		batch(false)
	}

	gen := map[string]int{}
	reconnect := func(old int) int {
		o := sc.Peers[old]
		base := strings.SplitN(o.Name, ".", 2)[0]
		gen[base]++
		nu := add(PeerSpec{
			Name: fmt.Sprintf("%s.%d", base, gen[base]),
			Addr: o.Addr, ReconnectOf: old + 1, Script: goodScript(),
		})
		s := QStep{Op: "reconnect", Peer: nu}
		switch pickW(rng, 45, 35, 20) {
		case 1:
			s.GapMs = []int{1, 2, 5, 20}[rng.Intn(4)]
		case 2:
			s.Overlap = true
		}
		step(s)
		return nu
	}
	leaveOthers := func() {
		for _, o := range others {
			step(QStep{Op: "leave", Peer: o})
		}
	}
	othersLeft := false
	if sc.Others == "gone" && rng.Intn(2) == 0 {
		leaveOthers()
		othersLeft = true
	}
	cycles := 1 + pickW(rng, 55, 30, 15)
	for c := 0; c < cycles; c++ {
		target = reconnect(target)
		if early && !othersLeft && rng.Intn(100) < 25 {
			// another peer takes the same turn
			k := rng.Intn(len(others))
			others[k] = reconnect(others[k])
		}
		if c+1 < cycles && rng.Intn(100) < 35 {
			// a batch between two cycles
			batch(sc.Others == "none" || othersLeft)
		}
	}
	switch sc.Others {
	case "gone":
		if !othersLeft {
			leaveOthers()
		}
	case "silent":
		for _, o := range others {
			step(QStep{Op: "connect", Peer: o})
			addrs++
		}
	case "stay-then-gone":
		// the others are still around for one batch, then leave
		batch(true)
		leaveOthers()
	}
	batch(true)
	if rng.Intn(100) < 30 {
		batch(true)
	}
	sc.QueryAfterStop = rng.Intn(5) == 0
	return sc
}

// runQuiet drives one scenario of the family.
func (st *state) runQuiet(submits *sync.WaitGroup) {
	var all []*hBatch
	run := func(spec BatchSpec, probe bool) *hBatch {
		b := st.newBatch(spec, probe)
		if probe {
			b.probeTag = "B"
		}
		submits.Add(1)
		go func() { defer submits.Done(); st.submit(b) }()
		all = append(all, b)
		return b
	}
	sleep := func(d time.Duration) {
		select {
		case <-time.After(d):
		case <-st.done:
		}
	}
	ok := true
Steps:
	for _, s := range st.sc.Steps {
		switch s.Op {
		case "connect":
			if !st.offer(st.peers[s.Peer]) {
				ok = false
				break Steps
			}
		case "leave":
			st.peers[s.Peer].disconnect("leave-idle")
		case "reconnect":
			nu := st.peers[s.Peer]
			old := st.peers[nu.spec.ReconnectOf-1]
			if s.Overlap {
				if !st.offer(nu) {
					ok = false
					break Steps
				}
				old.disconnect("replaced-idle")
			} else {
				old.disconnect("leave-idle")
				if s.GapMs > 0 {
					sleep(time.Duration(s.GapMs) * time.Millisecond)
				}
				if !st.offer(nu) {
					ok = false
					break Steps
				}
			}
		case "batch":
			b := run(*s.Batch, false)
			if !st.waitChan(b.queryDone) {
				ok = false
				break Steps
			}
			st.quietAwait(b)
		}
	}
	if ok {
		// Roll call: a fresh responsive peer, then a batch that no timer can
		// end.
		st.mu.Lock()
		f := newPeer(st, len(st.peers), PeerSpec{Name: "probe-peer", Addr: "10.9.9.9:8333"})
		st.peers = append(st.peers, f)
		st.mu.Unlock()
		if st.offer(f) {
			// One request per address the dispatcher has ever been given:
			// its workers are keyed by address, and an entry whose peer has
			// left may still take one request off the queue.
			seen := map[string]bool{}
			st.mu.Lock()
			ps := append([]*hPeer(nil), st.peers...)
			st.mu.Unlock()
			for _, p := range ps {
				p.mu.Lock()
				if p.connected {
					seen[p.spec.Addr] = true
				}
				p.mu.Unlock()
			}
			n := len(seen)
			rc := run(BatchSpec{NReq: n, Opt: OptSpec{Retries: -1, NoRetryMax: true, HardMs: hourMs}}, true)
			st.logEv(Event{K: "roll_call", B: rc.idx, R: -1, X: fmt.Sprintf("addresses=%d", n)})
			var need []*hBatch
			for _, b := range all {
				if b.spec.NReq > 0 {
					need = append(need, b)
				}
			}
			if !st.waitBatches(need) {
				st.probeWatchdog(rc, "quiet_watchdog_probe")
			}
		}
	}
	st.stop()
}

// quietAwait waits for the verdict of a batch. It moves on without one when
// the batch is visibly not being served: nothing has happened for a while and
// none of its requests is at a connected peer (so no worker timeout is
// pending), or one of its requests has come back from an unresponsive peer and
// was handed to an unresponsive peer again. That only decides when the harness
// takes its next step.
func (st *state) quietAwait(b *hBatch) {
	for {
		if st.wait(func() bool {
			if len(b.verdicts) > 0 {
				return true
			}
			for _, r := range b.reqs {
				if n := len(r.deliveries); r.finishedSeq == 0 && n >= 2 && r.deliveries[n-1].peer.spec.TailSilent {
					return true
				}
			}
			return false
		}, 200*time.Millisecond) {
			return
		}
		select {
		case <-st.done:
			return
		default:
		}
		st.mu.Lock()
		quiet := time.Since(st.lastEvent)
		atPeer := false
		for _, r := range b.reqs {
			if n := len(r.deliveries); r.finishedSeq == 0 && n > 0 {
				p := r.deliveries[n-1].peer
				p.mu.Lock()
				if !p.discClosed {
					atPeer = true
				}
				p.mu.Unlock()
			}
		}
		if quiet >= 500*time.Millisecond && !atPeer {
			st.logLocked(Event{K: "batch_pending_moving_on", B: b.idx, R: -1})
			st.mu.Unlock()
			return
		}
		st.mu.Unlock()
		if quiet >= st.quietLimit() {
			return
		}
	}
}

// evalQuiet applies the family's rule. Caller (evaluate) holds st.mu and has
// filled st.discSeq.
//
// Rule. Let batch b be accepted by the dispatcher at a quiescent point (every
// batch accepted before it had ended with success before b was submitted: the
// work queue is empty and every worker is free), let peer q answer every
// request, have been taken from the ConnectedPeers channel before b was
// submitted and still be connected when b ended, and let b have more requests
// than there are OTHER addresses the dispatcher has been given so far. The
// dispatcher hands out queued requests to free workers — at most one each —
// before it looks at any result or timer, so a worker for q takes one of b's
// requests before b can end in any way. Hence, when b has ended:
//
//   - with success or the retry limit (neither cancels requests in flight): q
//     has been sent a request or will be; "not one request was sent to q in the
//     whole scenario" (through Stop) is impossible;
//   - with a timeout (which cancels requests a worker has taken but not yet
//     sent): q's worker had at least started, and a worker subscribes to its
//     peer's messages before it takes its first job; "q had not been subscribed
//     to when the verdict was read" is impossible.
//
// Either observation means the requests of b were not issued to an available
// peer. It is raised when b visibly suffered from it (it ended with an error,
// was served only by a peer that connected after it was accepted, or had
// requests re-issued after worker timeouts); a batch served smoothly by the
// other peers is only counted.
func (st *state) evalQuiet(res *Result, vio func(string, string, map[string]any)) (fpSuffix string) {
	res.Counters["quietreconn_scenarios"]++
	takenSeq := map[string]int{}
	subSeq := map[string]int{}
	accepted := map[int]int{}
	delivTo := map[string]int{}
	for _, e := range st.log {
		switch e.K {
		case "peer_taken":
			if takenSeq[e.P] == 0 {
				takenSeq[e.P] = e.Seq
			}
		case "peer_subscribed":
			if subSeq[e.P] == 0 {
				subSeq[e.P] = e.Seq
			}
		case "query_returned":
			accepted[e.B] = e.Seq
		case "deliver":
			delivTo[e.P]++
		}
	}

	// What the scenario did (shape counters).
	cycles, overlaps := 0, 0
	for _, s := range st.sc.Steps {
		if s.Op != "reconnect" {
			continue
		}
		nu := st.peers[s.Peer]
		if takenSeq[nu.spec.Name] == 0 {
			continue
		}
		cycles++
		res.Counters["quietreconn_same_address_reconnects_while_idle"]++
		if s.Overlap {
			overlaps++
			res.Counters["quietreconn_reannounced_before_old_connection_reported_gone"]++
		}
	}

	quiescent := true // every batch accepted so far ended with success before the next was submitted
	for _, b := range st.batches {
		if b == st.afterStopBatch || !isClosed(b.queryDone) || accepted[b.idx] == 0 {
			continue
		}
		wasQuiescent := quiescent
		var v *verdict
		if len(b.verdicts) > 0 && b.verdicts[0].err != query.ErrWorkManagerShuttingDown {
			v = &b.verdicts[0]
		}
		// (batches are numbered in the order in which they were submitted)
		if len(b.reqs) > 0 && (v == nil || v.err != nil) {
			quiescent = false
		}
		if next := b.idx + 1; v != nil && next < len(st.batches) && st.batches[next].submitSeq != 0 &&
			st.batches[next].submitSeq < v.seq {
			quiescent = false
		}
		if v == nil || len(b.reqs) == 0 {
			// Never ended on its own: nothing to conclude from what had not
			// been sent by the time the harness called Stop.
			continue
		}
		end := v.seq
		// Peers connected when the dispatcher accepted the batch: taken
		// before Query returned and not yet gone when it was called.
		var conn []*hPeer
		addrs := map[string]bool{}
		for _, p := range st.peers {
			ts, ds := takenSeq[p.spec.Name], st.discSeq[p.spec.Name]
			if ts == 0 || ts > accepted[b.idx] {
				continue
			}
			// The dispatcher's workers are keyed by address and pruned
			// lazily: an entry whose peer has left may still take one
			// request off the queue (its worker can pick the job up before
			// it notices the disconnect). So every address handed to the
			// dispatcher so far counts.
			addrs[p.spec.Addr] = true
			if ds == 0 || ds > b.submitSeq {
				conn = append(conn, p)
			}
		}
		nSilent := 0
		for _, p := range conn {
			if !p.spec.responsive() {
				nSilent++
			}
		}
		// Served by a peer that had re-connected under its old address, and
		// was that peer the only responsive one connected?
		if !b.probe {
			res.Counters["quietreconn_batches"]++
			byRe, resp := false, 0
			for _, p := range conn {
				if ds := st.discSeq[p.spec.Name]; p.spec.responsive() && (ds == 0 || ds > end) {
					resp++
				}
			}
			for _, r := range b.reqs {
				for _, d := range r.deliveries {
					if d.peer.spec.ReconnectOf > 0 && r.finishedSeq > d.seq {
						byRe = true
					}
				}
			}
			if v.err == nil && byRe {
				res.Counters["quietreconn_batches_served_by_reconnected_peer"]++
				if resp == 1 {
					res.Counters["quietreconn_batches_served_by_reconnected_peer_as_only_responsive_peer"]++
				}
			}
		}
		if !wasQuiescent {
			continue
		}
		// How the batch fared.
		late, again := false, false
		for _, r := range b.reqs {
			if len(r.deliveries) > 1 {
				again = true
			}
			for _, d := range r.deliveries {
				if takenSeq[d.peer.spec.Name] > accepted[b.idx] {
					late = true
				}
			}
		}
		for _, q := range conn {
			ts, ds := takenSeq[q.spec.Name], st.discSeq[q.spec.Name]
			if !q.spec.responsive() || ts > b.submitSeq || (ds != 0 && ds < end) || delivTo[q.spec.Name] > 0 {
				continue
			}
			if len(b.reqs) <= len(addrs)-1 {
				res.Counters["quietreconn_unused_peer_but_batch_too_small_to_judge"]++
				continue
			}
			subscribed := subSeq[q.spec.Name] != 0 && subSeq[q.spec.Name] < end
			outcome := ""
			switch {
			case v.err == query.ErrQueryTimeout:
				if subscribed {
					// A worker for q had started; the timer that ended the
					// batch may have cancelled the request it had taken
					// before it was sent.
					res.Counters["quietreconn_timeout_verdict_before_started_worker_sent_anything"]++
					continue
				}
				outcome = "timeout-verdict"
			case v.err != nil:
				outcome = "error-verdict"
			case late:
				outcome = "served-only-by-a-peer-that-connected-later"
			case again:
				outcome = "reissued-to-other-peers-after-worker-timeouts"
			default:
				res.Counters["quietreconn_connected_peer_unused_while_others_served"]++
				continue
			}
			kind := "first-connection"
			if q.spec.ReconnectOf > 0 {
				kind = "same-address-reconnect-while-idle"
			}
			others := len(conn) - 1
			around := "none"
			switch {
			case others > 0 && nSilent == others:
				around = "unresponsive"
			case others > 0 && nSilent == 0:
				around = "responsive"
			case others > 0:
				around = "mixed"
			}
			extra := map[string]any{
				"batch": b.idx, "peer": q.spec.Name, "peer_address": q.spec.Addr,
				"peer_taken_by_dispatcher_at_seq": takenSeq[q.spec.Name], "batch_submitted_at_seq": b.submitSeq,
				"batch_ended_at_seq": end, "other_peers_connected_at_submit": others,
				"addresses_given_to_dispatcher_so_far": len(addrs),
				"requests_in_batch":                    len(b.reqs), "requests_sent_to_peer_in_whole_scenario": delivTo[q.spec.Name],
				"peer_messages_subscribed_to_at_seq": subSeq[q.spec.Name],
			}
			what := fmt.Sprintf("batch %d (%d requests, options %s) was accepted, with nothing else queued or in flight, while peer %s (%s) was connected, idle and answering every request — the dispatcher had taken it from the ConnectedPeers channel before the batch was submitted and it was still connected when the batch ended — with %d other peer(s) connected; the batch ended with %s",
				b.idx, len(b.reqs), b.optKinds(), q.spec.Name, kind, others, errKind(v.err))
			if outcome != "timeout-verdict" && outcome != "error-verdict" {
				what += " (" + outcome + ")"
			}
			what += " and not one request was sent to that peer in the whole scenario"
			if subSeq[q.spec.Name] == 0 {
				what += "; its messages were never subscribed to (no worker ever ran for it)"
			}
			vio("connected-peer-never-used/peer="+kind+"/others="+around+"/batch="+outcome, what, extra)
		}
	}

	var fate []string
	fate = append(fate, "cyc="+fmt.Sprint(cycles))
	if overlaps > 0 {
		fate = append(fate, "overlap")
	}
	sort.Strings(fate)
	return "/others=" + st.sc.Others + "/" + strings.Join(fate, ",")
}
