package c12

import (
	"fmt"
	"math/rand"
	"strings"
	"time"
)

// Family "chatter": a peer that stays TALKATIVE without ever answering.
//
// One request is handed to a peer that keeps sending messages for which the
// request's handler reports neither Finished nor Progressed (unrelated
// messages, stale answers to requests that were finished long ago), at gaps
// far below the worker timeout, and never the answer. Responsive peers are
// connected and idle all the while. The property says an unanswered request is
// re-issued to an available peer: a peer that talks without answering is as
// unanswering as a silent one.
//
// The verdict rests on the recorded history and on harness timers only: every
// chatter message is sent after a harness timer of its gap (timers never fire
// early), so the gaps that lie completely inside a stretch in which a
// responsive peer was connected with nothing outstanding, and in which the
// request stayed with the talkative peer, add up to a lower bound of that
// stretch. When that bound reaches ChatterFactor worker timeouts of the
// attempt (2 s doubled per earlier timeout of the request) the request has
// not been re-issued although it had to be.

// OChatter: irrelevant messages at short gaps for seconds, never the answer.
const OChatter = "chatter"

// ChatterFactor: how many complete worker timeouts of the attempt the
// talkative stretch has to cover before the oracle speaks.
const ChatterFactor = 3

// ChatterSpec parameterises one scenario of the family.
type ChatterSpec struct {
	GapMinMs int   `json:"gap_min_ms"`
	GapMaxMs int   `json:"gap_max_ms"`
	TotalMs  int   `json:"total_ms"` // the peer talks until its gaps add up to this
	GapSeed  int64 `json:"gap_seed"`
	// Warm: requests of an earlier batch that the talkative peer answers
	// properly first (it then has a good record).
	Warm int `json:"warm,omitempty"`
	// Honest: responsive peers. HonestFirst: they are connected before the
	// batch is submitted (the batch then has more requests than peers, so the
	// talkative peer gets one); otherwise right after the request reached the
	// talkative peer.
	Honest      int  `json:"honest"`
	HonestFirst bool `json:"honest_first,omitempty"`
	// Mix: "unrelated", "stale" (final answers to a request finished long
	// ago; needs Warm > 0) or "both".
	Mix string `json:"mix"`
}

// GenerateChatter returns m scenarios of the family; scenario 0 is fixed.
func GenerateChatter(seed int64, m, firstID int) []Scenario {
	out := make([]Scenario, 0, m)
	for j := 0; j < m; j++ {
		cs := &ChatterSpec{GapMinMs: 80, GapMaxMs: 250, TotalMs: 8000, GapSeed: 7, Honest: 1, Mix: "unrelated"}
		batch := BatchSpec{NReq: 1, Submit: Trigger{Kind: "start"}, Opt: OptSpec{Retries: -1, NoRetryMax: true}}
		if j > 0 {
			rng := rand.New(rand.NewSource(seed*1_000_003 + int64(j)*15_485_863 + 4242))
			cs.GapMinMs = 50 + rng.Intn(100)
			cs.GapMaxMs = cs.GapMinMs + rng.Intn(301-cs.GapMinMs)
			cs.GapSeed = rng.Int63()
			cs.Warm = []int{0, 0, 1, 3}[rng.Intn(4)]
			cs.Honest = 1 + rng.Intn(2)
			cs.HonestFirst = rng.Intn(3) == 0
			cs.Mix = []string{"unrelated", "both", "stale"}[rng.Intn(3)]
			if cs.Warm == 0 {
				cs.Mix = "unrelated"
			}
			batch.NReq = 1 + rng.Intn(4)
			if cs.HonestFirst {
				batch.NReq = cs.Honest + 2 + rng.Intn(3)
			}
			switch rng.Intn(3) {
			case 0: // package default: two attempts
				batch.Opt = OptSpec{Retries: -1}
			case 1:
				batch.Opt = OptSpec{Retries: 2 + rng.Intn(2)}
			}
			if rng.Intn(3) == 0 {
				batch.Opt.IdleMs = 0
				batch.Opt.HardMs = 20000
			}
		}
		chatty := PeerSpec{Name: "chatty", Addr: "10.0.4.1:8333", Connect: Trigger{Kind: "start"}}
		for i := 0; i < cs.Warm; i++ {
			chatty.Script = append(chatty.Script, Outcome{Kind: OAnswer})
		}
		chatty.Script = append(chatty.Script, Outcome{Kind: OChatter})
		sc := Scenario{ID: firstID + j, Kind: "chatter", Chatter: cs,
			Peers: []PeerSpec{chatty}, Batches: []BatchSpec{batch}}
		for i := 0; i < cs.Honest; i++ {
			sc.Peers = append(sc.Peers, PeerSpec{Name: fmt.Sprintf("honest%d", i),
				Addr: fmt.Sprintf("10.0.4.%d:8333", i+2)})
		}
		out = append(out, sc)
	}
	return out
}

// chatter is the talkative peer's reaction to one request.
func (p *hPeer) chatter(reqID int) {
	st := p.st
	cs := st.sc.Chatter
	if cs == nil {
		return
	}
	rng := rand.New(rand.NewSource(cs.GapSeed))
	slept := 0
	t0 := time.Now()
	end := func(why string) {
		st.logEv(Event{K: "chatter_end", B: -1, R: reqID, P: p.spec.Name, X: why})
	}
	for i := 0; slept < cs.TotalMs; i++ {
		st.mu.Lock()
		r := st.reqs[reqID]
		why := ""
		stale := -1
		switch {
		case r == nil:
			why = "unknown-request"
		case r.finishedSeq != 0:
			why = "request-finished"
		case len(r.deliveries) > 1:
			why = "request-handed-to-a-peer-again"
		case len(r.b.verdicts) > 0:
			why = "batch-ended"
		}
		for id, o := range st.reqs {
			if id != reqID && o.finishedSeq != 0 && (stale < 0 || id < stale) {
				stale = id
			}
		}
		st.mu.Unlock()
		if why != "" {
			end(why)
			return
		}
		gap := cs.GapMinMs
		if cs.GapMaxMs > cs.GapMinMs {
			gap += rng.Intn(cs.GapMaxMs - cs.GapMinMs + 1)
		}
		t := time.NewTimer(time.Duration(gap) * time.Millisecond)
		select {
		case <-t.C:
		case <-p.disc:
			t.Stop()
			return
		case <-st.done:
			t.Stop()
			return
		}
		slept += gap
		m := &Msg{ReqID: -1, Part: "unrelated"}
		if stale >= 0 && (cs.Mix == "stale" || (cs.Mix == "both" && i%2 == 1)) {
			m = &Msg{ReqID: stale, Part: "final"}
		}
		if !p.send(m) {
			return
		}
		st.logEv(Event{K: "chatter_sent", B: -1, R: reqID, P: p.spec.Name,
			X: fmt.Sprintf("gap=%d wall=%d", gap, time.Since(t0).Milliseconds())})
	}
	end("script-over")
}

// runChatter drives one scenario of the family.
func (st *state) runChatter() {
	cs := st.sc.Chatter
	chatty, honest := st.peers[0], st.peers[1:]
	if !st.offer(chatty) {
		return
	}
	if cs.Warm > 0 {
		b := st.newBatch(BatchSpec{NReq: cs.Warm, Opt: OptSpec{Retries: -1}}, false)
		go st.submit(b)
		st.waitBatches([]*hBatch{b})
	}
	offerHonest := func() bool {
		for _, h := range honest {
			if !st.offer(h) {
				return false
			}
		}
		return true
	}
	if cs.HonestFirst && !offerHonest() {
		return
	}
	b := st.newBatch(st.sc.Batches[0], false)
	go st.submit(b)
	st.wait(func() bool {
		for _, r := range b.reqs {
			for _, d := range r.deliveries {
				if d.outcome == OChatter {
					return true
				}
			}
		}
		return len(b.verdicts) > 0
	}, 20*time.Second)
	if !cs.HonestFirst && !offerHonest() {
		return
	}
	st.waitBatches([]*hBatch{b})
	st.mu.Lock()
	all := append([]*hBatch(nil), st.batches...)
	st.mu.Unlock()
	st.probePhase(all)
	st.stop()
}

// evalChatter applies the family's rule; it returns the fingerprint suffix.
func (st *state) evalChatter(res *Result, vio func(string, string, map[string]any)) string {
	res.Counters["chatter_scenarios"]++
	// The request that reached the talkative peer.
	var (
		req     *hReq
		attempt int
		s0      int
		chatty  *hPeer
	)
	for _, b := range st.batches {
		for _, r := range b.reqs {
			for i, d := range r.deliveries {
				if d.outcome == OChatter && req == nil {
					req, attempt, s0, chatty = r, i, d.seq, d.peer
				}
			}
		}
	}
	if req == nil {
		st.incon = append(st.incon, "chatter: no request reached the talkative peer")
		return "/chat=not-reached"
	}
	res.Counters["chatter_requests_at_talkative_peer"]++
	// End of the stretch: the request is handed to a peer again, its batch
	// ends, or Stop is called.
	s1 := int(^uint(0) >> 1)
	reissuedTo := ""
	if len(req.deliveries) > attempt+1 {
		d := req.deliveries[attempt+1]
		s1, reissuedTo = d.seq, d.peer.spec.Name
	}
	if len(req.b.verdicts) > 0 && req.b.verdicts[0].seq < s1 {
		s1, reissuedTo = req.b.verdicts[0].seq, ""
	}
	if st.stopSeq != 0 && st.stopSeq < s1 {
		s1, reissuedTo = st.stopSeq, ""
	}
	if req.b.cancelSeq != 0 && req.b.cancelSeq < s1 {
		s1, reissuedTo = req.b.cancelSeq, ""
	}

	type hon struct {
		taken       bool
		gone        bool
		outstanding int
		idleFrom    int // seq of the event that made it idle (0: not idle)
		accMs       int
	}
	byAddr := map[string]string{}
	hs := map[string]*hon{}
	for _, p := range st.peers {
		if p != chatty && p.spec.Name != "probe-peer" {
			hs[p.spec.Name] = &hon{}
			byAddr[p.spec.Addr] = p.spec.Name
		}
	}
	limit := ChatterFactor * int(minWorkerTimeout.Milliseconds()) << uint(attempt)
	var (
		prevChat    = s0
		handled     int64
		sumGap      int
		lastWall    int
		worst       string
		worstMs     int
		newAtChatty bool
	)
	for _, e := range st.log {
		if e.Seq >= s1 {
			break
		}
		switch e.K {
		case "peer_taken":
			if h := hs[e.P]; h != nil {
				h.taken = true
				h.idleFrom, h.accMs = e.Seq, 0
			}
		case "peer_disc":
			if h := hs[e.P]; h != nil {
				h.gone = true
			}
		case "deliver":
			if h := hs[e.P]; h != nil {
				h.outstanding++
				h.idleFrom, h.accMs = 0, 0
			}
			if e.P == chatty.spec.Name && e.Seq > s0 {
				newAtChatty = true
			}
		case "handle":
			if h := hs[byAddr[e.P]]; h != nil && strings.Contains(e.X, "Finished") && h.outstanding > 0 {
				h.outstanding--
				if h.outstanding == 0 {
					h.idleFrom, h.accMs = e.Seq, 0
				}
			}
			if e.Seq > s0 && e.R == req.id && e.P == chatty.spec.Addr &&
				!strings.Contains(e.X, "Finished") && !strings.Contains(e.X, "Progressed") {
				handled++
			}
		case "chatter_sent":
			if e.R != req.id || e.Seq < s0 {
				continue
			}
			var gap, wall int
			fmt.Sscanf(e.X, "gap=%d wall=%d", &gap, &wall)
			sumGap += gap
			lastWall = wall
			for name, h := range hs {
				// the gap lies completely inside the peer's idle stretch
				if h.taken && !h.gone && h.outstanding == 0 && h.idleFrom != 0 && h.idleFrom <= prevChat {
					h.accMs += gap
					if h.accMs > worstMs {
						worst, worstMs = name, h.accMs
					}
				}
			}
			prevChat = e.Seq
		}
	}
	res.Counters["chatter_messages_handled_without_progress"] += handled
	if int64(worstMs) > res.Counters["chatter_longest_stretch_request_at_talkative_peer_while_responsive_peer_idle_ms"] {
		res.Counters["chatter_longest_stretch_request_at_talkative_peer_while_responsive_peer_idle_ms"] = int64(worstMs)
	}
	outcome := "pending"
	switch {
	case reissuedTo != "" && reissuedTo != chatty.spec.Name:
		outcome = "reissued-to-other-peer"
		res.Counters["chatter_requests_reissued_to_another_peer"]++
	case reissuedTo != "":
		outcome = "reissued-to-same-peer"
		res.Counters["chatter_requests_reissued_to_the_talkative_peer"]++
	case s1 != int(^uint(0)>>1):
		outcome = "batch-ended-first"
	}
	if handled > 0 && reissuedTo != "" {
		res.Counters["chatter_requests_reissued_after_talk_without_progress"]++
	}
	if worstMs >= limit && !newAtChatty && handled > 0 {
		if lastWall > 2*sumGap {
			// the harness's own timers ran far late: the machine is too
			// loaded to hold a client timer to anything
			st.incon = append(st.incon, "chatter: harness timers ran more than twice late")
		} else {
			vio("request-not-reissued/last-attempt=chatter",
				fmt.Sprintf("batch %d request %d (attempt %d, worker timeout %v) stayed with peer %s, which sent %d messages that its handler judged neither Finished nor Progressed and never the answer; harness timers of at least %d ms (>= %d worker timeouts) elapsed while responsive peer %s was connected with nothing outstanding, and the request was not handed to it (next: %s)",
					req.b.idx, req.id, attempt+1, minWorkerTimeout<<uint(attempt), chatty.spec.Name, handled, worstMs,
					ChatterFactor, worst, outcome),
				map[string]any{"request": req.id, "idle_responsive_peer": worst, "lower_bound_ms": worstMs,
					"limit_ms": limit, "then": outcome})
			outcome = "held-by-talk"
		}
	}
	cs := st.sc.Chatter
	return fmt.Sprintf("/chat=warm%d,h%d,first=%v,%s,%s", cs.Warm, cs.Honest, cs.HonestFirst, cs.Mix, outcome)
}
