package c12

// L2 mirror of family quietreconn: the complete client against wire-level
// peers. A peer given with ConnectPeers (persistent: the client re-dials it
// under the same address) loses its connection WHILE NO QUERY IS IN FLIGHT —
// closed by the peer, or cut by the client's own Peer.Disconnect — and is
// re-dialled; the other peers (if any) have left for good by then. After the
// new connection completed its handshake, GetBlock / GetCFilter calls are made
// for which that peer is the only one able to answer: each must return the
// block / filter of the generated chain.
//
// A call that has not returned is judged like the rest of the L2 family, by a
// watchdog that decides nothing plus two goroutine dumps; the statement itself
// is logical: the peer's CURRENT connection completed its handshake before the
// call was issued, is still open, has not been sent a single request since,
// and the caller and every goroutine of the query package are parked in
// identical frames in two dumps 2 s apart.

import (
	"bytes"
	"fmt"
	"math/rand"
	"os"
	"runtime"
	"sort"
	"strings"
	"sync/atomic"
	"time"

	"github.com/btcsuite/btcd/wire/v2"
	"github.com/lightninglabs/neutrino"

	"verif/internal/chaingen"
	"verif/internal/evid"
	"verif/internal/l2"
	"verif/internal/netsim"
)

// L2QuietBase: scenario numbers from here on belong to the quiet-reconnect
// mirror (number - L2QuietBase = j).
const L2QuietBase = 100000

// l2QuietWatchdog bounds the wait for a call (typical: a few ms). It decides
// nothing.
var l2QuietWatchdog = 30 * time.Second

// L2QuietCount is the number of scenarios of the mirror.
func L2QuietCount(r *evid.Run) int { return r.Pick(3, 40) }

// L2QuietRule is appended to the program's rule text.
const L2QuietRule = "; L2 quiet-reconnect mirror (scenario j a pure function of (seed, j), j=0 fixed: one ConnectPeers peer, synced, idle, " +
	"closes its connection, is re-dialled under the same address, then GetBlock and GetCFilter): 1-3 peers, the others leave for good while idle, " +
	"1-3 idle disconnect/re-dial cycles of the remaining peer (closed by the peer or by the client's Peer.Disconnect), then 1-4 GetBlock / GetCFilter calls " +
	"one after the other or at once; every call must return the block / filter of the generated chain"

// L2All returns the number of scenario processes of the whole L2 part and the
// function that runs scenario k of that list (the mirror's scenarios follow
// the L2 family's).
func L2All(r *evid.Run) (int, l2.ScenarioFunc) {
	n := L2Count(r)
	return n + L2QuietCount(r), func(seed int64, k int, res *l2.Result) {
		if k >= n && k < L2QuietBase {
			k = L2QuietBase + k - n
		}
		L2Scenario(seed, k, res)
	}
}

// L2QuietPlan is one scenario of the mirror.
type L2QuietPlan struct {
	J         int      `json:"j"`
	WorldSeed int64    `json:"world_seed"`
	ChainLen  int      `json:"chain_len"`
	Others    int      `json:"others"`  // peers besides the re-connecting one; they leave for good while idle
	Cycles    []string `json:"cycles"`  // per cycle: "remote-close" | "api-disconnect"
	Calls     []string `json:"calls"`   // "block" | "cfilter"
	AtOnce    bool     `json:"at_once"` // calls issued concurrently
	PauseMs   int      `json:"pause_ms"`
}

func l2QuietPlan(seed int64, j int) *L2QuietPlan {
	if j == 0 {
		return &L2QuietPlan{J: 0, WorldSeed: 12_000_001, ChainLen: 60, Cycles: []string{"remote-close"},
			Calls: []string{"block", "cfilter"}, PauseMs: 100}
	}
	rng := rand.New(rand.NewSource(seed*1_000_003 + int64(j)*15_485_863 + 77))
	pl := &L2QuietPlan{J: j, WorldSeed: seed*7919 + int64(j)*31 + 12_000_000, ChainLen: 40 + rng.Intn(80)}
	pl.Others = pickW(rng, 45, 35, 20)
	for c := 1 + pickW(rng, 55, 30, 15); c > 0; c-- {
		pl.Cycles = append(pl.Cycles, []string{"remote-close", "api-disconnect"}[pickW(rng, 60, 40)])
	}
	for c := 1 + rng.Intn(4); c > 0; c-- {
		pl.Calls = append(pl.Calls, []string{"block", "cfilter"}[rng.Intn(2)])
	}
	pl.AtOnce = rng.Intn(3) == 0
	pl.PauseMs = []int{0, 20, 100, 300}[rng.Intn(4)]
	return pl
}

type l2QuietCall struct {
	Kind    string `json:"kind"`
	Height  int32  `json:"height"`
	Outcome string `json:"outcome"` // ok | error | wrong-content | not-returned
	Err     string `json:"err,omitempty"`
	gid     atomic.Int64
	done    chan struct{}
}

func l2QuietScenario(seed int64, j int, res *l2.Result) {
	defer func() {
		if rec := recover(); rec != nil {
			buf := make([]byte, 1<<14)
			buf = buf[:runtime.Stack(buf, false)]
			fmt.Fprintf(os.Stderr, "C12 L2 quiet scenario %d: harness panic: %v\n%s\n", j, rec, buf)
			res.Nontrivial = false
			res.Inconcl("l2q: harness panic")
		}
	}()
	pl := l2QuietPlan(seed, j)
	res.Name = fmt.Sprintf("c12-l2q-%d", j)
	res.Fingerprint = "l2q|not-started"
	w := l2.NewWorld(l2.Config{Seed: pl.WorldSeed})
	defer w.Cleanup()
	trunk := w.G.Extend(w.G.Genesis, pl.ChainLen, chaingen.PaceNormal)
	tip := trunk[len(trunk)-1]
	path := tip.Path()
	var trace []string
	t0 := time.Now()
	tracef := func(f string, a ...any) {
		s := fmt.Sprintf("%7.3f ", time.Since(t0).Seconds()) + fmt.Sprintf(f, a...)
		trace = append(trace, s)
		if os.Getenv("C12_L2_LOG") != "" {
			fmt.Fprintln(os.Stderr, s)
		}
	}

	target := w.AddPeer(tip)
	var others []*netsim.Peer
	for i := 0; i < pl.Others; i++ {
		others = append(others, w.AddPeer(tip))
	}
	if err := w.StartClient(nil, l2.ClientOpts{}); err != nil {
		res.Inconcl("l2q: client start failed")
		return
	}
	stopped := false
	stop := func() bool {
		if stopped {
			return true
		}
		stopped = true
		ok, _ := w.StopClient(l2StopWatchdog)
		return ok
	}
	if !l2.WaitFor(60*time.Second, func() bool { return w.SyncedTo(tip) }) {
		res.Inconcl("l2q: initial sync not reached (C04's subject)")
		stop()
		return
	}
	live := func() bool {
		return peerLive(target) && w.Svc.PeerByAddr(target.Addr) != nil
	}
	if !l2.WaitFor(20*time.Second, func() bool {
		if !live() {
			return false
		}
		for _, o := range others {
			if !peerLive(o) {
				return false
			}
		}
		return true
	}) {
		res.Inconcl("l2q: peers not all connected after the sync")
		stop()
		return
	}
	tracef("synced to %d; 1 + %d peers connected", tip.Height, len(others))
	// Let the queries of the initial sync drain: nothing is in flight from
	// here on (the chain does not grow).
	time.Sleep(300 * time.Millisecond)

	// The other peers leave for good while idle.
	for _, o := range others {
		w.Net.Refuse(o.Addr, true)
		o.Disconnect()
	}
	if len(others) > 0 {
		l2.WaitFor(10*time.Second, func() bool {
			for _, o := range others {
				if w.Svc.PeerByAddr(o.Addr) != nil {
					return false
				}
			}
			return true
		})
		tracef("%d other peers left", len(others))
	}

	// Idle disconnect / re-dial cycles of the remaining peer.
	cyclesDone := 0
	for i, how := range pl.Cycles {
		before := w.Net.TotalConns(target.Addr)
		switch how {
		case "api-disconnect":
			if sp := w.Svc.PeerByAddr(target.Addr); sp != nil {
				sp.Disconnect()
			} else {
				target.Disconnect()
			}
		default:
			target.Disconnect()
		}
		ok := l2.WaitFor(20*time.Second, func() bool {
			return w.Net.TotalConns(target.Addr) > before && live()
		})
		if !ok {
			res.Inconcl("l2q: the peer was not re-dialled within 20 s")
			stop()
			return
		}
		cyclesDone++
		res.Count("l2q_idle_same_address_redials", 1)
		res.Count("l2q_cycle_"+how, 1)
		tracef("cycle %d (%s): re-dialled, connection %d", i+1, how, w.Net.TotalConns(target.Addr))
		time.Sleep(time.Duration(pl.PauseMs) * time.Millisecond)
	}
	// The current connection: handshake complete, peer known to the client.
	conn := target.Conn()
	rx0 := target.RxCount("getdata") + target.RxCount("getcfilters")
	time.Sleep(50 * time.Millisecond) // the peer's worker is started by another goroutine

	// The calls.
	var calls []*l2QuietCall
	hs := rand.New(rand.NewSource(pl.WorldSeed)).Perm(pl.ChainLen)
	for i, kind := range pl.Calls {
		calls = append(calls, &l2QuietCall{Kind: kind, Height: int32(1 + hs[i%len(hs)]), done: make(chan struct{})})
	}
	run := func(c *l2QuietCall) {
		defer close(c.done)
		c.gid.Store(int64(l2CurGID()))
		node := path[c.Height]
		var err error
		bad := ""
		if c.Kind == "block" {
			blk, e := w.Svc.GetBlock(node.Hash, neutrino.NumRetries(2))
			err = e
			if e == nil {
				var a, b bytes.Buffer
				if blk != nil {
					_ = blk.MsgBlock().Serialize(&a)
				}
				_ = node.Block.Serialize(&b)
				if blk == nil || !bytes.Equal(a.Bytes(), b.Bytes()) {
					bad = "the returned block differs from the block with that hash"
				}
			}
		} else {
			f, e := w.Svc.GetCFilter(node.Hash, wire.GCSFilterRegular, neutrino.NumRetries(2))
			err = e
			if e == nil {
				if f == nil {
					bad = "nil filter with nil error"
				} else if nb, e2 := f.NBytes(); e2 != nil || !bytes.Equal(nb, node.FilterBytes) {
					bad = "the returned filter differs from the block's true filter"
				}
			}
		}
		switch {
		case err != nil:
			c.Outcome, c.Err = "error", err.Error()
		case bad != "":
			c.Outcome, c.Err = "wrong-content", bad
		default:
			c.Outcome = "ok"
		}
	}
	wait := func(cs []*l2QuietCall) (pend []*l2QuietCall) {
		deadline := time.After(l2QuietWatchdog)
		for i, c := range cs {
			select {
			case <-c.done:
			case <-deadline:
				for _, c2 := range cs[i:] {
					select {
					case <-c2.done:
					default:
						pend = append(pend, c2)
					}
				}
				return pend
			}
		}
		return nil
	}
	var pend []*l2QuietCall
	if pl.AtOnce {
		for _, c := range calls {
			go run(c)
		}
		pend = wait(calls)
	} else {
		for _, c := range calls {
			go run(c)
			if pend = wait([]*l2QuietCall{c}); len(pend) > 0 {
				break
			}
		}
	}
	tracef("calls issued; %d pending at the watchdog", len(pend))

	okCalls, kinds := 0, map[string]bool{}
	for _, c := range calls {
		kinds[c.Kind] = true
	}
	connected := func() bool { return target.Conn() == conn && conn != nil && !conn.Dead() }
	witness := func(extra map[string]any) map[string]any {
		m := map[string]any{"plan": pl, "calls": calls, "trace": trace, "network_tail": w.Log.Tail(40)}
		for k, v := range extra {
			m[k] = v
		}
		return m
	}
	stuck := false
	if len(pend) > 0 {
		stuck = true
		for _, c := range pend {
			c.Outcome = "not-returned"
		}
		rx1 := target.RxCount("getdata") + target.RxCount("getcfilters")
		d1 := l2ParseDump(l2DumpAll())
		time.Sleep(l2DumpGap)
		d2 := l2ParseDump(l2DumpAll())
		rx2 := target.RxCount("getdata") + target.RxCount("getcfilters")
		why := ""
		same := func(id int) *l2G {
			a, b := d1[id], d2[id]
			if a == nil || b == nil || a.moving() || b.moving() || a.key() != b.key() {
				return nil
			}
			return a
		}
		var parks []string
		for _, c := range pend {
			g := same(int(c.gid.Load()))
			if g == nil {
				why = "a pending caller is not parked in identical frames in both dumps"
				break
			}
			parks = append(parks, "caller: "+g.State+" @ "+g.innerClientFunc())
		}
		nQuery := 0
		if why == "" {
			for id, g := range d1 {
				if !g.has(l2QueryPkg) {
					continue
				}
				g1 := same(id)
				if g1 == nil {
					why = "a goroutine of the query package moved between the dumps"
					break
				}
				nQuery++
				parks = append(parks, "query: "+g1.State+" @ "+g1.innerClientFunc())
			}
			for id, g := range d2 {
				if g.has(l2QueryPkg) && d1[id] == nil {
					why = "a goroutine of the query package was started between the dumps"
				}
			}
		}
		sort.Strings(parks)
		switch {
		case !connected():
			res.Inconcl("l2q: calls pending after the watchdog, but the peer's connection is gone: precondition not met")
		case why != "":
			res.Inconcl("l2q: calls pending after the watchdog, not provably stuck: " + why)
		case rx2 != rx0 || rx1 != rx0:
			res.Inconcl("l2q: calls pending after the watchdog although the peer was sent requests")
		case nQuery == 0:
			res.Inconcl("l2q: calls pending after the watchdog, no goroutine of the query package found")
		default:
			var ks []string
			for k := range kinds {
				ks = append(ks, k)
			}
			sort.Strings(ks)
			res.Violate(evid.Sig("c12-l2", "connected-peer-never-used", "peer=same-address-redial-while-idle", "calls="+strings.Join(ks, "+")),
				fmt.Sprintf("%d call(s) have not returned %v after they were issued although peer %s — re-dialled by the client under its old address while no query was in flight, handshake of the new connection complete before the calls were issued, connection still open — answers every request: not one getdata / getcfilters was written to that connection, and two goroutine dumps %v apart show the callers and all %d goroutines of the query package parked in identical frames (%s)",
					len(pend), l2QuietWatchdog, target.Addr, l2DumpGap, nQuery, strings.Join(uniq(parks), "; ")),
				witness(map[string]any{"census_dump2": l2Census(d2), "parked": parks}))
		}
	}
	for _, c := range calls {
		switch c.Outcome {
		case "ok":
			okCalls++
			res.Count("l2q_calls_ok", 1)
		case "wrong-content":
			res.Violate(evid.Sig("c12-l2", "success-with-wrong-content", c.Kind),
				fmt.Sprintf("%s call for height %d returned successfully but %s", c.Kind, c.Height, c.Err), witness(nil))
		case "error":
			res.Count("l2q_calls_error", 1)
			// The only connected peer answers every request at once: an error
			// verdict needs the peer to have been asked at least once.
			if rx := target.RxCount("getdata") + target.RxCount("getcfilters"); rx == rx0 && connected() {
				res.Violate(evid.Sig("c12-l2", "connected-peer-never-used", "peer=same-address-redial-while-idle", "call-error"),
					fmt.Sprintf("%s call for height %d failed with %q although peer %s (re-dialled while idle, handshake complete before the call, connection still open) answers every request and was not sent a single one",
						c.Kind, c.Height, c.Err, target.Addr), witness(nil))
			} else {
				res.Inconcl("l2q: a call failed although the re-dialled peer was asked: " + l2ErrKind(c.Err))
			}
		}
	}
	if okCalls > 0 {
		res.Count("l2q_scenarios_served_by_redialled_peer", 1)
	}
	if stuck {
		go func() { _, _ = w.StopClient(5 * time.Second) }()
		time.Sleep(200 * time.Millisecond)
	} else if !stop() {
		res.Inconcl("l2q: Stop did not return within its watchdog")
	}
	var ks []string
	for k := range kinds {
		ks = append(ks, k)
	}
	sort.Strings(ks)
	cyc := append([]string(nil), pl.Cycles...)
	sort.Strings(cyc)
	res.Fingerprint = fmt.Sprintf("l2q|others=%d|cycles=%s|calls=%s|at-once=%v|ok=%d/%d", pl.Others,
		strings.Join(uniq(cyc), "+")+fmt.Sprint(len(cyc)), strings.Join(ks, "+"), pl.AtOnce, okCalls, len(calls))
	res.Nontrivial = cyclesDone > 0 && len(calls) > 0
	res.Count("l2q_scenarios", 1)
	res.Sample = map[string]any{"plan": pl, "calls": calls, "fingerprint": res.Fingerprint}
}
