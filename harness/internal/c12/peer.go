package c12

import (
	"io"
	"sync"

	"github.com/btcsuite/btcd/wire/v2"
)

// Msg is the only message type exchanged between the dispatcher's workers and
// the harness peers. It never touches a real wire.
type Msg struct {
	ReqID int    // request this message belongs to (-1: unrelated)
	Part  string // "req" | "final" | "partial" | "unrelated"
}

func (m *Msg) BtcDecode(io.Reader, uint32, wire.MessageEncoding) error { return nil }
func (m *Msg) BtcEncode(io.Writer, uint32, wire.MessageEncoding) error { return nil }
func (m *Msg) Command() string                                         { return "c12" + m.Part }
func (m *Msg) MaxPayloadLength(uint32) uint32                          { return 0 }

// hPeer is a scripted query.Peer.
type hPeer struct {
	st   *state
	spec PeerSpec
	idx  int

	mu          sync.Mutex
	script      []Outcome
	disc        chan struct{}
	discClosed  bool
	subs        map[int]chan wire.Message
	nextSub     int
	pendingLate []*Msg
	forceGood   bool
	received    int
	connected   bool
	actorDone   chan struct{} // closed when the peer's scripted connect/leave steps are over
}

func newPeer(st *state, idx int, spec PeerSpec) *hPeer {
	return &hPeer{
		st: st, spec: spec, idx: idx,
		script: append([]Outcome(nil), spec.Script...),
		disc:   make(chan struct{}),
		subs:   map[int]chan wire.Message{},

		actorDone: make(chan struct{}),
	}
}

func (p *hPeer) Addr() string                  { return p.spec.Addr }
func (p *hPeer) OnDisconnect() <-chan struct{} { return p.disc }

func (p *hPeer) SubscribeRecvMsg() (<-chan wire.Message, func()) {
	ch := make(chan wire.Message)
	p.mu.Lock()
	id := p.nextSub
	p.nextSub++
	p.subs[id] = ch
	p.mu.Unlock()
	// A worker subscribes before it takes its first job.
	p.st.logEv(Event{K: "peer_subscribed", B: -1, R: -1, P: p.spec.Name})
	return ch, func() {
		p.mu.Lock()
		delete(p.subs, id)
		p.mu.Unlock()
	}
}

// disconnect closes OnDisconnect once; the log entry precedes the close.
func (p *hPeer) disconnect(why string) {
	p.mu.Lock()
	if p.discClosed {
		p.mu.Unlock()
		return
	}
	p.discClosed = true
	p.mu.Unlock()
	p.st.logEv(Event{K: "peer_disc", B: -1, R: -1, P: p.spec.Name, X: why})
	close(p.disc)
}

func (p *hPeer) isDisconnected() bool {
	p.mu.Lock()
	defer p.mu.Unlock()
	return p.discClosed
}

// QueueMessageWithEncoding is called by the worker goroutine; it never blocks.
func (p *hPeer) QueueMessageWithEncoding(msg wire.Message, doneChan chan<- struct{},
	enc wire.MessageEncoding) {

	m, ok := msg.(*Msg)
	if !ok {
		p.st.logEv(Event{K: "foreign_msg", B: -1, R: -1, P: p.spec.Name})
		return
	}
	p.mu.Lock()
	p.received++
	o := Outcome{Kind: OAnswer}
	if !p.forceGood && len(p.script) > 0 {
		o = p.script[0]
		p.script = p.script[1:]
	} else if !p.forceGood && p.spec.TailSilent {
		o = Outcome{Kind: OSilence}
	}
	late := p.pendingLate
	p.pendingLate = nil
	if o.Kind == OSilenceLate {
		p.pendingLate = append(p.pendingLate, &Msg{ReqID: m.ReqID, Part: "final"})
	}
	p.mu.Unlock()

	p.st.logDelivery(p, m.ReqID, o, uint32(enc))
	if doneChan != nil {
		select {
		case doneChan <- struct{}{}:
		default:
		}
	}
	go p.respond(m.ReqID, o, late)
}

// makeGood drops the rest of the script (used before the probe).
func (p *hPeer) makeGood() {
	p.mu.Lock()
	p.forceGood = true
	p.mu.Unlock()
}

func (p *hPeer) respond(reqID int, o Outcome, late []*Msg) {
	// Stale answers to requests this peer let time out earlier arrive
	// first: "late answer after timeout".
	for _, l := range late {
		if !p.send(l) {
			return
		}
	}
	switch o.Kind {
	case OAnswer:
		p.send(&Msg{ReqID: reqID, Part: "final"})
	case OUnrelated:
		for i := 0; i < o.N; i++ {
			if !p.send(&Msg{ReqID: -1, Part: "unrelated"}) {
				return
			}
		}
		p.send(&Msg{ReqID: reqID, Part: "final"})
	case OPartial:
		for i := 0; i < o.N; i++ {
			if !p.send(&Msg{ReqID: reqID, Part: "partial"}) {
				return
			}
		}
		p.send(&Msg{ReqID: reqID, Part: "final"})
	case OSilence, OSilenceLate:
	case OChatter:
		p.chatter(reqID)
	case OPartialSilence:
		for i := 0; i < o.N; i++ {
			if !p.send(&Msg{ReqID: reqID, Part: "partial"}) {
				return
			}
		}
	case ODisconnect:
		p.disconnect("mid-job")
	case OPartialDisconnect:
		for i := 0; i < o.N; i++ {
			if !p.send(&Msg{ReqID: reqID, Part: "partial"}) {
				return
			}
		}
		p.disconnect("mid-job-after-progress")
	}
}

// send hands one message to every current subscriber (the worker). It gives
// up when the peer is disconnected or the scenario is over.
func (p *hPeer) send(m *Msg) bool {
	p.mu.Lock()
	subs := make([]chan wire.Message, 0, len(p.subs))
	for _, c := range p.subs {
		subs = append(subs, c)
	}
	p.mu.Unlock()
	for _, c := range subs {
		select {
		case c <- m:
		case <-p.disc:
			return false
		case <-p.st.done:
			return false
		}
	}
	return true
}
