// Package c12 drives the real query work dispatcher (query.NewWorkManager with
// the real query.NewWorker and the real peer ranking) over scripted harness
// peers and checks the recorded history against the C12 oracle.
//
// The scenario driver is importable (Generate / Run) so that a race-detector
// program can run the same workload.
package c12

import (
	"fmt"
	"math/rand"
)

// Trigger is a LOGICAL point of a scenario at which an actor acts. Every
// trigger has a real-time fallback so an actor never waits forever for an
// event that the execution does not produce; the fallback only decides when
// the actor acts, never what the oracle concludes.
type Trigger struct {
	// Kind: "start" (immediately), "deliveries" (N requests have reached
	// any peer), "verdicts" (N batch verdicts were read), "submitted" (N
	// Query calls were issued), "sleep" (N milliseconds).
	Kind       string `json:"k"`
	N          int    `json:"n,omitempty"`
	FallbackMs int    `json:"fb,omitempty"`
}

// Outcome kinds: what a harness peer does with one request it receives.
const (
	OAnswer            = "answer"             // final response at once
	OUnrelated         = "unrelated"          // N unrelated messages, then the final response
	OPartial           = "partial"            // N progress messages, then the final response
	OSilence           = "silence"            // nothing (forces the worker timeout)
	OSilenceLate       = "silence_late"       // nothing now; the stale answer is sent when this peer gets its next request
	OPartialSilence    = "partial_silence"    // N progress messages, then nothing
	ODisconnect        = "disconnect"         // OnDisconnect closed mid-job
	OPartialDisconnect = "partial_disconnect" // N progress messages, then OnDisconnect closed
)

// Outcome is one scripted reaction.
type Outcome struct {
	Kind string `json:"k"`
	N    int    `json:"n,omitempty"`
}

func silent(k string) bool {
	return k == OSilence || k == OSilenceLate || k == OPartialSilence
}
func disconnects(k string) bool { return k == ODisconnect || k == OPartialDisconnect }

// PeerSpec describes one peer instance.
type PeerSpec struct {
	Name string `json:"name"` // unique instance name
	Addr string `json:"addr"` // what Addr() returns (a reconnect reuses the address)
	// Script is consumed one outcome per received request; once exhausted
	// the peer answers every request at once.
	Script  []Outcome `json:"script,omitempty"`
	Connect Trigger   `json:"connect"`
	// Leave, if set, closes OnDisconnect at that point whatever the peer
	// is doing.
	Leave *Trigger `json:"leave,omitempty"`
	// PreDisconnected peers are delivered on the ConnectedPeers channel
	// with OnDisconnect already closed (the real feed notifies from a
	// goroutine, so this order exists).
	PreDisconnected bool `json:"pre_disconnected,omitempty"`
	// ReconnectOf (1-based index into Peers, 0 = none): this instance is
	// offered only after that instance's OnDisconnect was closed, and it
	// has the same address.
	ReconnectOf int `json:"reconnect_of,omitempty"`
	// TailSilent: once the script is exhausted the peer stays connected but
	// never answers another request (instead of answering at once).
	TailSilent bool `json:"tail_silent,omitempty"`
}

// stays reports whether the instance is certain to remain connected and
// eventually responsive.
func (p PeerSpec) stays() bool {
	if p.Leave != nil || p.PreDisconnected {
		return false
	}
	for _, o := range p.Script {
		if disconnects(o.Kind) {
			return false
		}
	}
	return true
}

// OptSpec are the query options of one batch.
type OptSpec struct {
	Retries    int      `json:"retries"` // -1: option not given (package default 2)
	NoRetryMax bool     `json:"no_retry_max,omitempty"`
	HardMs     int      `json:"hard_ms,omitempty"` // 0: not given (default 30 s); -1: query.Timeout(0)
	IdleMs     int      `json:"idle_ms,omitempty"` // 0: not given
	Cancel     *Trigger `json:"cancel,omitempty"`
	Encoding   int      `json:"encoding,omitempty"` // 0 not given, 1 base, 2 witness
}

// Kinds returns the option kinds for fingerprints.
func (o OptSpec) Kinds() []string {
	var k []string
	switch {
	case o.NoRetryMax:
		k = append(k, "nomax")
	case o.Retries < 0:
		k = append(k, "rdef")
	default:
		k = append(k, fmt.Sprintf("r%d", o.Retries))
	}
	if o.HardMs > 0 {
		k = append(k, "hard")
	}
	if o.HardMs < 0 {
		k = append(k, "hard0")
	}
	if o.IdleMs > 0 {
		k = append(k, "idle")
	}
	if o.Cancel != nil {
		k = append(k, "cancel")
	}
	if o.Encoding != 0 {
		k = append(k, "enc")
	}
	return k
}

// BatchSpec is one Query call.
type BatchSpec struct {
	NReq   int     `json:"nreq"`
	Opt    OptSpec `json:"opt"`
	Submit Trigger `json:"submit"`
}

// RankSpec parameterises the constructed ranking scenario.
type RankSpec struct {
	// Variant "punished": the bad peer alone times out K times (retry cap
	// K), then the good peer connects. Variant "rewarded": the good peer
	// alone answers K requests, then a fresh peer connects.
	Variant string `json:"variant"`
	K       int    `json:"k"`
	// M further single-request batches are submitted one at a time.
	M int `json:"m"`
}

// Scenario is one case. The list of scenarios is a pure function of the seed.
type Scenario struct {
	ID      int         `json:"id"`
	Kind    string      `json:"kind"` // mixed | nopeer | stopmid | reconnect | rank | idlestall | quietreconn | chatter
	Peers   []PeerSpec  `json:"peers"`
	Batches []BatchSpec `json:"batches"`
	// StopAt: Stop is called at this point with whatever is in flight (no
	// probe phase). nil: Stop after the probe phase.
	StopAt         *Trigger  `json:"stop_at,omitempty"`
	QueryAfterStop bool      `json:"query_after_stop,omitempty"`
	Rank           *RankSpec `json:"rank,omitempty"`
	// Stall (kind idlestall): how the peers stop serving after the scripted
	// successes: "disconnect" (every peer closes OnDisconnect on the next
	// request it receives), "leave" (silent on the next request, then the
	// peer's Leave trigger closes OnDisconnect), "silent" (every peer stays
	// connected and never answers again), "mixed" (some of each).
	Stall string `json:"stall,omitempty"`
	// Steps (kind quietreconn): the scenario is this list of steps, taken one
	// after the other at quiescent points; Others says what the peers other
	// than the re-connecting one do ("none", "gone", "silent",
	// "stay-then-gone").
	Steps  []QStep `json:"steps,omitempty"`
	Others string  `json:"others,omitempty"`
	// Chatter (kind chatter): see chatter.go.
	Chatter *ChatterSpec `json:"chatter,omitempty"`
}

// Generate returns n scenarios; scenario i depends only on (seed, i).
func Generate(seed int64, n int) []Scenario {
	out := make([]Scenario, 0, n)
	for i := 0; i < n; i++ {
		rng := rand.New(rand.NewSource(seed*1_000_003 + int64(i)*7919 + 17))
		var sc Scenario
		switch i % 20 {
		case 0:
			sc = genRank(rng)
		case 1:
			sc = genNoPeer(rng)
		case 2, 3, 6, 7, 8:
			sc = genMixed(rng, "stopmid")
		case 4, 5:
			sc = genMixed(rng, "reconnect")
		default:
			sc = genMixed(rng, "mixed")
		}
		sc.ID = i
		out = append(out, sc)
	}
	return out
}

func pickW(rng *rand.Rand, weights ...int) int {
	t := 0
	for _, w := range weights {
		t += w
	}
	x := rng.Intn(t)
	for i, w := range weights {
		if x < w {
			return i
		}
		x -= w
	}
	return len(weights) - 1
}

func genTrigger(rng *rand.Rand, startW int) Trigger {
	switch pickW(rng, startW, 20, 8, 12) {
	case 0:
		return Trigger{Kind: "start"}
	case 1:
		return Trigger{Kind: "deliveries", N: 1 + rng.Intn(5), FallbackMs: 20 + rng.Intn(200)}
	case 2:
		return Trigger{Kind: "verdicts", N: 1, FallbackMs: 20 + rng.Intn(300)}
	default:
		return Trigger{Kind: "sleep", N: 1 + rng.Intn(40)}
	}
}

func genOpt(rng *rand.Rand) OptSpec {
	o := OptSpec{Retries: -1}
	switch pickW(rng, 30, 45, 25) {
	case 1:
		o.Retries = 1 + rng.Intn(3)
	case 2:
		o.NoRetryMax = true
		if rng.Intn(3) == 0 {
			o.Retries = 1 + rng.Intn(3) // must have no effect
		}
	}
	switch pickW(rng, 62, 4, 34) {
	case 1:
		o.HardMs = -1
	case 2:
		o.HardMs = []int{40, 300, 1500, 5000, 20000}[rng.Intn(5)]
	}
	if rng.Intn(100) < 33 {
		o.IdleMs = []int{30, 200, 1000, 3000}[rng.Intn(4)]
	}
	if rng.Intn(100) < 30 {
		t := genTrigger(rng, 15)
		o.Cancel = &t
	}
	if rng.Intn(100) < 20 {
		o.Encoding = 1 + rng.Intn(2)
	}
	return o
}

func genMixed(rng *rand.Rand, kind string) Scenario {
	sc := Scenario{Kind: kind}
	nBad := 1 + rng.Intn(4)
	for i := 0; i < nBad; i++ {
		p := PeerSpec{Name: fmt.Sprintf("p%d", i), Addr: fmt.Sprintf("10.0.0.%d:8333", i+1)}
		for l := rng.Intn(5); l > 0; l-- {
			var o Outcome
			switch pickW(rng, 30, 15, 20, 22, 13) {
			case 0:
				o = Outcome{Kind: OAnswer}
			case 1:
				o = Outcome{Kind: OUnrelated, N: 1 + rng.Intn(3)}
			case 2:
				o = Outcome{Kind: OPartial, N: 1 + rng.Intn(4)}
			case 3:
				o = Outcome{Kind: ODisconnect}
			case 4:
				o = Outcome{Kind: OPartialDisconnect, N: 1 + rng.Intn(3)}
			}
			p.Script = append(p.Script, o)
			if disconnects(o.Kind) {
				break // nothing is received after a disconnect
			}
		}
		p.Connect = genTrigger(rng, 60)
		if rng.Intn(100) < 18 {
			t := genTrigger(rng, 5)
			p.Leave = &t
		}
		if rng.Intn(100) < 5 {
			p.PreDisconnected = true
		}
		sc.Peers = append(sc.Peers, p)
	}
	// A peer that stays and is (eventually) responsive, in most scenarios.
	if rng.Intn(100) < 88 || kind == "reconnect" {
		p := PeerSpec{Name: "stay", Addr: "10.0.1.1:8333"}
		for l := rng.Intn(3); l > 0; l-- {
			switch pickW(rng, 40, 30, 30) {
			case 0:
				p.Script = append(p.Script, Outcome{Kind: OAnswer})
			case 1:
				p.Script = append(p.Script, Outcome{Kind: OUnrelated, N: 1 + rng.Intn(3)})
			case 2:
				p.Script = append(p.Script, Outcome{Kind: OPartial, N: 1 + rng.Intn(4)})
			}
		}
		p.Connect = genTrigger(rng, 40)
		sc.Peers = append(sc.Peers, p)
	}
	// Forced worker timeouts: at most 3 silence-type outcomes per scenario.
	for t := []int{0, 1, 2, 3}[pickW(rng, 38, 37, 15, 10)]; t > 0; t-- {
		pi := rng.Intn(len(sc.Peers))
		p := &sc.Peers[pi]
		var o Outcome
		switch pickW(rng, 45, 30, 25) {
		case 0:
			o = Outcome{Kind: OSilence}
		case 1:
			o = Outcome{Kind: OSilenceLate}
		case 2:
			o = Outcome{Kind: OPartialSilence, N: 1 + rng.Intn(3)}
		}
		// Insert before any disconnect outcome (which is last).
		pos := 0
		lim := len(p.Script)
		if lim > 0 && disconnects(p.Script[lim-1].Kind) {
			lim--
		}
		if lim > 0 {
			pos = rng.Intn(lim + 1)
		}
		p.Script = append(p.Script[:pos], append([]Outcome{o}, p.Script[pos:]...)...)
	}

	nb := 1 + rng.Intn(4)
	for i := 0; i < nb; i++ {
		b := BatchSpec{Opt: genOpt(rng), Submit: genTrigger(rng, 60)}
		if rng.Intn(100) < 5 {
			b.NReq = 0
		} else {
			b.NReq = 1 + rng.Intn(6)
		}
		sc.Batches = append(sc.Batches, b)
	}

	switch kind {
	case "stopmid":
		var t Trigger
		switch pickW(rng, 45, 30, 25) {
		case 0:
			t = Trigger{Kind: "deliveries", N: 1 + rng.Intn(6), FallbackMs: 30 + rng.Intn(200)}
		case 1:
			t = Trigger{Kind: "verdicts", N: 1 + rng.Intn(2), FallbackMs: 30 + rng.Intn(300)}
		case 2:
			t = Trigger{Kind: "sleep", N: rng.Intn(60)}
		}
		sc.StopAt = &t
		sc.QueryAfterStop = rng.Intn(2) == 0
		if rng.Intn(10) < 9 {
			// Submissions racing Stop: further batches are handed to Query
			// at the very trigger at which Stop is called.
			for j, nx := 0, 3+rng.Intn(5); j < nx; j++ {
				sc.Batches = append(sc.Batches, BatchSpec{Opt: genOpt(rng), Submit: t, NReq: 1 + rng.Intn(3)})
			}
		}
	case "reconnect":
		// Peer 0 disconnects while working (first or second request) and
		// comes back under the same address. Plenty of queued work so the
		// dispatcher is busy when it does.
		p0 := &sc.Peers[0]
		p0.PreDisconnected = false
		p0.Leave = nil
		p0.Connect = Trigger{Kind: "start"}
		d := Outcome{Kind: ODisconnect}
		if rng.Intn(3) == 0 {
			d = Outcome{Kind: OPartialDisconnect, N: 1 + rng.Intn(2)}
		}
		if rng.Intn(2) == 0 {
			p0.Script = []Outcome{d}
		} else {
			p0.Script = []Outcome{{Kind: OAnswer}, d}
		}
		sc.Peers = append(sc.Peers, PeerSpec{
			Name: "p0again", Addr: p0.Addr, ReconnectOf: 1,
			Connect: Trigger{Kind: "sleep", N: rng.Intn(3)},
		})
		for i := range sc.Batches {
			if sc.Batches[i].NReq > 0 {
				sc.Batches[i].NReq = 3 + rng.Intn(5)
			}
			sc.Batches[i].Submit = Trigger{Kind: "start"}
			if rng.Intn(2) == 0 {
				sc.Batches[i].Opt.NoRetryMax = true
			}
		}
	}
	if kind == "mixed" && rng.Intn(100) < 25 {
		sc.QueryAfterStop = true
	}
	return sc
}

func genNoPeer(rng *rand.Rand) Scenario {
	sc := Scenario{Kind: "nopeer"}
	nb := 1 + rng.Intn(3)
	for i := 0; i < nb; i++ {
		b := BatchSpec{Opt: OptSpec{Retries: -1}, Submit: Trigger{Kind: "start"}}
		b.NReq = rng.Intn(4) // zero-request batches included
		switch pickW(rng, 35, 25, 20, 20) {
		case 0:
			b.Opt.IdleMs = []int{30, 100, 400}[rng.Intn(3)]
		case 1:
			b.Opt.HardMs = []int{20, 100}[rng.Intn(2)]
		case 2:
			t := Trigger{Kind: "sleep", N: rng.Intn(30)}
			b.Opt.Cancel = &t
		}
		if rng.Intn(4) == 0 {
			b.Opt.NoRetryMax = true
		}
		sc.Batches = append(sc.Batches, b)
	}
	sc.QueryAfterStop = rng.Intn(2) == 0
	return sc
}

func genRank(rng *rand.Rand) Scenario {
	sc := Scenario{Kind: "rank"}
	r := &RankSpec{M: 1 + rng.Intn(3)}
	if rng.Intn(2) == 0 {
		r.Variant = "punished"
		r.K = 1 + pickW(rng, 75, 25) // 1 or 2 forced timeouts (2 s, 2+4 s)
	} else {
		r.Variant = "rewarded"
		r.K = 1 + rng.Intn(3)
	}
	sc.Rank = r
	// Peer 0 is the worse one, peer 1 the better one. The driver connects
	// them itself.
	bad := PeerSpec{Name: "bad", Addr: "10.0.2.1:8333"}
	if r.Variant == "punished" {
		for i := 0; i < r.K; i++ {
			bad.Script = append(bad.Script, Outcome{Kind: OSilence})
		}
	}
	sc.Peers = []PeerSpec{bad, {Name: "good", Addr: "10.0.2.2:8333"}}
	return sc
}
