package c12

import (
	"bytes"
	"context"
	"fmt"
	"regexp"
	"runtime/pprof"
	"strings"
	"sync"
	"sync/atomic"
	"time"

	"github.com/btcsuite/btcd/wire/v2"
	"github.com/lightninglabs/neutrino/query"
)

// Watchdogs. They are only reached when something is stuck; a healthy
// scenario never waits for them.
var (
	// QuietWatchdog: no event at all in the scenario for this long while a
	// batch that has to end is still open. A scenario scripts at most three
	// silences, so the longest worker timeout it can legitimately sit
	// through is 8 s (2 s doubling per timeout of one job: 2, 4, 8; a 16 s
	// attempt would need a fourth silence); idle/hard timers are <= 20 s
	// and never the only thing a waited-for batch depends on.
	QuietWatchdog = 30 * time.Second
	// StopWatchdog bounds the wait for Stop to return.
	StopWatchdog = 30 * time.Second
	// IdleWatchdog bounds the wait for an idle-timeout verdict when no
	// peer is connected (typical: the timeout itself, <= 0.4 s).
	IdleWatchdog = 30 * time.Second
)

// Event is one entry of the recorded history. Seq gives the total order in
// which the harness observed things.
type Event struct {
	Seq int    `json:"seq"`
	Ms  int64  `json:"ms"` // informational only
	K   string `json:"k"`
	B   int    `json:"b"` // batch index (-1 n/a; probe batches continue the numbering)
	R   int    `json:"r"` // request id (-1 n/a)
	P   string `json:"p,omitempty"`
	X   string `json:"x,omitempty"`
}

type verdict struct {
	err error
	seq int
	at  time.Time
}

type delivery struct {
	peer    *hPeer
	seq     int
	outcome string
}

type hReq struct {
	b   *hBatch
	id  int
	msg *Msg
	req *query.Request

	// guarded by state.mu
	deliveries  []delivery
	finishedSeq int // seq of first HandleResp returning Finished (0: none)
	handles     int
}

type hBatch struct {
	idx   int
	spec  BatchSpec
	probe bool
	reqs  []*hReq

	cancelCh chan struct{}
	ch       chan error

	queryDone  chan struct{} // closed when Query returned
	waiterDone chan struct{} // closed when the verdict reader finished
	gotFirst   chan struct{} // closed when the first verdict was read

	// guarded by state.mu
	queryStart     time.Time
	submitSeq      int
	cancelSeq      int // seq of the cancel close (0: not closed)
	verdicts       []verdict
	secondRead     bool // a value was readable after the first
	secondErr      error
	afterStopQuery bool

	// probe batches: which step, and if the step ended by the quiet
	// watchdog, where this scenario's dispatcher goroutine was parked
	// (two samples 2 s apart)
	probeTag   string
	wdEvent    string
	dispLine   string
	dispParked bool
	dispStack  string

	// family idlestall: what the stall watchdog saw while this batch (which
	// has an idle timeout) was still without a verdict
	idleWd *idleWd
}

type state struct {
	sc    Scenario
	start time.Time
	wm    query.WorkManager

	peersCh chan query.Peer
	done    chan struct{} // scenario over: release every harness goroutine
	stopped chan struct{} // Stop returned
	gaveUp  chan struct{} // Stop did not return within the watchdog

	mu        sync.Mutex
	log       []Event
	changed   chan struct{}
	nDeliv    int
	nVerd     int
	nSub      int
	peers     []*hPeer
	batches   []*hBatch
	reqs      map[int]*hReq
	nextReq   int
	stopSeq   int
	lastEvent time.Time
	maxTries  int
	encMis    int

	vios  []Violation
	incon []string

	tag string // pprof label value of this execution

	afterStopBatch *hBatch
	discSeq        map[string]int // peer instance -> seq of its disconnect (evaluate)
	mainFired      bool           // the main-phase quiet watchdog fired
}

// Violation is one oracle finding.
type Violation struct {
	Sig     string `json:"sig"`
	What    string `json:"what"`
	Witness any    `json:"witness"`
}

// Result is what one scenario execution produced.
type Result struct {
	Scenario     Scenario
	Fingerprint  string
	Nontrivial   bool
	Violations   []Violation
	Inconclusive []string
	Counters     map[string]int64
	VerdictKinds map[string]int64
	Sample       any
}

func (st *state) logEv(e Event) int {
	st.mu.Lock()
	defer st.mu.Unlock()
	return st.logLocked(e)
}

func (st *state) logLocked(e Event) int {
	e.Seq = len(st.log) + 1
	now := time.Now()
	e.Ms = now.Sub(st.start).Milliseconds()
	switch e.K {
	case "peer_offer_not_taken", "quiet_watchdog_main", "quiet_watchdog_probe",
		"probe_peer_not_taken", "pending_without_peer",
		"idle_stall_watchdog", "idle_stall_outlived_worker_timeouts":
		// the harness noting that nothing happened is not an event that
		// restarts the quiet clock
	default:
		st.lastEvent = now
	}
	st.log = append(st.log, e)
	close(st.changed)
	st.changed = make(chan struct{})
	return e.Seq
}

func (st *state) logDelivery(p *hPeer, reqID int, o Outcome, enc uint32) {
	st.mu.Lock()
	defer st.mu.Unlock()
	r := st.reqs[reqID]
	b := -1
	if r != nil {
		b = r.b.idx
	}
	seq := st.logLocked(Event{K: "deliver", B: b, R: reqID, P: p.spec.Name,
		X: fmt.Sprintf("%s enc=%d", o.Kind, enc)})
	st.nDeliv++
	if r != nil {
		r.deliveries = append(r.deliveries, delivery{peer: p, seq: seq, outcome: o.Kind})
		want := uint32(wire.WitnessEncoding) // package default
		switch r.b.spec.Opt.Encoding {
		case 1:
			want = uint32(wire.BaseEncoding)
		case 2:
			want = uint32(wire.WitnessEncoding)
		}
		if enc != want {
			st.encMis++
		}
	}
}

// wait blocks until pred holds, the fallback elapsed (0: none) or the scenario
// is over. It reports whether pred held.
func (st *state) wait(pred func() bool, fallback time.Duration) bool {
	var dl <-chan time.Time
	if fallback > 0 {
		t := time.NewTimer(fallback)
		defer t.Stop()
		dl = t.C
	}
	for {
		st.mu.Lock()
		ok := pred()
		ch := st.changed
		st.mu.Unlock()
		if ok {
			return true
		}
		select {
		case <-ch:
		case <-dl:
			return false
		case <-st.done:
			return false
		}
	}
}

func (st *state) waitTrigger(t Trigger) {
	fb := time.Duration(t.FallbackMs) * time.Millisecond
	if fb == 0 {
		fb = 100 * time.Millisecond
	}
	switch t.Kind {
	case "start", "":
	case "deliveries":
		st.wait(func() bool { return st.nDeliv >= t.N }, fb)
	case "verdicts":
		st.wait(func() bool { return st.nVerd >= t.N }, fb)
	case "submitted":
		st.wait(func() bool { return st.nSub >= t.N }, fb)
	case "sleep":
		select {
		case <-time.After(time.Duration(t.N) * time.Millisecond):
		case <-st.done:
		}
	}
}

// offer delivers a peer on the ConnectedPeers channel. The channel is
// unbuffered, so when offer returns the dispatcher has taken the peer and
// registers it before it looks at anything else.
func (st *state) offer(p *hPeer) bool {
	st.logEv(Event{K: "peer_offer", B: -1, R: -1, P: p.spec.Name, X: p.spec.Addr})
	for {
		t := time.NewTimer(2 * time.Second)
		select {
		case st.peersCh <- p:
			t.Stop()
			p.mu.Lock()
			p.connected = true
			p.mu.Unlock()
			st.logEv(Event{K: "peer_taken", B: -1, R: -1, P: p.spec.Name})
			return true
		case <-st.done:
			t.Stop()
			return false
		case <-st.stopped:
			t.Stop()
			return false
		case <-st.gaveUp:
			t.Stop()
			return false
		case <-t.C:
			st.mu.Lock()
			quiet := time.Since(st.lastEvent)
			stopping := st.stopSeq != 0
			st.mu.Unlock()
			if !stopping && quiet >= st.quietLimit() {
				st.logEv(Event{K: "peer_offer_not_taken", B: -1, R: -1, P: p.spec.Name})
				return false
			}
		}
	}
}

// quietLimit is the length of complete silence after which a wait is given up.
func (st *state) quietLimit() time.Duration { return QuietWatchdog }

func (st *state) peerActor(p *hPeer) {
	defer close(p.actorDone)
	if p.spec.ReconnectOf > 0 {
		old := st.peers[p.spec.ReconnectOf-1]
		// Two peers with one address are never connected at the same
		// time: if the old instance has not left after a second, this
		// instance is not offered at all.
		t := time.NewTimer(time.Second)
		defer t.Stop()
		select {
		case <-old.disc:
		case <-t.C:
			st.logEv(Event{K: "reconnect_skipped", B: -1, R: -1, P: p.spec.Name})
			return
		case <-st.done:
			return
		}
	}
	st.waitTrigger(p.spec.Connect)
	if p.spec.PreDisconnected {
		p.disconnect("before-offer")
	}
	if !st.offer(p) {
		return
	}
	if p.spec.Leave != nil {
		st.waitTrigger(*p.spec.Leave)
		p.disconnect("leave")
	}
}

func (st *state) newBatch(spec BatchSpec, probe bool) *hBatch {
	st.mu.Lock()
	defer st.mu.Unlock()
	b := &hBatch{
		idx: len(st.batches), spec: spec, probe: probe,
		queryDone:  make(chan struct{}),
		waiterDone: make(chan struct{}),
		gotFirst:   make(chan struct{}),
	}
	if spec.Opt.Cancel != nil {
		b.cancelCh = make(chan struct{})
	}
	for i := 0; i < spec.NReq; i++ {
		r := &hReq{b: b, id: st.nextReq}
		st.nextReq++
		r.msg = &Msg{ReqID: r.id, Part: "req"}
		finishedAlsoProgressed := (r.id % 2) == 0
		r.req = &query.Request{
			Req: r.msg,
			HandleResp: func(req, resp wire.Message, peer string) query.Progress {
				var pr query.Progress
				kind := "foreign"
				if m, ok := resp.(*Msg); ok {
					kind = fmt.Sprintf("%s(%d)", m.Part, m.ReqID)
					if m.ReqID == r.id {
						switch m.Part {
						case "final":
							pr.Finished = true
							pr.Progressed = finishedAlsoProgressed
						case "partial":
							pr.Progressed = true
						}
					}
				}
				st.mu.Lock()
				x := kind
				if pr.Finished {
					x += " Finished"
				}
				if pr.Progressed {
					x += " Progressed"
				}
				if req != wire.Message(r.msg) {
					x += " WRONGREQ"
				}
				seq := st.logLocked(Event{K: "handle", B: b.idx, R: r.id, P: peer, X: x})
				r.handles++
				if pr.Finished && r.finishedSeq == 0 {
					r.finishedSeq = seq
				}
				st.mu.Unlock()
				return pr
			},
		}
		st.reqs[r.id] = r
		b.reqs = append(b.reqs, r)
	}
	st.batches = append(st.batches, b)
	return b
}

func (st *state) options(b *hBatch) []query.QueryOption {
	o := b.spec.Opt
	var opts []query.QueryOption
	if o.Retries >= 0 {
		opts = append(opts, query.NumRetries(uint8(o.Retries)))
	}
	if o.NoRetryMax {
		opts = append(opts, query.NoRetryMax())
	}
	if o.HardMs > 0 {
		opts = append(opts, query.Timeout(time.Duration(o.HardMs)*time.Millisecond))
	} else if o.HardMs < 0 {
		opts = append(opts, query.Timeout(0))
	}
	if o.IdleMs > 0 {
		opts = append(opts, query.ProgressTimeout(time.Duration(o.IdleMs)*time.Millisecond))
	}
	if b.cancelCh != nil {
		opts = append(opts, query.Cancel(b.cancelCh))
	}
	switch o.Encoding {
	case 1:
		opts = append(opts, query.Encoding(wire.BaseEncoding))
	case 2:
		opts = append(opts, query.Encoding(wire.WitnessEncoding))
	}
	return opts
}

// submit issues the Query call and reads the channel: one blocking read, and
// after Stop returned a non-blocking one if nothing had arrived.
func (st *state) submit(b *hBatch) {
	reqs := make([]*query.Request, len(b.reqs))
	for i, r := range b.reqs {
		reqs[i] = r.req
	}
	opts := st.options(b)

	if b.cancelCh != nil {
		go func() {
			st.waitTrigger(*b.spec.Opt.Cancel)
			st.mu.Lock()
			b.cancelSeq = st.logLocked(Event{K: "cancel_close", B: b.idx, R: -1})
			st.mu.Unlock()
			close(b.cancelCh)
		}()
	}

	st.mu.Lock()
	b.queryStart = time.Now()
	b.submitSeq = st.logLocked(Event{K: "submit", B: b.idx, R: -1,
		X: fmt.Sprintf("nreq=%d opts=%s", len(reqs), strings.Join(b.spec.Opt.Kinds(), ","))})
	b.afterStopQuery = st.stopSeq != 0
	st.nSub++
	st.mu.Unlock()

	ch := st.wm.Query(reqs, opts...)
	st.mu.Lock()
	b.ch = ch
	st.mu.Unlock()
	st.logEv(Event{K: "query_returned", B: b.idx, R: -1})
	close(b.queryDone)

	record := func(err error) {
		now := time.Now()
		st.mu.Lock()
		seq := st.logLocked(Event{K: "verdict", B: b.idx, R: -1, X: errKind(err)})
		b.verdicts = append(b.verdicts, verdict{err: err, seq: seq, at: now})
		st.nVerd++
		st.mu.Unlock()
		close(b.gotFirst)
	}
	select {
	case err := <-ch:
		record(err)
	case <-st.stopped:
		// Stop returned and this Query call returned: whatever this
		// batch will ever get has been sent.
		select {
		case err := <-ch:
			record(err)
		default:
		}
	case <-st.gaveUp:
	}
	close(b.waiterDone)
}

func errKind(err error) string {
	switch err {
	case nil:
		return "nil"
	case query.ErrQueryTimeout:
		return "ErrQueryTimeout"
	case query.ErrPeerDisconnected:
		return "ErrPeerDisconnected"
	case query.ErrJobCanceled:
		return "ErrJobCanceled"
	case query.ErrWorkManagerShuttingDown:
		return "ErrWorkManagerShuttingDown"
	}
	return "other:" + err.Error()
}

// waitChan waits for c; it gives up when the scenario has been completely
// quiet for the quiet limit.
func (st *state) waitChan(c chan struct{}) bool {
	for {
		t := time.NewTimer(2 * time.Second)
		select {
		case <-c:
			t.Stop()
			return true
		case <-st.done:
			t.Stop()
			return false
		case <-t.C:
			st.mu.Lock()
			quiet := time.Since(st.lastEvent)
			st.mu.Unlock()
			if quiet >= st.quietLimit() {
				return false
			}
		}
	}
}

// settle waits until every given batch has a verdict or nothing has happened
// for d. It only decides when the harness moves on.
func (st *state) settle(bs []*hBatch, d time.Duration) {
	for {
		all := st.wait(func() bool {
			for _, b := range bs {
				if len(b.verdicts) == 0 {
					return false
				}
			}
			return true
		}, d/3)
		if all {
			return
		}
		select {
		case <-st.done:
			return
		default:
		}
		st.mu.Lock()
		quiet := time.Since(st.lastEvent)
		st.mu.Unlock()
		if quiet >= d {
			return
		}
	}
}

// waitBatches waits until all given batches have a verdict. It gives up when
// the scenario has been completely quiet for QuietWatchdog.
func (st *state) waitBatches(bs []*hBatch) bool {
	for {
		all := st.wait(func() bool {
			for _, b := range bs {
				if len(b.verdicts) == 0 {
					return false
				}
			}
			return true
		}, 2*time.Second)
		if all {
			return true
		}
		select {
		case <-st.done:
			return false
		default:
		}
		st.mu.Lock()
		quiet := time.Since(st.lastEvent)
		st.mu.Unlock()
		if quiet >= st.quietLimit() {
			return false
		}
	}
}

// stop calls Stop under a watchdog.
func (st *state) stop() {
	done := make(chan struct{})
	go func() {
		st.mu.Lock()
		st.stopSeq = st.logLocked(Event{K: "stop_called", B: -1, R: -1})
		st.mu.Unlock()
		_ = st.wm.Stop()
		st.logEv(Event{K: "stop_returned", B: -1, R: -1})
		close(done)
	}()
	select {
	case <-done:
		close(st.stopped)
		return
	case <-time.After(StopWatchdog):
	}
	// Goroutine-level argument: quit is closed, so every select of the
	// dispatcher that has a quit arm proceeds. If this scenario's dispatcher
	// goroutine sits at the same statement in two samples 2 s apart, it is
	// at a statement without a quit arm (a send on a batch's result channel)
	// and Stop can never return.
	line, parked, stack := st.dispatcherParked()
	select {
	case <-done:
		close(st.stopped)
		st.addIncon("stop-slow")
		return
	default:
	}
	close(st.gaveUp)
	if parked {
		st.addVio(Violation{
			Sig: "stop-blocked/dispatcher-parked-after-quit",
			What: fmt.Sprintf("Stop did not return within %v; after quit was closed this scenario's dispatcher goroutine was parked at workmanager.go:%s in two samples 2 s apart",
				StopWatchdog, line),
			Witness: map[string]any{"dispatcher_stack": stack, "scenario": st.sc},
		})
	} else {
		st.addIncon("stop-watchdog-unclassified")
	}
}

func (st *state) addVio(v Violation) {
	st.mu.Lock()
	st.vios = append(st.vios, v)
	st.mu.Unlock()
}
func (st *state) addIncon(s string) {
	st.mu.Lock()
	st.incon = append(st.incon, s)
	st.mu.Unlock()
}

var (
	reDispFrame = regexp.MustCompile(`\)\.workDispatcher\+0x[0-9a-f]+\s+\S*workmanager\.go:(\d+)`)
	runNonce    atomic.Int64
)

// dispatcherAt returns the source line in query/workmanager.go at which the
// dispatcher goroutine of THIS scenario is currently parked. The goroutine is
// identified by the pprof label that Run sets before Start (labels are
// inherited by the goroutines a labelled goroutine creates).
func (st *state) dispatcherAt() (line string, stack string) {
	var buf bytes.Buffer
	_ = pprof.Lookup("goroutine").WriteTo(&buf, 1)
	for _, blk := range strings.Split(buf.String(), "\n\n") {
		if !strings.Contains(blk, `"c12scn":"`+st.tag+`"`) {
			continue
		}
		if m := reDispFrame.FindStringSubmatch(blk); m != nil {
			return m[1], blk
		}
	}
	return "", ""
}

// dispatcherParked samples the scenario's dispatcher goroutine twice, 2 s
// apart, and reports whether it sat at the same statement both times.
func (st *state) dispatcherParked() (line string, parked bool, stack string) {
	l1, _ := st.dispatcherAt()
	select {
	case <-time.After(2 * time.Second):
	case <-st.done:
	}
	l2, blk := st.dispatcherAt()
	return l2, l1 != "" && l1 == l2, blk
}

// Run executes one scenario against the real dispatcher and evaluates the
// oracle on the recorded history.
func Run(sc Scenario) *Result {
	st := &state{
		sc:      sc,
		start:   time.Now(),
		peersCh: make(chan query.Peer),
		done:    make(chan struct{}),
		stopped: make(chan struct{}),
		gaveUp:  make(chan struct{}),
		changed: make(chan struct{}),
		reqs:    map[int]*hReq{},
	}
	st.lastEvent = st.start
	st.tag = fmt.Sprintf("%d-%d", sc.ID, runNonce.Add(1))
	pprof.SetGoroutineLabels(pprof.WithLabels(context.Background(), pprof.Labels("c12scn", st.tag)))
	defer pprof.SetGoroutineLabels(context.Background())
	for i, ps := range sc.Peers {
		st.peers = append(st.peers, newPeer(st, i, ps))
	}
	cfg := &query.Config{
		ConnectedPeers: func() (<-chan query.Peer, func(), error) {
			return st.peersCh, func() {
				st.logEv(Event{K: "peers_unsubscribed", B: -1, R: -1})
			}, nil
		},
		NewWorker: query.NewWorker,
		Ranking:   query.NewPeerRanking(),
		OnMaxTries: func(p query.Peer) {
			st.mu.Lock()
			st.maxTries++
			st.logLocked(Event{K: "on_max_tries", B: -1, R: -1, P: p.Addr()})
			st.mu.Unlock()
		},
	}
	st.wm = query.NewWorkManager(cfg)
	_ = st.wm.Start()

	var submits sync.WaitGroup
	if sc.Kind == "rank" {
		st.runRank()
	} else if sc.Kind == "idlestall" {
		st.runIdleStall(&submits)
	} else if sc.Kind == "quietreconn" {
		st.runQuiet(&submits)
	} else if sc.Kind == "chatter" {
		st.runChatter()
	} else {
		var main []*hBatch
		for _, bs := range sc.Batches {
			main = append(main, st.newBatch(bs, false))
		}
		for _, p := range st.peers {
			go st.peerActor(p)
		}
		for _, b := range main {
			b := b
			submits.Add(1)
			go func() {
				defer submits.Done()
				st.waitTrigger(b.spec.Submit)
				st.submit(b)
			}()
		}
		if sc.StopAt != nil {
			st.waitTrigger(*sc.StopAt)
			st.stop()
		} else {
			st.mainPhase(main)
			st.probePhase(main)
			st.stop()
		}
	}

	// Query after Stop: must yield exactly one shutdown error, at once.
	if sc.QueryAfterStop {
		select {
		case <-st.stopped:
			b := st.newBatch(BatchSpec{NReq: 1, Opt: OptSpec{Retries: -1}}, false)
			st.mu.Lock()
			st.afterStopBatch = b
			st.mu.Unlock()
			submits.Add(1)
			go func() { defer submits.Done(); st.submit(b) }()
		default:
		}
	}

	// Every Query call returns at the latest when quit is closed; every
	// reader finishes once Stop returned.
	allDone := make(chan struct{})
	go func() {
		submits.Wait()
		st.mu.Lock()
		bs := append([]*hBatch(nil), st.batches...)
		st.mu.Unlock()
		for _, b := range bs {
			select {
			case <-b.queryDone:
				<-b.waiterDone
			case <-st.gaveUp:
			}
		}
		close(allDone)
	}()
	select {
	case <-allDone:
	case <-time.After(StopWatchdog + 15*time.Second):
		st.addIncon("harness-readers-did-not-finish")
	}

	// Second, non-blocking read of every result channel. The dispatcher and
	// all workers have exited (Stop returned), so nothing can be sent later.
	st.mu.Lock()
	for _, b := range st.batches {
		if b.ch == nil || len(b.verdicts) == 0 {
			continue
		}
		select {
		case err := <-b.ch:
			b.secondRead = true
			b.secondErr = err
			st.logLocked(Event{K: "second_value", B: b.idx, R: -1, X: errKind(err)})
		default:
		}
	}
	st.mu.Unlock()

	res := st.evaluate()

	// Tear down: release every harness goroutine.
	close(st.done)
	st.mu.Lock()
	ps := append([]*hPeer(nil), st.peers...)
	st.mu.Unlock()
	for _, p := range ps {
		p.mu.Lock()
		if !p.discClosed {
			p.discClosed = true
			close(p.disc)
		}
		p.mu.Unlock()
	}
	return res
}

// mainPhase waits for the batches that have to end because a peer that stays
// is (or will be) connected; batches that only an idle timer can end when no
// peer is around are awaited under their own watchdog.
func (st *state) mainPhase(main []*hBatch) {
	// First let every actor take its scheduled steps: peers offered (and
	// left), batches submitted.
	for _, p := range st.peers {
		st.waitChan(p.actorDone)
	}
	for _, b := range main {
		st.waitChan(b.queryDone)
	}
	stayer := false
	for _, p := range st.sc.Peers {
		if p.stays() {
			stayer = true
		}
	}
	var must, idle []*hBatch
	for _, b := range main {
		switch {
		case stayer && b.spec.NReq > 0:
			must = append(must, b)
		case !stayer && len(st.sc.Peers) == 0 && b.spec.Opt.IdleMs > 0:
			idle = append(idle, b)
		}
	}
	if len(must) > 0 {
		if !st.waitBatches(must) {
			st.mu.Lock()
			st.mainFired = true
			st.logLocked(Event{K: "quiet_watchdog_main", B: -1, R: -1})
			st.mu.Unlock()
		}
	}
	if len(idle) > 0 {
		ok := st.wait(func() bool {
			for _, b := range idle {
				if len(b.verdicts) == 0 {
					return false
				}
			}
			return true
		}, IdleWatchdog)
		if !ok {
			st.addIncon("idle-timeout-verdict-not-seen-within-watchdog")
		}
	}
	if !stayer && len(st.sc.Peers) > 0 {
		// No peer is certain to stay: let the scripted peers do what they
		// will with the batches before the probe phase takes over.
		st.settle(main, 400*time.Millisecond)
	}
	if len(st.sc.Peers) == 0 {
		// Let short hard timers elapse so that hypothesis 11 (hard timeout
		// is only polled on job results) is recorded, not asserted.
		select {
		case <-time.After(250 * time.Millisecond):
		case <-st.done:
		}
		st.mu.Lock()
		for _, b := range main {
			if len(b.verdicts) == 0 {
				st.logLocked(Event{K: "pending_without_peer", B: b.idx, R: -1})
			}
		}
		st.mu.Unlock()
	}
}

// probePhase connects a fresh responsive peer, makes the staying peers
// responsive, and submits a single-request probe batch. With that peer around
// every batch that has requests must end; the probe must succeed.
func (st *state) probePhase(main []*hBatch) {
	st.mu.Lock()
	ps := append([]*hPeer(nil), st.peers...)
	st.mu.Unlock()
	stayer := false
	for _, p := range ps {
		p.makeGood()
		p.mu.Lock()
		if p.spec.stays() && p.connected && !p.discClosed {
			stayer = true
		}
		p.mu.Unlock()
	}
	pending := func() []*hBatch {
		var need []*hBatch
		for _, b := range main {
			if b.spec.NReq > 0 {
				need = append(need, b)
			}
		}
		return need
	}

	// Probe A: only the peers that are already connected. If one of them
	// stays connected and is responsive, a new batch must be served by it.
	if stayer {
		pa := st.newBatch(BatchSpec{NReq: 1, Opt: OptSpec{Retries: -1, NoRetryMax: true}}, true)
		pa.probeTag = "A"
		go st.submit(pa)
		if !st.waitBatches(append(pending(), pa)) {
			if st.probeWatchdog(pa, "quiet_watchdog_probe") {
				// The dispatcher goroutine does not move: nothing more
				// can be learnt from a second probe.
				return
			}
		}
	}

	// Probe B: a fresh responsive peer connects first. With it around every
	// batch that has requests must end.
	st.mu.Lock()
	pp := newPeer(st, len(st.peers), PeerSpec{Name: "probe-peer", Addr: "10.9.9.9:8333"})
	st.peers = append(st.peers, pp)
	st.mu.Unlock()
	pb := st.newBatch(BatchSpec{NReq: 1, Opt: OptSpec{Retries: -1, NoRetryMax: true}}, true)
	pb.probeTag = "B"
	if !st.offer(pp) {
		st.mu.Lock()
		refused := false
		for _, e := range st.log {
			if e.K == "peer_offer_not_taken" && e.P == "probe-peer" {
				refused = true
			}
		}
		st.mu.Unlock()
		if refused {
			st.probeWatchdog(pb, "probe_peer_not_taken")
		}
		return
	}
	go st.submit(pb)
	if !st.waitBatches(append(pending(), pb)) {
		st.probeWatchdog(pb, "quiet_watchdog_probe")
	}
}

// probeWatchdog records that a probe step ended by the quiet watchdog,
// together with two samples of where this scenario's dispatcher is parked.
func (st *state) probeWatchdog(pb *hBatch, ev string) (parked bool) {
	line, parked, stack := st.dispatcherParked()
	st.mu.Lock()
	pb.wdEvent, pb.dispLine, pb.dispParked, pb.dispStack = ev, line, parked, stack
	st.logLocked(Event{K: ev, B: pb.idx, R: -1, X: fmt.Sprintf("dispatcher at workmanager.go:%s parked=%v", line, parked)})
	st.mu.Unlock()
	return parked
}

// runRank is the constructed ranking scenario: every step is taken at a
// quiescent point (the previous batch's verdict was read, so its worker is
// marked free), and the two peers' scores differ strictly.
func (st *state) runRank() {
	r := st.sc.Rank
	bad, good := st.peers[0], st.peers[1]
	runOne := func(spec BatchSpec, tag string) *hBatch {
		b := st.newBatch(spec, false)
		st.logEv(Event{K: "rank_step", B: b.idx, R: -1, X: tag})
		go st.submit(b)
		st.waitBatches([]*hBatch{b})
		return b
	}
	switch r.Variant {
	case "punished":
		if !st.offer(bad) {
			return
		}
		// K worker timeouts on the only peer; retry cap K ends the batch.
		runOne(BatchSpec{NReq: 1, Opt: OptSpec{Retries: r.K}}, "punish")
		if !st.offer(good) {
			return
		}
	case "rewarded":
		if !st.offer(good) {
			return
		}
		runOne(BatchSpec{NReq: r.K, Opt: OptSpec{Retries: -1}}, "reward")
		if !st.offer(bad) {
			return
		}
	}
	for i := 0; i < r.M; i++ {
		runOne(BatchSpec{NReq: 1, Opt: OptSpec{Retries: -1}}, "ranked")
	}
	st.mu.Lock()
	main := append([]*hBatch(nil), st.batches...)
	st.mu.Unlock()
	st.probePhase(main)
	st.stop()
}
