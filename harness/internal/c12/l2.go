package c12

// Network-level (L2) family of the C12 check: the complete client
// (ChainService: connection manager, btcd peers, the ServerPeer adaptor that
// is the dispatcher's query.Peer, work manager, workers) runs against scripted
// wire peers, and queries are issued through the public API (GetBlock,
// GetCFilter with and without batches) while peers are disconnected LOCALLY —
// by a response handler that bans the peer it is talking to, by the client's
// own read loop, or through the peer API from the harness at a seeded point
// of a multi-message response — with further messages of that peer already
// written behind the one being handled.
//
// Oracle (the property, at the level of the public API): every call returns
// exactly once, a success carries the true block / filter, calls issued after
// earlier ones ended are not blocked, and Stop returns. "Never returns" is
// judged by goroutine dumps only (judgeStuck); wall-clock watchdogs alone are
// inconclusive.

import (
	"bytes"
	"encoding/json"
	"fmt"
	"math/rand"
	"os"
	"runtime"
	"sort"
	"strings"
	"sync"
	"sync/atomic"
	"time"

	"github.com/btcsuite/btcd/chainhash/v2"
	"github.com/btcsuite/btcd/wire/v2"
	"github.com/lightninglabs/neutrino"
	"github.com/lightninglabs/neutrino/banman"

	"verif/internal/chaingen"
	"verif/internal/evid"
	"verif/internal/l2"
	"verif/internal/netsim"
)

// L2ChildTimeout is the watchdog of one scenario process.
const L2ChildTimeout = 300 * time.Second

// Watchdogs (none of them decides a verdict).
const (
	// The calls of a burst are issued with NumRetries <= 3: at most three
	// tries of at most 2, 4 and 8 s each (the worker's per-try timeout,
	// doubled after a timeout) = 14 s; two filter calls (NumRetries 2: 6 s)
	// may run one after the other. The dispatcher's hard batch timeout is
	// 30 s. 60 s is more than four times the first and twice the second.
	l2DumpGap = 2 * time.Second
)

var (
	l2CallWatchdog = 60 * time.Second
	l2StopWatchdog = 45 * time.Second
)

func init() {
	// Development aid only (measuring how often a scenario reaches a state):
	// C12_L2_WATCHDOG_S shortens both watchdogs. Registered runs never set it.
	if v := os.Getenv("C12_L2_WATCHDOG_S"); v != "" {
		var n int
		if _, err := fmt.Sscan(v, &n); err == nil && n > 0 {
			l2CallWatchdog = time.Duration(n) * time.Second
			l2StopWatchdog = time.Duration(n) * time.Second
		}
	}
}

// L2Rule is appended to the program's rule text.
const L2Rule = "; L2 family (complete client against wire-level peers, one process per scenario): scenario k is a pure function of (seed, k); " +
	"k=0 and k=1 are fixed (k=0: three peers answer a block request with a block that has the right header and altered transactions — the " +
	"response handler bans and disconnects its own peer — and have already written more copies / pings / filters behind it; k=1: BanPeer / " +
	"Peer.Disconnect from the harness in the middle of a block or filter-batch response); k>=2 seeded: chain 120-240 blocks, 2-3 honest peers " +
	"(answering after 15-40 ms so that a burst occupies every worker), 3-5 actor peers with role in {handler-ban, readloop-disconnect (tx inv), " +
	"api-ban, api-peer-disconnect, api-node-disconnect, remote-close (control)}, armed in seeded rounds, cut point 0-100 % of the response stream, " +
	"disconnect from the serving goroutine or from another one, trailing messages from {mutated copy, ping, unsolicited cfilter, unsolicited block, " +
	"honest answer}, optional unsolicited chatter (ping / cfilter / block) on any peer; 2-4 rounds of (#peers + 0-4) concurrent GetBlock / " +
	"GetCFilter (single, forward batch, reverse batch; MaxBatchSize 8-48; NumRetries 2-3) calls on distinct blocks, then a probe burst and Stop " +
	"(in a quarter of the scenarios Stop is called while the last round is in flight). L2 fingerprint = (fixed/seeded, roles that fired x request " +
	"kind they fired on, call kinds, outcome kinds, stop point); non-trivial = at least one actor fired (a local disconnect happened while its " +
	"peer was answering) and the scenario was judged. L2 ORACLE: every call returns exactly once (a call or Stop still pending after its watchdog is " +
	"judged by two goroutine dumps, see assumptions); a success carries the block / filter of the generated chain; a shutdown error is only " +
	"returned once the harness began stopping the client; errors of the other kinds (retry limit reached with the last peer's disconnect, " +
	"timeout, not retrieved) are counted, not judged; calls issued after earlier ones ended (probe burst) and Stop return"

// L2Count returns the number of L2 scenarios of the tier.
func L2Count(r *evid.Run) int { return r.Pick(16, 200) }

// L2Describe adds the assumptions of the L2 family.
func L2Describe(r *evid.Run) {
	r.Assume("L2: exported client knobs are shortened as in l2.init; simulated peers implement the wire protocol as DESIGN appendix B; honest peers answer every request within 40 ms")
	r.Assume("L2: a call (or Stop) that has not returned is a violation only if (1) the call watchdog of 60 s (Stop: 45 s) has passed — more than four times the sum of the per-try timeouts the calls were issued with (NumRetries <= 3: 2+4+8 s) and twice the dispatcher's 30 s batch timeout —, (2) an honest peer is connected, and (3) two goroutine dumps 2 s apart, taken with all harness traffic stopped, show the caller, every goroutine of the query package, and at least one peer read loop (btcd inHandler) parked inside client code, in identical frames; anything else is inconclusive")
}

// Roles of an actor peer.
const (
	l2RoleHandlerBan = "handler-ban"         // getdata answered with right header + altered transactions: the handler bans its own peer
	l2RoleReadLoop   = "readloop-disconnect" // a tx inv in front of the answer: the client's inv listener disconnects from inside the read loop
	l2RoleAPIBan     = "api-ban"             // harness: ChainService.BanPeer at the cut point of the response stream
	l2RoleAPIPeer    = "api-peer-disconnect" // harness: PeerByAddr(addr).Disconnect()
	l2RoleAPINode    = "api-node-disconnect" // harness: DisconnectNodeByAddr (falls back to the former when the peer list it searches does not hold the peer)
	l2RoleRemote     = "remote-close"        // control: the peer closes its own end mid-stream
)

var l2Roles = []string{l2RoleHandlerBan, l2RoleAPIBan, l2RoleAPIPeer, l2RoleHandlerBan, l2RoleAPINode, l2RoleReadLoop, l2RoleAPIPeer, l2RoleHandlerBan, l2RoleRemote}

// Trailing message kinds.
const (
	l2TrailBad    = "mutated-copy"
	l2TrailPing   = "ping"
	l2TrailFilter = "cfilter"
	l2TrailBlock  = "other-block"
	l2TrailGood   = "honest-answer"
)

var l2Trails = []string{l2TrailBad, l2TrailPing, l2TrailFilter, l2TrailBlock, l2TrailGood}

// L2Actor is the plan of one actor peer.
type L2Actor struct {
	Role    string   `json:"role"`
	Arm     []int    `json:"arm"`             // rounds (1-based) in which the actor is armed
	Trail   []string `json:"trail,omitempty"` // written right behind the trigger
	CutPct  int      `json:"cut_pct"`         // api roles: trigger after this share of the response stream
	Async   bool     `json:"async,omitempty"` // api roles: disconnect from another goroutine while the stream goes on
	Pre     int      `json:"pre,omitempty"`   // api roles, block request: unrelated blocks in front of the requested one
	Chatter bool     `json:"chatter,omitempty"`
	// BadFirst (api roles, block request): the stream starts with a copy of
	// the requested block that has altered transactions, so the response
	// handler is busy rejecting it (and banning the peer, a database write)
	// when the disconnect initiated elsewhere arrives.
	BadFirst bool `json:"bad_first,omitempty"`
	// DelayUs (api roles): pause between the last write before the cut and
	// the disconnect call.
	DelayUs int `json:"delay_us,omitempty"`
}

// L2Call is one public-API call.
type L2Call struct {
	Kind    string `json:"kind"` // block | cfilter | cfilter-fwd | cfilter-rev
	Height  int32  `json:"height"`
	Batch   int    `json:"batch,omitempty"`
	Retries int    `json:"retries"`
}

// L2Plan is the whole scenario.
type L2Plan struct {
	K             int        `json:"k"`
	Fixed         bool       `json:"fixed"`
	WorldSeed     int64      `json:"world_seed"`
	ChainLen      int        `json:"chain_len"`
	Honest        int        `json:"honest"`
	HonestDelayMs int        `json:"honest_delay_ms"`
	HonestChatter []bool     `json:"honest_chatter,omitempty"`
	Actors        []L2Actor  `json:"actors"`
	Rounds        [][]L2Call `json:"rounds"`
	// Focus[r]: round r+1 aims the disconnects at filter-batch responses:
	// every connected actor with a stream role is armed for getcfilters
	// only, the block calls go out first (they occupy the honest peers,
	// which answer late, while the actors answer at once and are free
	// again), and the filter calls follow a few ms later.
	Focus []bool   `json:"focus,omitempty"`
	Probe []L2Call `json:"probe"`
	// Pollers is the number of harness goroutines reading the peer state
	// (ConnectedCount / Peers) in a loop while calls are in flight.
	Pollers int  `json:"pollers,omitempty"`
	StopMid bool `json:"stop_mid,omitempty"`
	Persist bool `json:"persist,omitempty"`
}

// heightPool hands out distinct block heights and disjoint filter segments.
type heightPool struct {
	blocks []int32
	segLo  int32
	seg    int32
	max    int32
}

func newHeightPool(rng *rand.Rand, chainLen, seg int) *heightPool {
	hp := &heightPool{seg: int32(seg), segLo: 1, max: int32(chainLen)}
	for _, i := range rng.Perm(chainLen) {
		hp.blocks = append(hp.blocks, int32(i+1))
	}
	return hp
}

func (hp *heightPool) block() int32 {
	h := hp.blocks[0]
	hp.blocks = hp.blocks[1:]
	return h
}

// segment returns the next unused [lo, hi] range (ok=false: chain used up).
func (hp *heightPool) segment() (lo, hi int32, ok bool) {
	if hp.segLo+hp.seg-1 > hp.max {
		return 0, 0, false
	}
	lo, hi = hp.segLo, hp.segLo+hp.seg-1
	hp.segLo += hp.seg
	return lo, hi, true
}

func (hp *heightPool) calls(rng *rand.Rand, nBlocks, nCF int, retries func() int) []L2Call {
	var out []L2Call
	for i := 0; i < nBlocks; i++ {
		out = append(out, L2Call{Kind: "block", Height: hp.block(), Retries: retries()})
	}
	for i := 0; i < nCF; i++ {
		lo, hi, ok := hp.segment()
		if !ok {
			out = append(out, L2Call{Kind: "block", Height: hp.block(), Retries: retries()})
			continue
		}
		switch rng.Intn(3) {
		case 0:
			out = append(out, L2Call{Kind: "cfilter", Height: lo + int32(rng.Intn(int(hi-lo+1))), Retries: 2})
		case 1:
			out = append(out, L2Call{Kind: "cfilter-fwd", Height: lo, Batch: int(hi - lo + 1), Retries: 2})
		default:
			out = append(out, L2Call{Kind: "cfilter-rev", Height: hi, Batch: int(hi - lo + 1), Retries: 2})
		}
	}
	rng.Shuffle(len(out), func(i, j int) { out[i], out[j] = out[j], out[i] })
	return out
}

// L2MakePlan derives scenario k of the seed's case list.
func L2MakePlan(seed int64, k int) *L2Plan {
	switch k {
	case 0:
		// FIXED, seed-independent: the response handler disconnects its
		// own peer while the peer has already written more messages.
		rng := rand.New(rand.NewSource(1200))
		pl := &L2Plan{K: 0, Fixed: true, WorldSeed: 1200, ChainLen: 120, Honest: 2, HonestDelayMs: 25, Pollers: 4}
		trail := []string{l2TrailBad, l2TrailPing, l2TrailBad, l2TrailFilter, l2TrailBad}
		pl.Actors = []L2Actor{
			{Role: l2RoleHandlerBan, Arm: []int{1}, Trail: trail},
			{Role: l2RoleHandlerBan, Arm: []int{2}, Trail: trail, Chatter: true},
			{Role: l2RoleHandlerBan, Arm: []int{2}, Trail: []string{l2TrailBad, l2TrailGood, l2TrailBad}},
			{Role: l2RoleHandlerBan, Arm: []int{3}, Trail: trail},
			{Role: l2RoleHandlerBan, Arm: []int{1}, Trail: []string{l2TrailBad, l2TrailBlock, l2TrailBad}},
			{Role: l2RoleHandlerBan, Arm: []int{3}, Trail: []string{l2TrailBad, l2TrailPing, l2TrailPing, l2TrailBad}, Chatter: true},
			{Role: l2RoleHandlerBan, Arm: []int{1}, Trail: trail},
			{Role: l2RoleHandlerBan, Arm: []int{2}, Trail: []string{l2TrailBad, l2TrailBad}},
			{Role: l2RoleHandlerBan, Arm: []int{3}, Trail: []string{l2TrailBad, l2TrailFilter, l2TrailFilter, l2TrailBad}},
		}
		hp := newHeightPool(rng, pl.ChainLen, 20)
		three := func() int { return 3 }
		for r := 0; r < 3; r++ {
			pl.Rounds = append(pl.Rounds, hp.calls(rng, 13, 0, three))
		}
		pl.Probe = hp.calls(rng, 12, 0, three)
		return pl
	case 1:
		// FIXED: local disconnects through the peer API in the middle of
		// block and filter-batch responses.
		rng := rand.New(rand.NewSource(1201))
		pl := &L2Plan{K: 1, Fixed: true, WorldSeed: 1201, ChainLen: 160, Honest: 2, HonestDelayMs: 25, Persist: true}
		pl.Actors = []L2Actor{
			{Role: l2RoleAPIBan, Arm: []int{1}, CutPct: 50, Pre: 3, BadFirst: true, DelayUs: 300, Trail: []string{l2TrailBlock, l2TrailFilter, l2TrailPing}},
			{Role: l2RoleAPIPeer, Arm: []int{1, 3}, CutPct: 40, Async: true, Pre: 4, BadFirst: true, DelayUs: 500, Trail: []string{l2TrailFilter, l2TrailFilter, l2TrailBlock}},
			{Role: l2RoleAPINode, Arm: []int{2, 3}, CutPct: 60, Pre: 2, DelayUs: 100, Trail: []string{l2TrailPing, l2TrailBlock, l2TrailBlock}, Chatter: true},
			{Role: l2RoleAPIPeer, Arm: []int{2, 3}, CutPct: 30, Async: true, Pre: 3, BadFirst: true, DelayUs: 200, Trail: []string{l2TrailBlock, l2TrailBlock}},
			{Role: l2RoleAPIBan, Arm: []int{3}, CutPct: 20, Async: true, Pre: 1, BadFirst: true, DelayUs: 400, Trail: []string{l2TrailPing, l2TrailBlock}},
			{Role: l2RoleAPINode, Arm: []int{1, 2}, CutPct: 50, Pre: 2, BadFirst: true, DelayUs: 600, Trail: []string{l2TrailBlock, l2TrailFilter}},
		}
		hp := newHeightPool(rng, pl.ChainLen, 30)
		three := func() int { return 3 }
		for r := 0; r < 3; r++ {
			pl.Rounds = append(pl.Rounds, hp.calls(rng, 9, 1+r%2, three))
		}
		pl.Focus = []bool{false, true, false}
		pl.Probe = hp.calls(rng, 8, 1, three)
		return pl
	}

	rng := rand.New(rand.NewSource(seed*1000003 + int64(k)*7919 + 12))
	pl := &L2Plan{K: k, WorldSeed: seed*131 + int64(k)}
	pl.ChainLen = 120 + rng.Intn(121)
	pl.Honest = 2 + rng.Intn(2)
	pl.HonestDelayMs = 15 + rng.Intn(26)
	for i := 0; i < pl.Honest; i++ {
		pl.HonestChatter = append(pl.HonestChatter, rng.Intn(4) == 0)
	}
	nActors := 3 + rng.Intn(3)
	nRounds := 2 + rng.Intn(3)
	pl.StopMid = rng.Intn(4) == 0
	pl.Persist = rng.Intn(2) == 0
	pl.Pollers = []int{0, 0, 2, 4, 6}[rng.Intn(5)]
	armed := make([]int, nRounds+1)
	for i := 0; i < nActors; i++ {
		a := L2Actor{Role: l2Roles[(k+i+rng.Intn(2))%len(l2Roles)]}
		a.Arm = []int{1 + rng.Intn(nRounds)}
		if a.Role != l2RoleHandlerBan && a.Role != l2RoleAPIBan && rng.Intn(2) == 0 {
			// Not banned: the client reconnects to it (permanent
			// peer), so it can act again under the same address.
			if r2 := 1 + rng.Intn(nRounds); r2 != a.Arm[0] {
				a.Arm = append(a.Arm, r2)
				sort.Ints(a.Arm)
			}
		}
		for _, r := range a.Arm {
			armed[r]++
		}
		for j, n := 0, rng.Intn(6); j < n; j++ {
			a.Trail = append(a.Trail, l2Trails[rng.Intn(len(l2Trails))])
		}
		if a.Role == l2RoleHandlerBan && len(a.Trail) == 0 {
			a.Trail = []string{l2TrailBad}
		}
		a.CutPct = []int{0, 25, 50, 75, 100, rng.Intn(101), rng.Intn(101)}[rng.Intn(7)]
		a.Async = rng.Intn(2) == 0
		a.Pre = rng.Intn(5)
		a.BadFirst = rng.Intn(2) == 0
		a.DelayUs = []int{0, 100, 300, 800, rng.Intn(1500), rng.Intn(1500)}[rng.Intn(6)]
		a.Chatter = rng.Intn(4) == 0
		pl.Actors = append(pl.Actors, a)
	}
	// Every round has an armed actor.
	for r := 1; r <= nRounds; r++ {
		if armed[r] == 0 {
			i := rng.Intn(nActors)
			a := &pl.Actors[i]
			if a.Role == l2RoleHandlerBan || a.Role == l2RoleAPIBan {
				// would be banned already, or never reach its own round
				a.Arm = []int{r}
			} else {
				a.Arm = append(a.Arm, r)
				sort.Ints(a.Arm)
			}
		}
	}
	peers := pl.Honest + nActors
	seg := 8 + rng.Intn(41)
	if max := pl.ChainLen / (2*nRounds + 3); seg > max {
		seg = max
	}
	hp := newHeightPool(rng, pl.ChainLen, seg)
	retries := func() int { return 2 + rng.Intn(2) }
	for r := 0; r < nRounds; r++ {
		nCF := rng.Intn(3)
		focus := rng.Intn(5) < 2
		if focus {
			nCF = 1 + rng.Intn(2)
		}
		pl.Focus = append(pl.Focus, focus)
		pl.Rounds = append(pl.Rounds, hp.calls(rng, peers+rng.Intn(3), nCF, retries))
	}
	pl.Probe = hp.calls(rng, pl.Honest+2, rng.Intn(2), retries)
	return pl
}

// ---------------------------------------------------------------------------
// Execution.

type l2Fire struct {
	Actor  int    `json:"actor"`
	Role   string `json:"role"`
	Round  int    `json:"round"`
	On     string `json:"on"` // request kind the actor fired on
	Stream int    `json:"stream"`
	Cut    int    `json:"cut"`
	After  int    `json:"written_after_trigger"`
	Note   string `json:"note,omitempty"`
}

type l2ActorRun struct {
	idx    int
	spec   L2Actor
	p      *netsim.Peer
	armed  atomic.Bool
	onlyCF atomic.Bool // armed for filter-batch requests only (focus rounds)
	banned atomic.Bool // it did something the client bans for: it will not be connected to again
	x      *l2Exec
	rng    *rand.Rand // used only from the peer's serving goroutine
}

type l2CallRun struct {
	L2Call
	ID      int    `json:"id"`
	Round   int    `json:"round"` // 0 = probe
	Outcome string `json:"outcome"`
	Err     string `json:"err,omitempty"`
	Peers   int    `json:"peers_asked"`

	hash     chainhash.Hash
	gid      atomic.Int64
	done     chan struct{}
	bad      string
	stopSeen bool // the harness had begun stopping the client when the call returned
}

type l2Exec struct {
	pl     *L2Plan
	w      *l2.World
	res    *l2.Result
	path   []*chaingen.Node
	honest []*netsim.Peer
	actors []*l2ActorRun

	round     atomic.Int32
	delayNs   atomic.Int64 // how late the honest peers answer
	chatterOn atomic.Bool
	stopping  atomic.Bool

	mu      sync.Mutex
	fires   []l2Fire
	trace   []string
	calls   []*l2CallRun
	nodeFB  int64
	t0      time.Time
	chatter sync.WaitGroup
	chatMsg atomic.Int64
	polls   atomic.Int64
}

func (x *l2Exec) tracef(format string, a ...any) {
	s := fmt.Sprintf("%7.3fs ", time.Since(x.t0).Seconds()) + fmt.Sprintf(format, a...)
	x.mu.Lock()
	x.trace = append(x.trace, s)
	x.mu.Unlock()
	if os.Getenv("C12_L2_LOG") != "" {
		fmt.Fprintln(os.Stderr, s)
	}
}

func peerLive(p *netsim.Peer) bool {
	if !p.IsReady() {
		return false
	}
	c := p.Conn()
	return c != nil && !c.Dead()
}

// mutateBlock returns a copy of blk with the SAME header and altered
// transactions (merkle root mismatch).
func l2MutateBlock(blk *wire.MsgBlock, drop bool) *wire.MsgBlock {
	nb := &wire.MsgBlock{Header: blk.Header}
	for _, tx := range blk.Transactions {
		nb.Transactions = append(nb.Transactions, tx.Copy())
	}
	n := len(nb.Transactions)
	if drop && n >= 2 {
		nb.Transactions = nb.Transactions[:n-1]
		return nb
	}
	last := nb.Transactions[n-1]
	for _, o := range last.TxOut {
		if o.Value > 0 {
			o.Value--
			return nb
		}
	}
	last.TxOut[0].Value++
	return nb
}

func (a *l2ActorRun) randomNode() *chaingen.Node {
	return a.x.path[1+a.rng.Intn(len(a.x.path)-1)]
}

func (a *l2ActorRun) trailMsgs(req wire.Message, honest []wire.Message) []wire.Message {
	var out []wire.Message
	for _, t := range a.spec.Trail {
		switch t {
		case l2TrailBad:
			if blk, ok := honest[0].(*wire.MsgBlock); ok {
				out = append(out, l2MutateBlock(blk, a.rng.Intn(2) == 0))
			} else {
				out = append(out, honest[a.rng.Intn(len(honest))])
			}
		case l2TrailPing:
			out = append(out, wire.NewMsgPing(a.rng.Uint64()))
		case l2TrailFilter:
			n := a.randomNode()
			h := n.Hash
			out = append(out, wire.NewMsgCFilter(wire.GCSFilterRegular, &h, n.FilterBytes))
		case l2TrailBlock:
			out = append(out, a.randomNode().Block)
		case l2TrailGood:
			out = append(out, honest...)
		}
	}
	return out
}

// mutate is the actor's netsim.Peer.Mutate hook: honest unless armed.
func (a *l2ActorRun) mutate(p *netsim.Peer, req wire.Message, honest []wire.Message) []wire.Message {
	if len(honest) == 0 {
		return honest
	}
	if !a.armed.Load() {
		// An actor that is not armed is an honest peer (answering as late
		// as those, so that in a focus round only armed actors are free
		// when the filter calls go out).
		if d := a.x.delayNs.Load(); d > 0 {
			time.Sleep(time.Duration(d))
		}
		return honest
	}
	on := ""
	enc := wire.WitnessEncoding
	switch t := req.(type) {
	case *wire.MsgGetData:
		if _, ok := honest[0].(*wire.MsgBlock); !ok {
			return honest
		}
		on = "block"
		if len(t.InvList) > 0 && t.InvList[0].Type == wire.InvTypeBlock {
			enc = wire.BaseEncoding
		}
	case *wire.MsgGetCFilters:
		on = "cfilters"
	default:
		return honest
	}
	if a.onlyCF.Load() && on != "cfilters" {
		return honest
	}
	x := a.x
	fire := l2Fire{Actor: a.idx, Role: a.spec.Role, Round: int(x.round.Load()), On: on}
	send := func(ms []wire.Message) int {
		n := 0
		for _, m := range ms {
			if p.SendEnc(m, enc) == nil {
				n++
			}
		}
		return n
	}
	record := func() {
		x.mu.Lock()
		x.fires = append(x.fires, fire)
		x.mu.Unlock()
		x.tracef("actor %d (%s) fired on %s: stream=%d cut=%d written-after=%d %s", a.idx, a.spec.Role, on, fire.Stream, fire.Cut, fire.After, fire.Note)
	}

	switch a.spec.Role {
	case l2RoleHandlerBan:
		if on != "block" {
			return honest // stays armed until it is asked for a block
		}
		a.armed.Store(false)
		a.banned.Store(true)
		blk := honest[0].(*wire.MsgBlock)
		stream := append([]wire.Message{l2MutateBlock(blk, a.rng.Intn(2) == 0)}, a.trailMsgs(req, honest)...)
		fire.Stream, fire.Cut = len(stream), 1
		// Everything is written at once: the trailing messages are in the
		// connection before the client has handled the first one.
		fire.After = send(stream) - 1
		record()
		return nil

	case l2RoleReadLoop:
		a.armed.Store(false)
		inv := wire.NewMsgInv()
		h := a.randomNode().Block.Transactions[0].TxHash()
		_ = inv.AddInvVect(wire.NewInvVect(wire.InvTypeTx, &h))
		stream := append([]wire.Message{inv}, honest...)
		stream = append(stream, a.trailMsgs(req, honest)...)
		fire.Stream, fire.Cut = len(stream), 1
		fire.After = send(stream) - 1
		record()
		return nil
	}

	// API roles and the remote-close control: a response stream with a cut
	// point at which the disconnect is initiated.
	a.armed.Store(false)
	if a.spec.Role == l2RoleAPIBan {
		a.banned.Store(true)
	}
	var stream []wire.Message
	minCut := 0
	if on == "block" {
		if a.spec.BadFirst {
			a.banned.Store(true)
			stream = append(stream, l2MutateBlock(honest[0].(*wire.MsgBlock), a.rng.Intn(2) == 0))
			minCut = 1
			fire.Note = "bad-first "
		}
		for i := 0; i < a.spec.Pre; i++ {
			stream = append(stream, a.randomNode().Block)
		}
	}
	stream = append(stream, honest...)
	stream = append(stream, a.trailMsgs(req, honest)...)
	cut := len(stream) * a.spec.CutPct / 100
	if cut < minCut {
		cut = minCut
	}
	fire.Stream, fire.Cut = len(stream), cut
	send(stream[:cut])
	done := make(chan string, 1)
	pause := time.Duration(a.spec.DelayUs) * time.Microsecond
	if a.spec.Async {
		go func() {
			time.Sleep(pause)
			done <- x.disconnect(a)
		}()
	} else {
		time.Sleep(pause)
		done <- x.disconnect(a)
	}
	fire.After = send(stream[cut:])
	select {
	case n := <-done:
		fire.Note += n
	case <-time.After(20 * time.Second):
		fire.Note += "disconnect call still running"
	}
	record()
	return nil
}

// disconnect initiates the local (or, for the control role, remote)
// disconnect of the actor's peer through the public API.
func (x *l2Exec) disconnect(a *l2ActorRun) string {
	svc := x.w.Svc
	addr := a.p.Addr
	switch a.spec.Role {
	case l2RoleAPIBan:
		if err := svc.BanPeer(addr, banman.ExceededBanThreshold); err != nil {
			return "BanPeer: " + err.Error()
		}
	case l2RoleAPIPeer:
		if sp := svc.PeerByAddr(addr); sp != nil {
			sp.Disconnect()
		} else {
			return "peer not listed"
		}
	case l2RoleAPINode:
		if err := svc.DisconnectNodeByAddr(addr); err != nil {
			// Permanent (ConnectPeers) peers are not in the list this
			// call searches.
			atomic.AddInt64(&x.nodeFB, 1)
			if sp := svc.PeerByAddr(addr); sp != nil {
				sp.Disconnect()
				return "DisconnectNodeByAddr: " + err.Error() + "; used Peer.Disconnect"
			}
			return "DisconnectNodeByAddr: " + err.Error() + "; peer not listed"
		}
	case l2RoleRemote:
		a.p.Disconnect()
	}
	return ""
}

// chatterLoop streams unsolicited messages on p while chatter is on.
func (x *l2Exec) chatterLoop(p *netsim.Peer, seed int64) {
	defer x.chatter.Done()
	rng := rand.New(rand.NewSource(seed))
	for !x.stopping.Load() {
		if !x.chatterOn.Load() || !peerLive(p) {
			time.Sleep(2 * time.Millisecond)
			continue
		}
		for i, n := 0, 1+rng.Intn(4); i < n; i++ {
			var m wire.Message
			switch rng.Intn(4) {
			case 0, 1:
				m = wire.NewMsgPing(rng.Uint64())
			case 2:
				nd := x.path[1+rng.Intn(len(x.path)-1)]
				h := nd.Hash
				m = wire.NewMsgCFilter(wire.GCSFilterRegular, &h, nd.FilterBytes)
			default:
				m = x.path[1+rng.Intn(len(x.path)-1)].Block
			}
			if p.Send(m) == nil {
				x.chatMsg.Add(1)
			}
		}
		time.Sleep(time.Duration(300+rng.Intn(1500)) * time.Microsecond)
	}
}

// pollLoop reads the peer state through the public API (ConnectedCount,
// Peers, IsBanned) as fast as it is served while chatter is on: the peer
// bookkeeping goroutine of the client is busy while peers come and go.
func (x *l2Exec) pollLoop(i int) {
	defer x.chatter.Done()
	for !x.stopping.Load() {
		if !x.chatterOn.Load() {
			time.Sleep(2 * time.Millisecond)
			continue
		}
		svc := x.w.Svc
		switch i % 2 {
		case 0:
			_ = svc.ConnectedCount()
		default:
			_ = len(svc.Peers())
		}
		x.polls.Add(1)
	}
}

// issue starts the calls of one burst.
func (x *l2Exec) issue(round int, specs []L2Call) []*l2CallRun {
	var out []*l2CallRun
	for _, s := range specs {
		x.mu.Lock()
		c := &l2CallRun{L2Call: s, ID: len(x.calls), Round: round, done: make(chan struct{}), hash: x.path[s.Height].Hash}
		x.calls = append(x.calls, c)
		x.mu.Unlock()
		out = append(out, c)
	}
	for _, c := range out {
		go x.call(c)
	}
	return out
}

func (x *l2Exec) call(c *l2CallRun) {
	defer close(c.done)
	c.gid.Store(int64(l2CurGID()))
	svc := x.w.Svc
	node := x.path[c.Height]
	opts := []neutrino.QueryOption{neutrino.NumRetries(uint8(c.Retries))}
	var err error
	switch c.Kind {
	case "block":
		blk, e := svc.GetBlock(c.hash, opts...)
		err = e
		if e == nil {
			if blk == nil {
				c.bad = "nil block with nil error"
			} else {
				var a, b bytes.Buffer
				_ = blk.MsgBlock().Serialize(&a)
				_ = node.Block.Serialize(&b)
				if !bytes.Equal(a.Bytes(), b.Bytes()) {
					c.bad = "the returned block differs from the block with that hash"
				}
			}
		}
	default:
		switch c.Kind {
		case "cfilter-fwd":
			opts = append(opts, neutrino.OptimisticBatch(), neutrino.MaxBatchSize(int64(c.Batch)))
		case "cfilter-rev":
			opts = append(opts, neutrino.OptimisticReverseBatch(), neutrino.MaxBatchSize(int64(c.Batch)))
		}
		f, e := svc.GetCFilter(c.hash, wire.GCSFilterRegular, opts...)
		err = e
		if e == nil {
			if f == nil {
				c.bad = "nil filter with nil error"
			} else if nb, e2 := f.NBytes(); e2 != nil || !bytes.Equal(nb, node.FilterBytes) {
				c.bad = "the returned filter differs from the block's true filter"
			}
		}
	}
	c.stopSeen = x.stopping.Load()
	if err != nil {
		c.Err = err.Error()
		c.Outcome = "error"
	} else if c.bad != "" {
		c.Outcome = "wrong-content"
	} else {
		c.Outcome = "ok"
	}
}

// wait waits for the calls; it returns the ones still pending at the
// watchdog.
func (x *l2Exec) wait(cs []*l2CallRun, d time.Duration) []*l2CallRun {
	deadline := time.After(d)
	for i, c := range cs {
		select {
		case <-c.done:
		case <-deadline:
			var pend []*l2CallRun
			for _, c2 := range cs[i:] {
				select {
				case <-c2.done:
				default:
					pend = append(pend, c2)
				}
			}
			return pend
		}
	}
	return nil
}

// judgeStuck decides what a call (or Stop) that has not returned after its
// watchdog means. gids are the goroutines of the pending calls.
func (x *l2Exec) judgeStuck(what string, gids []int, watchdog time.Duration) (violated bool, sig, text string, witness map[string]any) {
	// Quiesce everything the harness does on its own.
	x.chatterOn.Store(false)
	for _, a := range x.actors {
		a.armed.Store(false)
	}
	time.Sleep(300 * time.Millisecond)
	live := 0
	for _, p := range x.honest {
		if peerLive(p) {
			live++
		}
	}
	if live == 0 {
		return false, "", what + " pending after the watchdog, but no honest peer is connected: precondition not met", nil
	}
	seq1 := x.w.Log.Len()
	d1 := l2ParseDump(l2DumpAll())
	time.Sleep(l2DumpGap)
	d2 := l2ParseDump(l2DumpAll())
	seq2 := x.w.Log.Len()

	same := func(id int) (*l2G, string) {
		a, ok := d1[id]
		if !ok {
			return nil, fmt.Sprintf("goroutine %d not in the first dump", id)
		}
		b, ok := d2[id]
		if !ok {
			return nil, fmt.Sprintf("goroutine %d (%s) ended between the dumps", id, a.innerClientFunc())
		}
		if a.moving() || b.moving() {
			return nil, fmt.Sprintf("goroutine %d is %s/%s in %s", id, a.State, b.State, b.innerClientFunc())
		}
		if a.key() != b.key() {
			return nil, fmt.Sprintf("goroutine %d moved: %s -> %s", id, a.innerClientFunc(), b.innerClientFunc())
		}
		return a, ""
	}
	var shown [][]string
	// (a) the callers.
	for _, id := range gids {
		g, why := same(id)
		if g == nil {
			return false, "", what + " pending after the watchdog, not provably stuck: " + why, nil
		}
		if len(shown) < 3 {
			shown = append(shown, g.top(8))
		}
	}
	// (b) every goroutine of the query package (dispatcher, workers).
	nQuery := 0
	var queryParks []string
	for id, g := range d1 {
		if !g.has(l2QueryPkg) || g.has("c12.(*l2Exec).call") {
			continue
		}
		g1, why := same(id)
		if g1 == nil {
			return false, "", what + " pending after the watchdog, not provably stuck: " + why, nil
		}
		nQuery++
		queryParks = append(queryParks, g1.State+" @ "+g1.innerClientFunc())
		shown = append(shown, g1.top(8))
	}
	for id, g := range d2 {
		if g.has(l2QueryPkg) && !g.has("c12.(*l2Exec).call") {
			if _, ok := d1[id]; !ok {
				return false, "", what + " pending after the watchdog, not provably stuck: a goroutine of the query package was started between the dumps", nil
			}
		}
	}
	sort.Strings(queryParks)
	// (c) a peer read loop parked inside client code (a read loop waiting
	// for bytes of its connection is idle, not stuck).
	var loops []string
	for id, g := range d1 {
		if !g.has(l2ReadLoop) || g.innerClientFunc() == "none" {
			continue
		}
		if g1, _ := same(id); g1 != nil {
			loops = append(loops, g1.State+" @ "+g1.innerClientFunc())
			shown = append(shown, g1.top(8))
		}
	}
	sort.Strings(loops)
	witness = map[string]any{
		"plan": x.pl, "pending": what, "honest_peers_connected": live,
		"network_events_between_dumps":   seq2 - seq1,
		"query_goroutines":               queryParks,
		"read_loops_parked_in_client":    loops,
		"stacks_identical_in_both_dumps": shown,
		"census_dump1":                   l2Census(d1),
		"census_dump2":                   l2Census(d2),
		"fires":                          x.firesCopy(),
		"trace":                          x.traceCopy(),
		"network_tail":                   x.w.Log.Tail(40),
	}
	if len(loops) == 0 {
		fmt.Fprintf(os.Stderr, "C12 L2 scenario %d: %s pending, callers and %d query goroutines parked identically, but no read loop is parked in client code; census: %v\n",
			x.pl.K, what, nQuery, l2Census(d2))
		return false, "", what + " pending after the watchdog with identical stacks, but no peer read loop is parked inside client code: not judged", witness
	}
	kind := "call"
	if strings.HasPrefix(what, "Stop") {
		kind = "stop"
	}
	sig = evid.Sig("c12-l2", "never-terminates", kind, "read-loop-parked-in="+strings.TrimPrefix(loops[0][strings.Index(loops[0], "@ ")+2:], " "))
	text = fmt.Sprintf("%s has not returned %v after it was issued although %d honest peer(s) are connected and answering; two goroutine dumps %v apart show the caller, all %d goroutines of the query package (%s) and the read loop of a peer (%s) parked in identical frames: the batch never gets a verdict",
		what, watchdog, live, l2DumpGap, nQuery, strings.Join(uniq(queryParks), "; "), strings.Join(uniq(loops), "; "))
	return true, sig, text, witness
}

func uniq(s []string) []string {
	var out []string
	for i, v := range s {
		if i == 0 || v != s[i-1] {
			out = append(out, v)
		}
	}
	return out
}

func (x *l2Exec) firesCopy() []l2Fire {
	x.mu.Lock()
	defer x.mu.Unlock()
	return append([]l2Fire(nil), x.fires...)
}

func (x *l2Exec) traceCopy() []string {
	x.mu.Lock()
	defer x.mu.Unlock()
	return append([]string(nil), x.trace...)
}

// L2Scenario runs scenario k (l2.ScenarioFunc).
func L2Scenario(seed int64, k int, res *l2.Result) {
	if k >= L2QuietBase {
		// the quiet-reconnect mirror, see l2quiet.go
		l2QuietScenario(seed, k-L2QuietBase, res)
		return
	}
	defer func() {
		if rec := recover(); rec != nil {
			buf := make([]byte, 1<<14)
			buf = buf[:runtime.Stack(buf, false)]
			fmt.Fprintf(os.Stderr, "C12 L2 scenario %d: harness panic: %v\n%s\n", k, rec, buf)
			res.Nontrivial = false
			res.Inconcl("l2: harness panic")
		}
	}()
	pl := L2MakePlan(seed, k)
	res.Name = fmt.Sprintf("c12-l2-%d", k)
	res.Fingerprint = "l2|not-started"
	w := l2.NewWorld(l2.Config{Seed: pl.WorldSeed})
	defer w.Cleanup()
	trunk := w.G.Extend(w.G.Genesis, pl.ChainLen, chaingen.PaceNormal)
	tip := trunk[len(trunk)-1]
	x := &l2Exec{pl: pl, w: w, res: res, path: tip.Path(), t0: time.Now()}

	for i := 0; i < pl.Honest; i++ {
		p := w.AddPeer(tip)
		p.Mutate = func(_ *netsim.Peer, _ wire.Message, honest []wire.Message) []wire.Message {
			if d := x.delayNs.Load(); d > 0 && len(honest) > 0 {
				time.Sleep(time.Duration(d))
			}
			return honest
		}
		x.honest = append(x.honest, p)
	}
	for i, spec := range pl.Actors {
		p := w.AddPeer(tip)
		a := &l2ActorRun{idx: i, spec: spec, p: p, x: x, rng: rand.New(rand.NewSource(pl.WorldSeed*31 + int64(i)))}
		p.Mutate = a.mutate
		x.actors = append(x.actors, a)
	}
	if err := w.StartClient(nil, l2.ClientOpts{PersistToDisk: pl.Persist}); err != nil {
		res.Inconcl("l2: client start failed")
		return
	}
	if !l2.WaitFor(60*time.Second, func() bool { return w.SyncedTo(tip) }) {
		res.Inconcl("l2: initial sync not reached (C04's subject)")
		_, _ = w.StopClient(30 * time.Second)
		return
	}
	// From here on the honest peers answer late enough for a burst of
	// calls to occupy every worker.
	x.delayNs.Store(int64(time.Duration(pl.HonestDelayMs) * time.Millisecond))
	for i, p := range x.honest {
		if i < len(pl.HonestChatter) && pl.HonestChatter[i] {
			x.chatter.Add(1)
			go x.chatterLoop(p, pl.WorldSeed*17+int64(i))
		}
	}
	for i, a := range x.actors {
		if a.spec.Chatter {
			x.chatter.Add(1)
			go x.chatterLoop(a.p, pl.WorldSeed*19+int64(i))
		}
	}
	for i := 0; i < pl.Pollers; i++ {
		x.chatter.Add(1)
		go x.pollLoop(i)
	}
	x.tracef("synced to %d; %d honest + %d actor peers", tip.Height, len(x.honest), len(x.actors))

	stuck := false
	stopCalled := false
	stopOK := false
	var incon []string
	stop := func(watchdog time.Duration) {
		if stopCalled {
			return
		}
		stopCalled = true
		x.tracef("Stop")
		gid := make(chan int, 1)
		done := make(chan bool, 1)
		go func() {
			gid <- l2CurGID()
			_ = w.Svc.Stop()
			done <- true
		}()
		id := <-gid
		select {
		case <-done:
			stopOK = true
			x.tracef("Stop returned")
			// Stop is idempotent: this only closes the database.
			_, _ = w.StopClient(10 * time.Second)
		case <-time.After(watchdog):
			v, sig, text, wit := x.judgeStuck("Stop", []int{id}, watchdog)
			if v {
				res.Violate(sig, text, wit)
			} else {
				incon = append(incon, "l2: "+text)
			}
			stuck = true
		}
	}
	judgeCalls := func(pend []*l2CallRun, phase string) {
		var gids []int
		kinds := map[string]bool{}
		for _, c := range pend {
			gids = append(gids, int(c.gid.Load()))
			kinds[strings.SplitN(c.Kind, "-", 2)[0]] = true
			c.Outcome = "not-returned"
		}
		var ks []string
		for k := range kinds {
			ks = append(ks, k)
		}
		sort.Strings(ks)
		what := fmt.Sprintf("%d call(s) (%s) of %s", len(pend), strings.Join(ks, "+"), phase)
		v, sig, text, wit := x.judgeStuck(what, gids, l2CallWatchdog)
		if v {
			res.Violate(sig, text, wit)
		} else {
			incon = append(incon, "l2: "+text)
		}
		stuck = true
	}

	for r := 1; r <= len(pl.Rounds) && !stuck; r++ {
		x.round.Store(int32(r))
		// Actors of this round must be connected (one that acted before
		// is reconnected to by the client after its retry interval).
		var arm []*l2ActorRun
		for _, a := range x.actors {
			for _, ar := range a.spec.Arm {
				if ar == r {
					arm = append(arm, a)
				}
			}
		}
		l2.WaitFor(3*time.Second, func() bool {
			for _, a := range arm {
				if !a.banned.Load() && !peerLive(a.p) {
					return false
				}
			}
			return true
		})
		// Give the dispatcher the time to start workers for reconnected peers.
		time.Sleep(30 * time.Millisecond)
		focus := r-1 < len(pl.Focus) && pl.Focus[r-1]
		if focus {
			arm = nil
			for _, a := range x.actors {
				if a.spec.Role != l2RoleHandlerBan {
					arm = append(arm, a)
				}
			}
		}
		nArmed := 0
		for _, a := range arm {
			if a.banned.Load() {
				continue
			}
			if peerLive(a.p) {
				a.onlyCF.Store(focus)
				a.armed.Store(true)
				nArmed++
			} else {
				x.tracef("actor %d not connected at round %d: not armed", a.idx, r)
			}
		}
		x.chatterOn.Store(true)
		var cs []*l2CallRun
		if focus {
			// Honest peers answer later than usual; the filter calls go
			// out once the actors have answered their block requests.
			x.delayNs.Store(int64(80 * time.Millisecond))
			var first, second []L2Call
			for _, c := range pl.Rounds[r-1] {
				if c.Kind == "block" {
					first = append(first, c)
				} else {
					second = append(second, c)
				}
			}
			cs = x.issue(r, first)
			time.Sleep(12 * time.Millisecond)
			cs = append(cs, x.issue(r, second)...)
		} else {
			cs = x.issue(r, pl.Rounds[r-1])
		}
		x.tracef("round %d (focus=%v): %d calls issued, %d actors armed", r, focus, len(cs), nArmed)
		if pl.StopMid && r == len(pl.Rounds) {
			// Stop while the burst is in flight: after the first actor
			// fired (or a short while).
			n0 := len(x.firesCopy())
			l2.WaitFor(time.Second, func() bool { return len(x.firesCopy()) > n0 })
			x.stopping.Store(true)
			stop(l2StopWatchdog)
			if stuck {
				break
			}
		}
		if pend := x.wait(cs, l2CallWatchdog); len(pend) > 0 {
			judgeCalls(pend, fmt.Sprintf("round %d", r))
		}
		x.chatterOn.Store(false)
		x.delayNs.Store(int64(time.Duration(pl.HonestDelayMs) * time.Millisecond))
		for _, a := range x.actors {
			a.armed.Store(false)
		}
	}
	if !stuck && !stopCalled {
		// Later batches are not blocked by the ones that ended.
		x.round.Store(0)
		x.chatterOn.Store(true)
		cs := x.issue(0, pl.Probe)
		if pend := x.wait(cs, l2CallWatchdog); len(pend) > 0 {
			judgeCalls(pend, "the probe burst")
		}
		x.chatterOn.Store(false)
	}
	x.stopping.Store(true)
	if !stuck {
		stop(l2StopWatchdog)
	} else if !stopCalled {
		// Already judged: do not wait for a Stop that may hang as well.
		go func() { _, _ = w.StopClient(5 * time.Second) }()
		time.Sleep(200 * time.Millisecond)
	}
	if stopOK {
		done := make(chan struct{})
		go func() { x.chatter.Wait(); close(done) }()
		select {
		case <-done:
		case <-time.After(5 * time.Second):
		}
	}

	// ------------------------------------------------------------------
	// Judgement of what returned, and evidence.
	x.summarize(res, stopOK, stuck, incon)
}

func (x *l2Exec) summarize(res *l2.Result, stopOK, stuck bool, incon []string) {
	pl := x.pl
	evs := x.w.Log.Snapshot()
	x.mu.Lock()
	calls := append([]*l2CallRun(nil), x.calls...)
	fires := append([]l2Fire(nil), x.fires...)
	x.mu.Unlock()

	// Which peers were asked for what.
	askedBlock := map[string]map[string]bool{}
	askedCF := map[string]map[string]bool{}
	for _, e := range evs {
		if e.Dir != "rx" {
			continue
		}
		switch e.Cmd {
		case "getdata":
			f := strings.Fields(e.Note)
			if len(f) > 0 {
				h := f[len(f)-1]
				if askedBlock[h] == nil {
					askedBlock[h] = map[string]bool{}
				}
				askedBlock[h][e.Peer] = true
			}
		case "getcfilters":
			if i := strings.Index(e.Note, "stop="); i >= 0 {
				h := e.Note[i+5:]
				if askedCF[h] == nil {
					askedCF[h] = map[string]bool{}
				}
				askedCF[h][e.Peer] = true
			}
		}
	}
	outcomes := map[string]bool{}
	callKinds := map[string]bool{}
	for _, c := range calls {
		select {
		case <-c.done:
		default:
			c.Outcome = "not-returned"
		}
		res.Count("l2_calls", 1)
		res.Count("l2_calls_"+c.Outcome, 1)
		callKinds[c.Kind] = true
		if c.Kind == "block" {
			c.Peers = len(askedBlock[c.hash.String()[:8]])
		} else {
			stop := c.hash
			switch c.Kind {
			case "cfilter-fwd":
				hi := int(c.Height) + c.Batch - 1
				if hi >= len(x.path) {
					hi = len(x.path) - 1
				}
				stop = x.path[hi].Hash
			}
			c.Peers = len(askedCF[stop.String()[:8]])
		}
		reissued := ""
		if c.Peers >= 2 {
			res.Count("l2_calls_reissued_to_another_peer", 1)
			reissued = "|reissued"
		}
		o := c.Outcome
		if o == "error" {
			o = "error:" + l2ErrKind(c.Err)
			if c.stopSeen {
				o += "@stop"
			} else if l2ErrKind(c.Err) == "shutdown" {
				res.Violate(evid.Sig("c12-l2", "shutdown-verdict-without-stop", strings.SplitN(c.Kind, "-", 2)[0]),
					fmt.Sprintf("%s call for height %d failed with %q although the client was not being stopped", c.Kind, c.Height, c.Err),
					map[string]any{"plan": pl, "call": c, "fires": fires, "trace": x.traceCopy()})
			}
		}
		outcomes[o] = true
		res.Mark(fmt.Sprintf("l2-call|%s|retries=%d|%s%s", c.Kind, c.Retries, o, reissued))
		if c.Outcome == "wrong-content" {
			res.Violate(evid.Sig("c12-l2", "success-with-wrong-content", strings.SplitN(c.Kind, "-", 2)[0]),
				fmt.Sprintf("%s call for height %d returned success but %s", c.Kind, c.Height, c.bad),
				map[string]any{"plan": pl, "call": c, "fires": fires, "trace": x.traceCopy()})
		}
	}
	fired := map[string]bool{}
	for _, f := range fires {
		res.Count("l2_local_disconnect_points_reached", 1)
		res.Count("l2_fired_"+f.Role, 1)
		res.Count("l2_messages_written_behind_the_trigger", int64(f.After))
		fired[f.Role+"@"+f.On] = true
		res.Mark(fmt.Sprintf("l2-fire|%s|on=%s|cut=%s|after=%s", f.Role, f.On, bucketPct(f.Cut, f.Stream), bucketN(f.After)))
	}
	// Confirmed: the client closed the connection of an actor that fired.
	for _, a := range x.actors {
		recs := x.w.Net.ConnRecs(a.p.Addr)
		res.Count("l2_actor_connections", int64(len(recs)))
		if len(recs) > 1 {
			res.Count("l2_actor_reconnects_under_same_address", int64(len(recs)-1))
		}
	}
	for _, e := range evs {
		if e.Dir == "ev" && e.Cmd == "closed" {
			res.Count("l2_connections_closed_by_client", 1)
		}
	}
	res.Count("l2_unsolicited_chatter_messages", x.chatMsg.Load())
	res.Count("l2_peer_state_polls", x.polls.Load())
	res.Count("l2_node_disconnect_fallbacks", atomic.LoadInt64(&x.nodeFB))
	if stopOK {
		res.Count("l2_stop_returned", 1)
	}
	for _, why := range incon {
		res.Inconcl(why)
	}

	fp := "l2|seeded"
	if pl.Fixed {
		fp = fmt.Sprintf("l2|fixed-%d", pl.K)
	}
	fp += "|fired=" + strings.Join(keys(fired), ",") + "|calls=" + strings.Join(keys(callKinds), ",") +
		"|outcomes=" + strings.Join(keys(outcomes), ",")
	switch {
	case stuck:
		fp += "|stuck"
	case pl.StopMid:
		fp += "|stop-mid-burst"
	default:
		fp += "|stop-after-probe"
	}
	res.Fingerprint = fp
	res.Nontrivial = len(fires) > 0 && (stopOK || len(res.Violations) > 0)
	if len(fires) == 0 && len(incon) == 0 {
		res.Inconcl("l2: no actor fired")
	}
	type sample struct {
		Plan  *L2Plan      `json:"plan"`
		Fires []l2Fire     `json:"fires"`
		Calls []*l2CallRun `json:"calls"`
		Stop  bool         `json:"stop_returned"`
	}
	res.Sample = sample{pl, fires, calls, stopOK}
}

func l2ErrKind(s string) string {
	switch {
	case strings.Contains(s, "disconnected"):
		return "peer-disconnected"
	case strings.Contains(s, "timeout") || strings.Contains(s, "timed out"):
		return "timeout"
	case strings.Contains(s, "hutting down"):
		return "shutdown"
	case strings.Contains(s, "cancel"):
		return "canceled"
	case strings.Contains(s, "couldn't retrieve block"), strings.Contains(s, "filter fetch"), strings.Contains(s, "unable to fetch"):
		return "not-retrieved"
	}
	return "other"
}

func bucketPct(cut, n int) string {
	if n == 0 {
		return "0"
	}
	switch p := cut * 100 / n; {
	case p == 0:
		return "start"
	case p >= 100:
		return "end"
	case p < 50:
		return "first-half"
	default:
		return "second-half"
	}
}

func bucketN(n int) string {
	switch {
	case n <= 0:
		return "0"
	case n == 1:
		return "1"
	case n <= 4:
		return "2-4"
	default:
		return "5+"
	}
}

func keys(m map[string]bool) []string {
	out := make([]string, 0, len(m))
	for k := range m {
		out = append(out, k)
	}
	sort.Strings(out)
	return out
}

// L2Debug runs one scenario in this process and prints its result.
func L2Debug(seed int64, k int) {
	res := &l2.Result{Scenario: k}
	t0 := time.Now()
	L2Scenario(seed, k, res)
	res.WallS = time.Since(t0).Seconds()
	b, _ := json.MarshalIndent(res, "", " ")
	fmt.Println(string(b))
}

// L2Replay re-runs scenario k of the given seed in this process and folds its
// result into r (replay of an L2 witness).
func L2Replay(r *evid.Run, seed int64, k int) {
	res := &l2.Result{Scenario: k}
	L2Scenario(seed, k, res)
	r.Case(res.Fingerprint, res.Nontrivial)
	for _, m := range res.Marks {
		r.Mark(m)
	}
	for c, v := range res.Counters {
		r.Count(c, v)
	}
	for _, why := range res.Inconclusive {
		r.Inconclusive(why)
	}
	for _, v := range res.Violations {
		r.Violation(v.Sig, v.What, map[string]any{"scenario": k, "name": res.Name, "witness": v.Witness})
	}
	if res.Sample != nil {
		r.Sample(res.Sample)
	}
}
