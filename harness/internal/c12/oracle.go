package c12

import (
	"fmt"
	"sort"
	"strings"
	"time"

	"github.com/lightninglabs/neutrino/query"
)

// Constants of the package under test that the oracle relies on (read from
// query/workmanager.go and query/interface.go; unexported there).
const (
	minWorkerTimeout   = 2 * time.Second  // minQueryTimeout
	defaultHardTimeout = 30 * time.Second // defaultQueryTimeout
	defaultRetries     = 2                // defaultNumRetries
)

func isClosed(c chan struct{}) bool {
	select {
	case <-c:
		return true
	default:
		return false
	}
}

func (b *hBatch) capLimit() (limit int, capped bool) {
	if b.spec.Opt.NoRetryMax {
		return 0, false
	}
	c := b.spec.Opt.Retries
	if c < 0 {
		c = defaultRetries
	}
	if c < 1 {
		c = 1
	}
	return c, true
}

func (b *hBatch) optKinds() string { return strings.Join(b.spec.Opt.Kinds(), "+") }

// lastAttempt describes how the last attempt of a request looks from the
// peer side.
func (st *state) lastAttempt(r *hReq) string {
	if len(r.deliveries) == 0 {
		return "never-delivered"
	}
	d := r.deliveries[len(r.deliveries)-1]
	s := d.outcome
	if st.discSeq[d.peer.spec.Name] != 0 && !disconnects(d.outcome) {
		s += "+peer-left"
	}
	return s
}

type batchSummary struct {
	Batch      int      `json:"batch"`
	Probe      bool     `json:"probe,omitempty"`
	NReq       int      `json:"nreq"`
	Opt        OptSpec  `json:"opt"`
	Verdicts   []string `json:"verdicts"`
	Second     string   `json:"second_value,omitempty"`
	ElapsedMs  int64    `json:"elapsed_ms,omitempty"`
	Deliveries []string `json:"deliveries_per_request,omitempty"`
	Unanswered []int    `json:"unanswered_requests,omitempty"`
}

func (st *state) summaries() []batchSummary {
	var out []batchSummary
	for _, b := range st.batches {
		s := batchSummary{Batch: b.idx, Probe: b.probe, NReq: len(b.reqs), Opt: b.spec.Opt}
		for _, v := range b.verdicts {
			s.Verdicts = append(s.Verdicts, errKind(v.err))
		}
		if len(b.verdicts) > 0 {
			s.ElapsedMs = b.verdicts[0].at.Sub(b.queryStart).Milliseconds()
		}
		if b.secondRead {
			s.Second = errKind(b.secondErr)
		}
		for _, r := range b.reqs {
			var ds []string
			for _, d := range r.deliveries {
				ds = append(ds, d.peer.spec.Name+":"+d.outcome)
			}
			s.Deliveries = append(s.Deliveries, fmt.Sprintf("r%d[%s]", r.id, strings.Join(ds, " ")))
			if r.finishedSeq == 0 {
				s.Unanswered = append(s.Unanswered, r.id)
			}
		}
		out = append(out, s)
	}
	return out
}

func (st *state) witness(extra map[string]any) map[string]any {
	ev := st.log
	if len(ev) > 700 {
		ev = append(append([]Event(nil), ev[:350]...), ev[len(ev)-350:]...)
	}
	w := map[string]any{
		"scenario": st.sc,
		"batches":  st.summaries(),
		"events":   ev,
	}
	for k, v := range extra {
		w[k] = v
	}
	return w
}

// evaluate applies the oracle to the recorded history. Caller: Run, after
// every harness goroutine that writes the history has finished or been
// released.
func (st *state) evaluate() *Result {
	st.mu.Lock()
	defer st.mu.Unlock()

	res := &Result{
		Scenario:     st.sc,
		Counters:     map[string]int64{},
		VerdictKinds: map[string]int64{},
	}
	vio := func(sig, what string, extra map[string]any) {
		for _, v := range st.vios {
			if v.Sig == sig {
				return // one per signature and scenario
			}
		}
		st.vios = append(st.vios, Violation{Sig: sig, What: what, Witness: st.witness(extra)})
	}
	stopReturned := isClosed(st.stopped)
	st.discSeq = map[string]int{}
	for _, e := range st.log {
		if e.K == "peer_disc" && st.discSeq[e.P] == 0 {
			st.discSeq[e.P] = e.Seq
		}
	}

	// ---- handler sanity -------------------------------------------------
	for _, e := range st.log {
		if e.K != "handle" {
			continue
		}
		res.Counters["handle_resp_calls"]++
		if strings.HasPrefix(e.X, "final(") && !strings.Contains(e.X, "Finished") {
			res.Counters["stale_answers_seen_by_another_request"]++
		}
		if strings.HasPrefix(e.X, "partial(") && strings.Contains(e.X, "Progressed") {
			res.Counters["progress_messages_handled"]++
		}
		if strings.Contains(e.X, "WRONGREQ") {
			vio("handler-got-foreign-request", "HandleResp was invoked with a req that is not the request's own message", nil)
		}
		// NOTE: no assertion that the handler only runs for peers that were
		// sent the request: a worker that picks up an already cancelled job
		// skips QueueMessage but may still pass one pending message of its
		// peer to the handler before it notices the cancellation.
	}

	// ---- per batch --------------------------------------------------------
	verdictSet := map[string]bool{}
	for _, b := range st.batches {
		submitted := isClosed(b.queryDone)
		if !b.probe {
			res.Counters["batches"]++
			if len(b.reqs) == 0 {
				res.Counters["zero_request_batches"]++
			}
		}
		for _, r := range b.reqs {
			res.Counters["deliveries"] += int64(len(r.deliveries))
			if n := len(r.deliveries); n > 1 {
				res.Counters["reissues_observed"] += int64(n - 1)
			}
			for _, d := range r.deliveries {
				if silent(d.outcome) {
					res.Counters["forced_timeouts_scripted_and_delivered"]++
				}
				if disconnects(d.outcome) {
					res.Counters["disconnects_mid_job"]++
				}
			}
		}

		// R1: exactly one value.
		if b.secondRead {
			vio(fmt.Sprintf("double-verdict/first=%s/second=%s", errKind(b.verdicts[0].err), errKind(b.secondErr)),
				fmt.Sprintf("batch %d: a second value (%s) was readable from the channel returned by Query after the first (%s)",
					b.idx, errKind(b.secondErr), errKind(b.verdicts[0].err)), nil)
		}
		if len(b.verdicts) == 0 {
			if submitted && stopReturned {
				vio("no-verdict-after-stop/opts="+b.optKinds(),
					fmt.Sprintf("batch %d: Query returned and Stop returned, yet nothing is readable from the result channel", b.idx), nil)
			}
			continue
		}
		v := b.verdicts[0]
		kind := errKind(v.err)
		res.VerdictKinds[kind]++
		if !b.probe {
			verdictSet[kind] = true
		}
		elapsed := v.at.Sub(b.queryStart) // upper bound of accept→send

		limit, capped := b.capLimit()
		capReached := false
		capReachedWithDisc := false
		for _, r := range b.reqs {
			n := 0
			disc := false
			for _, d := range r.deliveries {
				if d.seq < v.seq {
					n++
					if ds := st.discSeq[d.peer.spec.Name]; ds != 0 && ds < v.seq {
						disc = true
					}
				}
			}
			if capped && n >= limit && (r.finishedSeq == 0 || r.finishedSeq > v.seq) {
				capReached = true
				if disc {
					capReachedWithDisc = true
				}
			}
			// R5: the retry cap bounds the attempts of every request.
			if capped && len(r.deliveries) > limit {
				vio(fmt.Sprintf("retry-cap-exceeded/cap=%d", limit),
					fmt.Sprintf("batch %d request %d was handed to a peer %d times although its retry cap allows %d attempts",
						b.idx, r.id, len(r.deliveries), limit), nil)
			}
		}

		switch v.err {
		case nil:
			// R2: success only if every request was answered.
			for _, r := range b.reqs {
				if r.finishedSeq == 0 || r.finishedSeq > v.seq {
					cancelled := b.cancelSeq != 0 && b.cancelSeq < v.seq
					vio(fmt.Sprintf("success-without-answer/last-attempt=%s/cancelled=%v", st.lastAttempt(r), cancelled),
						fmt.Sprintf("batch %d reported success but request %d never had a HandleResp call returning Finished (last attempt: %s)",
							b.idx, r.id, st.lastAttempt(r)), nil)
					break
				}
			}
			if b.probe {
				res.Counters["probe_batches_completed"]++
			}

		case query.ErrJobCanceled:
			if b.cancelSeq == 0 || b.cancelSeq > v.seq {
				vio("cancel-verdict-without-cancel/opts="+b.optKinds(),
					fmt.Sprintf("batch %d ended with ErrJobCanceled but its cancel channel had not been closed", b.idx), nil)
			}

		case query.ErrWorkManagerShuttingDown:
			if st.stopSeq == 0 || st.stopSeq > v.seq {
				vio("shutdown-verdict-without-stop/opts="+b.optKinds(),
					fmt.Sprintf("batch %d ended with ErrWorkManagerShuttingDown before Stop was called", b.idx), nil)
			}
			if !b.probe && len(b.reqs) == 0 {
				res.Counters["h11_zero_request_batch_ended_only_by_shutdown"]++
			}

		case query.ErrPeerDisconnected:
			if !capReachedWithDisc {
				// Attempts are observed as QueueMessage calls. A worker
				// that receives a job whose cancel channel is already
				// closed does not queue it, yet may report the peer's
				// disconnect instead of the cancellation: such attempts
				// are invisible to the harness.
				anyDisc := false
				for _, ds := range st.discSeq {
					if ds < v.seq {
						anyDisc = true
					}
				}
				if anyDisc && b.cancelSeq != 0 && b.cancelSeq < v.seq {
					st.incon = append(st.incon, "disconnect-verdict-on-cancelled-batch-attempts-unobservable")
				} else {
					vio("disconnect-verdict-without-cause/opts="+b.optKinds(),
						fmt.Sprintf("batch %d ended with ErrPeerDisconnected but no unanswered request had been attempted %d times with a disconnected peer among them",
							b.idx, limit), nil)
				}
			}

		case query.ErrQueryTimeout:
			hard := defaultHardTimeout
			if b.spec.Opt.HardMs > 0 {
				hard = time.Duration(b.spec.Opt.HardMs) * time.Millisecond
			} else if b.spec.Opt.HardMs < 0 {
				hard = 1
			}
			idle := time.Duration(b.spec.Opt.IdleMs) * time.Millisecond
			// Timers never fire early and elapsed over-estimates the time
			// between acceptance and the verdict, so "elapsed < timer"
			// soundly excludes that timer as the cause; 0.9 is extra slack.
			byCap := capReached && elapsed >= minWorkerTimeout*9/10
			byHard := elapsed >= hard*9/10
			byIdle := idle > 0 && elapsed >= idle*9/10
			switch {
			case byCap:
				res.Counters["timeout_verdicts_explained_by_retry_cap"]++
			case byIdle && !byHard:
				res.Counters["timeout_verdicts_explained_by_idle_timer"]++
			case byHard && !byIdle:
				res.Counters["timeout_verdicts_explained_by_hard_timer"]++
			case byHard && byIdle:
				res.Counters["timeout_verdicts_explained_by_either_timer"]++
			default:
				vio("timeout-verdict-without-cause/opts="+b.optKinds(),
					fmt.Sprintf("batch %d ended with ErrQueryTimeout after at most %v: no request had used up its retry cap by a worker timeout, hard timeout %v and idle timeout %v cannot have elapsed",
						b.idx, elapsed, hard, idle), nil)
			}

		default:
			vio("unknown-error-kind", fmt.Sprintf("batch %d ended with an error outside the package's exported set: %v", b.idx, v.err), nil)
		}
	}

	// ---- query after stop -------------------------------------------------
	for _, b := range st.batches {
		if st.stopSeq != 0 && b.submitSeq > st.stopSeq && stopReturned && len(b.verdicts) > 0 {
			// Submitted after Stop was called: success is impossible only if
			// it was submitted after Stop RETURNED; otherwise it may have
			// been accepted just before quit. Count only.
			res.Counters["queries_issued_after_stop_called"]++
		}
	}
	if b := st.afterStopBatch; b != nil && stopReturned {
		if len(b.verdicts) == 1 && b.verdicts[0].err != query.ErrWorkManagerShuttingDown {
			vio("query-after-stop-not-refused/got="+errKind(b.verdicts[0].err),
				fmt.Sprintf("a Query issued after Stop returned produced %s", errKind(b.verdicts[0].err)), nil)
		}
		res.Counters["query_after_stop_checked"]++
	}

	// ---- liveness: nothing is lost, nothing wedges -----------------------
	st.evalLiveness(res, vio)

	// ---- ranking (constructed scenario only) -----------------------------
	if st.sc.Kind == "rank" {
		st.evalRank(res, vio)
	}

	// ---- idle timeout after progress (family idlestall) ------------------
	fpSuffix := ""
	if st.sc.Kind == "idlestall" {
		fpSuffix = st.evalIdleStall(res, vio)
	}

	// ---- connected idle peers are used (family quietreconn) --------------
	if st.sc.Kind == "quietreconn" {
		fpSuffix = st.evalQuiet(res, vio)
	}

	// ---- a talkative peer that never answers (family chatter) -----------
	if st.sc.Kind == "chatter" {
		fpSuffix = st.evalChatter(res, vio)
	}

	// ---- hypothesis 11 records ---------------------------------------------
	for _, e := range st.log {
		switch e.K {
		case "pending_without_peer":
			res.Counters["h11_batches_pending_while_no_peer"]++
			b := st.batches[e.B]
			if b.spec.Opt.HardMs > 0 && b.spec.Opt.HardMs <= 100 {
				res.Counters["h11_hard_timeout_elapsed_unreported_without_results"]++
			}
		case "on_max_tries":
			res.Counters["on_max_tries_calls"]++
		}
	}
	res.Counters["encoding_mismatch_recorded"] += int64(st.encMis)
	res.Counters["events_recorded"] += int64(len(st.log))

	// ---- fingerprint ---------------------------------------------------------
	optSet := map[string]bool{}
	outSet := map[string]bool{}
	nb := 0
	for _, b := range st.batches {
		if b.probe {
			continue
		}
		nb++
		for _, k := range b.spec.Opt.Kinds() {
			optSet[k] = true
		}
		for _, r := range b.reqs {
			for _, d := range r.deliveries {
				outSet[d.outcome] = true
			}
		}
	}
	np := 0
	for _, p := range st.peers {
		p.mu.Lock()
		if p.connected && p.spec.Name != "probe-peer" {
			np++
		}
		p.mu.Unlock()
	}
	res.Fingerprint = fmt.Sprintf("%s/p%d/b%d/o=%s/s=%s/v=%s", st.sc.Kind, np, nb,
		setStr(optSet), setStr(outSet), setStr(verdictSet)) + fpSuffix
	res.Nontrivial = len(verdictSet) > 0

	res.Violations = st.vios
	res.Inconclusive = st.incon
	res.Sample = map[string]any{
		"scenario": st.sc, "batches": st.summaries(), "events": len(st.log),
		"fingerprint": res.Fingerprint,
	}
	return res
}

func setStr(m map[string]bool) string {
	var s []string
	for k := range m {
		s = append(s, k)
	}
	sort.Strings(s)
	if len(s) == 0 {
		return "-"
	}
	return strings.Join(s, ",")
}

// evalLiveness judges what the probe phase saw. Apart from a probe that
// fails outright it only speaks when a probe step ended by the quiet
// watchdog: for QuietWatchdog nothing at all happened in the scenario although
// a connected, idle, responsive peer existed. QuietWatchdog exceeds every
// worker timeout a scenario can reach (a job's timeout is 2 s doubled once per
// earlier timeout of that job, and a scenario scripts at most three silences:
// <= 16 s), so no job is still at a peer by then.
func (st *state) evalLiveness(res *Result, vio func(string, string, map[string]any)) {
	earned := func(b *hBatch) bool { // has a verdict that is not the shutdown sweep
		return len(b.verdicts) > 0 && b.verdicts[0].err != query.ErrWorkManagerShuttingDown
	}
	for _, probe := range st.batches {
		if !probe.probe {
			continue
		}
		res.Counters["probe_batches_submitted"]++
		which := "a probe batch restricted to the peers already connected (one of which stays connected and is responsive)"
		if probe.probeTag == "B" {
			which = "a probe batch submitted after a fresh responsive peer connected"
		}
		extra := map[string]any{
			"probe_batch": probe.idx,
			"dispatcher_parked_at_workmanager_go_line": probe.dispLine,
			"dispatcher_same_statement_in_two_samples": probe.dispParked,
			"dispatcher_stack":                         probe.dispStack,
		}
		if earned(probe) && probe.verdicts[0].err != nil {
			v := probe.verdicts[0]
			if v.err == query.ErrQueryTimeout && v.at.Sub(probe.queryStart) >= defaultHardTimeout*9/10 {
				st.incon = append(st.incon, "probe-hit-default-hard-timeout")
			} else {
				vio("probe-failed/got="+errKind(v.err),
					fmt.Sprintf("%s (one request, unlimited retries) ended with %s", which, errKind(v.err)), nil)
			}
		}
		switch probe.wdEvent {
		case "":
			continue
		case "probe_peer_not_taken":
			if probe.dispParked {
				vio("dispatcher-wedged/"+st.wedgeShape()+"/parked-at=workmanager.go:"+probe.dispLine,
					fmt.Sprintf("for %v of complete silence the dispatcher did not take a newly connected peer from the ConnectedPeers channel; its goroutine was parked at workmanager.go:%s in two samples 2 s apart",
						QuietWatchdog, probe.dispLine), extra)
			} else {
				st.incon = append(st.incon, "probe-peer-not-taken-unclassified")
			}
			continue
		}
		// quiet_watchdog_probe
		if earned(probe) && probe.verdicts[0].err == nil {
			// The probe's job has a larger queue index than every job of
			// the older batches, and the queue hands out the smallest
			// index first: an older unanswered request that is at no peer
			// any more and still was not issued has been dropped.
			for _, b := range st.batches {
				if b.probe || len(b.reqs) == 0 || earned(b) || !isClosed(b.queryDone) {
					continue
				}
				if b.submitSeq > probe.submitSeq {
					continue
				}
				lost := false
				for _, r := range b.reqs {
					if r.finishedSeq != 0 {
						continue
					}
					lost = true
					vio("request-not-reissued/last-attempt="+st.lastAttempt(r),
						fmt.Sprintf("batch %d got no verdict: request %d is unanswered, is at no peer any more (last attempt: %s) and was not issued again although %s was served",
							b.idx, r.id, st.lastAttempt(r), which), extra)
					break
				}
				if !lost {
					vio("all-answered-but-no-verdict/opts="+b.optKinds(),
						fmt.Sprintf("batch %d: every request was answered, a later probe completed, but the batch got no verdict", b.idx), extra)
				}
				break
			}
			continue
		}
		if !earned(probe) {
			if len(probe.reqs[0].deliveries) == 0 && probe.dispParked {
				vio("dispatcher-wedged/"+st.wedgeShape()+"/parked-at=workmanager.go:"+probe.dispLine,
					fmt.Sprintf("%s was never handed to any peer during %v of complete silence; the dispatcher goroutine was parked at workmanager.go:%s in two samples 2 s apart",
						which, QuietWatchdog, probe.dispLine), extra)
			} else {
				st.incon = append(st.incon, "probe-unfinished-unclassified")
			}
		}
	}
}

// wedgeShape normalises what distinguishes a wedged scenario: whether a peer
// came back under an address whose previous instance was still working.
func (st *state) wedgeShape() string {
	for _, p := range st.peers {
		if p.spec.ReconnectOf > 0 {
			return "same-address-reconnect"
		}
	}
	return "distinct-addresses"
}

// evalRank: with exactly two idle connected peers of strictly different
// score, a new single request must go to the better one.
func (st *state) evalRank(res *Result, vio func(string, string, map[string]any)) {
	r := st.sc.Rank
	bad, good := st.peers[0], st.peers[1]
	bad.mu.Lock()
	okPeers := bad.connected && st.discSeq[bad.spec.Name] == 0
	bad.mu.Unlock()
	good.mu.Lock()
	okPeers = okPeers && good.connected && st.discSeq[good.spec.Name] == 0
	good.mu.Unlock()

	// Which batches are which.
	tags := map[int]string{}
	for _, e := range st.log {
		if e.K == "rank_step" {
			tags[e.B] = e.X
		}
	}
	pre := okPeers
	for bi, tag := range tags {
		b := st.batches[bi]
		switch tag {
		case "punish":
			// The bad peer must really have been punished K times: the
			// batch ended at its retry cap K by worker timeouts, all on
			// the bad peer.
			if len(b.verdicts) == 0 || b.verdicts[0].err != query.ErrQueryTimeout ||
				len(b.reqs[0].deliveries) != r.K {
				pre = false
			}
		case "reward":
			if len(b.verdicts) == 0 || b.verdicts[0].err != nil {
				pre = false
			}
		}
	}
	if !pre {
		st.incon = append(st.incon, "rank-precondition-not-established")
		return
	}
	var order []int
	for bi, tag := range tags {
		if tag == "ranked" {
			order = append(order, bi)
		}
	}
	sort.Ints(order)
	for _, bi := range order {
		b := st.batches[bi]
		if len(b.reqs[0].deliveries) == 0 {
			continue
		}
		res.Counters["ranking_choices_checked"]++
		first := b.reqs[0].deliveries[0].peer
		if first != good {
			vio("worse-ranked-peer-chosen/"+r.Variant,
				fmt.Sprintf("two idle peers: %s (score strictly worse) and %s (strictly better); the single new request went to %s first",
					bad.spec.Name, good.spec.Name, first.spec.Name), nil)
			return
		}
	}
}
