// Package ref holds the reference models (oracles). They are small,
// deterministic and written independently of neutrino's own helper code; btcd's
// pure arithmetic helpers (CompactToBig, BigToCompact, CalcWork, HashToBig) are
// used as trusted primitives.
package ref

import (
	"fmt"
	"math/big"
	"sort"
	"time"

	"github.com/btcsuite/btcd/blockchain"
	"github.com/btcsuite/btcd/chaincfg/v2"
	"github.com/btcsuite/btcd/chainhash/v2"
	"github.com/btcsuite/btcd/wire/v2"
)

// Rule names: every invalid header produced by the generator and every
// verdict of the validator is labelled with exactly one of these.
const (
	RuleLink       = "link"       // PrevBlock != hash of predecessor
	RulePoW        = "pow"        // hash above own target
	RuleBitsRange  = "bitsrange"  // target <= 0 or above PoW limit
	RuleBits       = "bits"       // bits differ from what retarget rules require
	RuleMTP        = "mtp"        // timestamp not after median-time-past
	RuleFuture     = "future"     // timestamp more than 2h ahead of the clock
	RuleCheckpoint = "checkpoint" // differs from a hard-coded checkpoint
	RuleVersion    = "version"    // outdated block version
	RuleGenesis    = "genesis"    // header 0 is not the genesis header
)

// MedianTimeBlocks is the number of previous blocks for median-time-past.
const MedianTimeBlocks = 11

// MaxFuture is how far a timestamp may be ahead of the clock.
const MaxFuture = 2 * time.Hour

// BlocksPerRetarget of a parameter set.
func BlocksPerRetarget(p *chaincfg.Params) int32 {
	return int32(int64(p.TargetTimespan/time.Second) / int64(p.TargetTimePerBlock/time.Second))
}

// RequiredBits returns the difficulty bits the header at height len(chain)
// with the given timestamp must carry, where chain[i] is the header at height
// i (chain must be non-empty: it contains at least genesis).
func RequiredBits(p *chaincfg.Params, chain []wire.BlockHeader, ts time.Time) uint32 {
	if p.PoWNoRetargeting {
		return p.PowLimitBits
	}
	last := len(chain) - 1 // height of the parent
	bpr := int(BlocksPerRetarget(p))
	if (last+1)%bpr != 0 {
		if p.ReduceMinDifficulty {
			allow := chain[last].Timestamp.Unix() + int64(p.MinDiffReductionTime/time.Second)
			if ts.Unix() > allow {
				return p.PowLimitBits
			}
			// Last block that did not have the special rule applied.
			i := last
			for i > 0 && i%bpr != 0 && chain[i].Bits == p.PowLimitBits {
				i--
			}
			return chain[i].Bits
		}
		return chain[last].Bits
	}
	first := last - (bpr - 1)
	if first < 0 {
		// Cannot happen for last+1 multiple of bpr with last >= bpr-1.
		first = 0
	}
	span := chain[last].Timestamp.Unix() - chain[first].Timestamp.Unix()
	target := int64(p.TargetTimespan / time.Second)
	minSpan := target / p.RetargetAdjustmentFactor
	maxSpan := target * p.RetargetAdjustmentFactor
	if span < minSpan {
		span = minSpan
	} else if span > maxSpan {
		span = maxSpan
	}
	old := blockchain.CompactToBig(chain[last].Bits)
	if p.EnforceBIP94 {
		old = blockchain.CompactToBig(chain[first].Bits)
	}
	nt := new(big.Int).Mul(old, big.NewInt(span))
	nt.Div(nt, big.NewInt(target))
	if nt.Cmp(p.PowLimit) > 0 {
		nt.Set(p.PowLimit)
	}
	return blockchain.BigToCompact(nt)
}

// MedianTimePast of the (up to) 11 headers ending at chain[len-1].
func MedianTimePast(chain []wire.BlockHeader) time.Time {
	n := MedianTimeBlocks
	if len(chain) < n {
		n = len(chain)
	}
	ts := make([]int64, 0, n)
	for i := len(chain) - n; i < len(chain); i++ {
		ts = append(ts, chain[i].Timestamp.Unix())
	}
	sort.Slice(ts, func(i, j int) bool { return ts[i] < ts[j] })
	return time.Unix(ts[len(ts)/2], 0)
}

// CheckNext validates header h as the successor of chain (non-empty) against
// every rule, returning "" when valid or the name of the first broken rule.
// now is the validator's clock. The order of the checks is fixed so that a
// header built to break exactly one rule is labelled with that rule.
func CheckNext(p *chaincfg.Params, chain []wire.BlockHeader, h *wire.BlockHeader, now time.Time) string {
	parent := chain[len(chain)-1]
	if h.PrevBlock != parent.BlockHash() {
		return RuleLink
	}
	height := int32(len(chain))
	tgt := blockchain.CompactToBig(h.Bits)
	if tgt.Sign() <= 0 || tgt.Cmp(p.PowLimit) > 0 {
		return RuleBitsRange
	}
	if want := RequiredBits(p, chain, h.Timestamp); h.Bits != want {
		return RuleBits
	}
	hash := h.BlockHash()
	if blockchain.HashToBig(&hash).Cmp(tgt) > 0 {
		return RulePoW
	}
	if !h.Timestamp.After(MedianTimePast(chain)) {
		return RuleMTP
	}
	if h.Timestamp.After(now.Add(MaxFuture)) {
		return RuleFuture
	}
	if h.Version < 2 && height >= p.BIP0034Height ||
		h.Version < 3 && height >= p.BIP0066Height ||
		h.Version < 4 && height >= p.BIP0065Height {
		return RuleVersion
	}
	for i := range p.Checkpoints {
		if p.Checkpoints[i].Height == height && *p.Checkpoints[i].Hash != hash {
			return RuleCheckpoint
		}
	}
	return ""
}

// CheckChain validates a whole chain (chain[0] must be genesis). It returns
// the height and rule of the first violation, or (-1, "").
func CheckChain(p *chaincfg.Params, chain []wire.BlockHeader, now time.Time) (int, string) {
	if len(chain) == 0 {
		return 0, RuleGenesis
	}
	if chain[0].BlockHash() != *p.GenesisHash {
		return 0, RuleGenesis
	}
	for i := 1; i < len(chain); i++ {
		if r := CheckNext(p, chain[:i], &chain[i], now); r != "" {
			return i, r
		}
	}
	return -1, ""
}

// Work is the cumulative work of headers hs.
func Work(hs []wire.BlockHeader) *big.Int {
	w := new(big.Int)
	for i := range hs {
		w.Add(w, blockchain.CalcWork(hs[i].Bits))
	}
	return w
}

// LastCheckpointAtOrBelow returns the height of the newest checkpoint whose
// height is <= h (0 = genesis when none).
func LastCheckpointAtOrBelow(p *chaincfg.Params, h int32) int32 {
	best := int32(0)
	for i := range p.Checkpoints {
		if p.Checkpoints[i].Height <= h && p.Checkpoints[i].Height > best {
			best = p.Checkpoints[i].Height
		}
	}
	return best
}

// CheckLocator validates a block locator structurally against the list
// hashes (hashes[i] = hash at height i, len-1 = tip): it starts at `from`,
// heights strictly descend, every hash is the list's hash at some height,
// the first ten steps are 1, later steps at most double the previous one,
// it ends at genesis, and it is not longer than the wire limit.
func CheckLocator(hashes []chainhash.Hash, from int, loc []*chainhash.Hash) error {
	if len(loc) == 0 {
		return fmt.Errorf("empty locator")
	}
	if len(loc) > wire.MaxBlockLocatorsPerMsg {
		return fmt.Errorf("locator has %d entries > %d", len(loc), wire.MaxBlockLocatorsPerMsg)
	}
	idx := make(map[chainhash.Hash]int, len(hashes))
	for i, h := range hashes {
		idx[h] = i
	}
	prev := -1
	prevStep := 0
	for i, h := range loc {
		ht, ok := idx[*h]
		if !ok {
			return fmt.Errorf("locator[%d]=%v is not on the list", i, h)
		}
		if i == 0 {
			if ht != from {
				return fmt.Errorf("locator starts at height %d, want %d", ht, from)
			}
		} else {
			step := prev - ht
			if step <= 0 {
				return fmt.Errorf("locator heights not strictly descending at %d (%d -> %d)", i, prev, ht)
			}
			if ht != 0 { // the final clamp to genesis may be any shorter step
				if i <= 10 && step != 1 {
					return fmt.Errorf("locator step %d at index %d, want 1", step, i)
				}
				if i > 10 && prevStep > 0 && step > 2*prevStep {
					return fmt.Errorf("locator step %d at index %d more than doubles previous %d", step, i, prevStep)
				}
			}
			prevStep = step
		}
		prev = ht
	}
	if prev != 0 && len(loc) < wire.MaxBlockLocatorsPerMsg {
		return fmt.Errorf("locator ends at height %d, not genesis", prev)
	}
	// Exactly the documented rule: the start, ten single steps, then the
	// step doubles before every further entry, clamped to genesis.
	want := []int{from}
	for h, step := from, 1; h > 0 && len(want) < wire.MaxBlockLocatorsPerMsg; {
		if len(want) > 10 {
			step *= 2
		}
		if step > h {
			h = 0
		} else {
			h -= step
		}
		want = append(want, h)
	}
	if len(want) != len(loc) {
		return fmt.Errorf("locator has %d entries, the reference locator from height %d has %d", len(loc), from, len(want))
	}
	for i, h := range loc {
		if idx[*h] != want[i] {
			return fmt.Errorf("locator[%d] is height %d, the reference locator from height %d has %d there", i, idx[*h], from, want[i])
		}
	}
	return nil
}
