// Package c18 holds the workload family that C18 (data races) adds to the
// workloads it borrows from the other checks: LATE ANSWERS.
//
// Every borrowed workload has peers that either answer a query in time or
// never. Real peers also answer AFTER the client has given up on them: a
// query handed to a peer hits the query worker's timeout (2 s, doubling), the
// work manager hands the same request to another peer, and then the first
// peer's answer still arrives - before, with, or after the second peer's. The
// query layer's response handlers are closures over the caller's
// unsynchronised state and rely on one worker owning a request at a time, so
// this is where a late answer can meet the new owner of the request or the
// caller reading its result.
//
// The family drives the complete ChainService (engine L2) through its public
// API: concurrent GetBlock / GetCFilter (single, forward and reverse batches)
// calls in rounds, and the checkpointed filter-header sync, against simulated
// peers steered by a director that is keyed by REQUEST, not by peer: whichever
// peer is asked first for a request the plan marks late holds its answer past
// the worker timeout and then sends it; whichever peer is asked next for the
// same request answers at (time of the late answer + a seeded offset of a few
// ms either way). The oracle is the race detector (the program is built with
// -race); the scenario itself only reports what it produced.
package c18

import (
	"bytes"
	"fmt"
	"math/rand"
	"os"
	"sort"
	"strings"
	"sync"
	"time"

	"github.com/btcsuite/btcd/chainhash/v2"
	"github.com/btcsuite/btcd/wire/v2"
	"github.com/lightninglabs/neutrino"

	"verif/internal/chaingen"
	"verif/internal/l2"
	"verif/internal/netsim"
)

// Kinds of calls.
const (
	KBlock     = "block"       // GetBlock
	KBlockBase = "block-base"  // GetBlock, Encoding(BaseEncoding)
	KFilter    = "cfilter"     // GetCFilter, one filter
	KFilterFwd = "cfilter-fwd" // GetCFilter, OptimisticBatch + MaxBatchSize
	KFilterRev = "cfilter-rev" // GetCFilter, OptimisticReverseBatch + MaxBatchSize
)

// LateCall is one public-API call of a round and how its network request is
// answered.
type LateCall struct {
	Kind   string
	Height int32
	Batch  int `json:",omitempty"` // batched cfilter calls: MaxBatchSize
	// Late: the first peer asked holds the answer for HoldMs (past the 2 s
	// worker timeout) and then sends it; the next peer asked answers OffsetMs
	// after (negative: before) that moment.
	Late     bool `json:",omitempty"`
	HoldMs   int  `json:",omitempty"`
	OffsetMs int  `json:",omitempty"`
	// Prefix: a late batched answer sends this many filters at once and holds
	// the rest.
	Prefix int `json:",omitempty"`
	// PromptMs: delay of an answer that is not late (keeps the worker busy
	// long enough for the other calls of the round to reach the other peers).
	PromptMs int
}

// LateRound is a set of calls made concurrently.
type LateRound struct{ Calls []LateCall }

// LatePlan is one scenario (pure function of seed and k; k < LateFixed are
// seed-independent).
type LatePlan struct {
	Name     string
	Seed     int64
	Preset   int
	ChainLen int
	Peers    int
	Persist  bool
	// SyncLate: the checkpointed getcfheaders requests of the initial sync are
	// answered late as well (needs a chain of more than 1000 blocks); one
	// entry per request in the order of their start heights.
	SyncLate []LateCall `json:",omitempty"`
	Rounds   []LateRound
}

// LateFixed is the number of fixed scenarios at the head of the list.
const LateFixed = 3

var offsets = []int{-25, 3, -8, 12, -2, 30, 0, -15, 6, -40, 1, 20}

// LatePlanFor derives scenario k.
func LatePlanFor(seed int64, k int) LatePlan {
	switch k {
	case 0:
		// Fixed: GetBlock only. 4 peers, 5 rounds of 4 concurrent calls, 2 of
		// them answered late: 10 late answers, offsets on both sides.
		p := LatePlan{Name: "fixed-getblock", Seed: 18_000, ChainLen: 60, Peers: 4}
		h := int32(1)
		for rd := 0; rd < 5; rd++ {
			var r LateRound
			for c := 0; c < 4; c++ {
				lc := LateCall{Kind: KBlock, Height: h, PromptMs: 150 + 40*c}
				if c == 3 && rd%2 == 1 {
					lc.Kind = KBlockBase
				}
				if c < 2 {
					lc.Late = true
					lc.HoldMs = 2300 + 150*((rd+c)%4)
					lc.OffsetMs = offsets[(2*rd+c)%len(offsets)]
				}
				h += 2
				r.Calls = append(r.Calls, lc)
			}
			p.Rounds = append(p.Rounds, r)
		}
		return p
	case 1:
		// Fixed: GetCFilter (single, forward batch with a prompt prefix,
		// reverse batch) late in every round, next to GetBlock calls.
		p := LatePlan{Name: "fixed-getcfilter", Seed: 18_001, ChainLen: 90, Peers: 3, Persist: true}
		for rd := 0; rd < 5; rd++ {
			base := int32(1 + 8*rd)
			f := LateCall{Late: true, HoldMs: 2300 + 120*rd, OffsetMs: offsets[(rd+5)%len(offsets)], PromptMs: 200}
			switch rd % 3 {
			case 0:
				f.Kind, f.Height, f.Batch, f.Prefix = KFilterFwd, base, 6, 2
			case 1:
				f.Kind, f.Height = KFilter, base+3
			default:
				f.Kind, f.Height, f.Batch = KFilterRev, base+7, 5
			}
			r := LateRound{Calls: []LateCall{
				f,
				{Kind: KBlock, Height: 60 + int32(2*rd), PromptMs: 180},
				{Kind: KBlock, Height: 61 + int32(2*rd), PromptMs: 260},
			}}
			p.Rounds = append(p.Rounds, r)
		}
		return p
	case 2:
		// Fixed: a late cfheaders answer during the checkpointed filter-header
		// sync (one request for heights 1..2000), then two mixed rounds.
		p := LatePlan{Name: "fixed-sync-cfheaders", Seed: 18_002, ChainLen: 2100, Peers: 2}
		p.SyncLate = []LateCall{{Late: true, HoldMs: 2400, OffsetMs: 4}}
		p.Rounds = []LateRound{
			{Calls: []LateCall{
				{Kind: KBlock, Height: 2050, Late: true, HoldMs: 2350, OffsetMs: -6, PromptMs: 150},
				{Kind: KFilterRev, Height: 2040, Batch: 4, PromptMs: 220},
			}},
			{Calls: []LateCall{
				{Kind: KFilterFwd, Height: 1001, Batch: 5, Prefix: 1, Late: true, HoldMs: 2500, OffsetMs: 9, PromptMs: 150},
				{Kind: KBlockBase, Height: 7, PromptMs: 240},
			}},
		}
		return p
	}
	r := rand.New(rand.NewSource(seed*1_000_003 + int64(k)*104_729 + 18))
	p := LatePlan{Name: "seeded", Seed: seed*1_000_003 + int64(k), Preset: k % chaingen.NumPresets}
	p.ChainLen = 50 + r.Intn(100)
	p.Peers = 2 + r.Intn(3)
	p.Persist = r.Intn(2) == 0
	nRounds := 3 + r.Intn(3)
	if r.Intn(5) == 0 {
		// Checkpointed filter-header sync with late cfheaders answers.
		p.ChainLen = 2050 + r.Intn(1100)
		nRounds = 2
		nReq := (p.ChainLen/1000 + 1) / 2
		for i := 0; i < nReq; i++ {
			p.SyncLate = append(p.SyncLate, LateCall{Late: r.Intn(4) != 0 || i == 0, HoldMs: 2300 + r.Intn(700), OffsetMs: r.Intn(61) - 30})
		}
	}
	heights := r.Perm(p.ChainLen)
	nextH := func() int32 { h := heights[0]; heights = heights[1:]; return int32(h + 1) }
	chunk := 0 // cfilter calls use disjoint 8-block chunks so that no call is answered from the cache
	for rd := 0; rd < nRounds; rd++ {
		var ro LateRound
		n := p.Peers
		if p.Peers > 2 && r.Intn(3) == 0 {
			n--
		}
		nLate := 1 + r.Intn(p.Peers/2)
		filterAt := -1
		if r.Intn(3) != 0 && 8*(chunk+1) <= p.ChainLen {
			filterAt = r.Intn(n)
		}
		for c := 0; c < n; c++ {
			lc := LateCall{Kind: KBlock, PromptMs: 100 + r.Intn(250)}
			if c == filterAt {
				base := int32(1 + 8*chunk)
				chunk++
				switch r.Intn(3) {
				case 0:
					lc.Kind, lc.Height = KFilter, base+int32(r.Intn(8))
				case 1:
					lc.Kind, lc.Height, lc.Batch = KFilterFwd, base, 2+r.Intn(7)
				default:
					lc.Kind, lc.Height, lc.Batch = KFilterRev, base+7, 2+r.Intn(7)
				}
			} else {
				if r.Intn(4) == 0 {
					lc.Kind = KBlockBase
				}
				lc.Height = nextH()
			}
			// The late calls are the first nLate of a seeded rotation.
			if (c+rd)%n < nLate {
				lc.Late = true
				lc.HoldMs = 2300 + r.Intn(700)
				switch r.Intn(3) {
				case 0:
					lc.OffsetMs = r.Intn(7) - 3
				case 1:
					lc.OffsetMs = r.Intn(41) - 20
				default:
					lc.OffsetMs = r.Intn(121) - 60
				}
				if lc.Batch > 1 && r.Intn(2) == 0 {
					lc.Prefix = 1 + r.Intn(lc.Batch-1)
				}
			}
			ro.Calls = append(ro.Calls, lc)
		}
		p.Rounds = append(p.Rounds, ro)
	}
	return p
}

// ---------------------------------------------------------------------------
// The director: answers requests by request key.

type keyState struct {
	spec    LateCall
	asks    []string // peers asked, in order
	lateAt  time.Time
	lateSeq int64 // event-log sequence number after the late answer was sent (0 = not yet)
	// reaskSeq is the log length when the second peer was asked.
	reaskSeq  int64
	retrySeq  int64 // after the second peer's answer was sent
	lateBytes int
}

type director struct {
	mu      sync.Mutex
	keys    map[string]*keyState
	pending sync.WaitGroup
	log     *netsim.Log
}

func blockKey(h chainhash.Hash) string { return "b:" + h.String() }
func rangeKey(kind string, start uint32, stop chainhash.Hash) string {
	return fmt.Sprintf("%s:%d:%s", kind, start, stop.String())
}

// keyOf names the request a message carries ("" = not steered).
func keyOf(m wire.Message) string {
	switch t := m.(type) {
	case *wire.MsgGetData:
		if len(t.InvList) == 1 && (t.InvList[0].Type == wire.InvTypeBlock || t.InvList[0].Type == wire.InvTypeWitnessBlock) {
			return blockKey(t.InvList[0].Hash)
		}
	case *wire.MsgGetCFilters:
		return rangeKey("f", t.StartHeight, t.StopHash)
	case *wire.MsgGetCFHeaders:
		return rangeKey("h", t.StartHeight, t.StopHash)
	}
	return ""
}

func (d *director) add(key string, spec LateCall) { d.keys[key] = &keyState{spec: spec} }

// onMsg is installed as OnMsg of every peer.
func (d *director) onMsg(p *netsim.Peer, m wire.Message) bool {
	key := keyOf(m)
	if key == "" {
		return false
	}
	d.mu.Lock()
	st := d.keys[key]
	if st == nil {
		d.mu.Unlock()
		return false
	}
	resp, enc := p.Honest(m)
	st.asks = append(st.asks, p.Addr)
	n := len(st.asks)
	now := time.Now()
	var first []wire.Message // sent at once
	var delay time.Duration  // the rest after this long
	role := "prompt"
	switch {
	case n == 1 && st.spec.Late:
		role = "late"
		delay = time.Duration(st.spec.HoldMs) * time.Millisecond
		st.lateAt = now.Add(delay)
		if k := st.spec.Prefix; k > 0 && k < len(resp) {
			first, resp = resp[:k], resp[k:]
		}
	case n == 1:
		delay = time.Duration(st.spec.PromptMs) * time.Millisecond
	case n == 2 && st.spec.Late:
		role = "retry"
		st.reaskSeq = d.log.Len()
		if t := st.lateAt.Add(time.Duration(st.spec.OffsetMs) * time.Millisecond).Sub(now); t > 0 {
			delay = t
		}
	default:
		role = "again"
	}
	d.pending.Add(1)
	d.mu.Unlock()
	for _, r := range first {
		_ = p.SendEnc(r, enc)
	}
	go func() {
		defer d.pending.Done()
		if delay > 0 {
			time.Sleep(delay)
		}
		sent := 0
		for _, r := range resp {
			if p.SendEnc(r, enc) == nil {
				sent++
			}
		}
		seq := d.log.Add(p.Addr, "ev", "answered", role+" "+key[:2])
		d.mu.Lock()
		switch role {
		case "late":
			if sent > 0 {
				st.lateSeq = seq
				st.lateBytes = sent
			}
		case "retry":
			st.retrySeq = seq
		}
		d.mu.Unlock()
	}()
	return true
}

// ---------------------------------------------------------------------------

// LateAnswerScenario runs scenario k.
func LateAnswerScenario(seed int64, k int, res *l2.Result) {
	plan := LatePlanFor(seed, k)
	res.Name = "late-answer/" + plan.Name
	res.Fingerprint = "late-answer|aborted"
	res.Count("late_scenarios", 1)

	span := time.Duration(plan.ChainLen+400) * 6 * time.Second
	if span < 2*time.Hour {
		span = 2 * time.Hour
	}
	w := l2.NewWorld(l2.Config{Seed: plan.Seed, Preset: plan.Preset, Interval: 8, SpacingSec: 4, GenesisAgo: span})
	defer w.Cleanup()
	trunk := w.G.Extend(w.G.Genesis, plan.ChainLen, chaingen.PaceNormal)
	tip := trunk[len(trunk)-1]
	node := func(h int32) *chaingen.Node { return tip.Ancestor(h) }

	d := &director{keys: map[string]*keyState{}, log: w.Log}
	// Requests of the initial sync.
	nCkpt := plan.ChainLen / 1000
	for i, sc := range plan.SyncLate {
		start := uint32(2000*i + 1)
		stop := int32(2000 * (i + 1))
		if stop > int32(nCkpt*1000) {
			stop = int32(nCkpt * 1000)
		}
		if int32(start) > stop {
			break
		}
		sc.Kind = "cfheaders"
		d.add(rangeKey("h", start, node(stop).Hash), sc)
	}
	// Requests of the calls.
	type callRef struct {
		spec LateCall
		key  string
		n    *chaingen.Node
	}
	var rounds [][]callRef
	for _, ro := range plan.Rounds {
		var cr []callRef
		for _, c := range ro.Calls {
			n := node(c.Height)
			if c.Kind == KBlockBase && hasWitness(n.Block) {
				// The client cannot validate the witness commitment of a
				// block with witness data fetched without it and bans the
				// sender: such a block is fetched in the default encoding.
				c.Kind = KBlock
			}
			var key string
			switch c.Kind {
			case KBlock, KBlockBase:
				key = blockKey(n.Hash)
			case KFilter:
				key = rangeKey("f", uint32(c.Height), n.Hash)
			case KFilterFwd:
				stop := c.Height + int32(c.Batch) - 1
				if stop > tip.Height {
					stop = tip.Height
				}
				key = rangeKey("f", uint32(c.Height), node(stop).Hash)
			case KFilterRev:
				start := c.Height - int32(c.Batch) + 1
				if start < 1 {
					start = 1
				}
				key = rangeKey("f", uint32(start), n.Hash)
			}
			d.add(key, c)
			cr = append(cr, callRef{c, key, n})
		}
		rounds = append(rounds, cr)
	}
	for i := 0; i < plan.Peers; i++ {
		w.AddPeer(tip).OnMsg = d.onMsg
	}

	if err := w.StartClient(nil, l2.ClientOpts{PersistToDisk: plan.Persist}); err != nil {
		res.Inconcl("late-answer: client did not start: " + err.Error())
		return
	}
	stopped := false
	stop := func() {
		if stopped {
			return
		}
		stopped = true
		if ok, _ := w.StopClient(60 * time.Second); !ok {
			res.Inconcl("late-answer: Stop did not return within the watchdog")
		}
	}
	defer stop()

	if !l2.WaitFor(120*time.Second, func() bool { return w.SyncedTo(tip) }) {
		res.Inconcl("late-answer: initial sync did not complete within the watchdog")
		res.Sample = map[string]any{"plan": plan, "log_tail": w.Log.Tail(40)}
		return
	}
	// Every peer connected (a call per peer needs a worker per peer).
	l2.WaitFor(20*time.Second, func() bool { return int(w.Svc.ConnectedCount()) >= plan.Peers })

	type outcome struct {
		Kind string
		OK   bool
		Err  string `json:",omitempty"`
	}
	var outMu sync.Mutex
	var outs []outcome
	wrong := 0
	for _, cr := range rounds {
		var wg sync.WaitGroup
		for _, c := range cr {
			wg.Add(1)
			go func(c callRef) {
				defer wg.Done()
				o := outcome{Kind: c.spec.Kind}
				bad := false
				switch c.spec.Kind {
				case KBlock, KBlockBase:
					var opts []neutrino.QueryOption
					if c.spec.Kind == KBlockBase {
						opts = append(opts, neutrino.Encoding(wire.BaseEncoding))
					}
					blk, err := w.Svc.GetBlock(c.n.Hash, opts...)
					if err != nil {
						o.Err = err.Error()
					} else {
						o.OK = true
						bad = *blk.Hash() != c.n.Hash
					}
				default:
					var opts []neutrino.QueryOption
					switch c.spec.Kind {
					case KFilterFwd:
						opts = append(opts, neutrino.OptimisticBatch(), neutrino.MaxBatchSize(int64(c.spec.Batch)))
					case KFilterRev:
						opts = append(opts, neutrino.OptimisticReverseBatch(), neutrino.MaxBatchSize(int64(c.spec.Batch)))
					}
					f, err := w.Svc.GetCFilter(c.n.Hash, wire.GCSFilterRegular, opts...)
					if err != nil {
						o.Err = err.Error()
					} else if f == nil {
						o.Err = "nil filter"
					} else {
						o.OK = true
						b, _ := f.NBytes()
						bad = !bytes.Equal(b, c.n.FilterBytes)
					}
				}
				outMu.Lock()
				outs = append(outs, o)
				if bad {
					wrong++
				}
				outMu.Unlock()
			}(c)
			// The calls of a round are made back to back, in plan order.
			time.Sleep(3 * time.Millisecond)
		}
		if !waitGroupTimeout(&wg, 120*time.Second) {
			res.Inconcl("late-answer: a call did not return within the watchdog")
			res.Sample = map[string]any{"plan": plan, "log_tail": w.Log.Tail(60)}
			return
		}
		// Let every held answer go out and reach the client before the next
		// round hands the workers new requests.
		d.pending.Wait()
		time.Sleep(60 * time.Millisecond)
	}
	d.pending.Wait()
	time.Sleep(100 * time.Millisecond)
	stop()

	// What was produced.
	d.mu.Lock()
	kinds := map[string]bool{}
	orders := map[string]bool{}
	var late, gaveUp, before, after, never int64
	for _, st := range d.keys {
		if !st.spec.Late {
			continue
		}
		late++
		switch {
		case len(st.asks) < 2 || st.lateSeq == 0:
			// Never asked (cache hit / a request the client did not make),
			// not asked a second peer, or the late answer could not be sent.
			never++
			continue
		case st.lateSeq < st.reaskSeq:
			// The held answer went out before the client asked someone else.
			never++
			continue
		}
		gaveUp++
		kinds[st.spec.Kind] = true
		cls := "late-answer-after-retry-answer"
		if st.retrySeq == 0 || st.lateSeq < st.retrySeq {
			cls = "late-answer-before-retry-answer"
			before++
		} else {
			after++
		}
		orders[cls] = true
		res.Mark("late-answer|" + st.spec.Kind + "|" + cls)
	}
	d.mu.Unlock()
	okCalls, failed := int64(0), int64(0)
	for _, o := range outs {
		if o.OK {
			okCalls++
		} else {
			failed++
		}
	}
	res.Count("late_calls_made", int64(len(outs)))
	res.Count("late_calls_returned_ok", okCalls)
	res.Count("late_calls_returned_error", failed)
	res.Count("late_requests_planned_late", late)
	res.Count("late_answers_sent_after_client_asked_another_peer", gaveUp)
	res.Count("late_answers_before_retry_answer", before)
	res.Count("late_answers_after_retry_answer", after)
	res.Count("late_requests_not_reached", never)
	races := ownRaceReports()
	if races > 0 {
		res.Count("late_scenarios_with_race_report", 1)
		res.Count("late_race_reports_in_scenarios", int64(races))
	}
	if wrong > 0 {
		// Not C18's statement (C02/C06 judge returned values); recorded only.
		res.Count("late_calls_with_unexpected_value", int64(wrong))
		res.Inconcl("late-answer: a call returned a value other than the generator's (not judged by this check)")
	}
	res.Nontrivial = gaveUp > 0
	if gaveUp == 0 {
		res.Inconcl("late-answer: no held answer was sent after the client had asked another peer")
	}
	res.Fingerprint = fmt.Sprintf("late-answer|%s|peers=%d|kinds=%s|orders=%s", plan.Name, plan.Peers, setStr(kinds), setStr(orders))
	res.Sample = map[string]any{"plan": plan, "outcomes": outs, "late_answers_after_giveup": gaveUp, "race_reports": races}
}

func hasWitness(b *wire.MsgBlock) bool {
	for _, tx := range b.Transactions {
		if tx.HasWitness() {
			return true
		}
	}
	return false
}

func setStr(m map[string]bool) string {
	var s []string
	for k := range m {
		s = append(s, k)
	}
	sort.Strings(s)
	return strings.Join(s, "+")
}

func waitGroupTimeout(wg *sync.WaitGroup, d time.Duration) bool {
	done := make(chan struct{})
	go func() { wg.Wait(); close(done) }()
	select {
	case <-done:
		return true
	case <-time.After(d):
		return false
	}
}

// ownRaceReports counts the race reports this process has written so far to
// the file the race runtime was given (GORACE log_path); 0 when there is none.
// Evidence only: the reports themselves are collected by the parent.
func ownRaceReports() int {
	for _, f := range strings.Fields(os.Getenv("GORACE")) {
		if p, ok := strings.CutPrefix(f, "log_path="); ok {
			b, err := os.ReadFile(fmt.Sprintf("%s.%d", p, os.Getpid()))
			if err != nil {
				return 0
			}
			return strings.Count(string(b), "WARNING: DATA RACE")
		}
	}
	return 0
}
