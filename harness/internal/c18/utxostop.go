package c18

// Family "utxo-stop": the output scanner stopped WHILE requests are being
// enqueued.
//
// UtxoScanner.Enqueue decides under the scanner's mutex that the scanner is
// still running and then pushes onto the request queue; Stop closes quit, waits
// for the batch manager and then hands every request still queued its
// shutting-down answer. The batch manager leaves without taking the mutex again
// only from one place: right after it peeked at the queue and unlocked, when it
// looks at quit. An Enqueue that passed its quit check just before Stop closed
// quit is then still inside its critical section while Stop walks the queue.
// Neither of the borrowed workloads can place an Enqueue there (the window is a
// few instructions on both sides), so this family does, at the client's own
// pause points (build tag verif):
//
//	utxo.bm.unlocked     batch manager: after Peek + Unlock, before the quit check
//	utxo.enqueue.locked  Enqueue: past its quit check, mutex held, before the push
//
// The hook SLEEPS at these points (a sleep creates no happens-before edge; a
// channel or mutex hand-over from the harness would order the two sides and hide
// what the detector is to judge): the batch manager for bmMs, the enqueuers for
// longer, and Stop is called once all of them are known to be parked (atomics
// written BEFORE the sleeps: they order only what came before the points). The
// oracle is the race detector: Stop's walk over the queue and the enqueuers'
// pushes must be ordered by the scanner's own synchronisation. The scenario only
// reports that the planned placement was reached.

import (
	"fmt"
	"math/rand"
	"sync"
	"sync/atomic"
	"time"

	"github.com/lightninglabs/neutrino"

	"verif/internal/c10"
	"verif/internal/l2"
)

// UtxoStopFixed is the number of fixed scenarios of the family.
const UtxoStopFixed = 2

// UtxoStopPlan is one scenario.
type UtxoStopPlan struct {
	Name      string
	Enqueuers int  // goroutines parked inside Enqueue when Stop is called
	Readers   int  // goroutines waiting in Result of the first request
	HoldBM    bool // batch manager parked after its unlock (else idle in cv.Wait / scanning)
	Scanning  bool // not HoldBM: a scan is in flight (held inside GetBlock) when Stop is called
	BMms      int
	EnqMs     int
}

// UtxoStopPlanFor returns scenario k.
func UtxoStopPlanFor(seed int64, k int) UtxoStopPlan {
	switch k {
	case 0:
		return UtxoStopPlan{Name: "fixed0", Enqueuers: 1, HoldBM: true, BMms: 250, EnqMs: 700}
	case 1:
		return UtxoStopPlan{Name: "fixed1", Enqueuers: 2, Readers: 2, Scanning: true, BMms: 0, EnqMs: 500}
	}
	rng := rand.New(rand.NewSource(seed*7919 + int64(k)))
	p := UtxoStopPlan{Name: fmt.Sprintf("seeded%d", k)}
	p.Enqueuers = 1 + rng.Intn(3)
	p.Readers = rng.Intn(3)
	switch rng.Intn(4) {
	case 0:
		p.Scanning = true
	case 1:
		// batch manager idle in cv.Wait (no first request)
	default:
		p.HoldBM = true
	}
	p.BMms = 150 + rng.Intn(300)
	p.EnqMs = p.BMms + 300 + rng.Intn(400)
	return p
}

// UtxoStopScenario runs scenario k of the family (one race-instrumented child).
func UtxoStopScenario(seed int64, k int, res *l2.Result) {
	p := UtxoStopPlanFor(seed, k)
	res.Name = "utxo-stop/" + p.Name
	res.Fingerprint = "utxo-stop|aborted"
	res.Count("utxo_stop_scenarios", 1)
	c10.InstallLogger()

	ci := c10.BuildChain(0, seed*31+int64(k), 24)
	if len(ci.NeverSpent) < 1 {
		res.Inconcl("generated chain has no unspent output to ask for")
		return
	}
	src := c10.NewSource(ci, ci.Len())
	// Scanning: hold the scan inside its first block/filter fetch until Stop
	// was called (released by close, which only orders harness and scanner).
	scanHeld := make(chan struct{})
	var scanAt atomic.Int32
	var releaseOnce sync.Once
	release := func() { releaseOnce.Do(func() { close(scanHeld) }) }
	defer release()
	if p.Scanning {
		src.Gate = func(kind int, h int32) error {
			if kind == c10.CFilter || kind == c10.CBlock {
				scanAt.Store(1)
				<-scanHeld
			}
			return nil
		}
	}
	sc := neutrino.VerifNewUtxoScanner(src, src.GetBlockHash)

	var armBM, armEnq atomic.Int32
	var bmAt, enqAt atomic.Int32
	neutrino.VerifSetPointHook(func(name string) {
		switch name {
		case "utxo.bm.unlocked":
			if armBM.CompareAndSwap(1, 0) {
				bmAt.Store(1)
				time.Sleep(time.Duration(p.BMms) * time.Millisecond)
			}
		case "utxo.enqueue.locked":
			// Only ONE goroutine can be here at a time (the mutex is held):
			// the first one sleeps, the others queue up on the mutex behind it
			// and pass their quit check after Stop closed quit.
			if armEnq.CompareAndSwap(1, 0) {
				enqAt.Store(1)
				time.Sleep(time.Duration(p.EnqMs) * time.Millisecond)
			}
		}
	})
	defer neutrino.VerifSetPointHook(nil)

	input := func(i int) *neutrino.InputWithScript {
		op := ci.NeverSpent[i%len(ci.NeverSpent)]
		return &neutrino.InputWithScript{OutPoint: op, PkScript: ci.ScriptOf(op)}
	}
	waitFor := func(what string, cond func() bool) bool {
		deadline := time.Now().Add(60 * time.Second)
		for !cond() {
			if time.Now().After(deadline) {
				res.Inconcl("watchdog: " + what)
				return false
			}
			time.Sleep(time.Millisecond)
		}
		return true
	}

	if err := sc.Start(); err != nil {
		res.Inconcl("scanner start: " + err.Error())
		return
	}
	var wg sync.WaitGroup
	var first *neutrino.GetUtxoRequest
	if p.HoldBM || p.Scanning {
		if p.HoldBM {
			armBM.Store(1)
		}
		var err error
		first, err = sc.Enqueue(input(0), 1, nil)
		if err != nil {
			res.Inconcl("first enqueue: " + err.Error())
			_ = sc.Stop()
			return
		}
		if p.HoldBM && !waitFor("batch manager never reached its pause point", func() bool { return bmAt.Load() == 1 }) {
			release()
			_ = sc.Stop()
			return
		}
		if p.Scanning && !waitFor("scan never reached a fetch", func() bool { return scanAt.Load() == 1 }) {
			release()
			_ = sc.Stop()
			return
		}
		for i := 0; i < p.Readers; i++ {
			wg.Add(1)
			go func() {
				defer wg.Done()
				_, _ = first.Result(nil)
			}()
		}
	}
	armEnq.Store(1)
	var enqErrs atomic.Int32
	for i := 0; i < p.Enqueuers; i++ {
		wg.Add(1)
		go func(i int) {
			defer wg.Done()
			req, err := sc.Enqueue(input(i+1), uint32(1+i), nil)
			if err != nil {
				enqErrs.Add(1)
				return
			}
			_, _ = req.Result(nil)
		}(i)
	}
	if !waitFor("no enqueuer reached its pause point", func() bool { return enqAt.Load() == 1 }) {
		release()
		_ = sc.Stop()
		return
	}
	stopped := make(chan struct{})
	go func() {
		_ = sc.Stop()
		close(stopped)
	}()
	if p.Scanning {
		// Let Stop close quit first, then let the held fetch return.
		time.Sleep(50 * time.Millisecond)
		release()
	}
	select {
	case <-stopped:
	case <-time.After(120 * time.Second):
		res.Inconcl("watchdog: Stop did not return")
		return
	}
	done := make(chan struct{})
	go func() { wg.Wait(); close(done) }()
	select {
	case <-done:
	case <-time.After(120 * time.Second):
		res.Inconcl("watchdog: enqueuers / readers did not return after Stop")
		return
	}

	where := "bm-idle"
	if p.HoldBM {
		where = "bm-after-unlock"
	} else if p.Scanning {
		where = "bm-scanning"
	}
	res.Fingerprint = fmt.Sprintf("utxo-stop|%s|enq%d|readers%d", where, p.Enqueuers, p.Readers)
	res.Nontrivial = true
	res.Mark("utxo-stop|stop-while-enqueue-in-critical-section|" + where)
	res.Count("utxo_stop_enqueue_parked_across_stop", 1)
	res.Count("utxo_stop_enqueues_refused_after_quit", int64(enqErrs.Load()))
	res.Sample = map[string]any{"plan": p, "where": where, "enqueues_refused": enqErrs.Load()}
}
