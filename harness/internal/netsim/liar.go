package netsim

import (
	"math/rand"
	"sync"

	"github.com/btcsuite/btcd/btcutil/v2/gcs"
	"github.com/btcsuite/btcd/btcutil/v2/gcs/builder"
	"github.com/btcsuite/btcd/chainhash/v2"
	"github.com/btcsuite/btcd/txscript/v2"
	"github.com/btcsuite/btcd/wire/v2"

	"verif/internal/chaingen"
)

// Lie kinds. The first three are the PROVABLE ones named by property C03.
const (
	LieOmitScript = "omit-script" // serves a self-consistent filter that omits an output script of the block
	LieWrongHash  = "wrong-hash"  // advertises a filter hash its own served filter does not hash to
	LieUnserved   = "unserved"    // advertises a false filter hash and never serves the filter
	LieExtraElem  = "extra-elem"  // UNPROVABLE: self-consistent filter with an extra element
	LieCheckpt    = "checkpt"     // lies only in the cfcheckpt list (cfheaders are honest)
	LiePrevHdr    = "prevhdr"     // wrong PrevFilterHeader in cfheaders
	LieCount      = "count"       // wrong number of filter hashes
	LieShortCP    = "short-cp"    // checkpoint list one entry short
	LieLongCP     = "long-cp"     // checkpoint list with a bogus extra entry
	// LieRejoin is a MODIFIER of the other lies of the same liar: from Height
	// on the liar pretends nothing happened. Its cfcheckpt entries at heights
	// >= Height are the TRUE filter headers (below they follow from its false
	// filter hashes), and cfheaders requests starting above Height are
	// answered honestly. The list is thus false at the older checkpoint
	// heights only, and the cfheaders are consistent with the list wherever
	// that is possible.
	LieRejoin = "cp-rejoin"
	// LieTruncate: a TRUNCATED cfheaders batch. Every cfheaders answer that
	// would carry more than Height filter hashes is cut to its first Height
	// hashes (Height is a COUNT here, not a block height); StopHash,
	// PrevFilterHeader and the hashes that remain are what the liar would
	// have served anyway (the true ones, unless it also tells another lie).
	// With Height a whole number of checkpoint intervals the truncated batch
	// hashes up to an intermediate filter checkpoint instead of the one the
	// request ends at. Answers of at most Height hashes are left alone, and
	// nothing false is ever said about any single block.
	LieTruncate = "truncate"
)

// ProvableLies are the lie kinds whose falsity the client can prove.
var ProvableLies = []string{LieOmitScript, LieWrongHash, LieUnserved}

// Lie is one deviation of a Liar.
type Lie struct {
	Kind   string
	Height int32 // block height the lie is about (cfheaders/filters), or checkpoint index*1000
}

// Liar rewrites the honest responses of a Peer according to its lies. A liar
// is CONSISTENT: the filter headers it serves in cfcheckpt and cfheaders all
// follow from its (partly false) filter hashes.
type Liar struct {
	Lies []Lie
	mu   sync.Mutex
	rng  *rand.Rand
	// per-block falsifications (keyed by block hash so that they survive reorgs)
	fakeHash   map[chainhash.Hash]chainhash.Hash
	fakeFilter map[chainhash.Hash][]byte // nil entry = do not serve
	noServe    map[chainhash.Hash]bool
	// cache of fake header chains by tip
	hdrCache map[chainhash.Hash][]chainhash.Hash
	// Told records every block hash for which a false value was actually sent.
	Told map[chainhash.Hash]string
	// ToldSeq is the event-log position at which a false filter hash or
	// checkpoint for the block was FIRST sent (0: no log).
	ToldSeq map[chainhash.Hash]int64
	// Truncated counts the cfheaders answers cut short by LieTruncate;
	// TruncatedWhole those of them cut to a whole number (>= 1) of
	// checkpoint intervals.
	Truncated, TruncatedWhole int
}

// TruncatedBatches returns how many cfheaders answers this liar cut short
// (LieTruncate), and how many of them to a whole number of checkpoint
// intervals.
func (l *Liar) TruncatedBatches() (all, whole int) {
	l.mu.Lock()
	defer l.mu.Unlock()
	return l.Truncated, l.TruncatedWhole
}

// FirstTold returns the event-log position of the first false value sent
// about the block (ok=false: none was sent).
func (l *Liar) FirstTold(h chainhash.Hash) (int64, bool) {
	l.mu.Lock()
	defer l.mu.Unlock()
	s, ok := l.ToldSeq[h]
	return s, ok
}

// EarliestTold returns the smallest event-log position at which this liar
// sent any false value (ok=false: it never did).
func (l *Liar) EarliestTold() (int64, bool) {
	l.mu.Lock()
	defer l.mu.Unlock()
	best, ok := int64(0), false
	for _, s := range l.ToldSeq {
		if !ok || s < best {
			best, ok = s, true
		}
	}
	return best, ok
}

func (l *Liar) told(p *Peer, h chainhash.Hash, kind string) {
	l.Told[h] = kind
	if _, ok := l.ToldSeq[h]; !ok {
		var s int64
		if p.Log != nil {
			s = p.Log.Len()
		}
		l.ToldSeq[h] = s
	}
}

// NewLiar creates a liar; the falsified material is built lazily per block.
func NewLiar(seed int64, lies ...Lie) *Liar {
	return &Liar{Lies: lies, rng: rand.New(rand.NewSource(seed)),
		fakeHash: map[chainhash.Hash]chainhash.Hash{}, fakeFilter: map[chainhash.Hash][]byte{},
		noServe: map[chainhash.Hash]bool{}, hdrCache: map[chainhash.Hash][]chainhash.Hash{},
		Told: map[chainhash.Hash]string{}, ToldSeq: map[chainhash.Hash]int64{}}
}

// FilterEntries returns the BIP158 basic-filter entries of a block.
func FilterEntries(n *chaingen.Node) [][]byte {
	var out [][]byte
	for _, tx := range n.Block.Transactions {
		for _, o := range tx.TxOut {
			if len(o.PkScript) == 0 || o.PkScript[0] == txscript.OP_RETURN {
				continue
			}
			out = append(out, o.PkScript)
		}
	}
	for _, s := range n.PrevScripts {
		if len(s) > 0 {
			out = append(out, s)
		}
	}
	return out
}

func buildFilter(block *chainhash.Hash, entries [][]byte) *gcs.Filter {
	b := builder.WithKeyHash(block)
	b.AddEntries(entries)
	f, err := b.Build()
	if err != nil {
		panic(err)
	}
	return f
}

// OmittableScript returns an output script of a transaction of n that occurs
// exactly once among the filter entries (nil if none): a filter without it is
// provably invalid for the block. BIP158 commits to the output scripts of
// EVERY transaction, the coinbase included (only its input has no previous
// output script), so for every other block (by its hash) the coinbase's
// payout script is the one left out when it is unique.
func OmittableScript(n *chaingen.Node) []byte {
	if n.Block == nil || len(n.Block.Transactions) == 0 {
		return nil
	}
	count := map[string]int{}
	for _, e := range FilterEntries(n) {
		count[string(e)]++
	}
	if n.Hash[0]%2 == 0 || len(n.Block.Transactions) < 2 {
		for _, o := range n.Block.Transactions[0].TxOut {
			if len(o.PkScript) == 0 || o.PkScript[0] == txscript.OP_RETURN {
				continue
			}
			if count[string(o.PkScript)] == 1 {
				return o.PkScript
			}
		}
	}
	if len(n.Block.Transactions) < 2 {
		return nil
	}
	// Prefer a script that does not parse (still committed to by BIP158).
	var first []byte
	for _, tx := range n.Block.Transactions[1:] {
		for _, o := range tx.TxOut {
			if len(o.PkScript) == 0 || o.PkScript[0] == txscript.OP_RETURN {
				continue
			}
			if count[string(o.PkScript)] == 1 {
				if txscript.IsUnspendable(o.PkScript) {
					return o.PkScript
				}
				if first == nil {
					first = o.PkScript
				}
			}
		}
	}
	return first
}

// prepare builds the falsified filter/hash for block n under lie kind k.
// It returns false when the lie cannot be told about this block.
func (l *Liar) prepare(n *chaingen.Node, k string) bool {
	if _, ok := l.fakeHash[n.Hash]; ok {
		return true
	}
	switch k {
	case LieOmitScript:
		victim := OmittableScript(n)
		if victim == nil {
			return false
		}
		var ents [][]byte
		for _, e := range FilterEntries(n) {
			if string(e) != string(victim) {
				ents = append(ents, e)
			}
		}
		f := buildFilter(&n.Hash, ents)
		fb, _ := f.NBytes()
		fh, _ := builder.GetFilterHash(f)
		if fh == n.FilterHash {
			return false
		}
		l.fakeFilter[n.Hash] = fb
		l.fakeHash[n.Hash] = fh
	case LieExtraElem:
		extra := make([]byte, 22)
		l.rng.Read(extra)
		extra[0], extra[1] = txscript.OP_0, 20
		f := buildFilter(&n.Hash, append(FilterEntries(n), extra))
		fb, _ := f.NBytes()
		fh, _ := builder.GetFilterHash(f)
		l.fakeFilter[n.Hash] = fb
		l.fakeHash[n.Hash] = fh
	case LieWrongHash:
		var h chainhash.Hash
		l.rng.Read(h[:])
		if h[0]%3 == 0 {
			// The cheapest false value there is: all zeroes. No filter
			// hashes to it.
			h = chainhash.Hash{}
		}
		l.fakeHash[n.Hash] = h // serves the honest filter
	case LieUnserved:
		var h chainhash.Hash
		l.rng.Read(h[:])
		if h[0]%3 == 0 {
			h = chainhash.Hash{}
		}
		l.fakeHash[n.Hash] = h
		l.noServe[n.Hash] = true
	default:
		return false
	}
	return true
}

// hashFor returns the (possibly false) filter hash the liar claims for n.
func (l *Liar) hashFor(n *chaingen.Node) chainhash.Hash {
	for _, lie := range l.Lies {
		if lie.Height == n.Height {
			switch lie.Kind {
			case LieOmitScript, LieExtraElem, LieWrongHash, LieUnserved:
				if l.prepare(n, lie.Kind) {
					return l.fakeHash[n.Hash]
				}
			}
		}
	}
	return n.FilterHash
}

// headers returns the liar's filter-header chain for the path ending at tip.
func (l *Liar) headers(tip *chaingen.Node) []chainhash.Hash {
	if c, ok := l.hdrCache[tip.Hash]; ok {
		return c
	}
	path := tip.Path()
	out := make([]chainhash.Hash, len(path))
	out[0] = path[0].FilterHeader
	for i := 1; i < len(path); i++ {
		out[i] = chaingen.FilterHeaderFrom(l.hashFor(path[i]), out[i-1])
	}
	if len(l.hdrCache) > 8 {
		l.hdrCache = map[chainhash.Hash][]chainhash.Hash{}
	}
	l.hdrCache[tip.Hash] = out
	return out
}

func (l *Liar) has(kind string) *Lie {
	for i := range l.Lies {
		if l.Lies[i].Kind == kind {
			return &l.Lies[i]
		}
	}
	return nil
}

// LiesAbout reports whether the liar's claimed filter hash for n is false.
func (l *Liar) LiesAbout(n *chaingen.Node) bool {
	l.mu.Lock()
	defer l.mu.Unlock()
	return l.hashFor(n) != n.FilterHash
}

// ClaimedHash returns the filter hash the liar announces for n in its
// cfheaders (the true one where it does not lie).
func (l *Liar) ClaimedHash(n *chaingen.Node) chainhash.Hash {
	l.mu.Lock()
	defer l.mu.Unlock()
	return l.hashFor(n)
}

// Mutate is installed as Peer.Mutate.
func (l *Liar) Mutate(p *Peer, req wire.Message, honest []wire.Message) []wire.Message {
	l.mu.Lock()
	defer l.mu.Unlock()
	g := p.View.G
	switch t := req.(type) {
	case *wire.MsgGetCFCheckpt:
		if len(honest) != 1 {
			return honest
		}
		stop := g.Lookup(t.StopHash)
		if stop == nil {
			return honest
		}
		hdrs := l.headers(stop)
		rejoin := l.has(LieRejoin)
		resp := wire.NewMsgCFCheckpt(t.FilterType, &t.StopHash, int(stop.Height/wire.CFCheckptInterval)+1)
		for h := int32(wire.CFCheckptInterval); h <= stop.Height; h += wire.CFCheckptInterval {
			fh := hdrs[h]
			if rejoin != nil && h >= rejoin.Height {
				fh = stop.Ancestor(h).FilterHeader
			}
			if lie := l.has(LieCheckpt); lie != nil && lie.Height == h {
				l.rng.Read(fh[:])
				l.told(p, stop.Ancestor(h).Hash, LieCheckpt)
			} else if fh != stop.Ancestor(h).FilterHeader {
				l.told(p, stop.Ancestor(h).Hash, "checkpt-consistent")
			}
			_ = resp.AddCFHeader(&fh)
		}
		if l.has(LieShortCP) != nil && len(resp.FilterHeaders) > 0 {
			resp.FilterHeaders = resp.FilterHeaders[:len(resp.FilterHeaders)-1]
		}
		if l.has(LieLongCP) != nil {
			var fh chainhash.Hash
			l.rng.Read(fh[:])
			_ = resp.AddCFHeader(&fh)
		}
		return []wire.Message{resp}

	case *wire.MsgGetCFHeaders:
		if len(honest) != 1 {
			return honest
		}
		stop := g.Lookup(t.StopHash)
		if stop == nil {
			return honest
		}
		if rj := l.has(LieRejoin); rj != nil && int64(t.StartHeight)-1 >= int64(rj.Height) {
			return honest
		}
		hdrs := l.headers(stop)
		path := stop.Path()
		resp := wire.NewMsgCFHeaders()
		resp.FilterType = t.FilterType
		resp.StopHash = t.StopHash
		if t.StartHeight > 0 {
			resp.PrevFilterHeader = hdrs[t.StartHeight-1]
		}
		for h := int32(t.StartHeight); h <= stop.Height; h++ {
			fh := l.hashFor(path[h])
			if fh != path[h].FilterHash {
				for _, lie := range l.Lies {
					if lie.Height == h {
						l.told(p, path[h].Hash, lie.Kind)
					}
				}
			}
			_ = resp.AddCFHash(&fh)
		}
		if l.has(LiePrevHdr) != nil {
			l.rng.Read(resp.PrevFilterHeader[:])
		}
		if l.has(LieCount) != nil && len(resp.FilterHashes) > 1 {
			resp.FilterHashes = resp.FilterHashes[:len(resp.FilterHashes)-1]
		}
		if tr := l.has(LieTruncate); tr != nil && tr.Height >= 1 && len(resp.FilterHashes) > int(tr.Height) {
			resp.FilterHashes = resp.FilterHashes[:tr.Height]
			l.Truncated++
			if tr.Height%wire.CFCheckptInterval == 0 {
				l.TruncatedWhole++
			}
		}
		return []wire.Message{resp}

	case *wire.MsgGetCFilters:
		var out []wire.Message
		for _, m := range honest {
			cf, ok := m.(*wire.MsgCFilter)
			if !ok {
				out = append(out, m)
				continue
			}
			if n := g.Lookup(cf.BlockHash); n != nil {
				l.hashFor(n) // make sure the falsified material exists
			}
			if l.noServe[cf.BlockHash] {
				continue
			}
			if fb, ok := l.fakeFilter[cf.BlockHash]; ok {
				out = append(out, wire.NewMsgCFilter(cf.FilterType, &cf.BlockHash, fb))
				continue
			}
			out = append(out, m)
		}
		return out
	}
	return honest
}
