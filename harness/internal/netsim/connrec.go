package netsim

import (
	"time"

	"github.com/btcsuite/btcd/chainhash/v2"
)

// ConnRec describes one connection ever opened to a peer address (additive;
// used by the C13 enforcement oracle: "the client keeps no connection to a
// banned address").
//
// OpenSeq is the length of the event log at the moment the connection was
// handed to the client: every event of THIS connection has a larger Seq, and
// every event of an EARLIER connection to the same address has Seq <= OpenSeq
// (a peer object serves one connection at a time and a new one is only
// attached after the previous Serve loop ended). So the events of connection
// i of an address are exactly that peer's events with
// OpenSeq[i] < Seq <= OpenSeq[i+1].
type ConnRec struct {
	Addr    string
	Index   int           // 0 = first connection to Addr
	OpenSeq int64         // see above
	OpenT   time.Duration // since log start (monotonic) — informational
	C       *Conn         // the peer's end
}

// noteOpen records the open point of the connection that was just appended to
// n.conns[key]. Called by Dial with n.mu NOT held.
func (n *Network) noteOpen(key string) {
	var seq int64
	var t time.Duration
	if n.Log != nil {
		seq = n.Log.Len()
		t = time.Since(n.Log.start)
	}
	n.mu.Lock()
	if n.opens == nil {
		n.opens = map[string][]connOpen{}
	}
	n.opens[key] = append(n.opens[key], connOpen{seq, t})
	n.mu.Unlock()
}

type connOpen struct {
	seq int64
	t   time.Duration
}

// ConnRecs returns a record for every connection ever opened to addr, oldest
// first.
func (n *Network) ConnRecs(addr string) []ConnRec {
	n.mu.Lock()
	defer n.mu.Unlock()
	cs := n.conns[addr]
	os := n.opens[addr]
	out := make([]ConnRec, 0, len(cs))
	for i, c := range cs {
		r := ConnRec{Addr: addr, Index: i, C: c}
		if i < len(os) {
			r.OpenSeq, r.OpenT = os[i].seq, os[i].t
		}
		out = append(out, r)
	}
	return out
}

// ToldSnapshot returns a copy of the blocks about which a false value was
// actually sent (block hash -> lie kind), taken under the liar's lock.
func (l *Liar) ToldSnapshot() map[chainhash.Hash]string {
	l.mu.Lock()
	defer l.mu.Unlock()
	out := make(map[chainhash.Hash]string, len(l.Told))
	for k, v := range l.Told {
		out[k] = v
	}
	return out
}

// Elapsed returns the time since the log was started (the T of an event added
// now).
func (l *Log) Elapsed() time.Duration { return time.Since(l.start) }

// IsReady reports whether the handshake of the peer's CURRENT connection has
// completed (race-free: Ready is replaced when a new connection attaches).
func (p *Peer) IsReady() bool {
	p.mu.Lock()
	r := p.Ready
	p.mu.Unlock()
	select {
	case <-r:
		return true
	default:
		return false
	}
}
