package netsim

import (
	"fmt"
	"math/rand"
	"net"
	"sync"
	"sync/atomic"
	"time"

	"github.com/btcsuite/btcd/chainhash/v2"
	"github.com/btcsuite/btcd/wire/v2"

	"verif/internal/chaingen"
)

// Event is one entry of the network event log (one monotonic sequence for
// every peer and both directions).
type Event struct {
	Seq  int64
	T    time.Duration // since log start (monotonic) — informational
	Peer string
	Dir  string // "rx" (peer received from client) / "tx" (peer sent) / "ev"
	Cmd  string
	Note string
}

// Log is the shared event log.
type Log struct {
	mu    sync.Mutex
	start time.Time
	seq   int64
	evs   []Event
	max   int
}

func NewLog() *Log { return &Log{start: time.Now(), max: 200000} }

func (l *Log) Add(peer, dir, cmd, note string) int64 {
	l.mu.Lock()
	defer l.mu.Unlock()
	l.seq++
	if len(l.evs) < l.max {
		l.evs = append(l.evs, Event{l.seq, time.Since(l.start), peer, dir, cmd, note})
	}
	return l.seq
}

func (l *Log) Len() int64 { l.mu.Lock(); defer l.mu.Unlock(); return l.seq }

// Snapshot returns a copy of the events.
func (l *Log) Snapshot() []Event {
	l.mu.Lock()
	defer l.mu.Unlock()
	return append([]Event(nil), l.evs...)
}

// Tail returns the last n events formatted (for witnesses).
func (l *Log) Tail(n int) []string {
	l.mu.Lock()
	defer l.mu.Unlock()
	s := l.evs
	if len(s) > n {
		s = s[len(s)-n:]
	}
	out := make([]string, len(s))
	for i, e := range s {
		out[i] = fmt.Sprintf("%d %7.3fs %s %s %s %s", e.Seq, e.T.Seconds(), e.Peer, e.Dir, e.Cmd, e.Note)
	}
	return out
}

// View is a peer's (mutable) idea of the best chain inside the generator's
// tree. Requests are answered from the path genesis..Tip, and — for requests
// naming a stop hash on another branch the peer "knows" — from that block's
// own ancestors.
type View struct {
	mu  sync.Mutex
	G   *chaingen.Gen
	tip *chaingen.Node
}

func NewView(g *chaingen.Gen, tip *chaingen.Node) *View { return &View{G: g, tip: tip} }
func (v *View) Tip() *chaingen.Node                     { v.mu.Lock(); defer v.mu.Unlock(); return v.tip }
func (v *View) SetTip(n *chaingen.Node)                 { v.mu.Lock(); v.tip = n; v.mu.Unlock() }

// Peer is a scripted wire-level peer. It speaks raw `wire`; btcd's peer
// package is not used on this side (its package-global nonce cache would make
// an in-process peer look like a self connection).
type Peer struct {
	Addr     string
	Net      wire.BitcoinNet
	Services wire.ServiceFlag
	ProtoVer uint32
	View     *View
	Log      *Log

	// Mutate, when set, may rewrite the honest responses to a request
	// (return nil to stay silent). It is the single place adversarial
	// behaviour is injected, so every lie is a labelled deviation.
	Mutate func(p *Peer, req wire.Message, honest []wire.Message) []wire.Message
	// OnMsg, when set, sees every received message first; returning true
	// means "handled" (no honest processing).
	OnMsg func(p *Peer, msg wire.Message) bool
	// Silent: never answer anything after the handshake.
	Silent atomic.Bool
	// NoRead: stop reading from the connection after the handshake.
	NoRead atomic.Bool
	// Delay before each response (0 = none).
	Delay time.Duration
	// HdrBatch, if > 0, caps the headers per headers message (a peer may send
	// fewer than the protocol maximum; the client keeps asking while it is
	// not current).
	HdrBatch int
	// TimeOffset is added to the timestamp in the version message.
	TimeOffset time.Duration
	// StartHeightOverride, if non-zero, is advertised instead of the tip.
	// BlinkAfter > 0: the peer closes every connection within that time
	// after the handshake completed.
	BlinkAfter time.Duration
	StartHeightOverride int32
	// PreVersion, when set, is called on every connection after the client's
	// version message was read and before this peer sends its own version
	// (a scenario can hold the handshake there). Additive; nil = no effect.
	PreVersion func(p *Peer)

	mu      sync.Mutex
	conn    *Conn
	wmu     sync.Mutex
	Ready   chan struct{} // closed once the handshake completed
	Done    chan struct{} // closed when the read loop ended
	rxCount map[string]int
	rng     *rand.Rand
	serving bool
}

// tryAttach reserves the peer for a new connection: it fails while an earlier
// connection is still being served, and re-arms Ready/Done after one ended.
func (p *Peer) tryAttach(c *Conn) bool {
	p.mu.Lock()
	defer p.mu.Unlock()
	if p.conn != nil {
		select {
		case <-p.Done:
			p.Ready = make(chan struct{})
			p.Done = make(chan struct{})
			p.serving = false
		default:
			return false
		}
	}
	p.conn = c
	return true
}

// NewPeer creates a peer with full services.
func NewPeer(addr string, netw wire.BitcoinNet, view *View, log *Log) *Peer {
	return &Peer{
		Addr: addr, Net: netw, View: view, Log: log,
		Services: wire.SFNodeNetwork | wire.SFNodeWitness | wire.SFNodeCF,
		ProtoVer: wire.AddrV2Version,
		Ready:    make(chan struct{}), Done: make(chan struct{}),
		rxCount: map[string]int{},
		rng:     rand.New(rand.NewSource(int64(len(addr)) + time.Now().UnixNano())),
	}
}

// TCPAddr parses the peer's address.
func TCPAddr(addr string) *net.TCPAddr {
	a, err := net.ResolveTCPAddr("tcp", addr)
	if err != nil {
		panic(err)
	}
	return a
}

// RxCount returns how many messages of a command were received.
func (p *Peer) RxCount(cmd string) int { p.mu.Lock(); defer p.mu.Unlock(); return p.rxCount[cmd] }

// Conn returns the current connection (nil if none).
func (p *Peer) Conn() *Conn { p.mu.Lock(); defer p.mu.Unlock(); return p.conn }

// Send writes a message to the client.
func (p *Peer) Send(msg wire.Message) error {
	return p.SendEnc(msg, wire.WitnessEncoding)
}

func (p *Peer) SendEnc(msg wire.Message, enc wire.MessageEncoding) error {
	c := p.Conn()
	if c == nil {
		return fmt.Errorf("not connected")
	}
	p.wmu.Lock()
	defer p.wmu.Unlock()
	_, err := wire.WriteMessageWithEncodingN(c, msg, p.ProtoVer, p.Net, enc)
	if p.Log != nil {
		p.Log.Add(p.Addr, "tx", msg.Command(), summarize(msg))
	}
	return err
}

// SendRaw writes raw bytes (garbage) to the client.
func (p *Peer) SendRaw(b []byte) {
	if c := p.Conn(); c != nil {
		p.wmu.Lock()
		_, _ = c.Write(b)
		p.wmu.Unlock()
		if p.Log != nil {
			p.Log.Add(p.Addr, "tx", "raw", fmt.Sprintf("%d bytes", len(b)))
		}
	}
}

// Disconnect closes the peer's end.
func (p *Peer) Disconnect() {
	if c := p.Conn(); c != nil {
		_ = c.Close()
		if p.Log != nil {
			p.Log.Add(p.Addr, "ev", "disconnect", "by peer")
		}
	}
}

func summarize(m wire.Message) string {
	switch t := m.(type) {
	case *wire.MsgHeaders:
		if len(t.Headers) == 0 {
			return "0"
		}
		h := t.Headers[0].BlockHash()
		return fmt.Sprintf("n=%d first=%s", len(t.Headers), h.String()[:8])
	case *wire.MsgGetHeaders:
		s := ""
		if len(t.BlockLocatorHashes) > 0 {
			s = t.BlockLocatorHashes[0].String()[:8]
		}
		return fmt.Sprintf("loc0=%s n=%d stop=%s", s, len(t.BlockLocatorHashes), t.HashStop.String()[:8])
	case *wire.MsgGetCFHeaders:
		return fmt.Sprintf("start=%d stop=%s", t.StartHeight, t.StopHash.String()[:8])
	case *wire.MsgCFHeaders:
		return fmt.Sprintf("n=%d stop=%s", len(t.FilterHashes), t.StopHash.String()[:8])
	case *wire.MsgGetCFilters:
		return fmt.Sprintf("start=%d stop=%s", t.StartHeight, t.StopHash.String()[:8])
	case *wire.MsgCFilter:
		return fmt.Sprintf("block=%s len=%d", t.BlockHash.String()[:8], len(t.Data))
	case *wire.MsgGetCFCheckpt:
		return fmt.Sprintf("stop=%s", t.StopHash.String()[:8])
	case *wire.MsgCFCheckpt:
		return fmt.Sprintf("n=%d", len(t.FilterHeaders))
	case *wire.MsgGetData:
		if len(t.InvList) > 0 {
			return fmt.Sprintf("n=%d %v %s", len(t.InvList), t.InvList[0].Type, t.InvList[0].Hash.String()[:8])
		}
	case *wire.MsgInv:
		if len(t.InvList) > 0 {
			return fmt.Sprintf("n=%d %v %s", len(t.InvList), t.InvList[0].Type, t.InvList[0].Hash.String()[:8])
		}
	case *wire.MsgBlock:
		h := t.Header.BlockHash()
		return fmt.Sprintf("%s txs=%d", h.String()[:8], len(t.Transactions))
	case *wire.MsgTx:
		h := t.TxHash()
		return h.String()[:8]
	case *wire.MsgReject:
		return fmt.Sprintf("%s %v %s", t.Cmd, t.Code, t.Reason)
	}
	return ""
}

// Serve runs the peer on conn: handshake, then the request loop. It returns
// when the connection ends.
func (p *Peer) Serve(conn *Conn) {
	p.mu.Lock()
	p.conn = conn
	p.serving = true
	ready, done := p.Ready, p.Done
	p.mu.Unlock()
	defer close(done)
	defer conn.Close()
	if p.Log != nil {
		p.Log.Add(p.Addr, "ev", "connected", "")
	}

	read := func() (wire.Message, error) {
		for {
			_, m, _, err := wire.ReadMessageWithEncodingN(conn, p.ProtoVer, p.Net, wire.WitnessEncoding)
			if err == wire.ErrUnknownMessage {
				continue
			}
			return m, err
		}
	}

	// 1. read the client's version.
	m, err := read()
	if err != nil {
		return
	}
	if _, ok := m.(*wire.MsgVersion); !ok {
		return
	}
	// 2. our version, 3. verack.
	if p.PreVersion != nil {
		p.PreVersion(p)
	}
	tip := p.View.Tip()
	me := wire.NewNetAddressIPPort(TCPAddr(p.Addr).IP, uint16(TCPAddr(p.Addr).Port), p.Services)
	you := wire.NewNetAddressIPPort(net.IPv4(127, 0, 0, 1), 0, 0)
	last := tip.Height
	if p.StartHeightOverride != 0 {
		last = p.StartHeightOverride
	}
	v := wire.NewMsgVersion(me, you, p.rng.Uint64(), last)
	v.Services = p.Services
	v.ProtocolVersion = int32(p.ProtoVer)
	v.Timestamp = time.Unix(time.Now().Add(p.TimeOffset).Unix(), 0)
	v.UserAgent = "/verif-sim:0.1/"
	if err := p.Send(v); err != nil {
		return
	}
	if p.ProtoVer >= wire.AddrV2Version {
		_ = p.Send(wire.NewMsgSendAddrV2())
	}
	if err := p.Send(wire.NewMsgVerAck()); err != nil {
		return
	}
	// 4. wait for the client's verack.
	for {
		m, err = read()
		if err != nil {
			return
		}
		if _, ok := m.(*wire.MsgVerAck); ok {
			break
		}
	}
	close(ready)
	if p.Log != nil {
		p.Log.Add(p.Addr, "ev", "handshake", "")
	}
	if p.BlinkAfter > 0 {
		// Hang up right after the handshake (up to BlinkAfter later).
		time.Sleep(time.Duration(p.rng.Int63n(int64(p.BlinkAfter))))
		if p.Log != nil {
			p.Log.Add(p.Addr, "ev", "blink", "")
		}
		return
	}

	for {
		if p.NoRead.Load() {
			<-conn.Closed()
			return
		}
		m, err = read()
		if err != nil {
			if p.Log != nil {
				p.Log.Add(p.Addr, "ev", "closed", err.Error())
			}
			return
		}
		p.mu.Lock()
		p.rxCount[m.Command()]++
		p.mu.Unlock()
		if p.Log != nil {
			p.Log.Add(p.Addr, "rx", m.Command(), summarize(m))
		}
		if p.OnMsg != nil && p.OnMsg(p, m) {
			continue
		}
		if _, isPing := m.(*wire.MsgPing); p.Silent.Load() && !isPing {
			continue
		}
		resp, enc := p.Honest(m)
		if p.Mutate != nil && !isPingMsg(m) {
			resp = p.Mutate(p, m, resp)
		}
		if p.Delay > 0 && len(resp) > 0 {
			time.Sleep(p.Delay)
		}
		for _, r := range resp {
			if err := p.SendEnc(r, enc); err != nil {
				return
			}
		}
	}
}

func isPingMsg(m wire.Message) bool { _, ok := m.(*wire.MsgPing); return ok }

// Reset prepares the peer for a new connection (after a disconnect).
func (p *Peer) Reset() {
	p.mu.Lock()
	p.conn = nil
	p.Ready = make(chan struct{})
	p.Done = make(chan struct{})
	p.mu.Unlock()
}

// Honest computes the honest responses to a request from the peer's view.
func (p *Peer) Honest(m wire.Message) ([]wire.Message, wire.MessageEncoding) {
	enc := wire.WitnessEncoding
	tip := p.View.Tip()
	g := p.View.G
	onMain := func(n *chaingen.Node) bool { return n != nil && tip.Ancestor(n.Height) == n }
	switch t := m.(type) {
	case *wire.MsgPing:
		return []wire.Message{wire.NewMsgPong(t.Nonce)}, enc

	case *wire.MsgGetHeaders:
		start := int32(0)
		for _, h := range t.BlockLocatorHashes {
			if n := g.Lookup(*h); onMain(n) {
				start = n.Height
				break
			}
		}
		resp := wire.NewMsgHeaders()
		path := tip.Path()
		maxHdrs := wire.MaxBlockHeadersPerMsg
		if p.HdrBatch > 0 && p.HdrBatch < maxHdrs {
			maxHdrs = p.HdrBatch
		}
		for h := start + 1; h <= tip.Height && len(resp.Headers) < maxHdrs; h++ {
			hdr := path[h].Hdr
			_ = resp.AddBlockHeader(&hdr)
			if path[h].Hash == t.HashStop {
				break
			}
		}
		return []wire.Message{resp}, enc

	case *wire.MsgGetCFCheckpt:
		stop := g.Lookup(t.StopHash)
		if stop == nil || stop.Block == nil || t.FilterType != wire.GCSFilterRegular {
			return nil, enc
		}
		resp := wire.NewMsgCFCheckpt(t.FilterType, &t.StopHash, int(stop.Height/wire.CFCheckptInterval))
		path := stop.Path()
		for h := int32(wire.CFCheckptInterval); h <= stop.Height; h += wire.CFCheckptInterval {
			fh := path[h].FilterHeader
			_ = resp.AddCFHeader(&fh)
		}
		return []wire.Message{resp}, enc

	case *wire.MsgGetCFHeaders:
		stop := g.Lookup(t.StopHash)
		if stop == nil || stop.Block == nil || t.FilterType != wire.GCSFilterRegular ||
			int32(t.StartHeight) > stop.Height {
			return nil, enc
		}
		if stop.Height-int32(t.StartHeight) >= wire.MaxCFHeadersPerMsg {
			return nil, enc
		}
		path := stop.Path()
		resp := wire.NewMsgCFHeaders()
		resp.FilterType = t.FilterType
		resp.StopHash = t.StopHash
		if t.StartHeight > 0 {
			resp.PrevFilterHeader = path[t.StartHeight-1].FilterHeader
		}
		for h := int32(t.StartHeight); h <= stop.Height; h++ {
			fh := path[h].FilterHash
			_ = resp.AddCFHash(&fh)
		}
		return []wire.Message{resp}, enc

	case *wire.MsgGetCFilters:
		stop := g.Lookup(t.StopHash)
		if stop == nil || stop.Block == nil || t.FilterType != wire.GCSFilterRegular ||
			int32(t.StartHeight) > stop.Height ||
			stop.Height-int32(t.StartHeight) >= wire.MaxGetCFiltersReqRange {
			return nil, enc
		}
		path := stop.Path()
		var out []wire.Message
		for h := int32(t.StartHeight); h <= stop.Height; h++ {
			hash := path[h].Hash
			out = append(out, wire.NewMsgCFilter(t.FilterType, &hash, path[h].FilterBytes))
		}
		return out, enc

	case *wire.MsgGetData:
		var out []wire.Message
		for _, iv := range t.InvList {
			switch iv.Type {
			case wire.InvTypeBlock, wire.InvTypeWitnessBlock:
				if n := g.Lookup(iv.Hash); n != nil && n.Block != nil {
					out = append(out, n.Block)
				}
				if iv.Type == wire.InvTypeBlock {
					enc = wire.BaseEncoding
				}
			}
		}
		return out, enc
	}
	return nil, enc
}

// AnnounceInv announces a block by inv.
func (p *Peer) AnnounceInv(n *chaingen.Node) {
	inv := wire.NewMsgInv()
	h := n.Hash
	_ = inv.AddInvVect(wire.NewInvVect(wire.InvTypeBlock, &h))
	_ = p.Send(inv)
}

// AnnounceHeaders sends unsolicited headers.
func (p *Peer) AnnounceHeaders(ns ...*chaingen.Node) {
	m := wire.NewMsgHeaders()
	for _, n := range ns {
		h := n.Hdr
		_ = m.AddBlockHeader(&h)
	}
	_ = p.Send(m)
}

// HashOf is a tiny helper for tests.
func HashOf(n *chaingen.Node) *chainhash.Hash { h := n.Hash; return &h }
