package netsim

import (
	"errors"
	"fmt"
	"net"
	"sync"
	"sync/atomic"
)

// Network maps addresses to scripted peers and plays the role of the
// operating system's dialer for the client (neutrino.Config.Dialer).
type Network struct {
	mu      sync.Mutex
	peers   map[string]*Peer
	refuse  map[string]bool
	Log     *Log
	Dials   atomic.Int64
	cliPort int
	// ConnCap bounds each direction of new connections (0 = unbounded).
	ConnCap int
	// conns per peer address: every connection ever opened (for the
	// "client keeps no connection to a banned address" oracle).
	conns map[string][]*Conn
	// opens[addr][i] is the open point of conns[addr][i] (see ConnRec).
	opens map[string][]connOpen
}

func NewNetwork(log *Log) *Network {
	return &Network{peers: map[string]*Peer{}, refuse: map[string]bool{}, Log: log,
		conns: map[string][]*Conn{}, cliPort: 40000}
}

// Add registers a peer under its address.
func (n *Network) Add(p *Peer) { n.mu.Lock(); n.peers[p.Addr] = p; n.mu.Unlock() }

// Refuse makes dials to addr fail.
func (n *Network) Refuse(addr string, v bool) { n.mu.Lock(); n.refuse[addr] = v; n.mu.Unlock() }

// Dial is installed as neutrino.Config.Dialer.
func (n *Network) Dial(addr net.Addr) (net.Conn, error) {
	n.Dials.Add(1)
	key := addr.String()
	n.mu.Lock()
	p := n.peers[key]
	refuse := n.refuse[key]
	n.cliPort++
	port := n.cliPort
	n.mu.Unlock()
	if p == nil || refuse {
		if n.Log != nil {
			n.Log.Add(key, "ev", "dial-refused", "")
		}
		return nil, errors.New("connection refused")
	}
	cli := &net.TCPAddr{IP: net.IPv4(127, 0, 0, 1), Port: port}
	a, b := Pipe(cli, TCPAddr(key), n.ConnCap)
	// One connection per peer object at a time.
	if !p.tryAttach(b) {
		return nil, fmt.Errorf("peer %s busy", key)
	}
	n.mu.Lock()
	n.conns[key] = append(n.conns[key], b)
	n.mu.Unlock()
	n.noteOpen(key) // additive: per-connection open point (ConnRecs)
	go p.Serve(b)
	return a, nil
}

// OpenConns returns how many connections to addr are currently open (neither
// end closed).
func (n *Network) OpenConns(addr string) int {
	n.mu.Lock()
	defer n.mu.Unlock()
	k := 0
	for _, c := range n.conns[addr] {
		if !c.Dead() {
			k++
		}
	}
	return k
}

// TotalConns returns how many connections to addr were ever opened.
func (n *Network) TotalConns(addr string) int {
	n.mu.Lock()
	defer n.mu.Unlock()
	return len(n.conns[addr])
}
