// Package netsim is the in-process network simulation: buffered duplex
// connections, wire-level scripted peers, and the wiring that lets the real
// neutrino ChainService (through Config.Dialer / ConnectPeers) or the L1
// block-manager driver talk to them.
package netsim

import (
	"io"
	"net"
	"os"
	"sync"
	"time"
)

// half is one direction of a duplex connection: an unbounded (or capped)
// byte queue. net.Pipe cannot be used: it is synchronous, and both sides of a
// bitcoin handshake write first.
type half struct {
	mu     sync.Mutex
	cond   *sync.Cond
	buf    []byte
	closed bool // writer side closed: reads drain then EOF
	broken bool // reader side closed: writes fail
	cap    int  // 0 = unbounded
	rdl    time.Time
}

func newHalf(capacity int) *half {
	h := &half{cap: capacity}
	h.cond = sync.NewCond(&h.mu)
	return h
}

func (h *half) write(p []byte) (int, error) {
	h.mu.Lock()
	defer h.mu.Unlock()
	n := 0
	for len(p) > 0 {
		if h.closed || h.broken {
			return n, io.ErrClosedPipe
		}
		if h.cap > 0 && len(h.buf) >= h.cap {
			h.cond.Wait()
			continue
		}
		k := len(p)
		if h.cap > 0 && len(h.buf)+k > h.cap {
			k = h.cap - len(h.buf)
		}
		h.buf = append(h.buf, p[:k]...)
		p = p[k:]
		n += k
		h.cond.Broadcast()
	}
	return n, nil
}

func (h *half) read(p []byte) (int, error) {
	h.mu.Lock()
	defer h.mu.Unlock()
	for len(h.buf) == 0 {
		if h.closed || h.broken {
			return 0, io.EOF
		}
		if !h.rdl.IsZero() && !time.Now().Before(h.rdl) {
			return 0, os.ErrDeadlineExceeded
		}
		if !h.rdl.IsZero() {
			// Wake up at the deadline.
			d := time.Until(h.rdl)
			t := time.AfterFunc(d, func() { h.mu.Lock(); h.cond.Broadcast(); h.mu.Unlock() })
			h.cond.Wait()
			t.Stop()
			continue
		}
		h.cond.Wait()
	}
	n := copy(p, h.buf)
	h.buf = h.buf[n:]
	if len(h.buf) == 0 {
		h.buf = nil
	}
	h.cond.Broadcast()
	return n, nil
}

func (h *half) closeWrite() { h.mu.Lock(); h.closed = true; h.cond.Broadcast(); h.mu.Unlock() }
func (h *half) closeRead()  { h.mu.Lock(); h.broken = true; h.cond.Broadcast(); h.mu.Unlock() }

// Conn is one end of a buffered duplex connection.
type Conn struct {
	in, out       *half
	local, remote net.Addr
	once          sync.Once
	closedCh      chan struct{}
}

// Pipe returns the two ends of a buffered duplex connection. aAddr is the
// address of end a as seen by b, and vice versa. capacity bounds each
// direction's buffer (0 = unbounded: writes never block).
func Pipe(aAddr, bAddr net.Addr, capacity int) (a, b *Conn) {
	ab, ba := newHalf(capacity), newHalf(capacity)
	a = &Conn{in: ba, out: ab, local: aAddr, remote: bAddr, closedCh: make(chan struct{})}
	b = &Conn{in: ab, out: ba, local: bAddr, remote: aAddr, closedCh: make(chan struct{})}
	return a, b
}

func (c *Conn) Read(p []byte) (int, error)  { return c.in.read(p) }
func (c *Conn) Write(p []byte) (int, error) { return c.out.write(p) }

// Close closes both directions of this end; the other end reads EOF after
// draining and its writes fail.
func (c *Conn) Close() error {
	c.once.Do(func() {
		c.out.closeWrite()
		c.in.closeRead()
		close(c.closedCh)
	})
	return nil
}

// Closed is closed when this end has been closed locally.
func (c *Conn) Closed() <-chan struct{} { return c.closedCh }

func (c *Conn) LocalAddr() net.Addr  { return c.local }
func (c *Conn) RemoteAddr() net.Addr { return c.remote }
func (c *Conn) SetDeadline(t time.Time) error {
	return c.SetReadDeadline(t)
}
func (c *Conn) SetReadDeadline(t time.Time) error {
	c.in.mu.Lock()
	c.in.rdl = t
	c.in.cond.Broadcast()
	c.in.mu.Unlock()
	return nil
}
func (c *Conn) SetWriteDeadline(time.Time) error { return nil }

// Dead reports whether the connection is closed from either side.
func (c *Conn) Dead() bool {
	c.in.mu.Lock()
	d := c.in.closed || c.in.broken
	c.in.mu.Unlock()
	if d {
		return true
	}
	c.out.mu.Lock()
	d = c.out.closed || c.out.broken
	c.out.mu.Unlock()
	return d
}
