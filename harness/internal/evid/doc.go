package evid
