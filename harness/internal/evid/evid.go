// Package evid is the shared verdict / evidence / replay / known-findings
// plumbing used by every property check.
//
// A check is a small main program:
//
//	r := evid.New("C07", "fault_enumeration")
//	... for each execution:
//	    r.Case(fingerprint, nontrivial)     // counts evaluations + distinct non-trivial
//	    r.Sample(v)                          // keeps the first few written-out cases
//	    r.Violation(sig, what, replayValue)  // oracle saw a forbidden observation
//	    r.Inconclusive(why)                  // watchdog etc.; never folded into the others
//	r.Finish(minNontrivial)                  // writes evidence, prints verdict lines, exits
//
// Exit status: 0 held on what was observed (possibly with KNOWN-FINDING lines),
// 1 violated (a "VIOLATION property=<id> replay=<path>" line was printed),
// 2 the run observed too little / the harness is broken (never a VIOLATION).
package evid

import (
	"encoding/json"
	"flag"
	"fmt"
	"os"
	"path/filepath"
	"sort"
	"strconv"
	"strings"
	"sync"
	"time"
)

// Root is the /verif directory (evidence, replays, KNOWN_FINDINGS.json).
func Root() string {
	if r := os.Getenv("VERIF_ROOT"); r != "" {
		return r
	}
	return "/verif"
}

// OutRoot is where evidence and replays are written: Root(), unless the
// development aid VERIF_OUT redirects them (seed testing against a copy of the
// client must not overwrite the evidence of /repo; registered commands never
// set it).
func OutRoot() string {
	if r := os.Getenv("VERIF_OUT"); r != "" {
		return r
	}
	return Root()
}

type knownFile struct {
	Findings []struct {
		Property  string `json:"property"`
		Signature string `json:"signature"`
		What      string `json:"what"`
	} `json:"findings"`
}

// Run accumulates the observations of one check invocation. All methods are
// safe for concurrent use.
type Run struct {
	ID    string
	Tier  string
	Seed  int64
	Level string

	mu           sync.Mutex
	start        time.Time
	evaluations  int
	distinct     map[string]int
	samples      []any
	maxSamples   int
	counters     map[string]int64
	extra        map[string]any
	rule         string
	assumptions  []string
	violations   int
	knownHits    map[string]int
	vioSigs      map[string]int
	inconclusive map[string]int
	known        map[string]string // signature -> what
	exhaustive   *bool
	replayN      int
	broken       string
}

// Broken marks the run as produced by a broken harness: Finish then exits 2
// whatever else was observed (never a VIOLATION, never a pass).
func (r *Run) Broken(why string) { r.mu.Lock(); r.broken = why; r.mu.Unlock() }

// New parses -tier/-seed (falling back to VERIF_TIER / VERIF_SEED) and loads
// the committed known-findings file.
func New(id, level string) *Run {
	tier := os.Getenv("VERIF_TIER")
	if tier == "" {
		tier = "quick"
	}
	seed := int64(1)
	if s := os.Getenv("VERIF_SEED"); s != "" {
		if v, err := strconv.ParseInt(s, 10, 64); err == nil {
			seed = v
		}
	}
	if !flag.Parsed() {
		ft := flag.String("tier", tier, "quick|thorough")
		fs := flag.Int64("seed", seed, "PRNG seed")
		flag.Parse()
		tier, seed = *ft, *fs
	}
	if tier != "quick" && tier != "thorough" {
		fmt.Fprintf(os.Stderr, "bad tier %q\n", tier)
		os.Exit(2)
	}
	r := &Run{
		ID: id, Tier: tier, Seed: seed, Level: level,
		start:        time.Now(),
		distinct:     map[string]int{},
		maxSamples:   6,
		counters:     map[string]int64{},
		extra:        map[string]any{},
		knownHits:    map[string]int{},
		vioSigs:      map[string]int{},
		inconclusive: map[string]int{},
		known:        map[string]string{},
	}
	var kf knownFile
	if b, err := os.ReadFile(filepath.Join(Root(), "KNOWN_FINDINGS.json")); err == nil {
		if err := json.Unmarshal(b, &kf); err != nil {
			fmt.Fprintf(os.Stderr, "KNOWN_FINDINGS.json unreadable: %v\n", err)
			os.Exit(2)
		}
		for _, f := range kf.Findings {
			if f.Property == id {
				r.known[f.Signature] = f.What
			}
		}
	}
	return r
}

// Quick reports whether this is the quick tier.
func (r *Run) Quick() bool { return r.Tier == "quick" }

// Pick returns q in the quick tier and t in the thorough tier.
func (r *Run) Pick(q, t int) int {
	n := t
	if r.Quick() {
		n = q
	}
	// VERIF_SCALE (0 < f <= 1) shrinks every case count; used by the race
	// detector check, which re-runs the other checks' workloads under -race.
	if s := os.Getenv("VERIF_SCALE"); s != "" {
		if f, err := strconv.ParseFloat(s, 64); err == nil && f > 0 && f <= 1 {
			n = int(float64(n) * f)
			if n < 1 && (q > 0 || t > 0) {
				n = 1
			}
		}
	}
	return n
}

// Rule sets the human description of how cases are generated and what makes
// one distinct / non-trivial.
func (r *Run) Rule(s string) { r.mu.Lock(); r.rule = s; r.mu.Unlock() }

// Assume records a trusted-base statement.
func (r *Run) Assume(s string) { r.mu.Lock(); r.assumptions = append(r.assumptions, s); r.mu.Unlock() }

// Case counts one execution. fingerprint identifies its shape for the
// distinct count; it is only counted there when nontrivial is true.
func (r *Run) Case(fingerprint string, nontrivial bool) {
	r.mu.Lock()
	r.evaluations++
	if nontrivial {
		r.distinct[fingerprint]++
	}
	r.mu.Unlock()
}

// Mark adds a fingerprint to the distinct set without counting an evaluation
// (for executions that cover several shapes).
func (r *Run) Mark(fingerprint string) {
	r.mu.Lock()
	r.distinct[fingerprint]++
	r.mu.Unlock()
}

// Count adds n to a named counter reported under coverage.
func (r *Run) Count(name string, n int64) {
	r.mu.Lock()
	r.counters[name] += n
	r.mu.Unlock()
}

// Set stores an arbitrary extra coverage key.
func (r *Run) Set(name string, v any) { r.mu.Lock(); r.extra[name] = v; r.mu.Unlock() }

// Exhaustive records whether a finite space was enumerated completely.
func (r *Run) Exhaustive(b bool) { r.mu.Lock(); r.exhaustive = &b; r.mu.Unlock() }

// Sample keeps up to a handful of written-out cases.
func (r *Run) Sample(v any) {
	r.mu.Lock()
	if len(r.samples) < r.maxSamples {
		r.samples = append(r.samples, v)
	}
	r.mu.Unlock()
}

// Inconclusive counts an execution on which the oracle could not decide.
func (r *Run) Inconclusive(why string) {
	r.mu.Lock()
	r.inconclusive[why]++
	r.mu.Unlock()
}

// Violation records that the oracle saw a forbidden observation. sig is the
// normalised signature (oracle rule + shape of the failing input; no seeds or
// hashes); replay is any JSON-serialisable witness. If the signature is listed
// in KNOWN_FINDINGS.json the violation is reported as a known finding and does
// not fail the check.
func (r *Run) Violation(sig, what string, replay any) {
	r.mu.Lock()
	defer r.mu.Unlock()
	if w, ok := r.known[sig]; ok {
		if r.knownHits[sig] == 0 {
			fmt.Printf("KNOWN-FINDING: property=%s %s [signature=%s]\n", r.ID, w, sig)
		}
		r.knownHits[sig]++
		return
	}
	r.violations++
	r.vioSigs[sig]++
	// Keep at most three replay files per signature.
	if r.vioSigs[sig] > 3 {
		return
	}
	r.replayN++
	dir := filepath.Join(OutRoot(), "replays")
	_ = os.MkdirAll(dir, 0o755)
	name := fmt.Sprintf("%s-%s-seed%d-%d.json", r.ID, r.Tier, r.Seed, r.replayN)
	path := filepath.Join(dir, name)
	doc := map[string]any{
		"property": r.ID, "tier": r.Tier, "seed": r.Seed,
		"signature": sig, "what": what, "witness": replay,
	}
	b, err := json.MarshalIndent(doc, "", " ")
	if err != nil {
		b = []byte(fmt.Sprintf(`{"property":%q,"signature":%q,"what":%q,"marshal_error":%q}`,
			r.ID, sig, what, err.Error()))
	}
	_ = os.WriteFile(path, b, 0o644)
	fmt.Printf("VIOLATION property=%s replay=%s\n", r.ID, path)
	fmt.Printf("  signature=%s\n  %s\n", sig, what)
}

// Violations returns the number of unlisted violations so far.
func (r *Run) Violations() int { r.mu.Lock(); defer r.mu.Unlock(); return r.violations }

// Finish writes the evidence file and exits. minNontrivial is the floor on
// distinct non-trivial cases below which the run counts as having observed
// nothing (exit 2).
func (r *Run) Finish(minNontrivial int) {
	r.mu.Lock()
	cov := map[string]any{
		"evaluations":         r.evaluations,
		"distinct_nontrivial": len(r.distinct),
		"rule":                r.rule,
		"samples":             r.samples,
	}
	if r.samples == nil {
		cov["samples"] = []any{}
	}
	reserved := map[string]bool{"evaluations": true, "distinct_nontrivial": true, "rule": true, "samples": true,
		"exhaustive": true, "inconclusive": true, "states": true, "transitions": true, "obligations": true,
		"discharged": true, "programs": true, "explanation": true}
	for k, v := range r.counters {
		if reserved[k] {
			k = "counter_" + k
		}
		cov[k] = v
	}
	for k, v := range r.extra {
		if reserved[k] {
			k = "extra_" + k
		}
		cov[k] = v
	}
	if r.exhaustive != nil {
		cov["exhaustive"] = *r.exhaustive
	}
	inc := 0
	for _, n := range r.inconclusive {
		inc += n
	}
	cov["inconclusive"] = inc
	if inc > 0 {
		cov["inconclusive_reasons"] = r.inconclusive
	}
	if len(r.knownHits) > 0 {
		cov["known_finding_hits"] = r.knownHits
	}
	if len(r.vioSigs) > 0 {
		cov["violation_signatures"] = r.vioSigs
	}
	// A compact view of which shapes were seen.
	fps := make([]string, 0, len(r.distinct))
	for k := range r.distinct {
		fps = append(fps, k)
	}
	sort.Strings(fps)
	if len(fps) > 40 {
		fps = fps[:40]
	}
	cov["fingerprints_seen_first40"] = fps
	doc := map[string]any{
		"property_id": r.ID,
		"tier":        r.Tier,
		"seed":        r.Seed,
		"level":       r.Level,
		"coverage":    cov,
		"assumptions": r.assumptions,
		"wall_s":      time.Since(r.start).Seconds(),
		"violations":  r.violations,
	}
	if r.assumptions == nil {
		doc["assumptions"] = []string{}
	}
	evaluations, distinct, violations := r.evaluations, len(r.distinct), r.violations
	broken := r.broken
	r.mu.Unlock()

	dir := filepath.Join(OutRoot(), "evidence")
	_ = os.MkdirAll(dir, 0o755)
	b, err := json.MarshalIndent(doc, "", " ")
	if err != nil {
		fmt.Fprintf(os.Stderr, "evidence marshal: %v\n", err)
		os.Exit(2)
	}
	if err := os.WriteFile(filepath.Join(dir, r.ID+".json"), append(b, '\n'), 0o644); err != nil {
		fmt.Fprintf(os.Stderr, "evidence write: %v\n", err)
		os.Exit(2)
	}
	fmt.Printf("%s %s seed=%d: evaluations=%d distinct_nontrivial=%d violations=%d inconclusive=%d wall=%.1fs\n",
		r.ID, r.Tier, r.Seed, evaluations, distinct, violations, inc, time.Since(r.start).Seconds())
	if violations > 0 {
		os.Exit(1)
	}
	if broken != "" {
		fmt.Printf("%s: harness broken: %s\n", r.ID, broken)
		os.Exit(2)
	}
	if distinct < minNontrivial || evaluations == 0 {
		fmt.Printf("%s: observed too little (distinct non-trivial %d < floor %d): check is broken or inconclusive\n",
			r.ID, distinct, minNontrivial)
		os.Exit(2)
	}
	os.Exit(0)
}

// Sig builds a normalised signature from parts.
func Sig(parts ...string) string { return strings.Join(parts, "/") }
