// Package c06 holds the scenario of the C06 check (a block is returned only if
// it is the requested, internally valid block): response kinds, the director
// that rewrites the simulated peers' `getdata(block)` answers, the seeded
// plan, and the oracle. It is a package (not part of cmd/c06) so that a
// race-detector program can run the same scenario function.
package c06

import (
	"bytes"
	"fmt"
	"math/big"
	"math/rand"

	"github.com/btcsuite/btcd/blockchain"
	"github.com/btcsuite/btcd/btcutil/v2"
	"github.com/btcsuite/btcd/chainhash/v2"
	"github.com/btcsuite/btcd/txscript/v2"
	"github.com/btcsuite/btcd/wire/v2"

	"verif/internal/chaingen"
)

// Kind names one way of answering a `getdata(block)`.
type Kind string

const (
	// Answers the client must accept.
	KHonest         Kind = "honest"           // the true block in the requested encoding
	KHonestTwice    Kind = "honest-twice"     // the true block sent twice
	KOtherHonest    Kind = "other+honest"     // another valid block of the chain, and the true block (random order)
	KOtherMutHonest Kind = "othermut+honest"  // a MUTATED other block, and the true block (random order)
	KWitnessForBase Kind = "witness-for-base" // the full witness block although a non-witness block was requested

	// Answers the client must ignore (they cost one worker timeout).
	KOther    Kind = "other"    // another valid block of the chain
	KOtherMut Kind = "othermut" // another block of the chain, mutated
	KNothing  Kind = "nothing"  // silence
	KNotFound Kind = "notfound" // a notfound message

	// Answers that make the client drop the connection (no block at all).
	KGarbageRaw   Kind = "garbage-raw"   // bytes that are not a bitcoin message
	KGarbageBlock Kind = "garbage-block" // a well-framed "block" message whose payload is truncated

	// Answers that carry the requested header but are not the block: the
	// client must discard them and ban the sender.
	KMutValue      Kind = "mut-value"      // one output value changed
	KMutScript     Kind = "mut-script"     // one output script changed
	KAddTx         Kind = "add-tx"         // a transaction appended
	KRemoveTx      Kind = "remove-tx"      // the last transaction removed
	KDupLast       Kind = "dup-last"       // the last transaction duplicated (CVE-2012-2459 shape when the count is odd)
	KReorder       Kind = "reorder"        // two transactions swapped
	KStripAll      Kind = "strip-all"      // every witness removed (txids and merkle root unchanged)
	KStripNonCB    Kind = "strip-noncb"    // every witness but the coinbase's removed
	KForgeWitness  Kind = "forge-witness"  // one bit of one witness item flipped
	KCBNonce       Kind = "cb-nonce"       // coinbase witness nonce changed
	KCommitAltered Kind = "commit-altered" // witness commitment output altered (changes the coinbase txid)
	KBaseReencode  Kind = "base-reencode"  // the true block encoded without witness data for a witness request
	KAddWitness    Kind = "add-witness"    // witness data added to an input that has none
	KHeaderOnly    Kind = "header-only"    // the header with an empty transaction list

	// Two-message answers from one peer mixing an invalid and the true block.
	KBadThenHonest Kind = "bad-then-honest"
	KHonestThenBad Kind = "honest-then-bad"
)

// BanKinds are the kinds whose answer carries the requested header and is
// invalid (when the mutation is effective on the chosen block).
var BanKinds = []Kind{
	KMutValue, KStripAll, KDupLast, KForgeWitness, KAddTx, KCBNonce, KRemoveTx,
	KBaseReencode, KReorder, KStripNonCB, KMutScript, KCommitAltered, KAddWitness, KHeaderOnly,
}

// IgnoreKinds cost one worker timeout each.
var IgnoreKinds = []Kind{KOther, KNothing, KOtherMut, KNotFound}

// needsWitness: kinds that are a no-op on a block without witness data.
func needsWitness(k Kind) bool {
	switch k {
	case KStripAll, KStripNonCB, KForgeWitness, KCBNonce, KBaseReencode:
		return true
	}
	return false
}

// Step is one element of an answer stream.
type Step struct {
	K   Kind
	Sub Kind `json:",omitempty"` // the invalid part of a two-message answer
	// DelayMs: the answer is sent that much later (it then arrives after
	// faster answers to concurrent calls for the same block were handled).
	DelayMs int `json:",omitempty"`
	// HangUp: after the answer was written completely, the peer closes its
	// connection: 1 = at once, n > 1 = n milliseconds later (0 = it stays).
	HangUp int `json:",omitempty"`
	// Before: that many other valid blocks of the chain (which the client
	// must ignore) are sent in front of an invalid block.
	Before int `json:",omitempty"`
}

func (s Step) String() string {
	t := string(s.K)
	if s.Sub != "" {
		t += ":" + string(s.Sub)
	}
	if s.Before > 0 {
		t += fmt.Sprintf("+%dothers", s.Before)
	}
	switch {
	case s.HangUp == 1:
		t += "+hangup"
	case s.HangUp > 1:
		t += fmt.Sprintf("+hangup-%dms", s.HangUp)
	}
	return t
}

// isBanStep reports whether the step is planned to carry an invalid block
// with the requested header.
func isBanStep(s Step) bool {
	if s.K == KBadThenHonest || s.K == KHonestThenBad {
		return true
	}
	for _, k := range BanKinds {
		if k == s.K {
			return true
		}
	}
	return false
}

// out is one message of an answer before encoding.
type out struct {
	blk *wire.MsgBlock
	msg wire.Message // non-block message (notfound)
	raw []byte       // raw bytes instead of a message
	enc wire.MessageEncoding
	cut bool // truncate the encoded payload (garbage-block)
}

// HasWitness reports whether any transaction of the block has witness data.
func HasWitness(b *wire.MsgBlock) bool {
	for _, tx := range b.Transactions {
		if tx.HasWitness() {
			return true
		}
	}
	return false
}

func isCommitment(pk []byte) bool {
	return len(pk) >= 38 && pk[0] == txscript.OP_RETURN &&
		bytes.Equal(pk[:6], blockchain.WitnessMagicBytes)
}

// mutate returns a mutated deep copy of the block (or an identical copy when
// the mutation has nothing to act on: the label is computed from the bytes,
// never from the kind).
func mutate(k Kind, truth *wire.MsgBlock, rng *rand.Rand) *wire.MsgBlock {
	b := truth.Copy()
	txs := b.Transactions
	switch k {
	case KMutValue:
		tx := txs[rng.Intn(len(txs))]
		o := tx.TxOut[rng.Intn(len(tx.TxOut))]
		if o.Value > 1 {
			o.Value--
		} else {
			o.Value++
		}
	case KMutScript:
		tx := txs[rng.Intn(len(txs))]
		// Not the commitment output (that is KCommitAltered).
		var cand []*wire.TxOut
		for _, o := range tx.TxOut {
			if !isCommitment(o.PkScript) && len(o.PkScript) > 0 {
				cand = append(cand, o)
			}
		}
		if len(cand) > 0 {
			o := cand[rng.Intn(len(cand))]
			o.PkScript[len(o.PkScript)-1] ^= 1 << uint(rng.Intn(8))
		}
	case KAddTx:
		nt := txs[len(txs)-1].Copy()
		if len(txs) == 1 {
			// Do not add a second coinbase: spend something.
			nt.TxIn[0].PreviousOutPoint = wire.OutPoint{Hash: chainhash.Hash{1, 2, 3}, Index: 0}
			nt.TxIn[0].Witness = nil
			nt.TxIn[0].SignatureScript = []byte{0x51}
			outs := nt.TxOut[:0]
			for _, o := range nt.TxOut {
				if !isCommitment(o.PkScript) {
					outs = append(outs, o)
				}
			}
			nt.TxOut = outs
		}
		nt.LockTime++
		b.Transactions = append(b.Transactions, nt)
	case KRemoveTx:
		b.Transactions = txs[:len(txs)-1]
	case KDupLast:
		b.Transactions = append(b.Transactions, txs[len(txs)-1].Copy())
	case KReorder:
		switch {
		case len(txs) >= 3:
			i := 1 + rng.Intn(len(txs)-2)
			txs[i], txs[i+1] = txs[i+1], txs[i]
		case len(txs) == 2:
			txs[0], txs[1] = txs[1], txs[0]
		}
	case KStripAll:
		for _, tx := range txs {
			for _, in := range tx.TxIn {
				in.Witness = nil
			}
		}
	case KStripNonCB:
		for _, tx := range txs[1:] {
			for _, in := range tx.TxIn {
				in.Witness = nil
			}
		}
	case KForgeWitness:
		var cand []*wire.TxIn
		for _, tx := range txs[1:] {
			for _, in := range tx.TxIn {
				if len(in.Witness) > 0 && len(in.Witness[0]) > 0 {
					cand = append(cand, in)
				}
			}
		}
		if len(cand) > 0 {
			in := cand[rng.Intn(len(cand))]
			it := in.Witness[rng.Intn(len(in.Witness))]
			if len(it) > 0 {
				it[rng.Intn(len(it))] ^= 1 << uint(rng.Intn(8))
			}
		}
	case KCBNonce:
		w := txs[0].TxIn[0].Witness
		if len(w) > 0 && len(w[0]) > 0 {
			w[0][rng.Intn(len(w[0]))] ^= 0x40
		}
	case KCommitAltered:
		done := false
		for _, o := range txs[0].TxOut {
			if isCommitment(o.PkScript) {
				o.PkScript[len(o.PkScript)-1] ^= 0x01
				done = true
			}
		}
		if !done {
			// No commitment: add a bogus one (changes the coinbase txid).
			s := append(append([]byte{}, blockchain.WitnessMagicBytes...), make([]byte, 32)...)
			txs[0].AddTxOut(wire.NewTxOut(0, s))
		}
	case KAddWitness:
		var in *wire.TxIn
		for _, tx := range txs[1:] {
			for _, i := range tx.TxIn {
				if len(i.Witness) == 0 && in == nil {
					in = i
				}
			}
		}
		switch {
		case in != nil:
			in.Witness = wire.TxWitness{[]byte{0xde, 0xad, 0xbe, 0xef}}
		case len(txs) > 1:
			i := txs[1].TxIn[0]
			i.Witness = append(i.Witness, []byte{0x01})
		default:
			// Coinbase only.
			i := txs[0].TxIn[0]
			i.Witness = append(i.Witness, []byte{0x01})
		}
	case KHeaderOnly:
		b.Transactions = nil
	}
	return b
}

// Part is what the harness recorded about one message it sent.
type Part struct {
	// Label is computed from the bytes actually sent, decoded the way the
	// client decodes them: "good" (byte-identical to the generator's block
	// of the requested hash), "bad" (requested header, different block),
	// "ambig" (non-witness request answered with the witness-stripped
	// encoding of a block that has witness data), "other" (another header),
	// "garbage" (undecodable), "notfound".
	Label string
	Bytes int
	Txs   int `json:",omitempty"`
	// Hdr is the header hash of a block that is not the requested one, and
	// OtherInvalid says that it differs from the generator's block of THAT hash.
	Hdr          string `json:",omitempty"`
	OtherInvalid bool   `json:",omitempty"`
	SanityErr    string `json:",omitempty"` // harness-side double check only
	CommitErr    string `json:",omitempty"`
	SendErr      bool   `json:",omitempty"`
}

// label classifies decoded bytes against the generator's block.
func label(dec wire.Message, decErr error, want *chaingen.Node, base bool, powLimit *big.Int,
	byHash map[chainhash.Hash]*chaingen.Node) Part {

	if decErr != nil || dec == nil {
		return Part{Label: "garbage"}
	}
	blk, ok := dec.(*wire.MsgBlock)
	if !ok {
		if _, nf := dec.(*wire.MsgNotFound); nf {
			return Part{Label: "notfound"}
		}
		return Part{Label: "other"}
	}
	p := Part{Txs: len(blk.Transactions)}
	ub := btcutil.NewBlock(blk)
	if err := blockchain.CheckBlockSanity(ub, powLimit, blockchain.NewMedianTime()); err != nil {
		p.SanityErr = err.Error()
	}
	if err := blockchain.ValidateWitnessCommitment(ub); err != nil {
		p.CommitErr = err.Error()
	}
	if h := blk.BlockHash(); h != want.Hash {
		p.Label = "other"
		p.Hdr = h.String()
		if o := byHash[h]; o == nil || o.Block == nil || !bytes.Equal(ser(blk, false), ser(o.Block, false)) {
			p.OtherInvalid = true
		}
		return p
	}
	full := ser(blk, false)
	switch {
	case bytes.Equal(full, ser(want.Block, false)):
		p.Label = "good"
	case base && !HasWitness(blk) && bytes.Equal(full, ser(want.Block, true)):
		// The honest non-witness encoding of a block that has witness
		// data: what the property demands here is not decidable from
		// its text (the commitment cannot be validated), so nothing is
		// asserted about the sender.
		p.Label = "ambig"
	default:
		p.Label = "bad"
	}
	return p
}

func ser(b *wire.MsgBlock, stripped bool) []byte {
	var buf bytes.Buffer
	if stripped {
		_ = b.SerializeNoWitness(&buf)
	} else {
		_ = b.Serialize(&buf)
	}
	return buf.Bytes()
}
