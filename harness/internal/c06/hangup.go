package c06

// Hang-up scenarios: a host answers GetBlock's request with an invalid block
// under the requested header and then closes its connection (at once | some
// milliseconds later). Every byte of the block is written before the close
// and the client's end of the connection reads all of it before it sees the
// end of the stream; rule (3') of the ban-history runner is applied unchanged:
// once the call has returned, the sender is banned for InvalidBlock.
//
// One offender per offence round, every offender a fresh host, so that the
// share of offenders that are not banned is measurable in one run
// (hangup_offenders_* counters). The family is NOT part of the default case
// list (see cmd/c06: C06_HANGUP).

import (
	"fmt"
	"math/rand"

	"verif/internal/chaingen"
	"verif/internal/l2"
)

// HangupScenario runs hang-up scenario k in this process.
func HangupScenario(seed int64, k int, res *l2.Result) {
	runBanPlan(MakeHangupPlan(seed, k), "hangup", res)
}

// MakeHangupPlan derives hang-up scenario k; scenarios 0, 1 and 2 do not depend
// on the seed.
func MakeHangupPlan(seed int64, k int) BanPlan {
	p := BanPlan{Family: "hangup", KeepGoing: true, K: k, Honest: 2, Layout: "fixed-v4", Preset: chaingen.PresetNoRetarget}
	var modes, before []int
	switch {
	case k == 0:
		// 20 offenders: alternately closing at once and 50 ms later.
		p.Seed, p.Fixed, p.Offenders, p.ChainLen = 606_200, true, 20, 700
		for i := 0; i < p.Offenders; i++ {
			modes = append(modes, []int{1, 50}[i%2])
			before = append(before, 0)
		}
	case k == 1:
		// 20 offenders closing at once; the invalid block comes behind 3 | 8
		// other valid blocks (the client hands every received message to
		// the query worker from a goroutine of its own).
		p.Seed, p.Fixed, p.Offenders, p.ChainLen = 606_201, true, 20, 800
		for i := 0; i < p.Offenders; i++ {
			modes = append(modes, 1)
			before = append(before, []int{3, 8}[i%2])
		}
	case k == 2:
		// As scenario 1 with a long run of duplicates of one other block in
		// front (100 | 400 messages).
		p.Seed, p.Fixed, p.Offenders, p.ChainLen = 606_202, true, 20, 700
		for i := 0; i < p.Offenders; i++ {
			modes = append(modes, 1)
			before = append(before, []int{100, 400}[i%2])
		}
	default:
		r := rand.New(rand.NewSource(seed*1_000_003 + int64(k)*350_377 + 62_006))
		p.Seed = seed*1_000_003 + 800_000 + int64(k)
		p.Offenders, p.ChainLen = 6+r.Intn(7), 400
		p.Honest = 1 + r.Intn(2)
		for i := 0; i < p.Offenders; i++ {
			modes = append(modes, []int{1, 1, 2 + r.Intn(20), 50, 100 + r.Intn(200), 0}[r.Intn(6)])
			before = append(before, []int{0, 0, 1 + r.Intn(3), 4 + r.Intn(8)}[r.Intn(4)])
		}
	}
	for i := 0; i < p.Offenders+p.Honest; i++ {
		p.Addrs = append(p.Addrs, fixedV4(fmt.Sprintf("10.6.%d.%d", 20+k%200, 1+i), false, false))
	}
	p.TwoPorts = make([]bool, p.Offenders)
	p.Ops = append(p.Ops, BanOp{Op: "honest", Calls: 2})
	for i := 0; i < p.Offenders; i++ {
		kd := BanKinds[mod(i*3+k+int(p.Seed%7), len(BanKinds))]
		p.Ops = append(p.Ops, BanOp{Op: "offend", Hosts: []int{i}, Kinds: []Kind{kd}, HangUp: []int{modes[i]}, Before: []int{before[i]}})
	}
	return p
}
