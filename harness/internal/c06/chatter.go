package c06

// Chatter scenarios: the "any other response is ignored, the request is
// retried with other peers" clause of C06, observed on the complete client for
// a peer that stays TALKATIVE without ever answering.
//
// The peer that is handed getdata(H) by the real ChainService.GetBlock keeps
// sending well-formed messages that are not block H (other valid blocks of the
// chain above / below H, a duplicate of a block it served earlier, inv of the
// tip, ping, addr, or a mix) at gaps far below the query worker's per-attempt
// timeout (2 s, doubled per earlier timeout of the request), and never block
// H. Honest peers that would answer at once are connected with nothing
// outstanding all the while. Everything the talkative peer sends is "another
// response": it must be ignored, i.e. it must not keep the request with that
// peer; the request has to reach another peer and the call has to return
// block H (or report failure).
//
// The verdict "the request was pinned" never reads the clock. Every chatter
// message is written after a harness timer of its gap (timers never fire
// early), so the gaps of the messages the peer demonstrably wrote between the
// event "getdata(H) reached the talkative peer" and the first of {a getdata
// for H reaches ANY peer again, GetBlock returns} add up to a lower bound of
// that stretch. When the bound reaches ChatterFactor complete worker timeouts
// of the attempt while an honest peer was connected throughout, the request
// was not retried although it had to be. A call that merely has not returned
// when a watchdog fires is inconclusive.

import (
	"bytes"
	"fmt"
	"math/rand"
	"net"
	"sort"
	"strings"
	"sync"
	"time"

	"github.com/btcsuite/btcd/btcutil/v2"
	"github.com/btcsuite/btcd/chainhash/v2"
	"github.com/btcsuite/btcd/wire/v2"
	"github.com/lightninglabs/neutrino"

	"verif/internal/chaingen"
	"verif/internal/evid"
	"verif/internal/l2"
	"verif/internal/netsim"
)

// ChatterFactor: how many complete worker timeouts of the attempt the
// talkative stretch has to cover before the oracle speaks.
const ChatterFactor = 3

// The query worker's per-attempt timeout: 2 s for the first attempt of a
// request, doubled after every attempt that ended by timeout, at most 32 s
// (query/workmanager.go; not configurable). The oracle uses the upper bound
// 2 s << (number of earlier getdata for the hash during the call).
const (
	chatWorkerTimeoutMs    = 2000
	chatWorkerTimeoutMaxMs = 32000
)

func chatAttemptTimeoutMs(attempt int) int {
	t := chatWorkerTimeoutMs
	for i := 0; i < attempt && t < chatWorkerTimeoutMaxMs; i++ {
		t *= 2
	}
	return t
}

// ChatterMixes is what the talkative peer's messages consist of.
var ChatterMixes = []string{"blocks-above", "blocks-below", "dup-earlier", "inv", "ping", "addr", "mix"}

// ChatterPlan is one chatter scenario: a pure function of (seed, k); the first
// NumFixedChatterPlans do not depend on the seed.
type ChatterPlan struct {
	Seed     int64
	K        int
	Fixed    bool
	ChainLen int
	Preset   int
	// Honest: peers that answer every request at once (1-3).
	Honest int
	// Later: the talkative peer is the SECOND peer the request reaches; the
	// first one says nothing at all for that one request (a plain worker
	// timeout, after which the worker timeout of the request is 4 s).
	Later bool
	// Mix: see ChatterMixes.
	Mix      string
	GapMinMs int
	GapMaxMs int
	GapSeed  int64
	// FallsSilent: the talkative peer stops once its gaps add up to TotalX10/10
	// worker timeouts of the attempt (always more than ChatterFactor); otherwise
	// it talks until the request was handed to a peer again or the call
	// returned (with a cap of 8 worker timeouts).
	FallsSilent bool
	TotalX10    int
	// Base: the call asks for the non-witness encoding. Retries: NumRetries of
	// the call (0 = the client's default).
	Base    bool
	Retries uint8
	// WarmRounds rounds of as many concurrent honest calls as peers come first
	// (every peer answers one call per round, 40 ms late so that the calls
	// overlap): every peer then has the same good record with the client.
	WarmRounds int
	// After: one more honest call for another block follows.
	After bool
}

// NumFixedChatterPlans is the number of seed-independent scenarios at the
// start of the chatter list.
const NumFixedChatterPlans = 2

// MakeChatterPlan derives chatter scenario k.
func MakeChatterPlan(seed int64, k int) ChatterPlan {
	switch k {
	case 0:
		// The first peer to get the request streams other valid blocks of the
		// chain (above the requested height) every 60-180 ms until the request
		// is handed to a peer again; one honest peer.
		return ChatterPlan{Seed: 606_300, K: k, Fixed: true, ChainLen: 90, Preset: chaingen.PresetNoRetarget, Honest: 1,
			Mix: "blocks-above", GapMinMs: 60, GapMaxMs: 180, GapSeed: 11, TotalX10: 80, WarmRounds: 5, After: true}
	case 1:
		// The request first times out at a peer that says nothing, then reaches
		// the talkative one (worker timeout 4 s): a mix of blocks, inv, ping and
		// addr every 300-900 ms, falling silent after 3.6 worker timeouts; two
		// honest peers; non-witness request.
		return ChatterPlan{Seed: 606_301, K: k, Fixed: true, ChainLen: 120, Preset: chaingen.PresetRetarget, Honest: 2, Later: true,
			Mix: "mix", GapMinMs: 300, GapMaxMs: 900, GapSeed: 12, FallsSilent: true, TotalX10: 36, Base: true, Retries: 4, WarmRounds: 5}
	}
	r := rand.New(rand.NewSource(seed*1_000_003 + int64(k)*433_781 + 63_006))
	p := ChatterPlan{Seed: seed*1_000_003 + 900_000 + int64(k), K: k}
	p.ChainLen = 70 + r.Intn(91)
	p.Preset = k % chaingen.NumPresets
	p.Honest = 1 + r.Intn(3)
	// The attempt at a later peer costs a 2 s timeout first and has a 4 s
	// worker timeout: one scenario in four.
	p.Later = mod(k+int(seed), 4) == 3
	p.Mix = ChatterMixes[mod(k*3+int(seed)*5+r.Intn(2), len(ChatterMixes))]
	switch r.Intn(3) {
	case 0:
		p.GapMinMs = 50 + r.Intn(100)
		p.GapMaxMs = p.GapMinMs + r.Intn(150)
	case 1:
		p.GapMinMs = 200 + r.Intn(300)
		p.GapMaxMs = p.GapMinMs + r.Intn(200)
	default:
		p.GapMinMs = 50 + r.Intn(400)
		p.GapMaxMs = p.GapMinMs + r.Intn(901-p.GapMinMs)
	}
	p.GapSeed = r.Int63()
	p.FallsSilent = r.Intn(3) == 0
	p.TotalX10 = 80
	if p.FallsSilent {
		p.TotalX10 = 34 + r.Intn(17)
	}
	p.Base = r.Intn(4) == 0
	p.Retries = []uint8{0, 0, 3, 4, 6}[r.Intn(5)]
	p.WarmRounds = 5 + r.Intn(2)
	p.After = r.Intn(2) == 0
	return p
}

// Describe is the scenario-level fingerprint.
func (p ChatterPlan) Describe() string {
	pos := "first"
	if p.Later {
		pos = "later"
	}
	gaps := "short"
	switch {
	case p.GapMaxMs > 600:
		gaps = "long"
	case p.GapMaxMs > 250:
		gaps = "medium"
	}
	end := "until-reissued"
	if p.FallsSilent {
		end = "falls-silent"
	}
	enc := "witness"
	if p.Base {
		enc = "base"
	}
	return fmt.Sprintf("chatter mix=%s at=%s honest=%d gaps=%s %s enc=%s retries=%d after=%v", p.Mix, pos, p.Honest, gaps, end, enc, p.Retries, p.After)
}

// chatEvent is one entry of the scenario's own history; Seq is the position in
// the world's event log, so the history is ordered with everything the peers
// received and sent.
type chatEvent struct {
	Seq     int64
	K       string // "getdata" | "chatter" | "chatter-end" | "call-start" | "call-end"
	Peer    string `json:",omitempty"`
	Role    string `json:",omitempty"`
	Attempt int    `json:"attempt"` // getdata: number of earlier getdata for H during the call
	GapMs   int    `json:",omitempty"`
	WallMs  int64  `json:",omitempty"` // chatter: real time since the attempt began (sanity of the harness timers only)
	What    string `json:",omitempty"`
}

// chatterWorld is the state shared by the peers' Mutate hooks.
type chatterWorld struct {
	mu     sync.Mutex
	w      *l2.World
	plan   ChatterPlan
	phase  string // "warm" | "test" | "after"
	H      *chaingen.Node
	role   map[string]string // peer address -> "silent" | "chatter" | "honest"
	asked  map[string]int    // getdata(H) received per peer during the call
	nReq   int               // getdata(H) received during the call
	ended  bool              // the call returned
	events []chatEvent
	pool   []*chaingen.Node // blocks the talkative peer sends
	tip    *chaingen.Node
	// heldCh is closed once a talkative stretch reached the oracle's bound.
	heldCh   chan struct{}
	heldOnce sync.Once
	served   map[string][]*chaingen.Node // warm-up blocks each peer served
	wg       sync.WaitGroup
	stop     chan struct{}
	stopSeq  int64
}

func (cw *chatterWorld) add(e chatEvent, note string) int64 {
	// cw.mu held
	e.Seq = cw.w.Log.Add("c06-chatter", "ev", e.K, note)
	cw.events = append(cw.events, e)
	return e.Seq
}

func (cw *chatterWorld) mutate(p *netsim.Peer, req wire.Message, honest []wire.Message) []wire.Message {
	gd, ok := req.(*wire.MsgGetData)
	if !ok {
		return honest
	}
	cw.mu.Lock()
	phase := cw.phase
	var forH bool
	for _, iv := range gd.InvList {
		if cw.H != nil && iv.Hash == cw.H.Hash && (iv.Type == wire.InvTypeBlock || iv.Type == wire.InvTypeWitnessBlock) {
			forH = true
		}
	}
	if phase == "warm" {
		for _, iv := range gd.InvList {
			if n := cw.w.G.Lookup(iv.Hash); n != nil {
				cw.served[p.Addr] = append(cw.served[p.Addr], n)
			}
		}
		cw.mu.Unlock()
		// Late enough for the concurrent calls of a round to overlap, far
		// inside every timeout.
		time.Sleep(40 * time.Millisecond)
		return honest
	}
	if !forH || cw.ended {
		cw.mu.Unlock()
		return honest
	}
	attempt := cw.nReq
	cw.nReq++
	cw.asked[p.Addr]++
	role := cw.role[p.Addr]
	if role == "" {
		hasSilent, hasChat := false, false
		for _, r := range cw.role {
			hasSilent = hasSilent || r == "silent"
			hasChat = hasChat || r == "chatter"
		}
		switch {
		case cw.plan.Later && !hasSilent:
			role = "silent"
		case !hasChat:
			role = "chatter"
		default:
			role = "honest"
		}
		cw.role[p.Addr] = role
	}
	// What the peer does with THIS request. The silent peer is silent for one
	// request; the talkative peer for two (a third is answered: it bounds the
	// scenario on a client that keeps preferring it; every verdict is reached
	// within one attempt).
	act := role
	if role == "silent" && cw.asked[p.Addr] > 1 || role == "chatter" && cw.asked[p.Addr] > 2 {
		act = "honest"
	}
	cw.add(chatEvent{K: "getdata", Peer: p.Addr, Role: role, Attempt: attempt, What: act},
		fmt.Sprintf("getdata(H) no %d of the call reached %s (%s -> %s)", attempt+1, p.Addr, role, act))
	cw.mu.Unlock()
	switch act {
	case "silent":
		return nil
	case "chatter":
		cw.wg.Add(1)
		go cw.chatter(p, attempt)
		return nil
	}
	return honest
}

// chatter is the talkative peer's reaction to one getdata(H).
func (cw *chatterWorld) chatter(p *netsim.Peer, attempt int) {
	defer cw.wg.Done()
	pl := cw.plan
	rng := rand.New(rand.NewSource(pl.GapSeed + int64(attempt)))
	timeoutMs := chatAttemptTimeoutMs(attempt)
	total := pl.TotalX10 * timeoutMs / 10
	limit := ChatterFactor * timeoutMs
	enc := wire.WitnessEncoding
	if pl.Base {
		enc = wire.BaseEncoding
	}
	t0 := time.Now()
	slept, sent := 0, 0
	end := func(why string) {
		cw.mu.Lock()
		cw.add(chatEvent{K: "chatter-end", Peer: p.Addr, Attempt: attempt, What: why}, fmt.Sprintf("attempt %d: %s after %d messages, gaps %d ms", attempt+1, why, sent, slept))
		cw.mu.Unlock()
	}
	for i := 0; ; i++ {
		cw.mu.Lock()
		why := ""
		switch {
		case cw.ended:
			why = "call-returned"
		case cw.nReq > attempt+1:
			why = "request-handed-to-a-peer-again"
		case slept >= total && pl.FallsSilent:
			why = "falls-silent"
		case slept >= total:
			why = "cap"
		}
		cw.mu.Unlock()
		if why != "" {
			end(why)
			return
		}
		gap := pl.GapMinMs
		if pl.GapMaxMs > pl.GapMinMs {
			gap += rng.Intn(pl.GapMaxMs - pl.GapMinMs + 1)
		}
		t := time.NewTimer(time.Duration(gap) * time.Millisecond)
		select {
		case <-t.C:
		case <-cw.stop:
			t.Stop()
			end("scenario-over")
			return
		}
		kind := pl.Mix
		if kind == "mix" {
			kind = []string{"blocks-above", "inv", "blocks-below", "ping", "dup-earlier", "addr"}[rng.Intn(6)]
		}
		var msg wire.Message
		switch kind {
		case "inv":
			inv := wire.NewMsgInv()
			h := cw.tip.Hash
			_ = inv.AddInvVect(wire.NewInvVect(wire.InvTypeBlock, &h))
			msg = inv
		case "ping":
			msg = wire.NewMsgPing(rng.Uint64())
		case "addr":
			a := wire.NewMsgAddr()
			for j, n := 0, 1+rng.Intn(3); j < n; j++ {
				_ = a.AddAddress(wire.NewNetAddressTimestamp(time.Now().Add(-time.Hour),
					wire.SFNodeNetwork|wire.SFNodeWitness|wire.SFNodeCF, net.IPv4(10, 66, byte(rng.Intn(200)), byte(1+rng.Intn(200))), 18444))
			}
			msg = a
		default:
			msg = cw.chatBlock(kind, p.Addr, i).Block
		}
		// The stretch may have ended while the timer ran: the message is then
		// sent all the same (it is what a peer may do) but the loop ends above.
		if err := p.SendEnc(msg, enc); err != nil {
			end("connection-closed")
			return
		}
		slept += gap
		sent++
		cw.mu.Lock()
		cw.add(chatEvent{K: "chatter", Peer: p.Addr, Attempt: attempt, GapMs: gap, WallMs: time.Since(t0).Milliseconds(), What: kind},
			fmt.Sprintf("attempt %d: %s after a timer of %d ms (sum %d ms)", attempt+1, kind, gap, slept))
		held := slept >= limit && !cw.ended && cw.nReq == attempt+1
		cw.mu.Unlock()
		if held {
			cw.heldOnce.Do(func() { close(cw.heldCh) })
		}
	}
}

// chatBlock picks the i-th block message of the given kind.
func (cw *chatterWorld) chatBlock(kind, addr string, i int) *chaingen.Node {
	cw.mu.Lock()
	defer cw.mu.Unlock()
	var c []*chaingen.Node
	switch kind {
	case "dup-earlier":
		// A duplicate of a block this peer (or, if it served none, another
		// one) delivered as the answer to an earlier call.
		c = cw.served[addr]
		if len(c) == 0 {
			var as []string
			for a := range cw.served {
				as = append(as, a)
			}
			sort.Strings(as)
			for _, a := range as {
				c = append(c, cw.served[a]...)
			}
		}
		if len(c) > 0 {
			return c[len(c)-1]
		}
		fallthrough
	case "blocks-above":
		for _, n := range cw.pool {
			if n.Height > cw.H.Height {
				c = append(c, n)
			}
		}
	default:
		for _, n := range cw.pool {
			if n.Height < cw.H.Height {
				c = append(c, n)
			}
		}
	}
	if len(c) == 0 {
		c = cw.pool
	}
	return c[i%len(c)]
}

type chatCall struct {
	What    string
	Hash    chainhash.Hash `json:"-"`
	HashStr string
	Height  int32
	Base    bool
	Retries uint8
	Start   int64
	End     int64
	OK      bool
	Err     string `json:",omitempty"`
	DurMs   int64
	Pending bool `json:",omitempty"` // had not returned when the scenario went on
	blk     *btcutil.Block
	done    chan struct{}
}

// ChatterScenario runs chatter scenario k of the (seed, tier) case list in this
// process.
func ChatterScenario(seed int64, k int, res *l2.Result) {
	plan := MakeChatterPlan(seed, k)
	res.Name = fmt.Sprintf("c06-chatter-%d", k)
	res.Fingerprint = plan.Describe()
	res.Count("chatter_scenarios", 1)
	if plan.Fixed {
		res.Count("chatter_fixed_scenarios", 1)
	}
	res.Count("chatter_mix_"+plan.Mix, 1)

	w := l2.NewWorld(l2.Config{Seed: plan.Seed, Preset: plan.Preset, Interval: 8, SpacingSec: 4, GenesisAgo: 2 * time.Hour})
	defer w.Cleanup()
	trunk := w.G.Extend(w.G.Genesis, plan.ChainLen, chaingen.PaceNormal)
	tip := trunk[len(trunk)-1]
	nPeers := plan.Honest + 1
	if plan.Later {
		nPeers++
	}
	cw := &chatterWorld{w: w, plan: plan, phase: "warm", role: map[string]string{}, asked: map[string]int{}, tip: tip,
		heldCh: make(chan struct{}), served: map[string][]*chaingen.Node{}, stop: make(chan struct{})}
	for i := 0; i < nPeers; i++ {
		p := w.AddPeer(tip)
		p.Mutate = cw.mutate
	}
	// The blocks: H in the middle third; 4 above and 4 below for the talkative
	// peer (never requested by any call); the others for the honest calls.
	selRng := rand.New(rand.NewSource(plan.Seed ^ 0xc4a7))
	hi := len(trunk)/3 + selRng.Intn(len(trunk)/3)
	if plan.Fixed {
		hi = len(trunk) / 2
	}
	if plan.Base {
		// A non-witness request for a block that carries witness data is the
		// 'ambig' case of this check (the client cannot validate the commitment
		// of the honest stripped answer): the block asked for has none.
		for d := 0; d < len(trunk)/4; d++ {
			if !HasWitness(trunk[hi-d].Block) {
				hi -= d
				break
			}
			if !HasWitness(trunk[hi+d].Block) {
				hi += d
				break
			}
		}
		if HasWitness(trunk[hi].Block) {
			plan.Base, cw.plan.Base = false, false
			res.Count("chatter_base_request_replaced_no_block_without_witness", 1)
		}
	}
	H := trunk[hi]
	used := map[int]bool{hi: true, 0: true, len(trunk) - 1: true}
	draw := func(lo, hiEx int) *chaingen.Node {
		for try := 0; ; try++ {
			j := lo + selRng.Intn(hiEx-lo)
			if !used[j] || try > 5000 {
				used[j] = true
				return trunk[j]
			}
		}
	}
	for i := 0; i < 4; i++ {
		cw.pool = append(cw.pool, draw(hi+1, len(trunk)-1), draw(1, hi))
	}
	res.Count("chain_blocks", int64(len(trunk)))

	if err := w.StartClient(nil, l2.ClientOpts{}); err != nil {
		res.Inconcl("client start failed: " + err.Error())
		return
	}
	stopped := false
	stopClient := func() bool {
		if stopped {
			return true
		}
		stopped = true
		cw.mu.Lock()
		cw.stopSeq = cw.add(chatEvent{K: "stop"}, "the scenario stops the client")
		cw.mu.Unlock()
		close(cw.stop)
		ok, _ := w.StopClient(90 * time.Second)
		return ok
	}
	defer func() { stopClient(); cw.wg.Wait() }()
	if !l2.WaitFor(90*time.Second, func() bool { return w.SyncedTo(tip) }) {
		res.Inconcl("initial sync did not complete within 90 s")
		return
	}
	if !l2.WaitFor(30*time.Second, func() bool { return int(w.Svc.ConnectedCount()) == nPeers }) {
		res.Inconcl("not every peer is connected 30 s after the sync")
		return
	}

	var calls []*chatCall
	launch := func(what string, n *chaingen.Node, base bool, retries uint8) *chatCall {
		c := &chatCall{What: what, Hash: n.Hash, HashStr: n.Hash.String()[:12], Height: n.Height, Base: base, Retries: retries, done: make(chan struct{})}
		calls = append(calls, c)
		var qo []neutrino.QueryOption
		if retries > 0 {
			qo = append(qo, neutrino.NumRetries(retries))
		}
		if base {
			qo = append(qo, neutrino.Encoding(wire.BaseEncoding))
		}
		t0 := time.Now()
		cw.mu.Lock()
		c.Start = cw.add(chatEvent{K: "call-start", What: what}, fmt.Sprintf("GetBlock(h=%d base=%v) %s", n.Height, base, what))
		cw.mu.Unlock()
		go func() {
			b, err := w.Svc.GetBlock(n.Hash, qo...)
			cw.mu.Lock()
			if what == "H" {
				cw.ended = true
			}
			c.End = cw.add(chatEvent{K: "call-end", What: what}, fmt.Sprintf("GetBlock(h=%d) %s returned ok=%v", n.Height, what, err == nil))
			c.blk, c.OK, c.DurMs = b, err == nil, time.Since(t0).Milliseconds()
			if err != nil {
				c.Err = err.Error()
			}
			cw.mu.Unlock()
			close(c.done)
		}()
		return c
	}
	wait := func(d time.Duration, cs ...*chatCall) bool {
		dl := time.After(d)
		for _, c := range cs {
			select {
			case <-c.done:
			case <-dl:
				return false
			}
		}
		return true
	}

	// ---- warm-up: every peer answers one call per round ----
	for round := 0; round < plan.WarmRounds; round++ {
		var cs []*chatCall
		for i := 0; i < nPeers; i++ {
			cs = append(cs, launch("warm", draw(1, len(trunk)-1), false, 0))
		}
		if !wait(120*time.Second, cs...) {
			res.Inconcl("a warm-up GetBlock call did not return within 120 s (watchdog)")
			return
		}
	}

	// ---- the call for H ----
	cw.mu.Lock()
	cw.H, cw.phase = H, "test"
	cw.mu.Unlock()
	hc := launch("H", H, plan.Base, plan.Retries)
	held := false
	select {
	case <-hc.done:
	case <-cw.heldCh:
		held = true
	case <-time.After(150 * time.Second):
		res.Inconcl("GetBlock(H) had not returned after 150 s and no talkative stretch reached the bound (watchdog)")
	}
	// Connections of the peers, read while the client runs.
	open := map[string]int{}
	banned := map[string]bool{}
	for _, p := range w.Peers {
		open[p.Addr] = w.Net.OpenConns(p.Addr)
		banned[p.Addr] = w.Svc.IsBanned(p.Addr)
	}
	select {
	case <-hc.done:
	default:
		hc.Pending = true
	}

	var ac *chatCall
	if !hc.Pending && plan.After {
		cw.mu.Lock()
		cw.phase = "after"
		cw.mu.Unlock()
		ac = launch("after", draw(1, len(trunk)-1), false, 0)
		if !wait(120*time.Second, ac) {
			ac.Pending = true
			res.Inconcl("the GetBlock call after the one for H did not return within 120 s (watchdog)")
		}
	}
	cacheN := 0
	if !hc.Pending && (ac == nil || !ac.Pending) {
		cacheN = checkCache(res, w, &director{}, func(map[string]any) any {
			return map[string]any{"plan": plan, "event_log_tail": w.Log.Tail(60)}
		})
	}
	res.Count("cache_entries_verified", int64(cacheN))
	if !stopClient() {
		res.Inconcl("Stop did not return within 90 s (C17's subject)")
	}
	cw.wg.Wait()

	// ---- the history ----
	cw.mu.Lock()
	events := append([]chatEvent(nil), cw.events...)
	stopSeq := cw.stopSeq
	roles := map[string]string{}
	for a, r := range cw.role {
		roles[a] = r
	}
	cw.mu.Unlock()
	sort.Slice(events, func(i, j int) bool { return events[i].Seq < events[j].Seq })
	netLog := w.Log.Snapshot()
	witness := func(extra map[string]any) any {
		m := map[string]any{"plan": plan, "H_height": H.Height, "roles": roles, "history": events, "calls": calls,
			"open_connections_at_the_end_of_the_wait": open, "event_log_tail": w.Log.Tail(60)}
		for k, v := range extra {
			m[k] = v
		}
		return m
	}

	// ---- the talkative stretches ----
	var getdatas []chatEvent
	for _, e := range events {
		if e.K == "getdata" {
			getdatas = append(getdatas, e)
		}
	}
	res.Count("chatter_getdata_for_H_reaching_a_peer", int64(len(getdatas)))
	outcome := "not-reached"
	var chatMsgs, chatHeldMs int64
	kindsSeen := map[string]bool{}
	for gi, g := range getdatas {
		if g.What != "chatter" {
			continue
		}
		res.Count("chatter_requests_at_the_talkative_peer", 1)
		// The stretch: from the getdata reaching the talkative peer to the
		// first of {getdata for H reaching any peer again, the call returning};
		// open-ended otherwise (the scenario was ended).
		s0, s1 := g.Seq, int64(1)<<62
		next := "scenario-ended"
		if gi+1 < len(getdatas) {
			s1 = getdatas[gi+1].Seq
			next = "handed-to-" + getdatas[gi+1].Role
			if getdatas[gi+1].Peer == g.Peer {
				next = "handed-to-the-talkative-peer-again"
			}
		}
		if hc.End != 0 && hc.End < s1 {
			s1, next = hc.End, "call-returned"
		}
		if stopSeq != 0 && stopSeq < s1 {
			// What happens after the scenario began to stop the client (the
			// pending call then returns "shutting down") is not the client's
			// reaction to the peers.
			s1, next = stopSeq, "scenario-ended"
		}
		sum, n, lastWall := 0, 0, int64(0)
		for _, e := range events {
			if e.K == "chatter" && e.Attempt == g.Attempt && e.Peer == g.Peer && e.Seq > s0 && e.Seq < s1 {
				sum += e.GapMs
				n++
				lastWall = e.WallMs
				kindsSeen[e.What] = true
			}
		}
		chatMsgs += int64(n)
		if int64(sum) > chatHeldMs {
			chatHeldMs = int64(sum)
		}
		if n > 0 {
			res.Count("chatter_stretches_with_talk", 1)
			res.Count("chatter_stretch_ended_by_"+next, 1)
		}
		if outcome == "not-reached" || outcome == "reissued" {
			outcome = "reissued"
			if next == "scenario-ended" {
				outcome = "pending"
			}
		}
		limit := ChatterFactor * chatAttemptTimeoutMs(g.Attempt)
		if sum < limit {
			continue
		}
		// An honest peer was connected throughout: its handshake lies before
		// the stretch, nothing closed its connection inside it, and it was
		// still open when the wait ended.
		honestUp := ""
		for _, p := range w.Peers {
			if p.Addr == g.Peer || roles[p.Addr] == "silent" {
				continue
			}
			shook, closed := false, false
			for _, e := range netLog {
				if e.Peer != p.Addr || e.Dir != "ev" {
					continue
				}
				switch {
				case e.Cmd == "handshake" && e.Seq < s0:
					shook = true
				case (e.Cmd == "closed" || e.Cmd == "disconnect" || e.Cmd == "connected") && e.Seq > s0 && e.Seq < s1:
					closed = true
				case (e.Cmd == "closed" || e.Cmd == "disconnect") && e.Seq < s0:
					shook = false
				}
			}
			if shook && !closed && (next != "scenario-ended" || open[p.Addr] == 1) {
				honestUp = p.Addr
				break
			}
		}
		switch {
		case honestUp == "":
			res.Inconcl("chatter: no honest peer stayed connected throughout the talkative stretch")
		case lastWall > 2*int64(sum):
			// The harness's own timers ran far late: the machine is too loaded
			// to hold a client timer to anything.
			res.Inconcl("chatter: harness timers ran more than twice late")
		default:
			outcome = "held-by-talk"
			at := "first-peer"
			if g.Attempt > 0 {
				at = "later-peer"
			}
			res.Violate(evid.Sig("c06/request-not-retried-with-another-peer", "talkative-peer-never-answering", at),
				fmt.Sprintf("GetBlock for block %s (height %d): getdata no %d of the call reached peer %s (worker timeout of the attempt at most %d ms), which then wrote %d well-formed messages that are not the requested block (%s), each after a harness timer, gaps adding up to %d ms (>= %d complete worker timeouts), and never the block; honest peer %s was connected throughout with nothing outstanding; no getdata for the block reached any peer in that stretch and the call had not returned (then: %s)",
					hc.HashStr, H.Height, g.Attempt+1, g.Peer, chatAttemptTimeoutMs(g.Attempt), n, plan.Mix, sum, ChatterFactor, honestUp, next),
				witness(map[string]any{"lower_bound_ms": sum, "limit_ms": limit, "idle_honest_peer": honestUp, "then": next}))
		}
	}
	if held && outcome != "held-by-talk" {
		res.Count("chatter_bound_reached_but_not_judged", 1)
	}
	res.Count("chatter_messages_written_inside_a_stretch", chatMsgs)
	res.Count("chatter_longest_stretch_lower_bound_ms_summed_over_scenarios", chatHeldMs)
	for kd := range kindsSeen {
		res.Count("chatter_kind_sent_"+kd, 1)
	}
	honestAsked := 0
	for _, g := range getdatas {
		if g.What == "honest" {
			honestAsked++
		}
	}
	if honestAsked > 0 {
		res.Count("chatter_calls_whose_request_reached_an_answering_peer", 1)
	}

	// ---- rule (1) for every call that returned; a call that was handed the
	// true block (every peer here is untainted) succeeds ----
	for _, c := range calls {
		if c.End == 0 {
			continue
		}
		res.Count("calls", 1)
		truth := w.G.Lookup(c.Hash)
		switch {
		case c.OK:
			res.Count("successes", 1)
			got := c.blk.MsgBlock()
			switch {
			case got.BlockHash() != c.Hash || *c.blk.Hash() != c.Hash:
				res.Violate(evid.Sig("c06/returned-block-differs", "header-hash", "chatter:"+c.What),
					fmt.Sprintf("GetBlock(%s) returned a block whose header hash is %s", c.HashStr, got.BlockHash().String()[:12]), witness(nil))
			case !bytes.Equal(ser(got, c.Base), ser(truth.Block, c.Base)):
				res.Violate(evid.Sig("c06/returned-block-differs", diffWhat(got, truth.Block), "chatter:"+c.What),
					fmt.Sprintf("GetBlock(%s) (height %d) returned a block that is not the block with that hash: %s", c.HashStr, c.Height, diffWhat(got, truth.Block)), witness(nil))
			case c.Base && !bytes.Equal(ser(got, false), ser(truth.Block, false)):
				res.Violate(evid.Sig("c06/returned-block-invalid-witness-commitment", "base-encoding", diffWhat(got, truth.Block)),
					fmt.Sprintf("GetBlock(%s, BaseEncoding) returned the right transactions with witness data that does not match the block's witness commitment: %s", c.HashStr, diffWhat(got, truth.Block)), witness(nil))
			case c.What == "H" && honestAsked == 0:
				res.Violate(evid.Sig("c06/returned-without-valid-response", "chatter"),
					fmt.Sprintf("GetBlock(%s) returned a block although no peer had sent the block with that hash", c.HashStr), witness(nil))
			default:
				if c.Base {
					res.Count("returned_blocks_identical_nonwitness_serialisation", 1)
				} else {
					res.Count("returned_blocks_identical_witness_serialisation", 1)
				}
			}
		default:
			res.Count("errors", 1)
			res.Count("error_"+errClass(c.Err), 1)
			if errClass(c.Err) == "shutting-down" {
				break
			}
			if c.What != "H" || honestAsked > 0 && !(c.Base && HasWitness(truth.Block)) {
				res.Violate(evid.Sig("c06/error-despite-valid-response", "chatter:"+c.What, witStr(w, c.Hash)),
					fmt.Sprintf("GetBlock(%s) failed with %q although a peer that had sent nothing invalid delivered the true block while the call was active", c.HashStr, c.Err), witness(nil))
			}
		}
	}
	// Nothing any peer sent here is invalid: nobody is banned.
	for _, p := range w.Peers {
		if banned[p.Addr] {
			res.Violate(evid.Sig("c06/innocent-peer-banned", "chatter", roles[p.Addr]),
				fmt.Sprintf("peer %s (%s) sent only valid blocks and well-formed messages yet IsBanned reports it banned", p.Addr, roles[p.Addr]), witness(nil))
		}
	}

	hOut := "pending"
	switch {
	case hc.End != 0 && hc.OK:
		hOut = "ok"
	case hc.End != 0:
		hOut = "err-" + errClass(hc.Err)
	}
	var seq []string
	for _, g := range getdatas {
		seq = append(seq, g.What)
	}
	res.Mark(fmt.Sprintf("chatter|mix=%s|at=%s|honest=%d|silent-at-end=%v|enc=%s|requests=%s|stretch=%s|call=%s",
		plan.Mix, map[bool]string{false: "first", true: "later"}[plan.Later], plan.Honest, plan.FallsSilent,
		map[bool]string{true: "base", false: "witness"}[plan.Base], strings.Join(seq, ","), outcome, hOut))
	res.Count("chatter_call_for_H_"+hOut, 1)
	res.Count("chatter_stretch_"+outcome, 1)
	// Non-trivial: the request reached the talkative peer, which talked inside
	// the stretch, and the call came to an end or the stretch was judged.
	res.Nontrivial = chatMsgs > 0 && (hc.End != 0 || outcome == "held-by-talk")
	res.Count("events_logged", w.Log.Len())
	res.Sample = map[string]any{"scenario": k, "fingerprint": plan.Describe(), "plan": plan, "roles": roles, "H_height": H.Height,
		"requests": seq, "chatter_messages": chatMsgs, "longest_stretch_lower_bound_ms": chatHeldMs, "call_for_H": hOut, "call_ms": hc.DurMs}
}
