package c06

// Header-lookup scenarios: rule (1) of C06 ("every block the client returns
// for a hash has exactly that header hash") is unconditional, so it is also
// observed in executions in which the block header store the client consults
// answers the lookup of ONE hash H with the header (and height) of ANOTHER
// block X of the generated tree: the model of a hash->height index entry that
// points at a flat-file slot holding another header (a stale slot after a
// re-org, an entry one slot off). The store is the one the application can
// hand the client: ChainService.BlockHeaders is an exported field holding the
// headerfs.BlockHeaderStore interface; after NewChainService and before Start
// the scenario wraps it with a forwarder that is transparent for everything
// but FetchHeader(H). The complete client then syncs from simulated peers and
// GetBlock is called for H (both encodings, repeated), for X, and for other
// blocks, while the peers answer getdata(H) with the true block H, with the
// valid block X, with both, with mutated variants of either, or not at all.
// The oracle is the property's: whatever is returned or cached for H is the
// generator's block H; an error is fine.

import (
	"fmt"
	"math/rand"
	"sort"
	"strings"
	"sync/atomic"
	"time"

	"github.com/btcsuite/btcd/chainhash/v2"
	"github.com/btcsuite/btcd/wire/v2"
	"github.com/lightninglabs/neutrino"
	"github.com/lightninglabs/neutrino/banman"
	"github.com/lightninglabs/neutrino/headerfs"

	"verif/internal/chaingen"
	"verif/internal/evid"
	"verif/internal/l2"
)

// skewedStore forwards everything to the client's own block header store,
// except that FetchHeader(h) — once the real store knows h — answers with the
// header and height of another block.
type skewedStore struct {
	headerfs.BlockHeaderStore
	h      chainhash.Hash
	hdr    wire.BlockHeader
	height uint32
	skewed atomic.Int64 // lookups of h answered with the other header
	early  atomic.Int64 // lookups of h the real store could not answer yet
	plain  atomic.Int64 // lookups by hash forwarded unchanged
}

func (s *skewedStore) FetchHeader(h *chainhash.Hash) (*wire.BlockHeader, uint32, error) {
	hd, height, err := s.BlockHeaderStore.FetchHeader(h)
	if *h != s.h {
		s.plain.Add(1)
		return hd, height, err
	}
	if err != nil {
		s.early.Add(1)
		return hd, height, err
	}
	s.skewed.Add(1)
	o := s.hdr
	return &o, s.height, nil
}

// LookupCall is one GetBlock call of a lookup scenario.
type LookupCall struct {
	// Target: "H" (the hash whose lookup is answered with X's header), "X"
	// (the block the lookup answers with), "plain" (any other block).
	Target  string
	Base    bool   `json:",omitempty"`
	Retries uint8  `json:",omitempty"`
	Stream  []Step `json:",omitempty"`
	Why     string
}

// LookupPlan is one lookup scenario: a pure function of (seed, k); the first
// NumFixedLookupPlans do not depend on the seed.
type LookupPlan struct {
	Seed     int64
	K        int
	Fixed    bool
	Peers    int
	ChainLen int
	Preset   int
	// Rel: which block X the lookup of H answers with: "sibling" (same
	// parent and height, never announced to the client: the re-orged-out
	// block whose header still sits in the slot), "parent", "child" (the
	// neighbouring slots), "far" (another height of the chain).
	Rel    string
	Groups [][]LookupCall // calls of one group run concurrently
}

// NumFixedLookupPlans is the number of seed-independent scenarios at the start
// of the list.
const NumFixedLookupPlans = 2

var lookupRels = []string{"sibling", "child", "parent", "far"}

// MakeLookupPlan derives lookup scenario k.
func MakeLookupPlan(seed int64, k int) LookupPlan {
	st := func(ks ...Kind) []Step {
		var s []Step
		for _, kd := range ks {
			s = append(s, Step{K: kd})
		}
		return s
	}
	one := func(c LookupCall) []LookupCall { return []LookupCall{c} }
	switch k {
	case 0:
		// The stale slot: X is the sibling of H. The peers answer the first
		// request for H with the valid block X alone, later ones with the true
		// block, and the non-witness request with both.
		return LookupPlan{Seed: 606_100, K: k, Fixed: true, Peers: 3, ChainLen: 80, Preset: chaingen.PresetNoRetarget, Rel: "sibling",
			Groups: [][]LookupCall{
				one(LookupCall{Target: "plain", Why: "another block (the wrapped store is transparent)"}),
				one(LookupCall{Target: "H", Retries: 2, Stream: st(KOther, KOther), Why: "answered with the valid block X only"}),
				one(LookupCall{Target: "H", Retries: 1, Stream: st(KHonest), Why: "same hash again, answered with the true block (cache?)"}),
				one(LookupCall{Target: "H", Base: true, Retries: 2, Stream: st(KOtherHonest, KOtherHonest), Why: "non-witness request answered with X and the true block"}),
				one(LookupCall{Target: "X", Retries: 1, Why: "the sibling itself: no header, must fail"}),
				one(LookupCall{Target: "plain", Why: "another block afterwards"}),
			}}
	case 1:
		// The entry is one slot off: X is the child of H. X is fetched first
		// (and must be X); the first request for H is answered with the true
		// block, the retry with X; then concurrently with another call, with a
		// mutated X first; then with an invalid block under H's own header.
		return LookupPlan{Seed: 606_101, K: k, Fixed: true, Peers: 4, ChainLen: 100, Preset: chaingen.PresetRetarget, Rel: "child",
			Groups: [][]LookupCall{
				one(LookupCall{Target: "X", Why: "the block the lookup answers with, under its own hash"}),
				one(LookupCall{Target: "H", Retries: 2, Stream: st(KHonest, KOther), Why: "true block first, the retry answered with X"}),
				{{Target: "H", Base: true, Retries: 2, Stream: st(KOtherMut, KOtherHonest), Why: "mutated X, then X and the true block"},
					{Target: "plain", Why: "concurrent bystander call"}},
				one(LookupCall{Target: "H", Retries: 2, Stream: st(KMutValue, KOther), Why: "repeat: invalid block under H's header, then X"}),
				one(LookupCall{Target: "plain", Why: "another block afterwards"}),
			}}
	}

	r := rand.New(rand.NewSource(seed*1_000_003 + int64(k)*611_953 + 60_607))
	p := LookupPlan{Seed: seed*1_000_003 + 700_000 + int64(k), K: k}
	p.Peers = 2 + r.Intn(3)
	p.ChainLen = 60 + r.Intn(101)
	p.Preset = k % chaingen.NumPresets
	p.Rel = lookupRels[mod(k+int(seed), len(lookupRels))]
	// What a peer may send for getdata(H): the true block, X, both, mutated
	// variants of either, nothing.
	slot := 0
	step := func() Step {
		slot++
		switch c := r.Intn(10); {
		case c < 3:
			return Step{K: KOther}
		case c < 5:
			return Step{K: KOtherHonest}
		case c == 5:
			return Step{K: KHonest}
		case c == 6:
			return Step{K: KOtherMut}
		case c == 7:
			return Step{K: KOtherMutHonest}
		case c == 8:
			return Step{K: BanKinds[mod(k*3+slot+int(seed), len(BanKinds))]}
		}
		return Step{K: KNothing}
	}
	carriesX := func(s []Step) bool {
		for _, x := range s {
			if x.K == KOther || x.K == KOtherHonest {
				return true
			}
		}
		return false
	}
	// A client that judges an answer against another header than the
	// requested one may ban its sender; so that such a client is not left
	// without peers (its calls would then only end by the watchdog), at most
	// Peers-1 steps of a scenario are of a kind that could be held against
	// the sender under ANY header: everything but the true block, silence,
	// and the valid block X in the full (witness) encoding.
	budget := p.Peers - 1
	hCall := func(base bool, why string, needX bool) LookupCall {
		c := LookupCall{Target: "H", Base: base, Why: why}
		for i, n := 0, 1+r.Intn(2); i < n; i++ {
			c.Stream = append(c.Stream, step())
		}
		if needX && !carriesX(c.Stream) {
			// Every scenario has a call for H during which the valid block X
			// is delivered.
			c.Stream[len(c.Stream)-1] = Step{K: []Kind{KOther, KOtherHonest}[r.Intn(2)]}
		}
		for i, x := range c.Stream {
			if x.K == KHonest || x.K == KNothing || !base && (x.K == KOther || x.K == KOtherHonest) {
				continue
			}
			if budget > 0 {
				budget--
				continue
			}
			c.Stream[i] = Step{K: KOther}
			c.Base = false
		}
		c.Retries = uint8(len(c.Stream))
		return c
	}
	if p.Rel != "sibling" && r.Intn(2) == 0 {
		p.Groups = append(p.Groups, one(LookupCall{Target: "X", Why: "the block the lookup answers with, under its own hash"}))
	}
	if r.Intn(3) != 0 {
		p.Groups = append(p.Groups, one(LookupCall{Target: "plain", Why: "another block (the wrapped store is transparent)"}))
	}
	firstBase := r.Intn(3) == 0
	first := hCall(firstBase, "first request for H", true)
	if r.Intn(3) == 0 {
		p.Groups = append(p.Groups, []LookupCall{first, {Target: "plain", Why: "concurrent bystander call"}})
	} else {
		p.Groups = append(p.Groups, one(first))
	}
	for i, n := 0, 1+r.Intn(3); i < n; i++ {
		switch r.Intn(4) {
		case 0:
			p.Groups = append(p.Groups, one(hCall(firstBase, "same hash and encoding again (cache?)", false)))
		case 1:
			p.Groups = append(p.Groups, one(hCall(!firstBase, "same hash, other encoding", false)))
		case 2:
			p.Groups = append(p.Groups, []LookupCall{hCall(r.Intn(2) == 0, "concurrent calls for H", false), hCall(r.Intn(2) == 0, "concurrent calls for H", false)})
		default:
			p.Groups = append(p.Groups, one(LookupCall{Target: "plain", Why: "another block in between"}))
		}
	}
	if p.Rel == "sibling" && r.Intn(2) == 0 {
		p.Groups = append(p.Groups, one(LookupCall{Target: "X", Retries: 1, Why: "the sibling itself: no header, must fail"}))
	}
	p.Groups = append(p.Groups, one(LookupCall{Target: "plain", Why: "another block afterwards"}))
	return p
}

func streamStr(s []Step) string {
	var o []string
	for _, x := range s {
		o = append(o, x.String())
	}
	return strings.Join(o, ",")
}

// Describe is the scenario-level fingerprint.
func (p LookupPlan) Describe() string {
	var gs []string
	for _, g := range p.Groups {
		var cs []string
		for _, c := range g {
			t := c.Target
			if c.Base {
				t += ":base"
			}
			if len(c.Stream) > 0 {
				t += "[" + streamStr(c.Stream) + "]"
			}
			cs = append(cs, t)
		}
		gs = append(gs, strings.Join(cs, "|"))
	}
	return fmt.Sprintf("header-lookup rel=%s peers=%d {%s}", p.Rel, p.Peers, strings.Join(gs, " "))
}

// LookupScenario runs lookup scenario k of the (seed, tier) case list in this
// process.
func LookupScenario(seed int64, k int, res *l2.Result) {
	plan := MakeLookupPlan(seed, k)
	res.Name = fmt.Sprintf("c06-lookup-%d", k)
	res.Fingerprint = plan.Describe()
	res.Count("lookup_scenarios", 1)
	if plan.Fixed {
		res.Count("lookup_fixed_scenarios", 1)
	}
	res.Count("lookup_rel_"+plan.Rel, 1)

	w := l2.NewWorld(l2.Config{Seed: plan.Seed, Preset: plan.Preset, Interval: 8, SpacingSec: 4, GenesisAgo: 2 * time.Hour})
	defer w.Cleanup()
	trunk := w.G.Extend(w.G.Genesis, plan.ChainLen, chaingen.PaceNormal)
	tip := trunk[len(trunk)-1]

	// ---- H and X ----
	selRng := rand.New(rand.NewSource(plan.Seed ^ 0x5e1))
	var infos []blkInfo
	for _, n := range trunk {
		infos = append(infos, blkInfo{n: n, wit: HasWitness(n.Block), ntx: len(n.Block.Transactions)})
	}
	// H: a block on which every kind of invalidity is effective (witness
	// data, three transactions or more) when there is one, away from the ends.
	var cand []int
	for relax := 0; relax < 2 && len(cand) == 0; relax++ {
		for i := 3; i < len(infos)-3; i++ {
			if relax == 0 && (!infos[i].wit || infos[i].ntx < 3) {
				continue
			}
			cand = append(cand, i)
		}
	}
	hi := cand[len(cand)/2]
	if !plan.Fixed {
		hi = cand[selRng.Intn(len(cand))]
	}
	H := infos[hi]
	var X *chaingen.Node
	switch plan.Rel {
	case "sibling":
		X = w.G.Extend(H.n.Parent, 1, chaingen.PaceNormal)[0]
	case "parent":
		X = trunk[hi-1]
	case "child":
		X = trunk[hi+1]
	default:
		for X == nil {
			if j := selRng.Intn(len(trunk)); j < hi-1 || j > hi+1 {
				X = trunk[j]
			}
		}
	}
	xInChain := plan.Rel != "sibling"
	if X.Block == nil || X.Hash == H.n.Hash {
		res.Inconcl("the generator produced no distinct block X")
		return
	}
	res.Count("chain_blocks", int64(len(trunk)))

	d := &director{w: w, plan: &Plan{Mode: "director"}, rng: rand.New(rand.NewSource(plan.Seed ^ 0x6c06)), trunk: trunk,
		powLimit: w.G.P.PowLimit, peerIdx: map[string]int{}, reserved: map[chainhash.Hash]bool{},
		alias: map[chainhash.Hash]*chaingen.Node{H.n.Hash: X}}
	d.reserved[H.n.Hash] = true
	d.reserved[X.Hash] = true
	for i := 0; i < plan.Peers; i++ {
		p := w.AddPeer(tip)
		d.peerIdx[p.Addr] = i
		p.Mutate = d.mutate
	}
	pick := func() blkInfo {
		d.mu.Lock()
		defer d.mu.Unlock()
		for try := 0; ; try++ {
			c := infos[selRng.Intn(len(infos))]
			if !d.reserved[c.n.Hash] || try > 2000 {
				d.reserved[c.n.Hash] = true
				return c
			}
		}
	}

	// ---- the client, with the wrapped header store ----
	var store *skewedStore
	opts := l2.ClientOpts{BeforeStart: func(svc *neutrino.ChainService) {
		store = &skewedStore{BlockHeaderStore: svc.BlockHeaders, h: H.n.Hash, hdr: X.Hdr, height: uint32(X.Height)}
		svc.BlockHeaders = store
	}}
	if err := w.StartClient(nil, opts); err != nil {
		res.Inconcl("client start failed: " + err.Error())
		return
	}
	if store == nil {
		res.Inconcl("the header store was not wrapped")
		_, _ = w.StopClient(60 * time.Second)
		return
	}
	if !l2.WaitFor(90*time.Second, func() bool { return w.SyncedTo(tip) }) {
		res.Inconcl("initial sync did not complete within 90 s")
		_, _ = w.StopClient(60 * time.Second)
		return
	}
	l2.WaitFor(10*time.Second, func() bool { return int(w.Svc.ConnectedCount()) == plan.Peers })
	// Precondition: the lookup of H now yields a header that does not hash to
	// H, every other lookup is untouched.
	if hd, _, err := w.Svc.BlockHeaders.FetchHeader(&H.n.Hash); err != nil || hd.BlockHash() == H.n.Hash {
		res.Inconcl("precondition: the wrapped store does not answer the lookup of H with another header")
		_, _ = w.StopClient(60 * time.Second)
		return
	}
	if hd, _, err := w.Svc.BlockHeaders.FetchHeader(&tip.Hash); err != nil || hd.BlockHash() != tip.Hash {
		res.Inconcl("precondition: the wrapped store is not transparent for other hashes")
		_, _ = w.StopClient(60 * time.Second)
		return
	}

	pre := store.skewed.Load() // the harness's own lookup above

	// ---- the calls ----
	var calls []*callRec
	target := map[*callRec]string{}
	aborted := false
	for gi, g := range plan.Groups {
		if aborted {
			break
		}
		// Steering only: a call made while no peer is connected waits for one.
		if !l2.WaitFor(5*time.Second, func() bool { return w.Svc.ConnectedCount() > 0 }) {
			res.Inconcl("no peer is connected any more; remaining calls skipped")
			break
		}
		var recs []*callRec
		streams := map[streamKey][]Step{}
		for _, lc := range g {
			rec := &callRec{Plan: CallPlan{ID: len(calls), SameAs: -1, Base: lc.Base, Retries: lc.Retries, Stream: lc.Stream, Why: lc.Why},
				Group: gi, GroupN: len(g)}
			switch lc.Target {
			case "H":
				rec.Hash, rec.Height, rec.Wit, rec.NTx = H.n.Hash, H.n.Height, H.wit, H.ntx
			case "X":
				rec.Hash, rec.Height, rec.Wit, rec.NTx = X.Hash, X.Height, HasWitness(X.Block), len(X.Block.Transactions)
				rec.Plan.Unknown = !xInChain
			default:
				bi := pick()
				rec.Hash, rec.Height, rec.Wit, rec.NTx = bi.n.Hash, bi.n.Height, bi.wit, bi.ntx
			}
			rec.HashStr = rec.Hash.String()[:12]
			key := streamKey{rec.Hash, lc.Base}
			streams[key] = append(streams[key], lc.Stream...)
			target[rec] = lc.Target
			recs = append(recs, rec)
			calls = append(calls, rec)
		}
		d.setStreams(streams)
		execCalls(w, recs)
		for _, rec := range recs {
			aborted = aborted || rec.Hung
		}
	}
	d.setStreams(nil)
	if aborted {
		res.Inconcl("a GetBlock call did not return within 120 s (watchdog); remaining calls skipped")
	}

	// ---- observations at the end, client still running ----
	type banRec struct {
		Addr   string
		Banned bool
		Reason string `json:",omitempty"`
		Live   bool
	}
	var bans []banRec
	witness := func(extra map[string]any) any {
		d.mu.Lock()
		ans := append([]*Answer(nil), d.answers...)
		d.mu.Unlock()
		m := map[string]any{"plan": plan, "H": H.n.Hash.String(), "H_height": H.n.Height, "X": X.Hash.String(), "X_height": X.Height,
			"lookups_of_H_answered_with_X": store.skewed.Load() - pre, "calls": calls, "answers": ans, "bans": bans,
			"event_log_tail": w.Log.Tail(80)}
		for k, v := range extra {
			m[k] = v
		}
		return m
	}
	wit := func() any { return witness(nil) }

	// (2) every cache entry is the true block under its key.
	res.Count("cache_entries_verified", int64(checkCache(res, w, d, witness)))

	// The ban store, read next to the running client.
	status := map[string]banman.Status{}
	if bs, err := banman.NewStore(w.DB); err != nil {
		res.Inconcl("cannot open the ban store next to the client: " + err.Error())
	} else {
		for _, p := range w.Peers {
			ipn, err := banman.ParseIPNet(p.Addr, nil)
			if err != nil {
				continue
			}
			st, err := bs.Status(ipn)
			if err != nil {
				res.Inconcl("ban status unreadable: " + err.Error())
				continue
			}
			status[p.Addr] = st
			br := banRec{Addr: p.Addr, Banned: st.Banned, Live: w.Svc.IsBanned(p.Addr)}
			if st.Banned {
				br.Reason = st.Reason.String()
			}
			bans = append(bans, br)
		}
	}
	stopOK, _ := w.StopClient(90 * time.Second)
	if !stopOK {
		res.Inconcl("Stop did not return within 90 s (C17's subject)")
		return
	}

	d.mu.Lock()
	answers := append([]*Answer(nil), d.answers...)
	d.mu.Unlock()
	inCall := func(a *Answer) *callRec {
		for _, c := range calls {
			if c.Hash == a.Hash && c.Plan.Base == a.Base && c.Start < a.RxSeq && a.RxSeq < c.End && !c.Hung {
				return c
			}
		}
		return nil
	}
	suspect := func(a *Answer) bool {
		return a.Class == "bad" || a.Class == "mixed" || a.Class == "ambig" || a.Class == "garbage" || a.Class == "senderr"
	}
	tainted := func(a *Answer) bool { // the peer had sent something invalid before
		for _, b := range answers {
			if b.Peer == a.Peer && b.RxSeq < a.RxSeq && suspect(b) {
				return true
			}
		}
		return false
	}
	xHash := X.Hash.String()
	for _, a := range answers {
		res.Count("getdata_block_received", 1)
		res.Count("served_"+a.Step, 1)
		res.Count("answer_class_"+a.Class, 1)
		if a.Hash != H.n.Hash {
			continue
		}
		res.Count("lookup_requests_for_H_reaching_a_peer", 1)
		for _, pt := range a.Parts {
			switch {
			case pt.Label == "other" && pt.Hdr == xHash && !pt.OtherInvalid && pt.SanityErr == "" && pt.CommitErr == "" && !pt.SendErr:
				res.Count("lookup_valid_block_X_sent_for_H", 1)
			case pt.Label == "other" && pt.Hdr == xHash && !pt.SendErr:
				res.Count("lookup_mutated_block_X_sent_for_H", 1)
			case pt.Label == "good":
				res.Count("lookup_true_block_sent_for_H", 1)
			case pt.Label == "bad":
				res.Count("lookup_invalid_block_with_header_H_sent", 1)
			}
		}
	}

	// (3) per peer: the sender of an invalid block with the requested header
	// is banned; a peer that sent only other things is not.
	requested := map[string]bool{}
	for _, c := range calls {
		requested[c.Hash.String()] = true
	}
	for i, p := range w.Peers {
		st, ok := status[p.Addr]
		if !ok {
			continue
		}
		var must *Answer
		anyBad, anyAmbig := false, false
		classes := map[string]bool{}
		for _, a := range answers {
			if a.Peer != i {
				continue
			}
			classes[a.Class] = true
			for _, pt := range a.Parts {
				switch {
				case pt.Label == "bad":
					anyBad = true
				case pt.Label == "ambig":
					anyAmbig = true
				case pt.OtherInvalid && requested[pt.Hdr] && pt.Hdr != xHash:
					// An invalid bystander block whose header another call
					// asked for: the client may see it as an answer to that.
					anyBad = true
				}
			}
			if a.Class == "bad" && inCall(a) != nil && must == nil {
				must = a
			}
		}
		// A mutated X is "a block with a requested header that differs from
		// the true block" only for a call that requested X while it was sent.
		for _, a := range answers {
			if a.Peer != i {
				continue
			}
			for _, pt := range a.Parts {
				if pt.OtherInvalid && pt.Hdr == xHash && xInChain {
					for _, c := range calls {
						if c.Hash == X.Hash && c.End > a.RxSeq {
							anyBad = true
						}
					}
				}
			}
		}
		invalidBan := st.Banned && st.Reason == banman.InvalidBlock
		var cl []string
		for c := range classes {
			cl = append(cl, c)
		}
		sort.Strings(cl)
		switch {
		case must != nil && !invalidBan:
			how := "not-banned"
			if st.Banned {
				how = "banned-for-another-reason"
			}
			res.Violate(evid.Sig("c06/invalid-block-sender-not-banned", must.Step, witStr(w, must.Hash), how, "header-lookup:"+plan.Rel),
				fmt.Sprintf("peer %s answered the request for block %s (height %d) with a block carrying that header but differing from it (%s) while the call was active, and is %s",
					p.Addr, must.HashStr, must.Height, must.Step, how), wit())
		case !anyBad && !anyAmbig && invalidBan:
			res.Violate(evid.Sig("c06/innocent-peer-banned", "header-lookup:"+plan.Rel, strings.Join(cl, "+")),
				fmt.Sprintf("peer %s never sent a block with a requested header that differs from the true block (answer classes: %v) yet is banned for InvalidBlock", p.Addr, cl), wit())
		}
		if invalidBan {
			res.Count("peers_banned_invalid_block", 1)
		}
	}

	// (1) per call; and a call for a block whose lookup is untouched that was
	// handed the true block by a peer that had sent nothing invalid succeeds.
	plainOK := false
	marks := map[string]bool{}
	for _, c := range calls {
		if c.Hung {
			c.Verdict = "watchdog"
			continue
		}
		tg := target[c]
		res.Count("calls", 1)
		res.Count("lookup_calls_target_"+tg, 1)
		var mine []*Answer
		var steps []string
		validSeen, cleanGood := false, false
		for _, a := range answers {
			if a.Hash != c.Hash || a.Base != c.Plan.Base {
				continue
			}
			if a.RxSeq < c.End && (a.Class == "good" || a.Class == "mixed" || a.Class == "ambig") {
				validSeen = true
			}
			if c.Start < a.RxSeq && a.RxSeq < c.End {
				mine = append(mine, a)
				steps = append(steps, a.Step+"→"+a.Class)
				if a.Class == "good" && !tainted(a) {
					cleanGood = true
				}
			}
		}
		outcome := "err"
		switch {
		case c.OK:
			outcome = "ok"
			if len(mine) == 0 {
				outcome = "ok-cache"
				res.Count("calls_answered_without_network", 1)
			}
			res.Count("successes", 1)
			res.Count("lookup_successes_target_"+tg, 1)
			if tg != "H" {
				plainOK = true
			}
			checkReturned(res, w, c, steps, validSeen, wit)
			c.Verdict = "ok"
		default:
			c.Verdict = "err"
			res.Count("errors", 1)
			res.Count("error_"+errClass(c.Err), 1)
			res.Count("lookup_errors_target_"+tg+"_"+errClass(c.Err), 1)
			if cleanGood && tg != "H" && !c.Plan.Unknown {
				res.Violate(evid.Sig("c06/error-despite-valid-response", "header-lookup", witStr(w, c.Hash)),
					fmt.Sprintf("GetBlock(%s) failed with %q although a peer that had sent nothing invalid delivered the true block while the call was active (answers: %v)", c.HashStr, c.Err, steps), wit())
			}
		}
		conc := "seq"
		if c.GroupN > 1 {
			conc = fmt.Sprintf("conc%d", c.GroupN)
		}
		fp := fmt.Sprintf("lookup|rel=%s|target=%s|plan=%s|seen=%s|wit=%v|enc=%s|%s|%s", plan.Rel, tg, streamStr(c.Plan.Stream),
			strings.Join(stepKinds(mine), ","), c.Wit, map[bool]string{true: "base", false: "witness"}[c.Plan.Base], conc, outcome)
		if !marks[fp] {
			marks[fp] = true
			res.Mark(fp)
		}
	}

	res.Count("lookup_lookups_of_H_answered_with_Xs_header", store.skewed.Load()-pre)
	res.Count("lookup_lookups_of_H_before_its_header_was_stored", store.early.Load())
	res.Count("lookup_lookups_by_hash_forwarded_unchanged", store.plain.Load())
	// Non-trivial: the client looked H up and got X's header, and the wrapped
	// store served an ordinary call.
	res.Nontrivial = store.skewed.Load() > pre && plainOK
	res.Count("events_logged", w.Log.Len())
	var cs []map[string]any
	for _, c := range calls {
		cs = append(cs, map[string]any{"id": c.Plan.ID, "target": target[c], "why": c.Plan.Why, "height": c.Height, "base": c.Plan.Base,
			"stream": streamStr(c.Plan.Stream), "ok": c.OK, "err": c.Err, "ms": c.DurMs})
	}
	res.Sample = map[string]any{"scenario": k, "fingerprint": plan.Describe(), "rel": plan.Rel, "H_height": H.n.Height, "X_height": X.Height,
		"calls": cs, "answers": len(answers), "lookups_of_H_answered_with_X": store.skewed.Load() - pre}
}
