package c06

// Lapsed-ban scenarios: the "its sender banned" clause of C06 for FORMER
// offenders. The ban-history family (banhist.go) only produces hosts whose
// earlier ban was lifted with UnbanPeer; a ban that RAN OUT by itself would
// take BanDuration (24 h) of real time. The history is therefore built the way
// an embedding application's database would carry it: while no client runs on
// the data directory (before the first start, and between two runs), ban
// records whose expiry lies in the past are written into the client's ban
// database through the exported banman API (banman.NewStore on the same
// walletdb file the client is given in Config.Database; a ban with a negative
// duration IS a record of a ban that ran out that long ago - the same bytes).
// The records belong to hosts that will offend, to hosts that never will, and
// are also written under the address of a host's second port / in the other
// spelling of its address. Between two runs the client's OWN ban of a host can
// run out the same way (the record is replaced by one with an expiry in the
// past). Then the usual steps of the ban-history runner, and its oracle.

import (
	"fmt"
	"math/rand"
	"sort"
	"strings"
	"time"

	"github.com/btcsuite/btcwallet/walletdb"
	"github.com/lightninglabs/neutrino/banman"

	"verif/internal/chaingen"
	"verif/internal/l2"
	"verif/internal/netsim"
)

// LapsedRec is a ban record that ran out by itself.
type LapsedRec struct {
	Host int
	// AgoSec: the ban ran out this many seconds before the record is written
	// (which is at most a few seconds before the client looks at it).
	AgoSec int64
	Reason uint8 // banman.Reason of the old ban
	// OtherPort: the record is written under the address of the host's second
	// port (the same IP); AltSpelling: in the other spelling of the address.
	OtherPort   bool `json:",omitempty"`
	AltSpelling bool `json:",omitempty"`
	// Filled in when the record is written: "before-start" | "at-restart", and
	// whether it replaced a ban of this client that was in force (that ban
	// running out).
	When string `json:",omitempty"`
	Own  bool   `json:",omitempty"`
}

// agoClass normalises how long ago a ban ran out.
func agoClass(sec int64) string {
	switch {
	case sec < 60:
		return "seconds"
	case sec < 24*3600:
		return "hours"
	case sec < 48*3600:
		return "1-2d"
	case sec < 72*3600:
		return "2-3d"
	case sec < 14*86400:
		return "days"
	}
	return "weeks+"
}

// lapsedAgo are the ranges (seconds) the random scenarios draw from, one per
// class of agoClass.
var lapsedAgo = [][2]int64{
	{1, 59}, {3600, 23 * 3600}, {24*3600 + 60, 48*3600 - 60}, {48*3600 + 60, 72*3600 - 60},
	{3 * 86400, 13 * 86400}, {14 * 86400, 400 * 86400},
}

var lapsedReasons = []banman.Reason{banman.InvalidBlock, banman.NoCompactFilters, banman.ExceededBanThreshold,
	banman.InvalidFilterHeader, banman.InvalidFilterHeaderCheckpoint}

func describeLapsed(recs []LapsedRec) string {
	var s []string
	for _, rc := range recs {
		t := fmt.Sprintf("%d:%s:r%d", rc.Host, agoClass(rc.AgoSec), rc.Reason)
		if rc.OtherPort {
			t += ":other-port"
		}
		if rc.AltSpelling {
			t += ":alt-spelling"
		}
		s = append(s, t)
	}
	return "{" + strings.Join(s, ",") + "}"
}

// writeLapsed writes the records into db (which nothing else has open) through
// the exported banman API and updates the model: whatever the host's state
// was, its only record now is a ban that ran out.
func writeLapsed(db walletdb.DB, hosts []*banHost, recs []LapsedRec, log *netsim.Log, res *l2.Result, when string) error {
	st, err := banman.NewStore(db)
	if err != nil {
		return err
	}
	for _, rc := range recs {
		rc := rc
		h := hosts[rc.Host]
		addr := h.Ports[0]
		if rc.OtherPort && len(h.Ports) > 1 {
			addr = h.Ports[1]
		}
		if rc.AltSpelling {
			addr = h.alt(addr)
		}
		ipn, err := banman.ParseIPNet(addr, nil)
		if err != nil {
			return err
		}
		// The record REPLACES whatever is there (what a repeated ban does to
		// an existing record is the store's business, not the scenario's).
		if err := st.UnbanIPNet(ipn); err != nil {
			return err
		}
		if err := st.BanIPNet(ipn, banman.Reason(rc.Reason), -time.Duration(rc.AgoSec)*time.Second); err != nil {
			return err
		}
		seq := log.Add("client", "ev", "c06-lapsed", fmt.Sprintf("host=%d written as %s: ban for reason %d that ran out %s ago (%s)",
			rc.Host, addr, rc.Reason, time.Duration(rc.AgoSec)*time.Second, when))
		rc.When = when
		cls := agoClass(rc.AgoSec)
		if h.Banned == "yes" {
			rc.Own = true
			if n := len(h.Spans); n > 0 {
				h.Spans[n-1][1] = seq
			}
			h.Hist = append(h.Hist, "ban-lapsed:"+cls)
			res.Count("lapsed_own_bans_run_out_between_two_runs", 1)
		} else {
			h.Hist = append(h.Hist, "lapsed-record:"+cls)
		}
		h.Banned = "no"
		h.Lapsed = &rc
		res.Count("lapsed_records_written_"+when, 1)
		res.Count("lapsed_records_ran_out_"+cls+"_ago", 1)
		res.Count(fmt.Sprintf("lapsed_records_reason_%d", rc.Reason), 1)
		if h.Offender {
			res.Count("lapsed_records_for_hosts_that_may_offend", 1)
		} else {
			res.Count("lapsed_records_for_hosts_that_never_offend", 1)
		}
		if rc.OtherPort && len(h.Ports) > 1 {
			res.Count("lapsed_records_written_under_the_hosts_other_port", 1)
		}
		if rc.AltSpelling {
			res.Count("lapsed_records_written_in_the_other_spelling", 1)
		}
	}
	return nil
}

// NumFixedLapsedPlans is the number of seed-independent scenarios at the start
// of the lapsed-ban list.
const NumFixedLapsedPlans = 2

// MakeLapsedPlan derives lapsed-ban scenario k: a pure function of (seed, k);
// the first NumFixedLapsedPlans do not depend on the seed.
func MakeLapsedPlan(seed int64, k int) BanPlan {
	const hour, day = int64(3600), int64(86400)
	off := func(kinds []Kind, hosts ...int) BanOp { return BanOp{Op: "offend", Hosts: hosts, Kinds: kinds} }
	unban := func(host int, other, perm bool) BanOp {
		return BanOp{Op: "unban", Hosts: []int{host}, OtherPort: []bool{other}, Permanent: []bool{perm}}
	}
	lr := func(host int, ago int64, reason banman.Reason) LapsedRec {
		return LapsedRec{Host: host, AgoSec: ago, Reason: uint8(reason)}
	}
	switch k {
	case 0:
		// IPv4. Offender 0's ban for an invalid block ran out 25 h ago,
		// offender 1 (two ports; the record is written under the other one)
		// was banned for something else until 49 h ago, offender 2 (told as
		// mapped IPv6; record written in that spelling) until a second ago;
		// honest hosts 3 and 4 carry records that ran out 30 days / 49 h ago,
		// honest host 5 none. Everybody syncs and serves; the offenders
		// offend; between two runs offender 0's NEW ban runs out as well (26 h
		// ago) and honest host 3 gets another old record; 0 offends again; 1
		// is un-banned, comes back on its other port and offends.
		with := func(rc LapsedRec, other, alt bool) LapsedRec { rc.OtherPort, rc.AltSpelling = other, alt; return rc }
		return BanPlan{Seed: 606_100, K: k, Fixed: true, Family: "lapsed", Offenders: 3, Honest: 3, TwoPorts: []bool{false, true, false},
			Layout: "fixed-v4", Addrs: []HostAddr{fixedV4("10.6.10.1", false, false), fixedV4("10.6.10.2", false, false),
				fixedV4("172.20.9.3", false, true), fixedV4("10.6.10.4", false, false), fixedV4("10.6.10.5", true, false),
				fixedV4("10.6.10.6", false, false)},
			Lapsed: []LapsedRec{lr(0, 25*hour, banman.InvalidBlock), with(lr(1, 49*hour, banman.NoCompactFilters), true, false),
				with(lr(2, 1, banman.InvalidFilterHeader), false, true), lr(3, 30*day, banman.InvalidBlock),
				with(lr(4, 49*hour+17, banman.ExceededBanThreshold), false, true)},
			ChainLen: 90, Preset: chaingen.PresetNoRetarget, Ops: []BanOp{
				{Op: "honest", Calls: 2},
				off([]Kind{KMutValue, KStripAll}, 0, 1),
				off([]Kind{KAddTx}, 2),
				{Op: "restart", Lapse: []LapsedRec{lr(0, 26*hour, banman.InvalidBlock), lr(3, 3*hour, banman.InvalidFilterHeaderCheckpoint)}},
				{Op: "honest", Calls: 1},
				off([]Kind{KRemoveTx}, 0),
				unban(1, true, false),
				off([]Kind{KCommitAltered}, 1),
			}}
	case 1:
		// IPv6 and mapped spellings; the old records survive a restart during
		// which nobody offends. Offender 0: IPv4 told as mapped IPv6 (two
		// ports), old ban ran out 30 days ago; offender 1: IPv6 told expanded,
		// 25 h ago; honest host 2 lives in offender 1's /64 and has an old
		// record too; honest host 3 none. Between two runs both new bans run
		// out (100 h / 1 s ago); both offend again.
		r0 := lr(0, 30*day, banman.InvalidFilterHeaderCheckpoint)
		r0.OtherPort, r0.AltSpelling = true, true
		return BanPlan{Seed: 606_101, K: k, Fixed: true, Family: "lapsed", Offenders: 2, Honest: 2, TwoPorts: []bool{true, false},
			Layout: "fixed-mapped+v6", Addrs: []HostAddr{fixedV4("10.6.11.7", true, true), fixedV6("2a01:4f8:c0:77::5:1", true, true),
				fixedV6("2a01:4f8:c0:77:21e:c2ff:fe0a:9b4", false, false), fixedV4("172.21.1.4", false, false)},
			Lapsed:   []LapsedRec{r0, lr(1, 25*hour+600, banman.InvalidBlock), lr(2, 49*hour, banman.NoCompactFilters)},
			ChainLen: 100, Preset: chaingen.PresetRetarget, Ops: []BanOp{
				{Op: "restart"},
				off([]Kind{KDupLast, KForgeWitness}, 0, 1),
				{Op: "restart", Lapse: []LapsedRec{lr(1, 100*hour, banman.InvalidBlock), lr(0, 1, banman.InvalidBlock)}},
				off([]Kind{KHeaderOnly}, 1),
				off([]Kind{KMutScript}, 0),
				{Op: "honest", Calls: 1, Repeat: true},
			}}
	}

	r := rand.New(rand.NewSource(seed*1_000_003 + int64(k)*611_953 + 61_006))
	p := BanPlan{Seed: seed*1_000_003 + 700_000 + int64(k), K: k, Family: "lapsed"}
	p.Offenders = 1 + r.Intn(3)
	p.Honest = 1 + r.Intn(2)
	p.ChainLen = 80 + r.Intn(101)
	p.Preset = k % chaingen.NumPresets
	for i := 0; i < p.Offenders; i++ {
		p.TwoPorts = append(p.TwoPorts, r.Intn(2) == 0)
	}
	layout := RotaLayout(k + int(seed) + 1)
	p.Layout = LayoutName(layout)
	p.Addrs = MakeAddrs(rand.New(rand.NewSource(seed*7_000_003+int64(k)*15_485_863+67)), p.Offenders+p.Honest, layout)

	// Classes and reasons rotate over records, scenarios and seeds.
	slotA := 0
	newRec := func(h int, own bool) LapsedRec {
		c := lapsedAgo[mod(k*5+slotA+int(seed)*2, len(lapsedAgo))]
		rc := LapsedRec{Host: h, AgoSec: c[0] + r.Int63n(c[1]-c[0]+1), Reason: uint8(lapsedReasons[mod(k+slotA*3+int(seed), len(lapsedReasons))])}
		if own {
			rc.Reason = uint8(banman.InvalidBlock)
		}
		rc.OtherPort = h < p.Offenders && p.TwoPorts[h] && r.Intn(2) == 0
		rc.AltSpelling = r.Intn(3) == 0
		slotA++
		return rc
	}
	slotK := 0
	nextKind := func() Kind {
		kd := BanKinds[mod(k*7+slotK+int(seed)*3+2, len(BanKinds))]
		slotK++
		return kd
	}

	// Records present before the first start: most offenders (one at least),
	// some honest hosts (one at least); the others are first-time controls.
	banned := make([]bool, p.Offenders)
	// lapsed[h]: 1 = h has an old record from before the start, 2 = its own
	// ban ran out between two runs; 0 = none, or offended since.
	lapsed := make([]int, p.Offenders)
	forcedO, forcedH := r.Intn(p.Offenders), p.Offenders+r.Intn(p.Honest)
	for h := 0; h < p.Offenders+p.Honest; h++ {
		switch {
		case h == forcedO || h == forcedH, h < p.Offenders && r.Intn(4) > 0, h >= p.Offenders && r.Intn(2) == 0:
			p.Lapsed = append(p.Lapsed, newRec(h, false))
			if h < p.Offenders {
				lapsed[h] = 1
			}
		}
	}
	seenRecOffence, seenOwnOffence := false, false
	restarts := 0
	subset := func(want bool, max int) []int {
		var c []int
		for i, b := range banned {
			if b == want {
				c = append(c, i)
			}
		}
		r.Shuffle(len(c), func(i, j int) { c[i], c[j] = c[j], c[i] })
		if n := 1 + r.Intn(max); len(c) > n {
			c = c[:n]
		}
		sort.Ints(c)
		return c
	}
	doOffend := func(hosts []int) {
		op := BanOp{Op: "offend", Hosts: hosts}
		for _, h := range hosts {
			op.Kinds = append(op.Kinds, nextKind())
			banned[h] = true
			seenRecOffence = seenRecOffence || lapsed[h] == 1
			seenOwnOffence = seenOwnOffence || lapsed[h] == 2
			lapsed[h] = 0
		}
		p.Ops = append(p.Ops, op)
	}
	doUnban := func(hosts []int) {
		op := BanOp{Op: "unban", Hosts: hosts}
		for _, h := range hosts {
			op.OtherPort = append(op.OtherPort, p.TwoPorts[h] && r.Intn(2) == 0)
			op.Permanent = append(op.Permanent, r.Intn(2) == 0)
			op.AltSpelling = append(op.AltSpelling, mod(k+h+len(p.Ops)+int(seed), 2) == 0)
			banned[h] = false
		}
		p.Ops = append(p.Ops, op)
	}
	// doRestart: between the two runs the bans of `own` run out; now and then
	// a host that is not banned gets (another) old record as well.
	doRestart := func(own []int, extra bool) {
		op := BanOp{Op: "restart"}
		for _, h := range own {
			op.Lapse = append(op.Lapse, newRec(h, true))
			banned[h] = false
			lapsed[h] = 2
		}
		if extra {
			var c []int
			for h := 0; h < p.Offenders+p.Honest; h++ {
				if h >= p.Offenders || !banned[h] && lapsed[h] != 2 {
					c = append(c, h)
				}
			}
			h := c[r.Intn(len(c))]
			op.Lapse = append(op.Lapse, newRec(h, false))
			if h < p.Offenders {
				lapsed[h] = 1
			}
		}
		p.Ops = append(p.Ops, op)
		restarts++
	}
	nOps := 4 + r.Intn(4)
	for len(p.Ops) < nOps {
		free, held := 0, 0
		for _, b := range banned {
			if b {
				held++
			} else {
				free++
			}
		}
		switch c := r.Intn(10); {
		case c < 4 && free > 0:
			doOffend(subset(false, 2))
		case c < 6 && restarts < 2 && (held > 0 || len(p.Ops) == 0):
			var own []int
			if held > 0 && r.Intn(4) > 0 {
				own = subset(true, 2)
			}
			doRestart(own, len(own) == 0 && len(p.Ops) > 0 || r.Intn(3) == 0)
		case c == 6 && held > 0:
			doUnban(subset(true, 1))
		case c >= 8:
			p.Ops = append(p.Ops, BanOp{Op: "honest", Calls: 1 + r.Intn(3), Repeat: r.Intn(3) == 0})
		default:
			if free > 0 {
				doOffend(subset(false, 1))
			} else if restarts < 2 {
				doRestart(subset(true, 2), false)
			} else {
				doUnban(subset(true, 1))
			}
		}
	}
	// Every scenario contains an offence by a host whose only record is an
	// old one from before the start ...
	if !seenRecOffence {
		for h, l := range lapsed {
			if l == 1 && !banned[h] {
				doOffend([]int{h})
				break
			}
		}
	}
	// ... and one by a host whose ban by THIS client ran out between two runs.
	if !seenOwnOffence {
		h := -1
		for i, l := range lapsed {
			if l == 2 && !banned[i] {
				h = i
			}
		}
		if h < 0 {
			h = r.Intn(p.Offenders)
			if !banned[h] {
				doOffend([]int{h})
			}
			doRestart([]int{h}, r.Intn(3) == 0)
		}
		doOffend([]int{h})
	}
	return p
}
