package c06

// Ban-history scenarios: the "its sender banned" clause of C06 over whole
// HISTORIES of one process run (and across restarts), through the public API
// of the complete client only: a few hosts serve invalid blocks to GetBlock,
// are banned, are un-banned with ChainService.UnbanPeer, reconnect (on the
// same or on another port of the same IP) and offend again, interleaved with
// honest peers and honest calls. A reference model of the ban state (banned
// after an invalid block was handled, not banned after UnbanPeer returned) is
// compared with the ban store and with IsBanned at quiescent checkpoints.

import (
	"fmt"
	"math"
	"math/rand"
	"os"
	"path/filepath"
	"sort"
	"strings"
	"time"

	"github.com/btcsuite/btcd/chainhash/v2"
	"github.com/btcsuite/btcwallet/walletdb"
	"github.com/lightninglabs/neutrino/banman"

	"verif/internal/chaingen"
	"verif/internal/evid"
	"verif/internal/l2"
)

// BanOp is one step of a ban-history scenario.
type BanOp struct {
	// Op: "honest" (Calls concurrent calls, nobody misbehaves), "offend"
	// (Hosts[i] answers its next block request with Kinds[i]), "unban"
	// (UnbanPeer for Hosts[i], second argument Permanent[i], on the host's
	// other port when OtherPort[i]), "restart" (the client is stopped and
	// started again on the same data directory).
	Op        string
	Hosts     []int  `json:",omitempty"`
	Kinds     []Kind `json:",omitempty"`
	OtherPort []bool `json:",omitempty"`
	Permanent []bool `json:",omitempty"`
	// AltSpelling[i]: UnbanPeer is given the other spelling of the host's
	// address (IPv4: the IPv4-mapped IPv6 form; IPv6: the expanded form).
	AltSpelling []bool `json:",omitempty"`
	Calls       int    `json:",omitempty"`
	Repeat      bool   `json:",omitempty"` // honest: one call re-requests an earlier hash
	// HangUp[i] (offend only; absent = 0): Hosts[i] closes its connection
	// after its invalid block was written completely: 1 = at once, n > 1 = n
	// milliseconds later.
	HangUp []int `json:",omitempty"`
	// Before[i] (offend only; absent = 0): Hosts[i] sends that many other
	// valid blocks in front of its invalid block.
	Before []int `json:",omitempty"`
	// Lapse (restart only): ban records that have run out by themselves,
	// written into the ban database while no client runs on it (see
	// lapsed.go). For a host that is banned at that moment this is its ban
	// lapsing: the record is replaced by one whose expiry lies in the past.
	Lapse []LapsedRec `json:",omitempty"`
}

// BanPlan is one ban-history scenario: a pure function of (seed, k); the
// first NumFixedBanPlans plans do not depend on the seed at all.
type BanPlan struct {
	Seed   int64
	K      int
	Fixed  bool
	Family string `json:",omitempty"` // "" = ban-history, "lapsed" = lapsed-ban family (lapsed.go), "hangup" (hangup.go)
	// KeepGoing: the steps go on after a violation (the scenario measures a
	// share over many independent offenders).
	KeepGoing bool `json:",omitempty"`
	// Lapsed: ban records that ran out by themselves, present in the ban
	// database BEFORE the client is started for the first time.
	Lapsed    []LapsedRec `json:",omitempty"`
	Offenders int         // hosts 0..Offenders-1 misbehave when told to
	Honest    int         // hosts Offenders.. never do
	TwoPorts  []bool      // per offender: a second simulated peer listens on another port of the same IP
	// Layout / Addrs: where the hosts live (see addrs.go): IPv4, IPv6 inside
	// one /64 or in different /64s, IPv4 told to the client as ::ffff:a.b.c.d.
	Layout   string
	Addrs    []HostAddr
	ChainLen int
	Preset   int
	Ops      []BanOp
}

// NumFixedBanPlans is the number of seed-independent scenarios at the start
// of the list.
const NumFixedBanPlans = 4

// MakeBanPlan derives ban-history scenario k.
func MakeBanPlan(seed int64, k int) BanPlan {
	off := func(kinds []Kind, hosts ...int) BanOp { return BanOp{Op: "offend", Hosts: hosts, Kinds: kinds} }
	unban := func(host int, other, perm bool) BanOp {
		return BanOp{Op: "unban", Hosts: []int{host}, OtherPort: []bool{other}, Permanent: []bool{perm}}
	}
	unbanAlt := func(host int, other, perm bool) BanOp {
		o := unban(host, other, perm)
		o.AltSpelling = []bool{true}
		return o
	}
	switch k {
	case 2:
		// IPv6 hosts. Offenders 0 and 1 and the honest host 3 live inside one
		// /64, offender 2 in a /64 of another provider (told to the client in
		// the expanded spelling), honest host 4 is an IPv4 host told as
		// ::ffff:a.b.c.d. Ban, unban (both spellings, other port), offend
		// again, over a restart.
		return BanPlan{Seed: 606_002, K: k, Fixed: true, Offenders: 3, Honest: 2, TwoPorts: []bool{false, true, false},
			Layout: "fixed-v6", Addrs: []HostAddr{
				fixedV6("2001:db8:6:1::10", false, false), fixedV6("2001:db8:6:1::11", true, false),
				fixedV6("2a01:4f8:c0:77:21e:c2ff:fe0a:9b3", false, true),
				fixedV6("2001:db8:6:1::12", false, false), fixedV4("10.6.0.9", false, true)},
			ChainLen: 100, Preset: chaingen.PresetNoRetarget, Ops: []BanOp{
				{Op: "honest", Calls: 2},
				off([]Kind{KMutValue}, 0),
				off([]Kind{KStripAll, KAddTx}, 1, 2),
				unban(0, false, false),
				off([]Kind{KForgeWitness}, 0),
				unbanAlt(1, true, true),
				off([]Kind{KDupLast}, 1),
				{Op: "restart"},
				{Op: "honest", Calls: 1},
				unbanAlt(2, false, true),
				off([]Kind{KCommitAltered}, 2),
			}}
	case 3:
		// An IPv4 offender the client knows by its IPv4-mapped IPv6 spelling,
		// an IPv6 offender with an honest neighbour in its /64, an IPv4 honest
		// host.
		return BanPlan{Seed: 606_003, K: k, Fixed: true, Offenders: 2, Honest: 2, TwoPorts: []bool{true, false},
			Layout: "fixed-mapped+v6", Addrs: []HostAddr{
				fixedV4("10.6.3.7", true, true), fixedV6("2606:4700:0:5::2:1", true, false),
				fixedV6("2606:4700:0:5:a1b2:c3d4:e5f6:789a", false, false), fixedV4("172.20.1.4", false, false)},
			ChainLen: 90, Preset: chaingen.PresetRetarget, Ops: []BanOp{
				off([]Kind{KRemoveTx, KMutScript}, 0, 1),
				unbanAlt(0, false, false),
				off([]Kind{KStripAll}, 0),
				{Op: "restart"},
				unban(1, false, true),
				off([]Kind{KHeaderOnly}, 1),
				unban(0, true, true),
				off([]Kind{KAddTx}, 0),
			}}
	}
	switch k {
	case 0:
		// One offender, one honest host: ban, unban, offend again (twice;
		// both values of UnbanPeer's second argument; a block failing the
		// sanity check, one failing only the witness commitment, one with an
		// extra transaction).
		return BanPlan{Seed: 606_000, K: k, Fixed: true, Offenders: 1, Honest: 1, TwoPorts: []bool{false},
			Layout: "fixed-v4", Addrs: []HostAddr{fixedV4("10.2.0.1", false, false), fixedV4("10.2.0.2", false, false)},
			ChainLen: 90, Preset: chaingen.PresetNoRetarget, Ops: []BanOp{
				{Op: "honest", Calls: 2},
				off([]Kind{KMutValue}, 0),
				unban(0, false, false),
				off([]Kind{KStripAll}, 0),
				unban(0, false, true),
				{Op: "honest", Calls: 1, Repeat: true},
				off([]Kind{KAddTx}, 0),
			}}
	case 1:
		// Two offenders banned in one round; one comes back on another port
		// of its IP and offends from there; the other stays banned over a
		// restart, is un-banned afterwards and offends again.
		return BanPlan{Seed: 606_001, K: k, Fixed: true, Offenders: 2, Honest: 2, TwoPorts: []bool{true, false},
			Layout: "fixed-v4", Addrs: []HostAddr{fixedV4("10.2.0.1", false, false), fixedV4("10.2.0.2", false, false),
				fixedV4("10.2.0.3", false, false), fixedV4("10.2.0.4", false, false)},
			ChainLen: 120, Preset: chaingen.PresetRetarget, Ops: []BanOp{
				off([]Kind{KDupLast, KForgeWitness}, 0, 1),
				unban(0, true, true),
				off([]Kind{KCommitAltered}, 0),
				{Op: "restart"},
				{Op: "honest", Calls: 2},
				unban(1, false, false),
				off([]Kind{KRemoveTx}, 1),
				unban(0, true, false),
				off([]Kind{KHeaderOnly}, 0),
			}}
	}

	r := rand.New(rand.NewSource(seed*1_000_003 + int64(k)*104_729 + 60_606))
	p := BanPlan{Seed: seed*1_000_003 + 500_000 + int64(k), K: k}
	p.Offenders = 1 + r.Intn(3)
	p.Honest = 1 + r.Intn(2)
	p.ChainLen = 80 + r.Intn(121)
	p.Preset = k % chaingen.NumPresets
	for i := 0; i < p.Offenders; i++ {
		p.TwoPorts = append(p.TwoPorts, r.Intn(2) == 0)
	}
	// Placement of the hosts (its own random stream: the shapes of the
	// histories do not depend on it).
	layout := RotaLayout(k + int(seed))
	p.Layout = LayoutName(layout)
	p.Addrs = MakeAddrs(rand.New(rand.NewSource(seed*7_000_003+int64(k)*15_485_863+66)), p.Offenders+p.Honest, layout)
	slot := 0
	nextKind := func() Kind {
		kd := BanKinds[mod(k*5+slot+int(seed)*3, len(BanKinds))]
		slot++
		return kd
	}
	// Model of the plan: which offenders are banned, and how far each got in
	// the shape ban -> unban -> offend again.
	banned := make([]bool, p.Offenders)
	stage := make([]int, p.Offenders) // 0 fresh, 1 banned once, 2 un-banned after a ban, 3 offended again
	restarts := 0
	subset := func(want bool, max int) []int {
		var c []int
		for i, b := range banned {
			if b == want {
				c = append(c, i)
			}
		}
		r.Shuffle(len(c), func(i, j int) { c[i], c[j] = c[j], c[i] })
		if n := 1 + r.Intn(max); len(c) > n {
			c = c[:n]
		}
		sort.Ints(c)
		return c
	}
	doOffend := func(hosts []int) {
		op := BanOp{Op: "offend", Hosts: hosts}
		for _, h := range hosts {
			op.Kinds = append(op.Kinds, nextKind())
			banned[h] = true
			if stage[h] == 0 {
				stage[h] = 1
			} else if stage[h] == 2 {
				stage[h] = 3
			}
		}
		p.Ops = append(p.Ops, op)
	}
	doUnban := func(hosts []int) {
		op := BanOp{Op: "unban", Hosts: hosts}
		for _, h := range hosts {
			op.OtherPort = append(op.OtherPort, p.TwoPorts[h] && r.Intn(2) == 0)
			op.Permanent = append(op.Permanent, r.Intn(2) == 0)
			op.AltSpelling = append(op.AltSpelling, mod(k+h+len(p.Ops)+int(seed), 2) == 0)
			banned[h] = false
			if stage[h] == 1 {
				stage[h] = 2
			}
		}
		p.Ops = append(p.Ops, op)
	}
	doRestart := func() { p.Ops = append(p.Ops, BanOp{Op: "restart"}); restarts++ }
	nOps := 5 + r.Intn(5)
	for len(p.Ops) < nOps {
		free, held := 0, 0
		for _, b := range banned {
			if b {
				held++
			} else {
				free++
			}
		}
		switch c := r.Intn(10); {
		case c < 4 && free > 0:
			doOffend(subset(false, 2))
		case c < 7 && held > 0:
			doUnban(subset(true, 2))
		case c == 7 && restarts == 0 && len(p.Ops) > 0:
			doRestart()
		case c >= 8:
			p.Ops = append(p.Ops, BanOp{Op: "honest", Calls: 1 + r.Intn(3), Repeat: r.Intn(3) == 0})
		default:
			if free > 0 {
				doOffend(subset(false, 1))
			} else {
				doUnban(subset(true, 1))
			}
		}
	}
	// Every scenario contains the shape for at least one host.
	done := false
	for _, s := range stage {
		done = done || s == 3
	}
	if !done {
		h := r.Intn(p.Offenders)
		if !banned[h] && stage[h] != 2 {
			doOffend([]int{h})
		}
		if banned[h] {
			doUnban([]int{h})
		}
		if restarts == 0 && r.Intn(3) == 0 {
			doRestart()
		}
		doOffend([]int{h})
	}
	return p
}

// Describe is the scenario-level fingerprint.
func (p BanPlan) Describe() string {
	var ops []string
	for _, o := range p.Ops {
		switch o.Op {
		case "offend":
			var s []string
			for i, h := range o.Hosts {
				s = append(s, fmt.Sprintf("%d:%s", h, Step{K: o.Kinds[i], HangUp: hangUpOf(o, i), Before: beforeOf(o, i)}))
			}
			ops = append(ops, "offend("+strings.Join(s, ",")+")")
		case "unban":
			var s []string
			for i, h := range o.Hosts {
				t := fmt.Sprintf("%d", h)
				if o.OtherPort[i] {
					t += ":other-port"
				}
				if o.Permanent[i] {
					t += ":perm"
				}
				if i < len(o.AltSpelling) && o.AltSpelling[i] {
					t += ":alt-spelling"
				}
				s = append(s, t)
			}
			ops = append(ops, "unban("+strings.Join(s, ",")+")")
		case "honest":
			ops = append(ops, fmt.Sprintf("honest(%d)", o.Calls))
		case "restart":
			if len(o.Lapse) > 0 {
				ops = append(ops, "restart(lapse "+describeLapsed(o.Lapse)+")")
			} else {
				ops = append(ops, o.Op)
			}
		default:
			ops = append(ops, o.Op)
		}
	}
	two := 0
	for _, t := range p.TwoPorts {
		if t {
			two++
		}
	}
	var ok []string
	for i := 0; i < p.Offenders && i < len(p.Addrs); i++ {
		ok = append(ok, p.Addrs[i].Kind())
	}
	name := "ban-history"
	if p.Family == "hangup" {
		name = "hang-up-after-invalid-block"
	}
	if p.Family == "lapsed" {
		name = "lapsed-ban before-start=" + describeLapsed(p.Lapsed)
	}
	return fmt.Sprintf("%s offenders=%d(two-ports=%d;%s) honest=%d addrs=%s(%s) [%s]", name, p.Offenders, two, strings.Join(ok, ","), p.Honest,
		p.Layout, describeAddrs(p.Addrs), strings.Join(ops, " "))
}

// banHost is the harness's record of one simulated host (one IP).
type banHost struct {
	Idx      int
	Offender bool
	A        HostAddr
	Ports    []string // addresses (canonical spelling) of the simulated peers on this IP
	Active   int      // index of the port the client may reach
	// Model: "no", "yes", or "unknown" (an invalid block was written to a
	// connection the client had already closed).
	Banned string
	// Hist is what happened to the host so far ("offend:<kind>", "unban",
	// "unban-other-port", "restart").
	Hist         []string
	EverOffended int64 // event number of the first invalid answer (0: none)
	lastBad      *Answer
	lastHist     string
	// Lapsed: the host's ban record is one that ran out by itself (written
	// while no client ran) and the host has not offended since; lastLapsed:
	// the lapsed record the host had when it last offended (nil: none).
	Lapsed     *LapsedRec `json:",omitempty"`
	lastLapsed *LapsedRec
	// neighbourUnbanned: UnbanPeer was called for ANOTHER host inside this
	// host's /64 while this one was banned (whether that lifts this host's
	// ban is not decided by the property: not asserted, only counted).
	neighbourUnbanned bool
	// Spans during which the host was observed banned: [first, last) event
	// numbers; no handshake with any of its ports may complete inside.
	Spans [][2]int64
}

func (h *banHost) addr() string { return h.Ports[h.Active] }

// alt is a canonical host:port of this host in the host's other spelling.
func (h *banHost) alt(addr string) string { return altOf(addr, []HostAddr{h.A}) }

// told is the spelling of addr the client is given in ConnectPeers.
func (h *banHost) told(addr string) string {
	if h.A.DialAlt {
		return h.alt(addr)
	}
	return addr
}

// hangUpOf is op.HangUp[i] (0 when absent).
func hangUpOf(op BanOp, i int) int {
	if i < len(op.HangUp) {
		return op.HangUp[i]
	}
	return 0
}

func beforeOf(op BanOp, i int) int {
	if i < len(op.Before) {
		return op.Before[i]
	}
	return 0
}

// shape normalises a history for signatures and marks: kinds are dropped.
func shape(hist []string) string {
	var s []string
	for _, e := range hist {
		if i := strings.IndexByte(e, ':'); i > 0 {
			e = e[:i]
		}
		s = append(s, e)
	}
	if len(s) == 0 {
		return "fresh"
	}
	if len(s) > 6 {
		s = append([]string{"..."}, s[len(s)-6:]...)
	}
	return strings.Join(s, ">")
}

type banObs struct {
	Seq    int64
	Where  string
	Host   int
	Model  string
	Store  bool
	Reason string          `json:",omitempty"`
	Live   map[string]bool // IsBanned per port address, in both spellings
	// StoreAlt: what the ban store says when asked with the other spelling
	// of the host's address.
	StoreAlt *bool `json:",omitempty"`
}

// BanHistScenario runs ban-history scenario k in this process.
func BanHistScenario(seed int64, k int, res *l2.Result) {
	runBanPlan(MakeBanPlan(seed, k), "banhist", res)
}

// LapsedBanScenario runs scenario k of the lapsed-ban family (lapsed.go): the
// same runner and the same oracle over histories that contain ban records
// which ran out by themselves.
func LapsedBanScenario(seed int64, k int, res *l2.Result) {
	runBanPlan(MakeLapsedPlan(seed, k), "lapsed", res)
}

func runBanPlan(plan BanPlan, fam string, res *l2.Result) {
	k := plan.K
	res.Name = fmt.Sprintf("c06-%s-%d", fam, k)
	res.Fingerprint = plan.Describe()
	res.Count(fam+"_scenarios", 1)
	if plan.Fixed {
		res.Count(fam+"_fixed_scenarios", 1)
	}

	w := l2.NewWorld(l2.Config{Seed: plan.Seed, Preset: plan.Preset, Interval: 8, SpacingSec: 4, GenesisAgo: 2 * time.Hour})
	defer w.Cleanup()
	trunk := w.G.Extend(w.G.Genesis, plan.ChainLen, chaingen.PaceNormal)
	tip := trunk[len(trunk)-1]

	// ---- hosts and simulated peers ----
	nHosts := plan.Offenders + plan.Honest
	hosts := make([]*banHost, nHosts)
	hostOf := map[int]int{} // peer index -> host index
	d := &director{w: w, rng: rand.New(rand.NewSource(plan.Seed ^ 0x6c06)), trunk: trunk,
		powLimit: w.G.P.PowLimit, peerIdx: map[string]int{}, reserved: map[chainhash.Hash]bool{}}
	// Connection order (which decides the sync peer) varies with k.
	order := make([]int, nHosts)
	for i := range order {
		order[i] = mod(i+k, nHosts)
	}
	for _, hi := range order {
		p := w.AddPeerAt(plan.Addrs[hi].At(18444), tip)
		p.Mutate = d.mutate
		d.peerIdx[p.Addr] = len(w.Peers) - 1
		hostOf[len(w.Peers)-1] = hi
		hosts[hi] = &banHost{Idx: hi, Offender: hi < plan.Offenders, A: plan.Addrs[hi], Ports: []string{p.Addr}, Banned: "no"}
		res.Count("banhist_hosts_addr_"+plan.Addrs[hi].Kind(), 1)
	}
	// sharers: the other hosts inside the /64 of host hi (IPv6 only).
	sharers := func(hi int) []*banHost {
		var o []*banHost
		for _, g := range hosts {
			if g.Idx != hi && sameNet64(g.A, hosts[hi].A) {
				o = append(o, g)
			}
		}
		return o
	}
	// neighbourOffended: another host of the /64 has served an invalid block.
	neighbourOffended := func(hi int) bool {
		for _, g := range sharers(hi) {
			if g.EverOffended != 0 || g.Banned == "unknown" {
				return true
			}
		}
		return false
	}
	for hi := 0; hi < plan.Offenders; hi++ {
		if !plan.TwoPorts[hi] {
			continue
		}
		p := w.AddPeerAt(plan.Addrs[hi].At(18555+hi), tip)
		addr := p.Addr
		p.Mutate = d.mutate
		w.Net.Refuse(addr, true)
		d.peerIdx[addr] = len(w.Peers) - 1
		hostOf[len(w.Peers)-1] = hi
		hosts[hi].Ports = append(hosts[hi].Ports, addr)
	}
	armed := map[int]Step{}
	d.nextFn = func(peer int, _ streamKey) Step {
		if st, ok := armed[hostOf[peer]]; ok {
			delete(armed, hostOf[peer])
			return st
		}
		return hon()
	}

	var infos []blkInfo
	for _, n := range trunk {
		infos = append(infos, blkInfo{n: n, wit: HasWitness(n.Block), ntx: len(n.Block.Transactions)})
	}
	selRng := rand.New(rand.NewSource(plan.Seed ^ 0x5e1))
	// pick returns an unused block; strong: one on which every kind of
	// invalidity is effective (witness data, three transactions or more).
	pick := func(strong bool) blkInfo {
		d.mu.Lock()
		defer d.mu.Unlock()
		for relax := 0; relax < 3; relax++ {
			var cand []blkInfo
			for _, bi := range infos {
				if d.reserved[bi.n.Hash] && relax < 2 {
					continue
				}
				if strong && relax < 1 && (!bi.wit || bi.ntx < 3) {
					continue
				}
				cand = append(cand, bi)
			}
			if len(cand) > 0 {
				c := cand[selRng.Intn(len(cand))]
				d.reserved[c.n.Hash] = true
				return c
			}
		}
		return infos[selRng.Intn(len(infos))]
	}

	activeAddrs := func() []string {
		var a []string
		for _, hi := range order {
			a = append(a, hosts[hi].told(hosts[hi].addr()))
		}
		return a
	}
	// Ban records that ran out before this client ever ran: written into the
	// database file the client is about to open, through the exported banman
	// API, while nothing else has it open.
	startOpts := l2.ClientOpts{}
	if len(plan.Lapsed) > 0 {
		dir := filepath.Join(l2.Scratch(), fmt.Sprintf("c06-lapsed-%d-%d", plan.Seed, time.Now().UnixNano()))
		if err := os.MkdirAll(dir, 0o755); err != nil {
			res.Inconcl("cannot create the data directory: " + err.Error())
			return
		}
		w.Dir = dir
		db, err := walletdb.Create("bdb", filepath.Join(dir, "neutrino.db"), true, 10*time.Second, false)
		if err != nil {
			res.Inconcl("cannot create the database: " + err.Error())
			return
		}
		err = writeLapsed(db, hosts, plan.Lapsed, w.Log, res, "before-start")
		_ = db.Close()
		if err != nil {
			res.Inconcl("cannot write the lapsed ban records (precondition): " + err.Error())
			return
		}
		startOpts.Dir = dir
	}
	if err := w.StartClient(activeAddrs(), startOpts); err != nil {
		res.Inconcl("client start failed: " + err.Error())
		return
	}
	store, err := banman.NewStore(w.DB)
	if err != nil {
		res.Inconcl("cannot open the ban store next to the client: " + err.Error())
		_, _ = w.StopClient(60 * time.Second)
		return
	}
	synced := l2.WaitFor(90*time.Second, func() bool { return w.SyncedTo(tip) })
	if !synced && len(plan.Lapsed) == 0 {
		res.Inconcl("initial sync did not complete within 90 s")
		_, _ = w.StopClient(60 * time.Second)
		return
	}
	l2.WaitFor(10*time.Second, func() bool { return int(w.Svc.ConnectedCount()) == nHosts })

	var calls []*callRec
	var obs []banObs
	var fetched []*callRec // successful calls (for repeats)
	aborted := ""
	abort := func(why string) {
		if aborted == "" {
			aborted = why
			res.Inconcl(why)
		}
	}
	witness := func(extra map[string]any) any {
		d.mu.Lock()
		ans := append([]*Answer(nil), d.answers...)
		d.mu.Unlock()
		m := map[string]any{"plan": plan, "hosts": hosts, "checkpoints": obs, "calls": calls, "answers": ans,
			"event_log_tail": w.Log.Tail(120)}
		for k, v := range extra {
			m[k] = v
		}
		return m
	}
	wit := func() any { return witness(nil) }
	violated := false

	// judge compares one host's ban state (from the store, and IsBanned per
	// port when the client runs) with the model.
	judge := func(h *banHost, where string, st banman.Status, stAlt *banman.Status, live map[string]bool) {
		o := banObs{Seq: w.Log.Len(), Where: where, Host: h.Idx, Model: h.Banned, Store: st.Banned, Live: live}
		if st.Banned {
			o.Reason = st.Reason.String()
		}
		if stAlt != nil {
			o.StoreAlt = &stAlt.Banned
		}
		obs = append(obs, o)
		res.Count("banhist_host_states_compared", 1)
		res.Count("banhist_host_states_compared_addr_"+h.A.Kind(), 1)
		invalidBan := st.Banned && st.Reason == banman.InvalidBlock
		// A host that never offended but shares its /64 with one that did:
		// the statement speaks of the sender only; whether the neighbourhood
		// is covered too is not asserted either way.
		bystander := h.EverOffended == 0 && h.Banned == "no" && neighbourOffended(h.Idx)
		if bystander {
			res.Count(fmt.Sprintf("banhist_unoffending_host_in_offenders_64_banned_%v", st.Banned), 1)
		}
		// The other spelling of the address names the same host.
		if stAlt != nil && (stAlt.Banned != st.Banned || stAlt.Banned && stAlt.Reason != st.Reason) {
			violated = true
			res.Violate(evid.Sig("c06/ban-record-depends-on-address-spelling", "ban-history", "addr:"+h.A.Kind(), where),
				fmt.Sprintf("the ban store answers banned=%v for %s and banned=%v for %s, two spellings of the address of host %d (checkpoint %q, history %s)",
					st.Banned, h.Ports[0], stAlt.Banned, h.alt(h.Ports[0]), h.Idx, where, shape(h.Hist)), wit())
		}
		if h.Lapsed != nil && h.Banned == "no" && !st.Banned {
			res.Count("lapsed_record_host_states_confirmed_not_banned", 1)
		}
		switch {
		case h.Banned == "no" && st.Banned && h.Lapsed != nil && !bystander:
			// The only record of the host is a ban that ran out and the host
			// sent nothing invalid since: nothing bans it.
			violated = true
			res.Violate(evid.Sig("c06/lapsed-ban-reported-in-force", "reason:"+strings.ReplaceAll(banman.Reason(h.Lapsed.Reason).String(), " ", "-"), "lapsed:"+agoClass(h.Lapsed.AgoSec), "addr:"+h.A.Kind(), where),
				fmt.Sprintf("host %d sent nothing invalid; the only record the ban store had for it was a ban (reason %q) that ran out %s before the record was written (%s), yet the ban store reports it banned (reason %q, expiry %s) at checkpoint %q. History: %s",
					h.Idx, banman.Reason(h.Lapsed.Reason).String(), time.Duration(h.Lapsed.AgoSec)*time.Second, h.Lapsed.When, st.Reason.String(), st.Expiration.Format(time.RFC3339), where, shape(h.Hist)), wit())
			h.Banned = "unknown"
		case h.Banned == "yes" && !invalidBan && !st.Banned && h.neighbourUnbanned:
			// UnbanPeer was called for another host of this /64 meanwhile.
			res.Count("banhist_ban_gone_after_unban_of_a_host_in_the_same_64", 1)
			h.Banned = "unknown"
		case h.Banned == "yes" && !invalidBan:
			how := "not-banned"
			if st.Banned {
				how = "banned-for-another-reason"
			}
			a := h.lastBad
			violated = true
			sig := []string{"c06/invalid-block-sender-not-banned", a.Step, witStr(w, a.Hash), how, "history:" + h.lastHist, "addr:" + h.A.Kind(), where}
			note := ""
			if l := h.lastLapsed; l != nil {
				// The relation between the old ban's end and now is part of
				// the shape of the failing input.
				sig = append(sig, "lapsed:"+agoClass(l.AgoSec))
				note = fmt.Sprintf(" (the record the host had before: a ban for %q that had run out %s before it was written %s)",
					banman.Reason(l.Reason).String(), time.Duration(l.AgoSec)*time.Second, l.When)
			}
			res.Violate(evid.Sig(sig...),
				fmt.Sprintf("host %d (%s) answered the request for block %s (height %d) with a block carrying that header but differing from it (%s; btcd sanity: %q, commitment: %q) while the call was active, and is %s at checkpoint %q (ban store record: %v). History of the host before this block: %s%s",
					h.Idx, w.Peers[a.Peer].Addr, a.HashStr, a.Height, a.Step, firstBad(a).SanityErr, firstBad(a).CommitErr, how, where, st.Banned, h.lastHist, note), wit())
			h.Banned = "unknown"
		case h.Banned == "yes":
			res.Count("banhist_bans_confirmed_"+where, 1)
			res.Count("banhist_bans_confirmed_addr_"+h.A.Kind(), 1)
			if l := h.lastLapsed; l != nil {
				res.Count("lapsed_bans_confirmed_for_a_host_with_a_lapsed_record", 1)
				res.Count("lapsed_bans_confirmed_lapsed_"+agoClass(l.AgoSec), 1)
			}
		case bystander:
		case h.Banned == "no" && invalidBan && h.EverOffended == 0:
			violated = true
			res.Violate(evid.Sig("c06/innocent-peer-banned", "ban-history", where),
				fmt.Sprintf("host %d never sent a block with a requested header that differs from the true block yet is banned for InvalidBlock at checkpoint %q", h.Idx, where), wit())
			h.Banned = "unknown"
		case h.Banned == "no" && st.Banned:
			// Outside the statement (what UnbanPeer must achieve): the
			// history cannot be continued.
			abort("a host is banned although UnbanPeer had returned for it and it sent nothing invalid since (precondition of the next step)")
			h.Banned = "unknown"
		}
		for addr, l := range live {
			if bystander {
				break
			}
			if l != st.Banned {
				violated = true
				res.Violate(evid.Sig("c06/isbanned-disagrees-with-store", "ban-history", "addr:"+h.A.Kind(), where),
					fmt.Sprintf("IsBanned(%s)=%v but the ban store says banned=%v for that IP (checkpoint %q, history %s)", addr, l, st.Banned, where, shape(h.Hist)), wit())
			}
		}
	}
	// only: when set, the hosts a checkpoint looks at (every lookup is a
	// synchronous write transaction of the database).
	var only map[int]bool
	checkpoint := func(where string) {
		res.Count("banhist_checkpoints", 1)
		for _, h := range hosts {
			if only != nil && !only[h.Idx] {
				continue
			}
			ipn, err := banman.ParseIPNet(h.Ports[0], nil)
			if err != nil {
				continue
			}
			st, err := store.Status(ipn)
			if err != nil {
				res.Inconcl("ban status unreadable: " + err.Error())
				continue
			}
			var stAlt *banman.Status
			if ipa, err := banman.ParseIPNet(h.alt(h.Ports[0]), nil); err == nil {
				if sa, err := store.Status(ipa); err == nil {
					stAlt = &sa
				}
			}
			live := map[string]bool{}
			for _, a := range h.Ports {
				live[a] = w.Svc.IsBanned(a)
				live[h.alt(a)] = w.Svc.IsBanned(h.alt(a))
			}
			judge(h, where, st, stAlt, live)
		}
	}
	// gone waits until the client holds no connection to a host it banned
	// and opens the host's banned span.
	gone := func(h *banHost) {
		for _, a := range h.Ports {
			a := a
			l2.WaitFor(10*time.Second, func() bool { return w.Svc.PeerByAddr(a) == nil })
			// The connections that exist NOW (the one the invalid block came
			// over among them) must each get closed. The client keeps dialling
			// a banned persistent peer and drops every new connection before
			// the handshake: under load those short-lived connections overlap,
			// so "no connection open at a sampling instant" would be decided
			// by the scheduler; later connections are the subject of the
			// handshake rule below.
			recs := w.Net.ConnRecs(a)
			if !l2.WaitFor(60*time.Second, func() bool {
				for _, cr := range recs {
					if !cr.C.Dead() {
						return false
					}
				}
				return true
			}) {
				violated = true
				res.Violate(evid.Sig("c06/banned-peer-connection-stays-open", "ban-history"),
					fmt.Sprintf("host %d is banned but a connection to %s that was open when the ban was observed was still open 60 s later", h.Idx, a), wit())
			}
		}
		h.Spans = append(h.Spans, [2]int64{w.Log.Add("client", "ev", "c06-banned", fmt.Sprintf("host=%d observed banned and disconnected", h.Idx)), math.MaxInt64})
	}
	newCall := func(bi blkInfo, why string) *callRec {
		rec := &callRec{Plan: CallPlan{ID: len(calls), SameAs: -1, Why: why}, Group: -1, GroupN: 1,
			Hash: bi.n.Hash, HashStr: bi.n.Hash.String()[:12], Height: bi.n.Height, Wit: bi.wit, NTx: bi.ntx}
		calls = append(calls, rec)
		return rec
	}
	run := func(recs []*callRec, group int) bool {
		for _, c := range recs {
			c.Group, c.GroupN = group, len(recs)
		}
		execCalls(w, recs)
		for _, c := range recs {
			if c.Hung {
				abort("a GetBlock call did not return within 120 s (watchdog); remaining steps skipped")
				return false
			}
			if c.OK {
				fetched = append(fetched, c)
			}
		}
		return true
	}
	inCall := func(a *Answer) bool {
		for _, c := range calls {
			if c.Hash == a.Hash && c.Start < a.RxSeq && a.RxSeq < c.End && !c.Hung {
				return true
			}
		}
		return false
	}

	// connected waits until every host the model says is not banned has a
	// connection again (precondition of the steps that follow; a host whose
	// ban ran out is dialled like any other).
	connected := func(where string) {
		for _, h := range hosts {
			if h.Banned != "no" {
				continue
			}
			a := h.addr()
			if !l2.WaitFor(60*time.Second, func() bool { return w.Svc.PeerByAddr(a) != nil }) {
				if os.Getenv("C06_DEBUG") != "" {
					fmt.Fprintf(os.Stderr, "NOT CONNECTED host=%d addr=%s isbanned=%v connected=%d hist=%v\n", h.Idx, a, w.Svc.IsBanned(a), w.Svc.ConnectedCount(), h.Hist)
					for _, e := range w.Log.Tail(150) {
						fmt.Fprintf(os.Stderr, "%v\n", e)
					}
				}
				abort(fmt.Sprintf("a host the client has no reason to refuse was not connected within 60 s (%s; precondition of the next step)", where))
				return
			}
			if h.Lapsed != nil {
				res.Count("lapsed_record_hosts_connected_"+where, 1)
			}
		}
		time.Sleep(50 * time.Millisecond) // steering: the query workers of the new connections
	}
	if len(plan.Lapsed) > 0 {
		// The ban state of the hosts with old records is compared whether or
		// not the client got as far as the steps need it to.
		if synced {
			connected("after-start")
		}
		checkpoint("after-start")
		if !synced {
			res.Inconcl("initial sync did not complete within 90 s")
			_, _ = w.StopClient(60 * time.Second)
			return
		}
	}

	group := 0
	for oi, op := range plan.Ops {
		if aborted != "" || violated && !plan.KeepGoing {
			break
		}
		switch op.Op {
		case "honest":
			var recs []*callRec
			for i := 0; i < op.Calls; i++ {
				if op.Repeat && i == 0 && len(fetched) > 0 {
					o := fetched[selRng.Intn(len(fetched))]
					rec := newCall(blkInfo{n: w.G.Lookup(o.Hash), wit: o.Wit, ntx: o.NTx}, "repeat of an earlier call")
					recs = append(recs, rec)
					continue
				}
				recs = append(recs, newCall(pick(false), "honest round"))
			}
			group++
			run(recs, group)
			res.Count("banhist_honest_rounds", 1)

		case "offend":
			pending := map[int]Step{}
			for i, hi := range op.Hosts {
				if hosts[hi].Banned == "no" {
					pending[hi] = Step{K: op.Kinds[i], HangUp: hangUpOf(op, i), Before: beforeOf(op, i)}
				}
			}
			delivered := map[int]bool{}
			for round := 0; round < 6 && len(pending) > 0 && aborted == ""; round++ {
				d.mu.Lock()
				for hi, kd := range pending {
					armed[hi] = kd
				}
				first := len(d.answers)
				d.mu.Unlock()
				// More calls than connected peers: every peer is handed one.
				n := int(w.Svc.ConnectedCount()) + 1 + round%2
				if n < 2 {
					n = 2
				}
				var recs []*callRec
				for i := 0; i < n; i++ {
					recs = append(recs, newCall(pick(true), fmt.Sprintf("offence round (step %d)", oi)))
				}
				group++
				ok := run(recs, group)
				d.mu.Lock()
				for hi := range armed {
					delete(armed, hi)
				}
				fresh := append([]*Answer(nil), d.answers[first:]...)
				d.mu.Unlock()
				res.Count("banhist_offence_rounds", 1)
				if !ok {
					break
				}
				for _, a := range fresh {
					hi := hostOf[a.Peer]
					h := hosts[hi]
					if _, want := pending[hi]; !want {
						continue
					}
					switch {
					case a.Class == "bad" && inCall(a):
						delete(pending, hi)
						delivered[hi] = true
						h.lastBad, h.lastHist = a, shape(h.Hist)
						if h.EverOffended == 0 {
							h.EverOffended = a.RxSeq
						}
						port := "same-port"
						if n := len(h.Hist); n > 0 && h.Hist[n-1] == "unban-other-port" {
							port = "other-port"
						}
						h.Hist = append(h.Hist, "offend:"+a.Step)
						h.Banned = "yes"
						h.neighbourUnbanned = false
						h.lastLapsed, h.Lapsed = h.Lapsed, nil
						res.Count("banhist_invalid_blocks_delivered", 1)
						res.Count("banhist_invalid_blocks_from_addr_"+h.A.Kind(), 1)
						nb := "alone-in-its-net"
						if len(sharers(hi)) > 0 {
							nb = "others-in-its-64"
							res.Count("banhist_invalid_blocks_from_a_host_with_others_in_its_64", 1)
						}
						res.Count("banhist_offence_kind_"+a.Step, 1)
						if strings.Contains(h.lastHist, "unban") {
							res.Count("banhist_offences_after_unban", 1)
							res.Count("banhist_offences_after_unban_"+port, 1)
							if strings.HasSuffix(h.lastHist, "restart") {
								res.Count("banhist_offences_after_unban_and_restart", 1)
							}
							res.Nontrivial = true
						}
						lapsed := ""
						if l := h.lastLapsed; l != nil {
							lapsed = fmt.Sprintf("|lapsed=%s,reason=%d,%s", agoClass(l.AgoSec), l.Reason, l.When)
							res.Count("lapsed_offences_by_a_host_whose_ban_had_run_out", 1)
							res.Count("lapsed_offences_ban_ran_out_"+agoClass(l.AgoSec)+"_ago", 1)
							res.Count("lapsed_offences_record_written_"+l.When, 1)
							res.Count(fmt.Sprintf("lapsed_offences_old_reason_%d", l.Reason), 1)
							if l.Own {
								res.Count("lapsed_offences_after_the_clients_own_ban_ran_out", 1)
							}
							res.Nontrivial = true
						}
						res.Mark(fmt.Sprintf("banhist|%s|wit=%v|history=%s|%s|hosts=%d+%d|addr=%s|%s%s", a.Step, witStr(w, a.Hash) == "block-with-witness",
							h.lastHist, port, plan.Offenders, plan.Honest, h.A.Kind(), nb, lapsed))
					case a.Class == "bad" || a.Class == "senderr":
						// Written after the call had ended, or to a closed
						// connection: the client may or may not have seen it.
						delete(pending, hi)
						h.Banned = "unknown"
						h.Hist = append(h.Hist, "offend-unobserved")
						res.Count("banhist_offences_not_observable", 1)
					case a.Class == "good" && a.Step != string(KHonest):
						res.Count("banhist_mutation_noop", 1)
					}
				}
			}
			if len(pending) > 0 && aborted == "" {
				abort("a host that was to serve an invalid block was not asked for a block in 6 rounds of concurrent calls (precondition)")
				break
			}
			// The calls have returned: the blocks were handled. Steering
			// only: the store is read right after.
			steer := 5 * time.Second
			if plan.KeepGoing {
				steer = 2 * time.Second
			}
			for hi := range delivered {
				a := hosts[hi].addr()
				l2.WaitFor(steer, func() bool { return w.Svc.IsBanned(a) })
			}
			if plan.Family == "hangup" {
				// The offenders of this round and the honest hosts.
				only = map[int]bool{}
				for hi := range delivered {
					only[hi] = true
				}
				for hi := plan.Offenders; hi < nHosts; hi++ {
					only[hi] = true
				}
			}
			checkpoint("after-offence")
			only = nil
			for hi := range delivered {
				h := hosts[hi]
				if a := h.lastBad; a != nil && a.HungUp != 0 {
					// The invalid block was written completely, then the host
					// closed its connection.
					mode := a.Step[strings.Index(a.Step, "+")+1:]
					res.Count("hangup_offenders_"+mode, 1)
					if h.Banned == "yes" {
						res.Count("hangup_offenders_"+mode+"_banned", 1)
					} else {
						res.Count("hangup_offenders_"+mode+"_not_banned", 1)
					}
				}
				if h.Banned == "yes" {
					gone(h)
				}
			}

		case "unban":
			var back []*banHost
			for i, hi := range op.Hosts {
				h := hosts[hi]
				if h.Banned != "yes" {
					res.Count("banhist_unban_skipped", 1)
					continue
				}
				ev := "unban"
				if op.OtherPort[i] && len(h.Ports) == 2 {
					w.Net.Refuse(h.addr(), true)
					h.Active ^= 1
					w.Net.Refuse(h.addr(), false)
					ev = "unban-other-port"
				}
				seq := w.Log.Add("client", "ev", "c06-unban", fmt.Sprintf("host=%d addr=%s permanent=%v", hi, h.addr(), op.Permanent[i]))
				if n := len(h.Spans); n > 0 {
					h.Spans[n-1][1] = seq
				}
				spelt := h.addr()
				if i < len(op.AltSpelling) && op.AltSpelling[i] {
					spelt = h.alt(spelt)
					res.Count("banhist_unbans_by_other_spelling", 1)
				}
				for _, g := range sharers(hi) {
					if g.Banned == "yes" {
						g.neighbourUnbanned = true
					}
				}
				if err := w.Svc.UnbanPeer(spelt, op.Permanent[i]); err != nil {
					abort("UnbanPeer returned an error (precondition of the next step): " + err.Error())
					h.Banned = "unknown"
					continue
				}
				h.Banned = "no"
				h.Hist = append(h.Hist, ev)
				back = append(back, h)
				res.Count("banhist_unbans", 1)
				res.Count("banhist_unbans_addr_"+h.A.Kind(), 1)
				res.Count(fmt.Sprintf("banhist_unbans_permanent_%v", op.Permanent[i]), 1)
			}
			checkpoint("after-unban")
			for _, h := range back {
				a := h.addr()
				if !l2.WaitFor(30*time.Second, func() bool { return w.Svc.PeerByAddr(a) != nil }) {
					abort("an un-banned host was not connected again within 30 s (precondition of the next step)")
				} else {
					res.Count("banhist_reconnects_after_unban", 1)
				}
			}
			time.Sleep(50 * time.Millisecond) // steering: the query worker of the new connection

		case "restart":
			if len(op.Lapse) > 0 {
				// Time passes while the client is down: bans run out.
				if ok, _ := w.StopClient(90 * time.Second); !ok {
					abort("restart failed: Stop did not return within 90 s")
					break
				}
				w.CloseDB()
				db, err := walletdb.Open("bdb", filepath.Join(w.Dir, "neutrino.db"), true, 10*time.Second, false)
				if err != nil {
					abort("cannot reopen the database between two runs: " + err.Error())
					break
				}
				for _, rc := range op.Lapse {
					for _, g := range sharers(rc.Host) {
						if g.Banned == "yes" {
							g.neighbourUnbanned = true
						}
					}
				}
				err = writeLapsed(db, hosts, op.Lapse, w.Log, res, "at-restart")
				_ = db.Close()
				if err != nil {
					abort("cannot write the lapsed ban records (precondition): " + err.Error())
					break
				}
				if err := w.StartClient(activeAddrs(), l2.ClientOpts{Dir: w.Dir}); err != nil {
					abort("restart failed: " + err.Error())
					break
				}
			} else if err := w.RestartClient(activeAddrs(), l2.ClientOpts{}, 90*time.Second); err != nil {
				abort("restart failed: " + err.Error())
				break
			}
			if store, err = banman.NewStore(w.DB); err != nil {
				abort("cannot open the ban store after the restart: " + err.Error())
				break
			}
			if !l2.WaitFor(90*time.Second, func() bool { return w.SyncedTo(tip) }) {
				abort("the restarted client did not sync within 90 s")
				break
			}
			want := 0
			for _, h := range hosts {
				if h.Banned == "no" {
					want++
				}
				h.Hist = append(h.Hist, "restart")
			}
			l2.WaitFor(10*time.Second, func() bool { return int(w.Svc.ConnectedCount()) >= want })
			fetched = nil
			res.Count("banhist_restarts", 1)
			if plan.Family == "lapsed" {
				connected("after-restart")
			}
			checkpoint("after-restart")
		}
	}

	// ---- end: cache, last checkpoint, stop, the store once more ----
	res.Count("cache_entries_verified", int64(checkCache(res, w, d, witness)))
	if aborted == "" && !violated {
		checkpoint("end")
	}
	stopOK, _ := w.StopClient(90 * time.Second)
	if !stopOK {
		res.Inconcl("Stop did not return within 90 s (C17's subject)")
		return
	}
	if aborted == "" && !violated {
		db, err := walletdb.Open("bdb", filepath.Join(w.Dir, "neutrino.db"), true, 10*time.Second, false)
		if err != nil {
			res.Inconcl("cannot reopen the database: " + err.Error())
		} else {
			if st2, err := banman.NewStore(db); err != nil {
				res.Inconcl("cannot open the ban store: " + err.Error())
			} else {
				for _, h := range hosts {
					ipn, err := banman.ParseIPNet(h.Ports[0], nil)
					if err != nil {
						continue
					}
					if st, err := st2.Status(ipn); err == nil {
						judge(h, "after-stop", st, nil, nil)
					}
				}
			}
			_ = db.Close()
		}
	}

	// No port of a host completes a handshake while the host is banned.
	for _, e := range w.Log.Snapshot() {
		if e.Cmd != "handshake" {
			continue
		}
		for _, h := range hosts {
			for _, a := range h.Ports {
				if a != e.Peer {
					continue
				}
				for _, sp := range h.Spans {
					if sp[0] < e.Seq && e.Seq < sp[1] {
						res.Violate(evid.Sig("c06/banned-peer-handshake-after-ban", "ban-history"),
							fmt.Sprintf("%s (host %d) completed a handshake (event %d) while the host was banned (observed banned and disconnected at event %d)", a, h.Idx, e.Seq, sp[0]), wit())
					}
				}
			}
		}
	}

	// ---- per call: rule (1), and a call that was handed the true block by
	// a host that had never misbehaved succeeded ----
	d.mu.Lock()
	answers := append([]*Answer(nil), d.answers...)
	d.mu.Unlock()
	for _, a := range answers {
		res.Count("getdata_block_received", 1)
		res.Count("served_"+a.Step, 1)
		res.Count("answer_class_"+a.Class, 1)
	}
	for _, c := range calls {
		if c.Hung {
			c.Verdict = "watchdog"
			continue
		}
		res.Count("calls", 1)
		var steps []string
		validSeen, cleanGood, asked := false, false, 0
		for _, a := range answers {
			if a.Hash != c.Hash {
				continue
			}
			if a.RxSeq < c.End && a.Class == "good" {
				validSeen = true
			}
			if c.Start < a.RxSeq && a.RxSeq < c.End {
				asked++
				steps = append(steps, a.Step+"→"+a.Class)
				if off := hosts[hostOf[a.Peer]].EverOffended; a.Class == "good" && (off == 0 || off > c.End) {
					cleanGood = true
				}
			}
		}
		if c.OK {
			res.Count("successes", 1)
			if asked == 0 {
				res.Count("calls_answered_without_network", 1)
			}
			checkReturned(res, w, c, steps, validSeen, wit)
			c.Verdict = "ok"
			continue
		}
		c.Verdict = "err"
		res.Count("errors", 1)
		res.Count("error_"+errClass(c.Err), 1)
		if cleanGood {
			res.Violate(evid.Sig("c06/error-despite-valid-response", "ban-history", witStr(w, c.Hash)),
				fmt.Sprintf("GetBlock(%s) failed with %q although a host that had sent nothing invalid delivered the true block while the call was active (answers: %v)", c.HashStr, c.Err, steps), wit())
		}
	}

	res.Count("events_logged", w.Log.Len())
	var hs []map[string]any
	for _, h := range hosts {
		hs = append(hs, map[string]any{"host": h.Idx, "ports": h.Ports, "addr": h.A, "history": h.Hist, "model": h.Banned})
	}
	res.Sample = map[string]any{"scenario": k, "fingerprint": plan.Describe(), "hosts": hs, "calls": len(calls), "checkpoints": len(obs)}
}
