package c06

// Where the simulated hosts live. The ban clause of C06 speaks of "its
// sender": a host. Hosts are therefore placed, seeded per scenario, at IPv4
// addresses, at global-unicast IPv6 addresses (several hosts inside one /64,
// hosts in different /64s) and at IPv4 addresses that the client is TOLD in
// their IPv4-mapped IPv6 spelling (::ffff:a.b.c.d names the IPv4 host
// a.b.c.d). Every address has a second spelling (IPv4: the mapped form; IPv6:
// the fully expanded form) with which the public API is queried as well.

import (
	"fmt"
	"math/rand"
	"net"
	"sort"
	"strconv"
	"strings"
)

// HostAddr is the address of one simulated host.
type HostAddr struct {
	Family string // "v4" or "v6"
	IP     string // canonical literal (what net.IP.String prints, what peer.Addr() carries)
	Alt    string // another spelling of the SAME address
	// DialAlt: the client is given the Alt spelling in Config.ConnectPeers.
	DialAlt bool `json:",omitempty"`
	// Net64 is the enclosing /64 of an IPv6 host ("" for IPv4).
	Net64 string `json:",omitempty"`
}

// At is the canonical host:port.
func (a HostAddr) At(port int) string { return net.JoinHostPort(a.IP, strconv.Itoa(port)) }

// AltAt is host:port in the other spelling.
func (a HostAddr) AltAt(port int) string { return net.JoinHostPort(a.Alt, strconv.Itoa(port)) }

// DialAt is the spelling handed to the client.
func (a HostAddr) DialAt(port int) string {
	if a.DialAlt {
		return a.AltAt(port)
	}
	return a.At(port)
}

// Kind is the normalised shape of the address for fingerprints and
// signatures.
func (a HostAddr) Kind() string {
	switch {
	case a.Family == "v4" && a.DialAlt:
		return "v4-told-as-mapped-v6"
	case a.Family == "v4":
		return "v4"
	case a.DialAlt:
		return "v6-told-expanded"
	}
	return "v6"
}

// altOf returns addr (host:port, canonical spelling) in the other spelling
// of its host.
func altOf(addr string, hosts []HostAddr) string {
	h, p, err := net.SplitHostPort(addr)
	if err != nil {
		return addr
	}
	for _, a := range hosts {
		if a.IP == h {
			return net.JoinHostPort(a.Alt, p)
		}
	}
	return addr
}

// Address layouts of a scenario.
const (
	LayoutV4      = iota // IPv4 hosts only (about a third told in the mapped spelling)
	LayoutV6One64        // every host inside one /64
	LayoutV6Own64        // every host in a /64 of its own
	LayoutMixed          // IPv4, IPv4 told as mapped IPv6, IPv6 in two /64s; host 0 is IPv6
	LayoutV6Pairs        // IPv6 hosts pairwise in /64s
	NumLayouts
)

// layoutRota is the order in which scenarios rotate over the layouts: a third
// of the scenarios stay IPv4-only.
var layoutRota = [...]int{LayoutV6One64, LayoutV4, LayoutMixed, LayoutV6Own64, LayoutV4, LayoutV6Pairs}

// RotaLayout returns the layout of position i of the rotation.
func RotaLayout(i int) int { return layoutRota[mod(i, len(layoutRota))] }

// LayoutName names a layout.
func LayoutName(l int) string {
	return [...]string{"v4", "v6-one-64", "v6-own-64s", "mixed", "v6-pairs"}[mod(l, NumLayouts)]
}

// Global unicast /32s (documentation prefix and a few allocated ones).
var v6Prefixes = [][2]uint16{{0x2001, 0x0db8}, {0x2a01, 0x04f8}, {0x2606, 0x4700}, {0x2400, 0xcb00}, {0x2001, 0x0470}, {0x2a00, 0x1450}}

type addrGen struct {
	r    *rand.Rand
	used map[string]bool
}

func (g *addrGen) net64() [8]byte {
	p := v6Prefixes[g.r.Intn(len(v6Prefixes))]
	var b [8]byte
	b[0], b[1], b[2], b[3] = byte(p[0]>>8), byte(p[0]), byte(p[1]>>8), byte(p[1])
	switch g.r.Intn(3) {
	case 0: // small site and subnet numbers
		b[5], b[7] = byte(g.r.Intn(16)), byte(1+g.r.Intn(200))
	case 1: // zero subnet (longest zero run reaches into the prefix)
		b[4], b[5] = byte(g.r.Intn(256)), byte(g.r.Intn(256))
	default:
		g.r.Read(b[4:])
	}
	return b
}

func (g *addrGen) v6(n64 [8]byte) HostAddr {
	for {
		ip := make(net.IP, 16)
		copy(ip, n64[:])
		switch g.r.Intn(3) {
		case 0: // ::1 .. ::ffff
			v := 1 + g.r.Intn(0xffff)
			ip[14], ip[15] = byte(v>>8), byte(v)
		case 1: // SLAAC / EUI-64 look
			g.r.Read(ip[8:])
			ip[11], ip[12] = 0xff, 0xfe
		default: // privacy address
			g.r.Read(ip[8:])
		}
		if g.used[ip.String()] {
			continue
		}
		g.used[ip.String()] = true
		var grp []string
		for i := 0; i < 16; i += 2 {
			grp = append(grp, fmt.Sprintf("%02x%02x", ip[i], ip[i+1]))
		}
		alt := strings.Join(grp, ":")
		if g.r.Intn(2) == 0 {
			alt = strings.ToUpper(alt)
		}
		mask := net.CIDRMask(64, 128)
		return HostAddr{Family: "v6", IP: ip.String(), Alt: alt, DialAlt: g.r.Intn(4) == 0,
			Net64: (&net.IPNet{IP: ip.Mask(mask), Mask: mask}).String()}
	}
}

func (g *addrGen) v4(mapped bool) HostAddr {
	for {
		var ip net.IP
		switch g.r.Intn(3) {
		case 0:
			ip = net.IPv4(10, 6, byte(g.r.Intn(256)), byte(1+g.r.Intn(254)))
		case 1:
			ip = net.IPv4(172, byte(16+g.r.Intn(16)), byte(g.r.Intn(256)), byte(1+g.r.Intn(254)))
		default:
			ip = net.IPv4(10, byte(g.r.Intn(256)), byte(g.r.Intn(256)), byte(1+g.r.Intn(254)))
		}
		if g.used[ip.String()] {
			continue
		}
		g.used[ip.String()] = true
		b := ip.To4()
		alt := "::ffff:" + ip.String()
		if g.r.Intn(3) == 0 { // the same mapped address written in hex groups
			alt = fmt.Sprintf("::ffff:%x:%x", uint16(b[0])<<8|uint16(b[1]), uint16(b[2])<<8|uint16(b[3]))
		}
		return HostAddr{Family: "v4", IP: ip.String(), Alt: alt, DialAlt: mapped}
	}
}

// MakeAddrs places n hosts according to the layout; a pure function of r's
// state.
func MakeAddrs(r *rand.Rand, n, layout int) []HostAddr {
	g := &addrGen{r: r, used: map[string]bool{}}
	out := make([]HostAddr, 0, n)
	switch mod(layout, NumLayouts) {
	case LayoutV4:
		for i := 0; i < n; i++ {
			out = append(out, g.v4(r.Intn(3) == 0))
		}
	case LayoutV6One64:
		n64 := g.net64()
		for i := 0; i < n; i++ {
			out = append(out, g.v6(n64))
		}
	case LayoutV6Own64:
		for i := 0; i < n; i++ {
			out = append(out, g.v6(g.net64()))
		}
	case LayoutV6Pairs:
		var n64 [8]byte
		for i := 0; i < n; i++ {
			if i%2 == 0 {
				n64 = g.net64()
			}
			out = append(out, g.v6(n64))
		}
	default: // LayoutMixed
		a, b := g.net64(), g.net64()
		for i := 0; i < n; i++ {
			c := r.Intn(5)
			if i == 0 {
				c = 2 + r.Intn(2)
			}
			switch c {
			case 0:
				out = append(out, g.v4(false))
			case 1:
				out = append(out, g.v4(true))
			case 4:
				out = append(out, g.v6(b))
			default:
				out = append(out, g.v6(a))
			}
		}
	}
	return out
}

// describeAddrs summarises a placement for fingerprints: kinds and how many
// hosts share a /64 with another one.
func describeAddrs(as []HostAddr) string {
	kinds := map[string]int{}
	per64 := map[string]int{}
	for _, a := range as {
		kinds[a.Kind()]++
		if a.Net64 != "" {
			per64[a.Net64]++
		}
	}
	var s []string
	for k, n := range kinds {
		s = append(s, fmt.Sprintf("%s:%d", k, n))
	}
	sort.Strings(s)
	shared := 0
	for _, n := range per64 {
		if n > 1 {
			shared += n
		}
	}
	return fmt.Sprintf("%s;/64s=%d;sharing=%d", strings.Join(s, ","), len(per64), shared)
}

// sameNet64 reports whether two hosts are IPv6 hosts inside one /64.
func sameNet64(a, b HostAddr) bool { return a.Net64 != "" && a.Net64 == b.Net64 }

// fixedV6 / fixedV4 describe a hand-picked address (seed-independent
// scenarios). upper: the expanded spelling is written in upper case; hexAlt:
// the mapped spelling is written in hex groups.
func fixedV6(lit string, upper, dialAlt bool) HostAddr {
	ip := net.ParseIP(lit).To16()
	var grp []string
	for i := 0; i < 16; i += 2 {
		grp = append(grp, fmt.Sprintf("%02x%02x", ip[i], ip[i+1]))
	}
	alt := strings.Join(grp, ":")
	if upper {
		alt = strings.ToUpper(alt)
	}
	mask := net.CIDRMask(64, 128)
	return HostAddr{Family: "v6", IP: ip.String(), Alt: alt, DialAlt: dialAlt,
		Net64: (&net.IPNet{IP: ip.Mask(mask), Mask: mask}).String()}
}

func fixedV4(lit string, hexAlt, dialAlt bool) HostAddr {
	b := net.ParseIP(lit).To4()
	alt := "::ffff:" + b.String()
	if hexAlt {
		alt = fmt.Sprintf("::ffff:%x:%x", uint16(b[0])<<8|uint16(b[1]), uint16(b[2])<<8|uint16(b[3]))
	}
	return HostAddr{Family: "v4", IP: b.String(), Alt: alt, DialAlt: dialAlt}
}
