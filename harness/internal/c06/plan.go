package c06

import (
	"fmt"
	"math/rand"
	"strings"

	"verif/internal/chaingen"
)

// Sel selects a block of the generated chain for a call.
type Sel struct {
	At    string // "h1", "tip" or "rand"
	Wit   int    // 0 any, 1 has witness data (and a commitment), 2 has none
	MinTx int    `json:",omitempty"`
	OddTx bool   `json:",omitempty"`
}

// CallPlan is one GetBlock call.
type CallPlan struct {
	ID      int
	Sel     Sel
	SameAs  int  // ID of an earlier call whose hash is requested again (-1: none)
	Unknown bool `json:",omitempty"` // a hash the client has no header for
	Base    bool `json:",omitempty"` // neutrino.Encoding(wire.BaseEncoding)
	// Retries is passed as neutrino.NumRetries; 0 = library default (8).
	Retries uint8 `json:",omitempty"`
	// Stream (director mode): how the successive getdata of this call are
	// answered, by whichever peers the client asks; honest once exhausted.
	Stream []Step `json:",omitempty"`
	Why    string
}

// Group is a set of calls issued concurrently (one call: sequential).
type Group struct {
	Calls []CallPlan
	// SameHash: every call requests the hash of Calls[0]; their streams
	// form one stream consumed in arrival order.
	SameHash bool `json:",omitempty"`
}

// Plan of one scenario: a pure function of (seed, k).
type Plan struct {
	Seed       int64
	K          int
	Mode       string // "director": per-call answer streams served by whichever peer is asked; "per-peer": each peer has a fixed personality
	Peers      int
	ChainLen   int
	Preset     int
	SmallCache bool     // tiny block cache: entries are evicted, repeats go back to the network
	Roles      [][]Step `json:",omitempty"` // per-peer mode: peer i answers its n-th block request with Roles[i][min(n,len-1)]
	Groups     []Group
	Timeouts   int  // forced worker timeouts planned (each costs >= 2 s)
	NoHonest   bool // the scenario ends with / consists of calls no peer answers correctly
	// Skew: the chain's timestamps lie 93-100 minutes ahead of the real
	// clock (valid at header sync), and after the sync five more peers
	// connect whose version timestamps are 69 minutes behind, so that the
	// client's peer-adjusted clock moves back and the headers it already
	// accepted look "too new" to the block sanity check during GetBlock.
	Skew bool `json:",omitempty"`
	// Layout / Addrs: where the peers live (addrs.go): IPv4, IPv6 inside one
	// /64 or in different /64s, IPv4 told to the client as ::ffff:a.b.c.d.
	Layout string
	Addrs  []HostAddr
}

func mod(a, n int) int { return ((a % n) + n) % n }

func hon() Step { return Step{K: KHonest} }

// selFor picks a block on which the kind is effective (or, when noop is set,
// deliberately one on which a witness mutation has nothing to act on).
func selFor(k Kind, r *rand.Rand, noop bool) Sel {
	s := Sel{At: "rand"}
	switch {
	case needsWitness(k):
		s.Wit = 1
		if noop {
			s.Wit = 2
		}
	case k == KDupLast:
		s.OddTx = r.Intn(4) != 0
		if r.Intn(2) == 0 {
			s.MinTx = 3
		}
		s.Wit = r.Intn(3)
	case k == KReorder:
		s.MinTx = 2
		if r.Intn(2) == 0 {
			s.MinTx = 3
		}
	case k == KRemoveTx:
		if r.Intn(3) != 0 {
			s.MinTx = 2
		}
		s.Wit = r.Intn(3)
	case k == KAddWitness:
		s.Wit = 2
		if r.Intn(3) == 0 {
			s.Wit = 1
		}
	default:
		s.Wit = 1 + r.Intn(2)
	}
	return s
}

// MakePlan derives scenario k of the case list.
func MakePlan(seed int64, k int) Plan {
	p := makePlan(seed, k)
	// Placement of the peers: its own random stream, so that the calls and
	// answer streams of scenario k do not depend on it. The layouts rotate
	// over the scenarios.
	layout := RotaLayout(k + int(seed))
	p.Layout = LayoutName(layout)
	p.Addrs = MakeAddrs(rand.New(rand.NewSource(seed*9_000_011+int64(k)*32_452_843+606)), p.Peers, layout)
	return p
}

func makePlan(seed int64, k int) Plan {
	r := rand.New(rand.NewSource(seed*1_000_003 + int64(k)*7919 + 606))
	p := Plan{Seed: seed*1_000_003 + int64(k), K: k, Mode: "director"}
	p.ChainLen = 60 + r.Intn(241)
	p.Preset = k % chaingen.NumPresets
	p.Peers = []int{3, 4, 2, 4, 1, 3, 4, 2}[mod(k+int(seed), 8)]
	p.SmallCache = r.Intn(4) == 0
	if k == 6 {
		p.Skew, p.Peers = true, 6
	}
	if k%4 == 3 {
		p.Mode = "per-peer"
		if p.Peers < 2 {
			p.Peers = 2 + r.Intn(3)
		}
	}

	id := 0
	call := func(sel Sel, why string, stream ...Step) CallPlan {
		c := CallPlan{ID: id, Sel: sel, SameAs: -1, Stream: stream, Why: why}
		id++
		return c
	}
	one := func(c CallPlan) { p.Groups = append(p.Groups, Group{Calls: []CallPlan{c}}) }
	if p.Skew {
		// Under the moved clock every answer with the requested header is
		// rejected (also the true one), so the calls are few and short: what
		// matters is that a forged body is not returned or cached.
		for _, kd := range []Kind{[]Kind{KMutValue, KMutScript}[r.Intn(2)], []Kind{KRemoveTx, KAddTx, KReorder}[r.Intn(3)]} {
			c := call(Sel{At: "rand", Wit: 2, MinTx: 3}, "clock moved back by the peers: forged body under the requested header", Step{K: kd})
			c.Retries = 2
			one(c)
		}
		p.NoHonest = true
		return p
	}
	slot := 0
	nextBan := func() Kind {
		kd := BanKinds[mod(k*4+slot+int(seed), len(BanKinds))]
		slot++
		return kd
	}
	ign := 0
	nextIgnore := func() Kind {
		kd := IgnoreKinds[mod(k+ign+int(seed), len(IgnoreKinds))]
		ign++
		return kd
	}
	anySel := func() Sel { return Sel{At: "rand", Wit: r.Intn(3)} }
	banStep := func() (Step, Sel) {
		kd := nextBan()
		// Every few slots a witness mutation is aimed at a block WITHOUT
		// witness data, where it changes nothing: the answer is then the
		// true block and is labelled (from its bytes) as such.
		noop := needsWitness(kd) && mod(k+slot, 4) == 0
		return Step{K: kd}, selFor(kd, r, noop)
	}

	if p.Mode == "per-peer" {
		makePerPeer(&p, r, call, one, nextBan)
		return p
	}

	alive := p.Peers

	// ---- Phase A: nothing is banned, nothing times out. ----
	one(call(Sel{At: "h1"}, "height 1"))
	tipCall := call(Sel{At: "tip"}, "tip")
	one(tipCall)
	{
		n := 2 + r.Intn(3)
		g := Group{}
		for i := 0; i < n; i++ {
			c := call(anySel(), "concurrent, different hashes, honest")
			switch r.Intn(4) {
			case 0:
				c.Stream = []Step{{K: KOtherHonest}}
			case 1:
				c.Stream = []Step{{K: KHonestTwice}}
			}
			g.Calls = append(g.Calls, c)
		}
		p.Groups = append(p.Groups, g)
		rep := call(Sel{}, "repeat (cache path)")
		rep.SameAs = g.Calls[r.Intn(n)].ID
		one(rep)
	}
	{
		rep := call(Sel{}, "repeat of the tip (cache path)")
		rep.SameAs = tipCall.ID
		one(rep)
	}
	{
		n := 2 + r.Intn(2)
		g := Group{SameHash: true}
		for i := 0; i < n; i++ {
			g.Calls = append(g.Calls, call(anySel(), "concurrent, same hash, honest"))
		}
		p.Groups = append(p.Groups, g)
	}
	if r.Intn(2) == 0 {
		c := call(Sel{At: "rand", Wit: 2}, "non-witness encoding, block without witness data")
		c.Base = true
		one(c)
	}
	if r.Intn(2) == 0 {
		c := call(Sel{At: "rand", Wit: 1}, "non-witness encoding answered with the full witness block", Step{K: KWitnessForBase})
		c.Base = true
		one(c)
	}
	one(call(anySel(), "a mutated OTHER block next to the honest one", Step{K: KOtherMutHonest}))
	if mod(k, 3) == 1 {
		c := call(Sel{}, "hash without a stored header")
		c.Unknown = true
		one(c)
	}

	// ---- Phase B: answers that must be ignored (worker timeouts) or that
	// make the client drop the connection. ----
	nB := r.Intn(3)
	for i := 0; i < nB; i++ {
		one(call(anySel(), "ignored answer, then honest", Step{K: nextIgnore()}, hon()))
		p.Timeouts++
	}
	if r.Intn(2) == 0 {
		gk := []Kind{KGarbageRaw, KGarbageBlock}[r.Intn(2)]
		one(call(anySel(), "garbage, then honest", Step{K: gk}, hon()))
	}

	// ---- Phase C: invalid blocks with the requested header. Every such
	// answer removes one peer for the rest of the scenario, so one peer is
	// kept for the end. ----
	firstC, lateDone := true, false
	for alive > 1 {
		pat := r.Intn(6)
		if firstC {
			// Every scenario with a second peer starts this phase with the
			// concurrent same-hash group whose invalid answer arrives late.
			pat, firstC = 5, false
		}
		switch {
		case pat == 0:
			st, sel := banStep()
			one(call(sel, "invalid, then honest from another peer", st, hon()))
			alive--
		case pat == 1:
			st, sel := banStep()
			c := call(sel, "invalid, single try: must fail", st)
			c.Retries = 1
			one(c)
			rep := call(Sel{}, "same hash again after the failure (poisoned cache?)")
			rep.SameAs = c.ID
			one(rep)
			alive--
		case pat == 2:
			st, sel := banStep()
			mk := []Kind{KBadThenHonest, KHonestThenBad}[r.Intn(2)]
			one(call(sel, "invalid and honest from the same peer", Step{K: mk, Sub: st.K}, hon()))
			alive--
		case pat == 3 || pat == 4:
			m := 1 + r.Intn(3)
			if m > alive-1 {
				m = alive - 1
			}
			g := Group{}
			for i := 0; i < m; i++ {
				st, sel := banStep()
				g.Calls = append(g.Calls, call(sel, "concurrent, different hashes, invalid then honest", st, hon()))
			}
			if r.Intn(2) == 0 {
				g.Calls = append(g.Calls, call(anySel(), "concurrent honest bystander"))
			}
			r.Shuffle(len(g.Calls), func(i, j int) { g.Calls[i], g.Calls[j] = g.Calls[j], g.Calls[i] })
			p.Groups = append(p.Groups, g)
			alive -= m
		default:
			st, sel := banStep()
			n := 2 + r.Intn(2)
			late := r.Intn(2) == 0 || len(p.Groups) > 0 && !lateDone
			lateDone = lateDone || late
			g := Group{SameHash: true}
			for i := 0; i < n; i++ {
				c := call(sel, "concurrent, same hash, one invalid answer")
				if i == 0 {
					c.Stream = []Step{st}
					if late {
						// The true block goes to whichever call asks first,
						// the invalid one to the second asker, and late:
						// it arrives when the first call is done.
						st.DelayMs = 40
						c.Stream = []Step{hon(), st}
					}
				}
				g.Calls = append(g.Calls, c)
			}
			p.Groups = append(p.Groups, g)
			alive--
		}
	}

	// ---- End: one peer is left. ----
	switch mod(k+int(seed), 3) {
	case 0:
		one(call(anySel(), "last peer, honest"))
		rep := call(Sel{}, "repeat of height-1 block (cache path)")
		rep.SameAs = 0
		one(rep)
	case 1:
		st, sel := banStep()
		var c CallPlan
		switch v := r.Intn(3); {
		case v == 0 && p.Timeouts < 3:
			c = call(sel, "no honest answer: ignored then invalid, two tries: must fail", Step{K: nextIgnore()}, st)
			c.Retries = 2
			p.Timeouts++
		case v == 1 && p.Timeouts < 3:
			c = call(sel, "no answer with the requested header, single try: must fail by timeout", Step{K: nextIgnore()})
			c.Retries = 1
			p.Timeouts++
		default:
			c = call(sel, "no honest answer: invalid, single try: must fail", st)
			c.Retries = 1
		}
		one(c)
		p.NoHonest = true
	default:
		if r.Intn(2) == 0 {
			c := call(Sel{At: "rand", Wit: 1}, "non-witness encoding of a block WITH witness data, honest stripped answer")
			c.Base = true
			c.Retries = 1
			one(c)
		} else {
			st, sel := banStep()
			c := call(sel, "no honest answer: invalid, single try: must fail", st)
			c.Retries = 1
			one(c)
		}
		p.NoHonest = true
	}
	return p
}

// makePerPeer: every peer has a fixed personality for block requests.
func makePerPeer(p *Plan, r *rand.Rand, call func(Sel, string, ...Step) CallPlan,
	one func(CallPlan), nextBan func() Kind) {

	honestPresent := (p.K/4)%3 != 2
	p.NoHonest = !honestPresent
	// Blocks on which every ban kind is effective.
	strong := Sel{At: "rand", Wit: 1, MinTx: 3}
	for i := 0; i < p.Peers; i++ {
		switch {
		case i == 0 && honestPresent:
			p.Roles = append(p.Roles, []Step{hon()})
		case honestPresent && i == p.Peers-1 && p.Peers >= 3 && r.Intn(3) == 0:
			p.Roles = append(p.Roles, []Step{{K: KOtherHonest}})
		case honestPresent && i == 1 && r.Intn(4) == 0:
			// Ignored first answer, honest afterwards.
			p.Roles = append(p.Roles, []Step{{K: KOther}, hon()})
			p.Timeouts++
		default:
			p.Roles = append(p.Roles, []Step{{K: nextBan()}})
		}
	}
	r.Shuffle(len(p.Roles), func(i, j int) { p.Roles[i], p.Roles[j] = p.Roles[j], p.Roles[i] })

	if !honestPresent {
		// One concurrent group: each call reaches one peer, gets an invalid
		// block, and fails (single try). Nothing can follow: no peer is left.
		g := Group{}
		for i := 0; i < p.Peers; i++ {
			c := call(strong, "no honest peer: single try, must fail")
			c.Retries = 1
			g.Calls = append(g.Calls, c)
		}
		p.Groups = append(p.Groups, g)
		return
	}
	{
		// As many concurrent calls as peers: every peer is asked.
		g := Group{}
		for i := 0; i < p.Peers; i++ {
			g.Calls = append(g.Calls, call(strong, "one call per peer, concurrently"))
		}
		p.Groups = append(p.Groups, g)
	}
	one(call(Sel{At: "h1"}, "height 1"))
	one(call(Sel{At: "tip"}, "tip"))
	{
		g := Group{SameHash: true}
		for i := 0; i < 2+r.Intn(2); i++ {
			g.Calls = append(g.Calls, call(strong, "concurrent, same hash"))
		}
		p.Groups = append(p.Groups, g)
	}
	{
		g := Group{}
		for i := 0; i < 2+r.Intn(3); i++ {
			g.Calls = append(g.Calls, call(Sel{At: "rand", Wit: r.Intn(3)}, "concurrent, different hashes"))
		}
		p.Groups = append(p.Groups, g)
	}
	rep := call(Sel{}, "repeat (cache path)")
	rep.SameAs = 0
	one(rep)
}

// Describe is the scenario-level fingerprint.
func (p Plan) Describe() string {
	var ks []string
	for _, g := range p.Groups {
		for _, c := range g.Calls {
			for _, s := range c.Stream {
				if isBanStep(s) {
					ks = append(ks, s.String())
				}
			}
		}
	}
	for _, ro := range p.Roles {
		ks = append(ks, "role:"+ro[0].String())
	}
	return fmt.Sprintf("%s peers=%d addrs=%s nohonest=%v smallcache=%v timeouts=%d [%s]",
		p.Mode, p.Peers, p.Layout, p.NoHonest, p.SmallCache, p.Timeouts, strings.Join(ks, ","))
}

// NumCalls counts the calls of the plan.
func (p Plan) NumCalls() int {
	n := 0
	for _, g := range p.Groups {
		n += len(g.Calls)
	}
	return n
}
