package c06

import (
	"bytes"
	"encoding/binary"
	"fmt"
	"math/big"
	"math/rand"
	"os"
	"path/filepath"
	"sort"
	"strings"
	"sync"
	"time"

	"github.com/btcsuite/btcd/btcutil/v2"
	"github.com/btcsuite/btcd/chainhash/v2"
	"github.com/btcsuite/btcd/wire/v2"
	"github.com/btcsuite/btclog"
	"github.com/btcsuite/btcwallet/walletdb"
	"github.com/lightninglabs/neutrino"
	"github.com/lightninglabs/neutrino/banman"
	"github.com/lightninglabs/neutrino/query"

	"verif/internal/chaingen"
	"verif/internal/evid"
	"verif/internal/l2"
	"verif/internal/netsim"
)

// Answer is what one peer sent in reply to one getdata(block).
type Answer struct {
	RxSeq   int64 // position in the event log when the request was received
	Peer    int
	Hash    chainhash.Hash `json:"-"`
	HashStr string
	Height  int32
	Base    bool
	Step    string
	Parts   []Part
	// Class: "good" (the true block, possibly next to ignorable ones),
	// "bad" (an invalid block with the requested header and no valid one),
	// "mixed" (both, from one peer, delivery order is the client's), "ambig",
	// "ignore" (nothing with the requested header), "garbage".
	Class    string
	ConnOpen int // number of connections ever opened to the peer when it answered
	// HungUp: event number of the peer closing its connection after the
	// answer was written (0: it did not).
	HungUp int64 `json:",omitempty"`
}

type streamKey struct {
	h    chainhash.Hash
	base bool
}

// director rewrites the peers' answers to getdata(block).
type director struct {
	mu       sync.Mutex
	w        *l2.World
	plan     *Plan
	rng      *rand.Rand
	trunk    []*chaingen.Node
	powLimit *big.Int
	peerIdx  map[string]int
	streams  map[streamKey][]Step
	rolePos  []int
	answers  []*Answer
	unused   int
	// reserved: hashes that are requested by some call or were sent as an
	// "other" block. A block sent as a bystander is never requested later
	// (and vice versa): the client delivers messages to its query workers
	// asynchronously, so a bystander sent for one request can be consumed
	// by the next request to the same peer.
	reserved map[chainhash.Hash]bool
	// nextFn, when set, decides the step for a request instead of the plan
	// (ban-history scenarios); called with d.mu held.
	nextFn func(peer int, key streamKey) Step
	// alias, when it has an entry for the requested block, names the "other"
	// block sent for it instead of a random bystander (lookup scenarios).
	alias map[chainhash.Hash]*chaingen.Node
}

func (d *director) setStreams(m map[streamKey][]Step) {
	d.mu.Lock()
	for _, s := range d.streams {
		d.unused += len(s)
	}
	d.streams = m
	d.mu.Unlock()
}

func (d *director) mutate(p *netsim.Peer, req wire.Message, honest []wire.Message) []wire.Message {
	gd, ok := req.(*wire.MsgGetData)
	if !ok {
		return honest
	}
	handled := false
	for _, iv := range gd.InvList {
		if iv.Type == wire.InvTypeBlock || iv.Type == wire.InvTypeWitnessBlock {
			handled = true
			d.serve(p, iv)
		}
	}
	if handled {
		return nil
	}
	return honest
}

func (d *director) next(peer int, key streamKey) Step {
	if d.nextFn != nil {
		return d.nextFn(peer, key)
	}
	if d.plan.Mode == "per-peer" {
		ro := d.plan.Roles[peer]
		i := d.rolePos[peer]
		d.rolePos[peer]++
		if i >= len(ro) {
			i = len(ro) - 1
		}
		return ro[i]
	}
	if s := d.streams[key]; len(s) > 0 {
		d.streams[key] = s[1:]
		return s[0]
	}
	return hon()
}

// otherBlock picks a bystander block (d.mu held).
func (d *director) otherBlock(not *chaingen.Node) *chaingen.Node {
	if a := d.alias[not.Hash]; a != nil {
		return a
	}
	for try := 0; ; try++ {
		n := d.trunk[d.rng.Intn(len(d.trunk))]
		if n != not && (!d.reserved[n.Hash] || try > 2000) {
			d.reserved[n.Hash] = true
			return n
		}
	}
}

// build turns a step into the messages to send.
func (d *director) build(st Step, n *chaingen.Node, base bool) []out {
	enc := wire.WitnessEncoding
	if base {
		enc = wire.BaseEncoding
	}
	truth := func() out { return out{blk: n.Block, enc: enc} }
	switch st.K {
	case KHonest:
		return []out{truth()}
	case KHonestTwice:
		return []out{truth(), truth()}
	case KOtherHonest, KOtherMutHonest:
		o := d.otherBlock(n).Block
		if st.K == KOtherMutHonest {
			o = mutate([]Kind{KMutValue, KStripAll, KAddTx, KDupLast}[d.rng.Intn(4)], o, d.rng)
		}
		r := []out{{blk: o, enc: enc}, truth()}
		if d.rng.Intn(2) == 0 {
			r[0], r[1] = r[1], r[0]
		}
		return r
	case KWitnessForBase:
		return []out{{blk: n.Block, enc: wire.WitnessEncoding}}
	case KOther:
		return []out{{blk: d.otherBlock(n).Block, enc: enc}}
	case KOtherMut:
		return []out{{blk: mutate(KMutValue, d.otherBlock(n).Block, d.rng), enc: enc}}
	case KNothing:
		return nil
	case KNotFound:
		nf := wire.NewMsgNotFound()
		t := wire.InvTypeWitnessBlock
		if base {
			t = wire.InvTypeBlock
		}
		h := n.Hash
		_ = nf.AddInvVect(wire.NewInvVect(t, &h))
		return []out{{msg: nf, enc: enc}}
	case KGarbageRaw:
		junk := make([]byte, 64+d.rng.Intn(64))
		d.rng.Read(junk)
		// The first 24 bytes are read as a message header. Its length field
		// must not be a plausible one: with a length below the protocol
		// maximum (32 MiB; 1 random draw in 128) and a foreign magic, btcd's
		// reader DISCARDS that many following bytes of the stream before
		// reporting the error, i.e. it silently swallows every later answer
		// of this peer, which the oracle would then wrongly count as
		// delivered (false alarm seen in the thorough tier, 1 of 2500).
		junk[16], junk[17], junk[18], junk[19] = 0xff, 0xff, 0xff, 0xff
		return []out{{raw: junk}}
	case KGarbageBlock:
		return []out{{blk: n.Block, enc: enc, cut: true}}
	case KBaseReencode:
		return []out{{blk: n.Block, enc: wire.BaseEncoding}}
	case KBadThenHonest:
		return []out{{blk: mutate(st.Sub, n.Block, d.rng), enc: d.encFor(st.Sub, enc)}, truth()}
	case KHonestThenBad:
		return []out{truth(), {blk: mutate(st.Sub, n.Block, d.rng), enc: d.encFor(st.Sub, enc)}}
	default:
		var r []out
		var rep *chaingen.Node
		for i := 0; i < st.Before; i++ {
			// Up to 8 different bystander blocks; a longer run repeats one
			// (duplicates are part of the statement's quantifier too).
			if rep == nil || st.Before <= 8 {
				rep = d.otherBlock(n)
			}
			r = append(r, out{blk: rep.Block, enc: enc})
		}
		return append(r, out{blk: mutate(st.K, n.Block, d.rng), enc: enc})
	}
}

func (d *director) encFor(k Kind, enc wire.MessageEncoding) wire.MessageEncoding {
	if k == KBaseReencode {
		return wire.BaseEncoding
	}
	return enc
}

func (d *director) serve(p *netsim.Peer, iv *wire.InvVect) {
	d.mu.Lock()
	defer d.mu.Unlock()
	base := iv.Type == wire.InvTypeBlock
	n := d.w.G.Lookup(iv.Hash)
	if n == nil || n.Block == nil {
		d.w.Log.Add(p.Addr, "ev", "c06-getdata", "unknown block requested")
		return
	}
	pi := d.peerIdx[p.Addr]
	st := d.next(pi, streamKey{iv.Hash, base})
	if st.DelayMs > 0 {
		d.mu.Unlock()
		time.Sleep(time.Duration(st.DelayMs) * time.Millisecond)
		d.mu.Lock()
	}
	rx := d.w.Log.Add(p.Addr, "ev", "c06-getdata", fmt.Sprintf("h=%d base=%v step=%s", n.Height, base, st))
	a := &Answer{RxSeq: rx, Peer: pi, Hash: iv.Hash, HashStr: iv.Hash.String()[:12], Height: n.Height,
		Base: base, Step: st.String(), ConnOpen: d.w.Net.TotalConns(p.Addr)}
	conn := p.Conn()
	for _, o := range d.build(st, n, base) {
		var b []byte
		switch {
		case o.raw != nil:
			b = o.raw
		default:
			var m wire.Message = o.blk
			if o.msg != nil {
				m = o.msg
			}
			var buf bytes.Buffer
			if _, err := wire.WriteMessageWithEncodingN(&buf, m, p.ProtoVer, p.Net, o.enc); err != nil {
				continue
			}
			b = buf.Bytes()
			if o.cut {
				b = truncatePayload(b)
			}
		}
		// Label from the bytes, decoded the way the client decodes them.
		_, dec, _, derr := wire.ReadMessageWithEncodingN(bytes.NewReader(b), p.ProtoVer, p.Net, wire.WitnessEncoding)
		part := label(dec, derr, n, base, d.powLimit, d.w.G.ByHash)
		part.Bytes = len(b)
		if conn == nil {
			part.SendErr = true
		} else if _, err := conn.Write(b); err != nil {
			part.SendErr = true
		}
		a.Parts = append(a.Parts, part)
	}
	a.Class = classify(a.Parts)
	d.answers = append(d.answers, a)
	var ls []string
	for _, pt := range a.Parts {
		ls = append(ls, pt.Label)
	}
	d.w.Log.Add(p.Addr, "tx", "c06-answer", fmt.Sprintf("h=%d step=%s parts=%v class=%s", n.Height, st, ls, a.Class))
	if st.HangUp > 0 && conn != nil {
		// Every byte of the answer is in the connection's buffer (writes
		// never block and never drop); the client's end reads all of it
		// before it sees the end of the stream.
		if st.HangUp > 1 {
			d.mu.Unlock()
			time.Sleep(time.Duration(st.HangUp) * time.Millisecond)
			d.mu.Lock()
		}
		_ = conn.Close()
		a.HungUp = d.w.Log.Add(p.Addr, "ev", "disconnect", "by peer (c06: hang-up after the answer)")
	}
}

func classify(parts []Part) string {
	cnt := map[string]int{}
	for _, p := range parts {
		if p.SendErr {
			cnt["senderr"]++
			continue
		}
		cnt[p.Label]++
	}
	switch {
	case cnt["senderr"] > 0:
		return "senderr"
	case cnt["garbage"] > 0:
		return "garbage"
	case cnt["ambig"] > 0:
		return "ambig"
	case cnt["bad"] > 0 && cnt["good"] > 0:
		return "mixed"
	case cnt["bad"] > 0:
		return "bad"
	case cnt["good"] > 0:
		return "good"
	}
	return "ignore"
}

// truncatePayload rewrites a framed message so that its payload is cut in
// half while length and checksum stay consistent: a well-framed message the
// receiver cannot decode.
func truncatePayload(b []byte) []byte {
	if len(b) < 24+90 {
		return b[:len(b)/2]
	}
	payload := b[24:]
	payload = payload[:81+(len(payload)-81)/2]
	o := append([]byte{}, b[:24]...)
	binary.LittleEndian.PutUint32(o[16:20], uint32(len(payload)))
	sum := chainhash.DoubleHashB(payload)
	copy(o[20:24], sum[:4])
	return append(o, payload...)
}

// callRec is one executed call.
type callRec struct {
	Plan    CallPlan
	Group   int
	GroupN  int
	Same    bool
	Hash    chainhash.Hash `json:"-"`
	HashStr string
	Height  int32
	Wit     bool
	NTx     int
	Start   int64
	End     int64
	OK      bool
	Err     string `json:",omitempty"`
	DurMs   int64
	Hung    bool `json:",omitempty"`
	Verdict string
	blk     *btcutil.Block
}

type blkInfo struct {
	n   *chaingen.Node
	wit bool
	ntx int
}

// execCalls issues the calls concurrently and waits for all of them (or
// their watchdogs).
func execCalls(w *l2.World, recs []*callRec) {
	var wg sync.WaitGroup
	for _, rec := range recs {
		rec := rec
		wg.Add(1)
		go func() {
			defer wg.Done()
			var qo []neutrino.QueryOption
			if rec.Plan.Retries > 0 {
				qo = append(qo, neutrino.NumRetries(rec.Plan.Retries))
			}
			if rec.Plan.Base {
				qo = append(qo, neutrino.Encoding(wire.BaseEncoding))
			}
			type ret struct {
				b   *btcutil.Block
				err error
			}
			ch := make(chan ret, 1)
			t0 := time.Now()
			rec.Start = w.Log.Add("client", "ev", "c06-call", fmt.Sprintf("start id=%d h=%d base=%v", rec.Plan.ID, rec.Height, rec.Plan.Base))
			go func() {
				b, err := w.Svc.GetBlock(rec.Hash, qo...)
				ch <- ret{b, err}
			}()
			select {
			case r := <-ch:
				rec.End = w.Log.Add("client", "ev", "c06-call", fmt.Sprintf("end id=%d ok=%v", rec.Plan.ID, r.err == nil))
				rec.DurMs = time.Since(t0).Milliseconds()
				rec.blk = r.b
				rec.OK = r.err == nil
				if r.err != nil {
					rec.Err = r.err.Error()
				}
			case <-time.After(120 * time.Second):
				rec.End = w.Log.Add("client", "ev", "c06-call", fmt.Sprintf("watchdog id=%d", rec.Plan.ID))
				rec.Hung = true
			}
		}()
	}
	wg.Wait()
}

// Scenario runs scenario k of the (seed, tier) case list in this process.
func Scenario(seed int64, k int, res *l2.Result) {
	plan := MakePlan(seed, k)
	res.Name = fmt.Sprintf("c06-%d", k)
	res.Fingerprint = plan.Describe()
	debug := os.Getenv("C06_DEBUG") != ""
	if os.Getenv("C06_DEBUG") == "2" {
		b := btclog.NewBackend(os.Stderr)
		l := b.Logger("NTRN")
		l.SetLevel(btclog.LevelDebug)
		neutrino.UseLogger(l)
		q := b.Logger("QURY")
		q.SetLevel(btclog.LevelTrace)
		query.UseLogger(q)
	}

	ago := 2 * time.Hour
	if plan.Skew {
		// Tip about 100 minutes ahead of the real clock.
		ago = time.Duration(plan.ChainLen*4)*time.Second - 100*time.Minute
	}
	w := l2.NewWorld(l2.Config{Seed: plan.Seed, Preset: plan.Preset, Interval: 8, SpacingSec: 4, GenesisAgo: ago})
	defer w.Cleanup()
	trunk := w.G.Extend(w.G.Genesis, plan.ChainLen, chaingen.PaceNormal)
	tip := trunk[len(trunk)-1]
	// A block the client never hears about.
	side := w.G.Extend(trunk[len(trunk)/2], 1, chaingen.PaceNormal)[0]

	d := &director{w: w, plan: &plan, rng: rand.New(rand.NewSource(plan.Seed ^ 0x6c06)), trunk: trunk,
		powLimit: w.G.P.PowLimit, peerIdx: map[string]int{}, rolePos: make([]int, plan.Peers),
		reserved: map[chainhash.Hash]bool{}}
	var told []string // the peers' addresses as the client is given them
	for i := 0; i < plan.Peers; i++ {
		p := w.AddPeerAt(plan.Addrs[i].At(18444), tip)
		told = append(told, plan.Addrs[i].DialAt(18444))
		res.Count("peers_addr_"+plan.Addrs[i].Kind(), 1)
		d.peerIdx[p.Addr] = i
		p.Mutate = d.mutate
		if plan.Skew && i > 0 {
			p.TimeOffset = -69 * time.Minute
			w.Net.Refuse(p.Addr, true)
		}
	}
	d.reserved[trunk[0].Hash] = true
	d.reserved[tip.Hash] = true
	var infos []blkInfo
	nWit := 0
	for _, n := range trunk {
		bi := blkInfo{n: n, wit: HasWitness(n.Block), ntx: len(n.Block.Transactions)}
		if bi.wit {
			nWit++
		}
		infos = append(infos, bi)
	}
	res.Count("chain_blocks", int64(len(trunk)))
	res.Count("chain_blocks_with_witness", int64(nWit))

	opts := l2.ClientOpts{}
	if plan.SmallCache {
		opts.BlockCache = 2500
	}
	if err := w.StartClient(told, opts); err != nil {
		res.Inconcl("client start failed: " + err.Error())
		return
	}
	if !l2.WaitFor(90*time.Second, func() bool { return w.SyncedTo(tip) }) {
		res.Inconcl("initial sync did not complete within 90 s")
		_, _ = w.StopClient(60 * time.Second)
		return
	}
	if plan.Skew {
		for _, p := range w.Peers[1:] {
			w.Net.Refuse(p.Addr, false)
		}
		if !l2.WaitFor(20*time.Second, func() bool { return int(w.Svc.ConnectedCount()) == plan.Peers }) {
			res.Inconcl("clock-skew scenario: the late peers did not all connect")
		}
		res.Count("clock_skew_scenarios", 1)
	}
	l2.WaitFor(10*time.Second, func() bool { return int(w.Svc.ConnectedCount()) == plan.Peers })

	// ---- run the calls ----
	selRng := rand.New(rand.NewSource(plan.Seed ^ 0x5e1))
	pick := func(s Sel) blkInfo {
		d.mu.Lock()
		defer d.mu.Unlock()
		used := d.reserved
		switch s.At {
		case "h1":
			used[infos[0].n.Hash] = true
			return infos[0]
		case "tip":
			used[tip.Hash] = true
			return infos[len(infos)-1]
		}
		for relax := 0; relax < 4; relax++ {
			var cand []blkInfo
			for _, bi := range infos {
				if used[bi.n.Hash] && relax < 3 {
					continue
				}
				if relax < 2 {
					if s.Wit == 1 && !bi.wit || s.Wit == 2 && bi.wit {
						continue
					}
				}
				if relax < 1 {
					if bi.ntx < s.MinTx || s.OddTx && bi.ntx%2 == 0 {
						continue
					}
				}
				cand = append(cand, bi)
			}
			if len(cand) > 0 {
				c := cand[selRng.Intn(len(cand))]
				used[c.n.Hash] = true
				return c
			}
		}
		return infos[selRng.Intn(len(infos))]
	}
	byID := map[int]*callRec{}
	var calls []*callRec
	aborted := false
	suspects := map[string]bool{} // peers that were sent an invalid block

	settle := func() {
		// Steering only: give the client the time to finish disconnecting
		// the peers it banned or dropped, so that the next call is not
		// handed to a query worker whose peer is going away (the work
		// manager counts that as one of the call's tries).
		fresh := false
		d.mu.Lock()
		for _, a := range d.answers {
			if a.Class == "bad" || a.Class == "mixed" || a.Class == "ambig" || a.Class == "garbage" {
				if addr := w.Peers[a.Peer].Addr; !suspects[addr] {
					suspects[addr] = true
					fresh = true
				}
			}
		}
		d.mu.Unlock()
		for addr := range suspects {
			if w.Svc.IsBanned(addr) && w.Svc.PeerByAddr(addr) != nil {
				l2.WaitFor(5*time.Second, func() bool { return w.Svc.PeerByAddr(addr) == nil })
				fresh = true
			}
		}
		if fresh {
			time.Sleep(60 * time.Millisecond)
		}
	}

	for gi, g := range plan.Groups {
		if aborted {
			break
		}
		settle()
		var recs []*callRec
		streams := map[streamKey][]Step{}
		var first *callRec
		for ci, cp := range g.Calls {
			rec := &callRec{Plan: cp, Group: gi, GroupN: len(g.Calls), Same: g.SameHash}
			switch {
			case cp.Unknown:
				rec.Hash, rec.Height, rec.Wit, rec.NTx = side.Hash, side.Height, HasWitness(side.Block), len(side.Block.Transactions)
			case cp.SameAs >= 0 && byID[cp.SameAs] != nil:
				o := byID[cp.SameAs]
				rec.Hash, rec.Height, rec.Wit, rec.NTx = o.Hash, o.Height, o.Wit, o.NTx
			case g.SameHash && ci > 0:
				rec.Hash, rec.Height, rec.Wit, rec.NTx = first.Hash, first.Height, first.Wit, first.NTx
			default:
				bi := pick(cp.Sel)
				rec.Hash, rec.Height, rec.Wit, rec.NTx = bi.n.Hash, bi.n.Height, bi.wit, bi.ntx
			}
			if ci == 0 {
				first = rec
			}
			rec.HashStr = rec.Hash.String()[:12]
			key := streamKey{rec.Hash, cp.Base}
			streams[key] = append(streams[key], cp.Stream...)
			byID[cp.ID] = rec
			recs = append(recs, rec)
			calls = append(calls, rec)
		}
		d.setStreams(streams)
		execCalls(w, recs)
		for _, rec := range recs {
			if rec.Hung {
				aborted = true
			}
		}
	}
	d.setStreams(nil)
	if aborted {
		res.Inconcl("a GetBlock call did not return within 120 s (watchdog); remaining calls skipped")
	}

	// ---- observations at the end, client still running ----
	witness := func(extra map[string]any) any {
		d.mu.Lock()
		ans := append([]*Answer(nil), d.answers...)
		d.mu.Unlock()
		m := map[string]any{"plan": plan, "calls": calls, "answers": ans, "event_log_tail": w.Log.Tail(80)}
		for k, v := range extra {
			m[k] = v
		}
		return m
	}

	// (2) every cache entry is the true block under its key.
	cacheChecked := checkCache(res, w, d, witness)
	res.Count("cache_entries_verified", int64(cacheChecked))

	liveBanned := map[string]bool{}
	liveAlt := map[string]bool{} // IsBanned asked with the other spelling of the address
	for _, p := range w.Peers {
		liveBanned[p.Addr] = w.Svc.IsBanned(p.Addr)
		liveAlt[p.Addr] = w.Svc.IsBanned(altOf(p.Addr, plan.Addrs))
	}
	// Connections to banned addresses must be gone. The connection manager
	// keeps redialling persistent peers; such attempts are closed by the
	// client before any handshake.
	for _, p := range w.Peers {
		if !liveBanned[p.Addr] {
			continue
		}
		addr := p.Addr
		// Per connection (those that exist now): the short-lived redials
		// overlap under load, so "none open at a sampling instant" would be
		// decided by the scheduler.
		recs := w.Net.ConnRecs(addr)
		if !l2.WaitFor(60*time.Second, func() bool {
			for _, cr := range recs {
				if !cr.C.Dead() {
					return false
				}
			}
			return true
		}) {
			res.Violate(evid.Sig("c06/banned-peer-connection-stays-open"),
				fmt.Sprintf("peer %s is banned but a connection to it that was open after the last call was still open 60 s later", addr), witness(nil))
		}
	}

	stopOK, _ := w.StopClient(90 * time.Second)
	if !stopOK {
		res.Inconcl("Stop did not return within 90 s (C17's subject)")
		return
	}

	// (3) the ban store, read after the client stopped.
	type banRec struct {
		Addr   string
		Banned bool
		Reason string
		Live   bool
	}
	var bans []banRec
	status := map[string]banman.Status{}
	statusAlt := map[string]banman.Status{} // asked with the other spelling
	db, err := walletdb.Open("bdb", filepath.Join(w.Dir, "neutrino.db"), true, 10*time.Second, false)
	if err != nil {
		res.Inconcl("cannot reopen the database: " + err.Error())
		return
	}
	store, err := banman.NewStore(db)
	if err != nil {
		_ = db.Close()
		res.Inconcl("cannot open the ban store: " + err.Error())
		return
	}
	for _, p := range w.Peers {
		ipn, err := banman.ParseIPNet(p.Addr, nil)
		if err != nil {
			continue
		}
		st, err := store.Status(ipn)
		if err != nil {
			res.Inconcl("ban status unreadable: " + err.Error())
			continue
		}
		status[p.Addr] = st
		if ipa, err := banman.ParseIPNet(altOf(p.Addr, plan.Addrs), nil); err == nil {
			if sa, err := store.Status(ipa); err == nil {
				statusAlt[p.Addr] = sa
			}
		}
		br := banRec{Addr: p.Addr, Banned: st.Banned, Live: liveBanned[p.Addr]}
		if st.Banned {
			br.Reason = st.Reason.String()
			res.Count("bans_reason_"+strings.ReplaceAll(st.Reason.String(), " ", "_"), 1)
		}
		bans = append(bans, br)
	}
	_ = db.Close()

	d.mu.Lock()
	answers := append([]*Answer(nil), d.answers...)
	unused := d.unused
	d.mu.Unlock()
	res.Count("stream_steps_unused", int64(unused))
	evs := w.Log.Snapshot()
	wit := func() any {
		return witness(map[string]any{"bans": bans})
	}

	inCall := func(a *Answer) *callRec {
		for _, c := range calls {
			if c.Hash == a.Hash && c.Plan.Base == a.Base && c.Start < a.RxSeq && a.RxSeq < c.End && !c.Hung {
				return c
			}
		}
		return nil
	}

	// ---- per-answer counters and the label double check ----
	for _, a := range answers {
		res.Count("getdata_block_received", 1)
		res.Count("served_"+a.Step, 1)
		res.Count("answer_class_"+a.Class, 1)
		for _, pt := range a.Parts {
			res.Count("part_label_"+pt.Label, 1)
			switch pt.Label {
			case "bad":
				switch {
				case pt.SanityErr == "" && pt.CommitErr == "":
					res.Inconcl("label double check: a block that differs from the true block passes btcd's sanity and commitment checks (" + a.Step + ")")
				case pt.SanityErr == "":
					res.Count("bad_parts_failing_commitment_only", 1)
				default:
					res.Count("bad_parts_failing_sanity", 1)
				}
			case "good":
				if pt.SanityErr != "" || pt.CommitErr != "" {
					res.Inconcl("label double check: the generator's own block fails btcd's checks: " + pt.SanityErr + pt.CommitErr)
				}
			}
		}
		if needsWitness(Kind(a.Step)) && a.Class == "good" {
			res.Count("witness_mutation_noop_on_block_without_witness", 1)
		}
	}

	// ---- (3) ban attribution per peer ----
	requested := map[string]bool{}
	for _, c := range calls {
		requested[c.Hash.String()] = true
	}
	// offended64: the /64s (IPv6) from which something other than true
	// blocks was sent, and by which peer.
	offended64 := map[string]map[int]bool{}
	for _, a := range answers {
		if n64 := plan.Addrs[a.Peer].Net64; n64 != "" && a.Class != "good" && a.Class != "ignore" {
			if offended64[n64] == nil {
				offended64[n64] = map[int]bool{}
			}
			offended64[n64][a.Peer] = true
		}
	}
	for i, p := range w.Peers {
		kind := plan.Addrs[i].Kind()
		// A peer that shares its /64 with ANOTHER peer that misbehaved: the
		// statement speaks of the sender; nothing is asserted about the
		// neighbourhood.
		bystander := false
		for j := range offended64[plan.Addrs[i].Net64] {
			bystander = bystander || j != i
		}
		var must *Answer // an answer that obliges the client to ban
		var orphan *Answer
		anyBad, anyAmbig := false, false
		classes := map[string]bool{}
		for _, a := range answers {
			if a.Peer != i {
				continue
			}
			classes[a.Class] = true
			for _, pt := range a.Parts {
				// An invalid bystander block whose header some call asked
				// for: the client may see it as an answer to that call.
				if pt.OtherInvalid && requested[pt.Hdr] {
					anyBad = true
					res.Count("invalid_bystander_block_with_a_requested_header", 1)
				}
			}
			switch a.Class {
			case "bad":
				anyBad = true
				if inCall(a) != nil {
					if must == nil {
						must = a
					}
				} else {
					orphan = a
				}
			case "mixed", "senderr":
				for _, pt := range a.Parts {
					if pt.Label == "bad" {
						anyBad = true
					}
					if pt.Label == "ambig" {
						anyAmbig = true
					}
				}
			case "ambig":
				anyAmbig = true
			}
		}
		st := status[p.Addr]
		invalidBan := st.Banned && st.Reason == banman.InvalidBlock
		var cl []string
		for c := range classes {
			cl = append(cl, c)
		}
		sort.Strings(cl)
		switch {
		case must != nil && !invalidBan:
			how := "not-banned"
			if st.Banned {
				how = "banned-for-another-reason"
			}
			res.Violate(evid.Sig("c06/invalid-block-sender-not-banned", must.Step, witStr(w, must.Hash), how, "addr:"+kind),
				fmt.Sprintf("peer %s answered the request for block %s (height %d) with a block carrying that header but differing from it (%s; btcd sanity: %q, commitment: %q) while the call was active, and is %s",
					p.Addr, must.HashStr, must.Height, must.Step, firstBad(must).SanityErr, firstBad(must).CommitErr, how), wit())
		case must == nil && orphan != nil && !invalidBan:
			res.Inconcl("an invalid answer was sent after its call had ended; ban not required")
		case !anyBad && !anyAmbig && invalidBan && plan.Skew:
			// The client's adjusted clock was moved back by its peers: it
			// rejects the true block for its timestamp. Outside the statement.
			res.Count("skew_true_block_senders_banned", 1)
		case !anyBad && !anyAmbig && invalidBan && bystander:
			res.Count("unoffending_peer_in_an_offenders_64_banned", 1)
		case !anyBad && !anyAmbig && invalidBan:
			res.Violate(evid.Sig("c06/innocent-peer-banned", strings.Join(cl, "+")),
				fmt.Sprintf("peer %s never sent a block with a requested header that differs from the true block (answer classes: %v) yet is banned for InvalidBlock", p.Addr, cl), wit())
		}
		if invalidBan {
			res.Count("peers_banned_invalid_block", 1)
			res.Count("peers_banned_invalid_block_addr_"+kind, 1)
		}
		if must != nil {
			res.Count("invalid_block_senders_addr_"+kind, 1)
			if len(offended64[plan.Addrs[i].Net64]) > 0 && plan.Addrs[i].Net64 != "" {
				n := 0
				for _, a := range plan.Addrs {
					if a.Net64 == plan.Addrs[i].Net64 {
						n++
					}
				}
				if n > 1 {
					res.Count("invalid_block_senders_with_others_in_their_64", 1)
				}
			}
		}
		// The other spelling of the address names the same host.
		if sa, ok := statusAlt[p.Addr]; ok && !(bystander && !anyBad && !anyAmbig) {
			res.Count("ban_states_compared_in_two_spellings", 1)
			if sa.Banned != st.Banned || liveAlt[p.Addr] != liveBanned[p.Addr] {
				res.Violate(evid.Sig("c06/ban-record-depends-on-address-spelling", "addr:"+kind),
					fmt.Sprintf("peer %s: ban store banned=%v / IsBanned=%v, but asked as %s: ban store banned=%v / IsBanned=%v (two spellings of one address)",
						p.Addr, st.Banned, liveBanned[p.Addr], altOf(p.Addr, plan.Addrs), sa.Banned, liveAlt[p.Addr]), wit())
			}
		}
		if anyAmbig && !anyBad {
			if invalidBan {
				res.Count("honest_stripped_answer_to_base_request_banned", 1)
			} else {
				res.Count("honest_stripped_answer_to_base_request_not_banned", 1)
			}
		}
		if liveBanned[p.Addr] != st.Banned && !(bystander && !anyBad && !anyAmbig) {
			res.Violate(evid.Sig("c06/isbanned-disagrees-with-store", "addr:"+kind),
				fmt.Sprintf("IsBanned(%s)=%v before Stop but the ban store says banned=%v after", p.Addr, liveBanned[p.Addr], st.Banned), wit())
		}
		// A banned address must not complete a new handshake.
		if invalidBan && must != nil {
			for _, e := range evs {
				if e.Peer == p.Addr && e.Cmd == "handshake" && e.Seq > must.RxSeq {
					res.Violate(evid.Sig("c06/banned-peer-handshake-after-ban"),
						fmt.Sprintf("peer %s completed a new handshake (event %d) after it had been banned for the invalid block it sent at event %d", p.Addr, e.Seq, must.RxSeq), wit())
					break
				}
			}
		}
	}

	// ---- (1) + (4) per call ----
	tainted := func(a *Answer) bool { // the peer had sent something invalid before
		for _, b := range answers {
			if b.Peer == a.Peer && b.RxSeq < a.RxSeq && (b.Class == "bad" || b.Class == "mixed" || b.Class == "ambig" || b.Class == "garbage") {
				return true
			}
		}
		return false
	}
	marks := map[string]bool{}
	nontrivial := false
	for _, c := range calls {
		if c.Hung {
			c.Verdict = "watchdog"
			continue
		}
		res.Count("calls", 1)
		var mine []*Answer
		var steps []string
		validSeen := false
		for _, a := range answers {
			if a.Hash != c.Hash || a.Base != c.Plan.Base {
				continue
			}
			if a.RxSeq < c.End && (a.Class == "good" || a.Class == "mixed" || a.Class == "ambig") {
				validSeen = true
			}
			if c.Start < a.RxSeq && a.RxSeq < c.End {
				mine = append(mine, a)
				steps = append(steps, a.Step+"→"+a.Class)
			}
		}
		conc := "seq"
		if c.GroupN > 1 {
			conc = fmt.Sprintf("conc%d", c.GroupN)
			if c.Same {
				conc += "same"
			}
		}
		outcome := "err"
		if c.OK {
			outcome = "ok"
			if len(mine) == 0 {
				outcome = "ok-cache"
				res.Count("calls_answered_without_network", 1)
			}
			res.Count("successes", 1)
			nontrivial = true
			checkReturned(res, w, c, steps, validSeen, wit)
			c.Verdict = "ok"
		} else {
			res.Count("errors", 1)
			res.Count("error_"+errClass(c.Err), 1)
			nontrivial = true
			c.Verdict = "err"
			goodHere := 0
			for _, a := range mine {
				if a.Class == "good" && !tainted(a) {
					goodHere++
				}
			}
			if goodHere == 0 && !c.Plan.Unknown {
				res.Count("errors_without_any_valid_answer_delivered", 1)
			}
			// Sequential failing call: the retry budget must have been used.
			want := int(c.Plan.Retries)
			if want == 0 {
				want = neutrino.QueryNumRetries
			}
			// A try can be spent on a worker whose peer the client has just
			// disconnected (no request reaches any peer): allow one such
			// phantom try per peer the client had reason to drop.
			phantom := map[int]bool{}
			for _, a := range answers {
				if a.RxSeq < c.End && (a.Class == "bad" || a.Class == "mixed" || a.Class == "ambig" || a.Class == "garbage") {
					phantom[a.Peer] = true
				}
			}
			if c.GroupN == 1 && !c.Plan.Unknown && len(mine) < want && len(mine)+len(phantom) >= want {
				res.Count("failed_calls_with_possible_phantom_try", 1)
			}
			if c.GroupN == 1 && !c.Plan.Unknown && len(mine)+len(phantom) < want && !plan.Skew {
				if c.DurMs < 25000 {
					res.Violate(evid.Sig("c06/gave-up-before-retries-exhausted", strings.Join(steps, ","), errClass(c.Err)),
						fmt.Sprintf("GetBlock(%s) failed with %q after asking %d time(s) although %d tries were allowed", c.HashStr, c.Err, len(mine), want), wit())
				} else {
					res.Inconcl("a call failed early after the batch deadline")
				}
			}
		}
		fp := fmt.Sprintf("call|%s|wit=%v|enc=%s|peers=%d|mode=%s|%s|%s", strings.Join(stepKinds(mine), ","), c.Wit,
			map[bool]string{true: "base", false: "witness"}[c.Plan.Base], plan.Peers, plan.Mode, conc, outcome)
		if !marks[fp] {
			marks[fp] = true
			res.Mark(fp)
		}
	}
	// (4) every job that was handed the true block must have succeeded.
	type gk struct {
		g    int
		h    chainhash.Hash
		base bool
	}
	succ, good := map[gk]int{}, map[gk]int{}
	var firstGood = map[gk]*Answer{}
	for _, c := range calls {
		if c.OK {
			succ[gk{c.Group, c.Hash, c.Plan.Base}]++
		}
	}
	for _, a := range answers {
		if a.Class != "good" || tainted(a) {
			continue
		}
		if c := inCall(a); c != nil {
			k := gk{c.Group, c.Hash, c.Plan.Base}
			good[k]++
			if firstGood[k] == nil {
				firstGood[k] = a
			}
		}
	}
	for k, n := range good {
		if succ[k] < n && plan.Skew {
			res.Count("skew_valid_answers_rejected", int64(n-succ[k]))
			continue
		}
		if succ[k] < n {
			a := firstGood[k]
			res.Violate(evid.Sig("c06/error-despite-valid-response", a.Step, witStr(w, k.h)),
				fmt.Sprintf("%d valid answer(s) for block %s were delivered to active calls by peers that had sent nothing invalid, but only %d call(s) succeeded", n, a.HashStr, succ[k]), wit())
		}
	}

	res.Nontrivial = nontrivial
	res.Count("events_logged", w.Log.Len())
	res.Count("timeouts_planned", int64(plan.Timeouts))
	var cs []map[string]any
	for _, c := range calls {
		cs = append(cs, map[string]any{"id": c.Plan.ID, "why": c.Plan.Why, "height": c.Height, "wit": c.Wit, "ntx": c.NTx,
			"base": c.Plan.Base, "group": c.Group, "ok": c.OK, "err": c.Err, "ms": c.DurMs})
	}
	res.Sample = map[string]any{"scenario": k, "fingerprint": plan.Describe(), "chain": plan.ChainLen, "calls": cs, "bans": bans, "answers": len(answers)}
	if debug {
		for _, l := range w.Log.Tail(400) {
			if strings.Contains(l, "c06-") || strings.Contains(l, "getdata") || strings.Contains(l, " ev ") {
				fmt.Fprintln(os.Stderr, l)
			}
		}
		for _, c := range calls {
			fmt.Fprintf(os.Stderr, "call %d g%d h=%d wit=%v base=%v retries=%d stream=%v ok=%v err=%q %dms  (%s)\n", c.Plan.ID, c.Group, c.Height, c.Wit, c.Plan.Base, c.Plan.Retries, c.Plan.Stream, c.OK, c.Err, c.DurMs, c.Plan.Why)
		}
		for _, b := range bans {
			fmt.Fprintf(os.Stderr, "ban %+v\n", b)
		}
	}
}

// checkCache is oracle rule (2): every block cache entry is the true block
// under its key. It returns the number of entries looked at.
func checkCache(res *l2.Result, w *l2.World, d *director, witness func(map[string]any) any) int {
	cacheChecked := 0
	w.Svc.BlockCache.Range(func(iv wire.InvVect, cb *neutrino.CacheableBlock) bool {
		cacheChecked++
		n := w.G.Lookup(iv.Hash)
		got := cb.Block.MsgBlock()
		keyKind := "witness-key"
		bad := ""
		switch {
		case n == nil || n.Block == nil:
			bad = "is stored under a hash that is no block of the chain"
		case got.BlockHash() != iv.Hash:
			bad = "has a header hash different from its key"
		case iv.Type == wire.InvTypeWitnessBlock:
			if !bytes.Equal(ser(got, false), ser(n.Block, false)) {
				bad = "differs from the true block (witness serialisation) — " + diffWhat(got, n.Block)
			}
		case iv.Type == wire.InvTypeBlock:
			keyKind = "base-key"
			if !bytes.Equal(ser(got, true), ser(n.Block, true)) {
				bad = "differs from the true block (non-witness serialisation) — " + diffWhat(got, n.Block)
			} else if !bytes.Equal(ser(got, false), ser(n.Block, false)) {
				// The statement demands a valid witness commitment of every
				// block handed out: a block of a chain block that carries
				// witness data, cached with stripped or altered witness data,
				// has none.
				bad = "has the right transactions but not the true witness data, so its witness commitment is invalid — " + diffWhat(got, n.Block)
			}
		default:
			bad = fmt.Sprintf("is stored under an unexpected inv type %v", iv.Type)
		}
		if bad != "" {
			res.Violate(evid.Sig("c06/cache-entry-invalid", keyKind, kindsFor(d, iv.Hash)),
				fmt.Sprintf("block cache entry for %s %s", iv.Hash.String()[:12], bad), witness(nil))
		}
		return true
	})
	return cacheChecked
}

// checkReturned is oracle rule (1) for one successful call: the returned
// block is the generator's block for the requested hash, and something valid
// had been sent for it.
func checkReturned(res *l2.Result, w *l2.World, c *callRec, steps []string, validSeen bool, wit func() any) {
	truth := w.G.Lookup(c.Hash)
	got := c.blk.MsgBlock()
	switch {
	case c.Plan.Unknown:
		res.Violate(evid.Sig("c06/returned-block-for-unknown-hash"),
			"GetBlock returned a block for a hash the client has no header for", wit())
	case got.BlockHash() != c.Hash || *c.blk.Hash() != c.Hash:
		res.Violate(evid.Sig("c06/returned-block-differs", "header-hash", strings.Join(steps, ","), witStr(w, c.Hash)),
			fmt.Sprintf("GetBlock(%s) returned a block whose header hash is %s", c.HashStr, got.BlockHash().String()[:12]), wit())
	case !c.Plan.Base && !bytes.Equal(ser(got, false), ser(truth.Block, false)):
		res.Violate(evid.Sig("c06/returned-block-differs", diffWhat(got, truth.Block), strings.Join(steps, ","), witStr(w, c.Hash)),
			fmt.Sprintf("GetBlock(%s) (height %d) returned a block that is not the block with that hash: %s (witness serialisations differ; answers seen by this call: %v)",
				c.HashStr, c.Height, diffWhat(got, truth.Block), steps), wit())
	case c.Plan.Base && !bytes.Equal(ser(got, true), ser(truth.Block, true)):
		res.Violate(evid.Sig("c06/returned-block-differs", "base:"+diffWhat(got, truth.Block), strings.Join(steps, ","), witStr(w, c.Hash)),
			fmt.Sprintf("GetBlock(%s, BaseEncoding) returned a block whose non-witness serialisation differs from the true block: %s", c.HashStr, diffWhat(got, truth.Block)), wit())
	case c.Plan.Base && !bytes.Equal(ser(got, false), ser(truth.Block, false)):
		// Same transactions, different (stripped or forged) witness
		// data: the returned block's witness commitment is invalid.
		res.Violate(evid.Sig("c06/returned-block-invalid-witness-commitment", "base-encoding", diffWhat(got, truth.Block)),
			fmt.Sprintf("GetBlock(%s, BaseEncoding) returned the right transactions with witness data that does not match the block's witness commitment: %s", c.HashStr, diffWhat(got, truth.Block)), wit())
	case !validSeen:
		res.Violate(evid.Sig("c06/returned-without-valid-response", strings.Join(steps, ",")),
			fmt.Sprintf("GetBlock(%s) returned a block although no peer had sent the true block for that hash and encoding before the call ended", c.HashStr), wit())
	default:
		if c.Plan.Base {
			res.Count("returned_blocks_identical_nonwitness_serialisation", 1)
		} else {
			res.Count("returned_blocks_identical_witness_serialisation", 1)
		}
	}
}

func firstBad(a *Answer) Part {
	for _, p := range a.Parts {
		if p.Label == "bad" {
			return p
		}
	}
	return Part{}
}

func witStr(w *l2.World, h chainhash.Hash) string {
	if n := w.G.Lookup(h); n != nil && n.Block != nil && HasWitness(n.Block) {
		return "block-with-witness"
	}
	return "block-without-witness"
}

func stepKinds(as []*Answer) []string {
	var s []string
	for _, a := range as {
		s = append(s, a.Step+">"+a.Class)
	}
	return s
}

// kindsFor lists the answer steps served for a hash (signature material).
func kindsFor(d *director, h chainhash.Hash) string {
	d.mu.Lock()
	defer d.mu.Unlock()
	set := map[string]bool{}
	for _, a := range d.answers {
		if a.Hash == h {
			set[a.Step] = true
		}
	}
	var s []string
	for k := range set {
		s = append(s, k)
	}
	sort.Strings(s)
	return strings.Join(s, "+")
}

// diffWhat names how a block differs from the true one.
func diffWhat(got, want *wire.MsgBlock) string {
	switch {
	case got.BlockHash() != want.BlockHash():
		return "another-header"
	case len(got.Transactions) != len(want.Transactions):
		return fmt.Sprintf("tx-count-%+d", len(got.Transactions)-len(want.Transactions))
	case !bytes.Equal(ser(got, true), ser(want, true)):
		return "transactions-differ"
	case !HasWitness(got) && HasWitness(want):
		return "witness-data-missing"
	default:
		return "witness-data-differs"
	}
}

func errClass(e string) string {
	switch {
	case strings.Contains(e, "couldn't get header"):
		return "no-header"
	case strings.Contains(e, "did not get response before timeout"):
		return "query-timeout"
	case strings.Contains(e, "peer disconnected"):
		return "peer-disconnected"
	case strings.Contains(e, "couldn't retrieve block"):
		return "not-retrieved"
	case strings.Contains(e, "shutting down") || strings.Contains(e, "ShuttingDown"):
		return "shutting-down"
	}
	return "other"
}
