package c16

import (
	"fmt"
	"hash/fnv"
	"sort"
	"time"

	"github.com/anishathalye/porcupine"
)

// ---- own serial-order search (small tuples) --------------------------------

// SerialResult is the outcome of searching the serial orders of a few
// concurrent operations.
type SerialResult struct {
	Orders      int      // serial orders consistent with real-time precedence
	RetOK       bool     // some order reproduces every return value
	StateOK     bool     // some such order also ends in the observed quiescent state
	Explanation []string // per order: what the reference would have returned / ended in
	FinalStates []Ref    // final reference states of the orders that reproduce the returns
}

// CheckSerial searches every permutation of the mutating/reading (non-walk)
// operations idx that respects precedence (before[a][b]: a returned before b
// was invoked) for one whose reference execution from s0 reproduces rets and
// ends in obs.
func CheckSerial(s0 Ref, ops []Op, rets []Ret, idx []int, before func(a, b int) bool, obs Obs, explain bool) SerialResult {
	var res SerialResult
	perm := make([]int, 0, len(idx))
	used := make([]bool, len(idx))
	var rec func()
	rec = func() {
		if len(perm) == len(idx) {
			res.Orders++
			st := s0
			okRet := true
			desc := "order"
			for _, p := range perm {
				i := idx[p]
				want, next := st.Apply(ops[i])
				match := EqualRet(ops[i].Kind, want, rets[i])
				if explain {
					desc += fmt.Sprintf(" [%s -> ref %s / real %s%s]", ops[i], brief(ops[i].Kind, want), brief(ops[i].Kind, rets[i]),
						map[bool]string{true: "", false: " MISMATCH"}[match])
				}
				okRet = okRet && match
				st = next
			}
			if explain {
				desc += " => ref final " + st.String()
			}
			if okRet {
				res.RetOK = true
				res.FinalStates = append(res.FinalStates, st)
				if obs.Matches(st) {
					res.StateOK = true
				}
			}
			if explain {
				res.Explanation = append(res.Explanation, desc)
			}
			return
		}
		for p := range idx {
			if used[p] {
				continue
			}
			// p may come next only if no unused q must precede it.
			ok := true
			for q := range idx {
				if q != p && !used[q] && before(idx[q], idx[p]) {
					ok = false
					break
				}
			}
			if !ok {
				continue
			}
			used[p] = true
			perm = append(perm, p)
			rec()
			perm = perm[:len(perm)-1]
			used[p] = false
		}
	}
	rec()
	return res
}

func brief(kind string, r Ret) string {
	if r.Panic != "" {
		return "PANIC"
	}
	switch kind {
	case KPut:
		if r.Err {
			return "error"
		}
		return fmt.Sprintf("ok(evicted=%v)", r.Evicted)
	case KGet:
		if r.NotFound {
			return "not-found"
		}
		if r.Err {
			return "error"
		}
		return fmt.Sprintf("v%d", r.ValID)
	case KLad:
		if !r.Found {
			return fmt.Sprintf("(nil?%v,false)", r.ValID < 0)
		}
		return fmt.Sprintf("(v%d,true)", r.ValID)
	case KLen:
		return fmt.Sprint(r.N)
	case KSize:
		return fmt.Sprint(r.U)
	}
	return fmt.Sprint(r.Seq)
}

// ---- weak rule for walks that overlap writers ------------------------------

// CheckWalkWeak judges a RangeFILO/RangeFIFO/Range that ran concurrently with
// other operations. The statement does not make a walk an atomic snapshot, so
// only this is asserted: (1) every visited pair was stored under that key
// (in the state before the window or by a Put of the window); (2) every
// "stable" entry - resident before the window with the same value as at
// quiescence and whose key is not the argument of any operation of the window,
// hence resident and unmoved throughout - is visited exactly once, and for the
// ordered walks stable entries appear in their (fixed) recency order.
// A walk that stopped because its visitor said so (limit reached) is only
// subject to (1) and to "at most once" for stable entries. (3) No pass visits a
// key twice, and the visitor is not called again after it returned false.
func CheckWalkWeak(s0 Ref, windowOps []Op, final Obs, walk Op, got Ret) (rule, text string) {
	legit := map[KV]bool{}
	for _, e := range s0.L {
		legit[KV{e.K, e.V.ID}] = true
	}
	touched := map[int]bool{}
	for _, o := range windowOps {
		if o.Mutates() {
			touched[o.Key] = true
		}
		if o.Kind == KPut {
			legit[KV{o.Key, o.Val.ID}] = true
		}
	}
	for _, kv := range got.Seq {
		if !legit[kv] {
			return "walk-fabricated-pair", fmt.Sprintf("%s visited (k%d,v%d), which was never stored", walk, kv.K, kv.V)
		}
	}
	finalIdx := map[int]int{}
	for _, kv := range final.Index {
		finalIdx[kv.K] = kv.V
	}
	var stable []KV // in s0 recency order, most recent first
	for _, e := range s0.L {
		if v, ok := finalIdx[e.K]; ok && v == e.V.ID && !touched[e.K] {
			stable = append(stable, KV{e.K, e.V.ID})
		}
	}
	stopped := walk.Limit > 0 && len(got.Seq) >= walk.Limit
	count := map[KV]int{}
	keys := map[int]bool{}
	for _, kv := range got.Seq {
		count[kv]++
		if keys[kv.K] {
			return "walk-key-twice", fmt.Sprintf("%s visited key k%d twice in one pass: %v", walk, kv.K, got.Seq)
		}
		keys[kv.K] = true
	}
	if walk.Limit > 0 && len(got.Seq) > walk.Limit {
		return "walk-early-stop-ignored", fmt.Sprintf("%s: the visitor returned false at visit %d and was called again: %v", walk, walk.Limit, got.Seq)
	}
	for _, s := range stable {
		if count[s] > 1 {
			return "walk-stable-entry-twice", fmt.Sprintf("%s visited (k%d,v%d) %d times although no operation touched it: %v", walk, s.K, s.V, count[s], got.Seq)
		}
		if count[s] == 0 && !stopped {
			return "walk-missed-stable-entry", fmt.Sprintf("%s ended after visiting %v and never visited (k%d,v%d), which was resident and untouched during the whole walk (stable entries %v)", walk, got.Seq, s.K, s.V, stable)
		}
	}
	if walk.Kind == KFILO || walk.Kind == KFIFO {
		pos := map[KV]int{}
		for i, s := range stable {
			pos[s] = i
		}
		last := -1
		if walk.Kind == KFIFO {
			last = len(stable)
		}
		for _, kv := range got.Seq {
			p, ok := pos[kv]
			if !ok {
				continue
			}
			if (walk.Kind == KFILO && p < last) || (walk.Kind == KFIFO && p > last) {
				return "walk-stable-order", fmt.Sprintf("%s visited untouched entries out of recency order: %v (stable, most recent first: %v)", walk, got.Seq, stable)
			}
			last = p
		}
	}
	return "", ""
}

// ---- porcupine model -------------------------------------------------------

// ObserveInput is the input of the pseudo-operation that carries the quiescent
// observation at the end of a history.
type ObserveInput struct{}

// TimedOp is one recorded call.
type TimedOp struct {
	Client int   `json:"client"`
	Op     Op    `json:"op"`
	Ret    Ret   `json:"ret"`
	Call   int64 `json:"call"`
	Return int64 `json:"return"`
}

// Model is the porcupine model whose state is the reference LRU. It covers the
// deterministic operations (no poisoned values).
func Model(s0 Ref) porcupine.Model {
	return porcupine.Model{
		Init: func() interface{} { return s0 },
		Step: func(state, input, output interface{}) (bool, interface{}) {
			st := state.(Ref)
			if _, ok := input.(ObserveInput); ok {
				return output.(Obs).Matches(st), st
			}
			op := input.(Op)
			want, next := st.Apply(op)
			return EqualRet(op.Kind, want, output.(Ret)), next
		},
		Equal: func(a, b interface{}) bool { return EqualRef(a.(Ref), b.(Ref)) },
		Hash: func(s interface{}) uint64 {
			h := fnv.New64a()
			for _, e := range s.(Ref).L {
				h.Write([]byte{byte(e.K), byte(e.K >> 8), byte(e.V.ID), byte(e.V.ID >> 8), byte(e.V.ID >> 16)})
			}
			return h.Sum64()
		},
		DescribeOperation: func(in, out interface{}) string {
			if _, ok := in.(ObserveInput); ok {
				return fmt.Sprintf("observe -> %v", out.(Obs).FILO)
			}
			return fmt.Sprintf("%s -> %s", in.(Op), brief(in.(Op).Kind, out.(Ret)))
		},
	}
}

// Porcupine checks a recorded history (non-walk ops) plus the final
// observation. includeObs=false checks the return values alone.
func Porcupine(s0 Ref, hist []TimedOp, obs *Obs, timeout time.Duration) porcupine.CheckResult {
	var ops []porcupine.Operation
	var maxRet int64
	for _, h := range hist {
		if h.Op.IsWalk() {
			continue
		}
		ops = append(ops, porcupine.Operation{ClientId: h.Client, Input: h.Op, Output: h.Ret, Call: h.Call, Return: h.Return})
		if h.Return > maxRet {
			maxRet = h.Return
		}
	}
	if obs != nil {
		ops = append(ops, porcupine.Operation{ClientId: 1 << 20, Input: ObserveInput{}, Output: *obs, Call: maxRet + 1, Return: maxRet + 2})
	}
	sort.SliceStable(ops, func(i, j int) bool { return ops[i].Call < ops[j].Call })
	// ClientIds must be small for visualisation only; the checker ignores them.
	return porcupine.CheckOperationsTimeout(Model(s0), ops, timeout)
}
