package c16

import (
	"fmt"
	"regexp"
	"runtime"
	"strconv"
	"strings"
	"sync"
	"time"
)

// Goid returns the id of the calling goroutine (parsed from its stack header).
func Goid() uint64 {
	var buf [64]byte
	n := runtime.Stack(buf[:], false)
	// "goroutine 123 [running]:"
	s := buf[10:n]
	var id uint64
	for _, ch := range s {
		if ch < '0' || ch > '9' {
			break
		}
		id = id*10 + uint64(ch-'0')
	}
	return id
}

// SoftWait is how long a driver waits for a step before it stops waiting and
// hands the execution to the deferred watchdog. It is a scheduling heuristic
// only: no verdict depends on it.
var SoftWait = 400 * time.Millisecond

// Watchdog parameters (verdict-relevant): a call is only ever called blocked
// when it has not returned WatchdogAfter after its start AND two goroutine
// dumps DumpGap apart show it parked in the same lock-acquisition frame.
const (
	WatchdogAfter = 30 * time.Second
	DumpGap       = 2 * time.Second
)

// Pending is an execution that did not finish within SoftWait.
type Pending struct {
	Engine  string
	Sig     string // signature to use if judged blocked
	What    string
	Witness map[string]any
	Started time.Time
	// Unfinished returns the ids of the goroutines of this execution that
	// have not finished their call on the cache (empty: it completed late).
	Unfinished func() []uint64
}

// PendingList collects pending executions from all workers.
type PendingList struct {
	mu sync.Mutex
	l  []*Pending
}

func (p *PendingList) Add(x *Pending) { p.mu.Lock(); p.l = append(p.l, x); p.mu.Unlock() }
func (p *PendingList) Len() int       { p.mu.Lock(); defer p.mu.Unlock(); return len(p.l) }

type gstate struct {
	status string
	frames string
}

var hdrRe = regexp.MustCompile(`^goroutine (\d+) \[([^\]]*)\]`)

func dumpAll() map[uint64]gstate {
	sz := 1 << 20
	var buf []byte
	for {
		buf = make([]byte, sz)
		n := runtime.Stack(buf, true)
		if n < sz {
			buf = buf[:n]
			break
		}
		sz *= 2
		if sz > 1<<30 {
			break
		}
	}
	out := map[uint64]gstate{}
	for _, blk := range strings.Split(string(buf), "\n\n") {
		lines := strings.Split(blk, "\n")
		m := hdrRe.FindStringSubmatch(lines[0])
		if m == nil {
			continue
		}
		id, _ := strconv.ParseUint(m[1], 10, 64)
		status := m[2]
		if i := strings.Index(status, ","); i >= 0 {
			status = status[:i] // drop ", 2 minutes"
		}
		var fr []string
		for _, ln := range lines[1:] {
			if strings.HasPrefix(ln, "\t") || ln == "" || strings.HasPrefix(ln, "created by") {
				continue
			}
			if i := strings.LastIndex(ln, "("); i > 0 {
				ln = ln[:i] // drop argument words
			}
			fr = append(fr, ln)
		}
		out[id] = gstate{status: status, frames: strings.Join(fr, " <- ")}
	}
	return out
}

func lockWait(g gstate) bool {
	st := g.status
	ok := strings.HasPrefix(st, "sync.RWMutex.") || strings.HasPrefix(st, "sync.Mutex.") ||
		strings.HasPrefix(st, "semacquire")
	return ok && strings.Contains(g.frames, "sync.(*RWMutex).") && strings.Contains(g.frames, "cache/lru.(*Cache")
}

// Judgement of one pending execution.
type Judgement struct {
	P        *Pending
	Verdict  string // "blocked", "completed-late", "not-provably-blocked"
	Evidence string
}

// Judge classifies every pending execution. Each cache is private to its
// execution, so when every goroutine of the execution that is still inside a
// cache call is parked acquiring that cache's mutex in two dumps DumpGap
// apart, no goroutine exists that could release it: the lock was leaked.
func (p *PendingList) Judge(logf func(string, ...any)) []Judgement {
	p.mu.Lock()
	l := append([]*Pending(nil), p.l...)
	p.mu.Unlock()
	if len(l) == 0 {
		return nil
	}
	var latest time.Time
	for _, x := range l {
		if x.Started.After(latest) {
			latest = x.Started
		}
	}
	if d := time.Until(latest.Add(WatchdogAfter)); d > 0 {
		logf("C16: %d executions did not return; watchdog waits %.0fs before judging them", len(l), d.Seconds())
		time.Sleep(d)
	}
	ids1 := make([][]uint64, len(l))
	for i, x := range l {
		ids1[i] = x.Unfinished()
	}
	d1 := dumpAll()
	time.Sleep(DumpGap)
	d2 := dumpAll()
	var out []Judgement
	for i, x := range l {
		ids := x.Unfinished()
		if len(ids) == 0 {
			out = append(out, Judgement{x, "completed-late", ""})
			continue
		}
		blocked := len(ids) == len(ids1[i])
		var ev []string
		for _, id := range ids {
			a, okA := d1[id]
			b, okB := d2[id]
			if !okA || !okB || a != b || !lockWait(a) {
				blocked = false
				ev = append(ev, fmt.Sprintf("goroutine %d: dump1=%v/%q dump2=%v/%q", id, okA, a.status, okB, b.status))
				continue
			}
			ev = append(ev, fmt.Sprintf("goroutine %d [%s] in both dumps %.0fs apart: %s", id, a.status, DumpGap.Seconds(), a.frames))
		}
		v := "not-provably-blocked"
		if blocked {
			v = "blocked"
		}
		out = append(out, Judgement{x, v, strings.Join(ev, "\n")})
	}
	return out
}
