// Package c16 holds the oracle and drivers of the C16 check (LRU cache).
//
// ref.go is the sequential reference LRU. It is written from the property
// statement and the documented contract of cache/lru, not from its code:
// a recency-ordered list of (key,value) with a byte budget.
package c16

import (
	"fmt"
	"sort"
	"strings"
	"sync/atomic"
)

// Value modes.
const (
	ModeOK      = 0 // Size() always succeeds
	ModeBadSize = 1 // Size() always fails (value whose size cannot be computed)
	ModePoison  = 2 // Size() succeeds on the first call (insertion) and fails afterwards
)

// Val is the cache.Value used by every engine. Sz is the nominal size (the
// one reported at insertion); the oracle sums nominal sizes.
type Val struct {
	ID    int    `json:"id"`
	Sz    uint64 `json:"size"`
	Mode  int    `json:"mode"`
	calls atomic.Int32
}

// Size implements cache.Value.
func (v *Val) Size() (uint64, error) {
	n := v.calls.Add(1)
	switch {
	case v.Mode == ModeBadSize:
		return 0, fmt.Errorf("val %d: size cannot be computed", v.ID)
	case v.Mode == ModePoison && n > 1:
		return 0, fmt.Errorf("val %d: size can no longer be computed", v.ID)
	}
	return v.Sz, nil
}

// Fresh returns a copy with a zeroed call counter (values are re-created for
// every execution so that executions are independent).
func (v *Val) Fresh() *Val {
	if v == nil {
		return nil
	}
	return &Val{ID: v.ID, Sz: v.Sz, Mode: v.Mode}
}

// Operation kinds.
const (
	KPut   = "put"
	KGet   = "get"
	KLad   = "lad" // LoadAndDelete
	KDel   = "del" // Delete
	KLen   = "len"
	KSize  = "size"
	KRange = "range" // unordered Range
	KFILO  = "filo"  // RangeFILO: most recent first
	KFIFO  = "fifo"  // RangeFIFO: least recent first
)

// Op is one call on the cache.
type Op struct {
	Kind  string `json:"kind"`
	Key   int    `json:"key,omitempty"`
	Val   *Val   `json:"val,omitempty"`
	Limit int    `json:"limit,omitempty"` // range kinds: visitor returns false at the Limit-th visit (0: never)
}

func (o Op) String() string {
	switch o.Kind {
	case KPut:
		m := ""
		if o.Val.Mode == ModeBadSize {
			m = ",badsize"
		} else if o.Val.Mode == ModePoison {
			m = ",poison"
		}
		return fmt.Sprintf("Put(k%d,v%d[size=%d%s])", o.Key, o.Val.ID, o.Val.Sz, m)
	case KGet:
		return fmt.Sprintf("Get(k%d)", o.Key)
	case KLad:
		return fmt.Sprintf("LoadAndDelete(k%d)", o.Key)
	case KDel:
		return fmt.Sprintf("Delete(k%d)", o.Key)
	case KLen:
		return "Len()"
	case KSize:
		return "Size()"
	case KRange, KFILO, KFIFO:
		name := map[string]string{KRange: "Range", KFILO: "RangeFILO", KFIFO: "RangeFIFO"}[o.Kind]
		if o.Limit > 0 {
			return fmt.Sprintf("%s(stop@%d)", name, o.Limit)
		}
		return name + "()"
	}
	return o.Kind
}

// IsWalk reports whether the op is one of the iteration calls.
func (o Op) IsWalk() bool { return o.Kind == KRange || o.Kind == KFILO || o.Kind == KFIFO }

// Mutates reports whether the op can change the abstract state.
func (o Op) Mutates() bool {
	return o.Kind == KPut || o.Kind == KGet || o.Kind == KLad || o.Kind == KDel
}

// KV is a visited / resident (key, value id) pair.
type KV struct {
	K int `json:"k"`
	V int `json:"v"`
}

// Ret is what a call returned, normalised.
type Ret struct {
	Err      bool   `json:"err,omitempty"`      // put: error returned; get: an error other than not-found
	Evicted  bool   `json:"evicted,omitempty"`  // put
	NotFound bool   `json:"notfound,omitempty"` // get: ErrElementNotFound
	Found    bool   `json:"found,omitempty"`    // lad: second result
	ValID    int    `json:"val"`                // get/lad: id of the value returned, -1 for nil
	N        int    `json:"n,omitempty"`        // len
	U        uint64 `json:"u,omitempty"`        // size
	Seq      []KV   `json:"seq,omitempty"`      // walks: visited pairs in visiting order
	Panic    string `json:"panic,omitempty"`
}

func (r Ret) String() string {
	if r.Panic != "" {
		return "PANIC " + r.Panic
	}
	return fmt.Sprintf("{err=%v evicted=%v notfound=%v found=%v val=%d n=%d u=%d seq=%v}",
		r.Err, r.Evicted, r.NotFound, r.Found, r.ValID, r.N, r.U, r.Seq)
}

// EqualRet compares two returns of the same op kind.
func EqualRet(kind string, a, b Ret) bool {
	if a.Panic != "" || b.Panic != "" {
		return false
	}
	switch kind {
	case KPut:
		return a.Err == b.Err && (a.Err || a.Evicted == b.Evicted)
	case KGet:
		return a.Err == b.Err && a.NotFound == b.NotFound && a.ValID == b.ValID
	case KLad:
		return a.Found == b.Found && a.ValID == b.ValID
	case KDel:
		return true
	case KLen:
		return a.N == b.N
	case KSize:
		return a.U == b.U
	case KFILO, KFIFO:
		return eqSeq(a.Seq, b.Seq)
	case KRange:
		return eqSeq(sortedKV(a.Seq), sortedKV(b.Seq))
	}
	return false
}

func eqSeq(a, b []KV) bool {
	if len(a) != len(b) {
		return false
	}
	for i := range a {
		if a[i] != b[i] {
			return false
		}
	}
	return true
}

func sortedKV(s []KV) []KV {
	c := append([]KV(nil), s...)
	sort.Slice(c, func(i, j int) bool {
		if c[i].K != c[j].K {
			return c[i].K < c[j].K
		}
		return c[i].V < c[j].V
	})
	return c
}

// Ent is one resident entry of the reference cache.
type Ent struct {
	K int
	V *Val
}

// Ref is the reference LRU: L[0] is the most recently used entry.
// Values of type Ref are never mutated in place; every step returns a copy.
type Ref struct {
	Cap uint64
	L   []Ent
}

// Sum is the total nominal size of the resident entries.
func (r Ref) Sum() uint64 {
	var s uint64
	for _, e := range r.L {
		s += e.V.Sz
	}
	return s
}

// Find returns the position of key k or -1.
func (r Ref) Find(k int) int {
	for i, e := range r.L {
		if e.K == k {
			return i
		}
	}
	return -1
}

func (r Ref) without(i int) Ref {
	n := Ref{Cap: r.Cap, L: make([]Ent, 0, len(r.L))}
	n.L = append(n.L, r.L[:i]...)
	n.L = append(n.L, r.L[i+1:]...)
	return n
}

func (r Ref) clone() Ref {
	return Ref{Cap: r.Cap, L: append([]Ent(nil), r.L...)}
}

// FILO lists the resident pairs, most recent first.
func (r Ref) FILO() []KV {
	s := make([]KV, len(r.L))
	for i, e := range r.L {
		s[i] = KV{e.K, e.V.ID}
	}
	return s
}

func (r Ref) String() string {
	var b strings.Builder
	fmt.Fprintf(&b, "cap=%d sum=%d [", r.Cap, r.Sum())
	for i, e := range r.L {
		if i > 0 {
			b.WriteString(" ")
		}
		fmt.Fprintf(&b, "k%d:v%d(%d)", e.K, e.V.ID, e.V.Sz)
	}
	b.WriteString("] (most recent first)")
	return b.String()
}

// EqualRef compares two reference states.
func EqualRef(a, b Ref) bool {
	if a.Cap != b.Cap || len(a.L) != len(b.L) {
		return false
	}
	for i := range a.L {
		if a.L[i].K != b.L[i].K || a.L[i].V.ID != b.L[i].V.ID {
			return false
		}
	}
	return true
}

// Outcome is one acceptable (return, next state) pair of an operation.
type Outcome struct {
	Ret  Ret
	Next Ref
	Note string
}

func limitSeq(s []KV, limit int) []KV {
	if limit > 0 && len(s) > limit {
		return s[:limit]
	}
	return s
}

// putPlan computes the successful execution of Put(k,v) on r: the next state,
// whether entries had to be evicted, how many, and whether the size of a
// poisoned resident value would have been needed (the replaced entry or any
// evicted entry).
func (r Ref) putPlan(k int, v *Val) (next Ref, evicted bool, nEvicted int, poisonReplace, poisonEvict bool) {
	next = r.clone()
	if i := next.Find(k); i >= 0 {
		if next.L[i].V.Mode == ModePoison {
			poisonReplace = true
		}
		next = next.without(i)
	}
	sum := next.Sum()
	for sum+v.Sz > next.Cap && len(next.L) > 0 {
		last := next.L[len(next.L)-1]
		if last.V.Mode == ModePoison {
			poisonEvict = true
		}
		sum -= last.V.Sz
		next.L = next.L[:len(next.L)-1]
		evicted = true
		nEvicted++
	}
	next.L = append([]Ent{{K: k, V: v}}, next.L...)
	return
}

// Situation names the shape of an operation relative to the state it is
// applied to; used in signatures and fingerprints.
func (r Ref) Situation(op Op) string {
	switch op.Kind {
	case KPut:
		if op.Val.Mode == ModeBadSize {
			return "new-size-error"
		}
		if op.Val.Sz > r.Cap {
			return "oversize"
		}
		_, ev, n, pr, pe := r.putPlan(op.Key, op.Val)
		i := r.Find(op.Key)
		switch {
		case pr:
			return "replace-poisoned"
		case pe:
			return "evict-poisoned"
		case i >= 0 && ev:
			return "replace+evict"
		case i >= 0:
			old := r.L[i].V.Sz
			switch {
			case op.Val.Sz > old:
				return "replace-bigger"
			case op.Val.Sz < old:
				return "replace-smaller"
			}
			return "replace-same-size"
		case ev && n > 1:
			return "evict-many"
		case ev:
			return "evict-one"
		}
		return "insert"
	case KGet:
		if r.Find(op.Key) >= 0 {
			return "hit"
		}
		return "miss"
	case KLad, KDel:
		i := r.Find(op.Key)
		if i < 0 {
			return "miss"
		}
		if r.L[i].V.Mode == ModePoison {
			return "poisoned"
		}
		return "hit"
	case KRange, KFILO, KFIFO:
		if op.Limit > 0 && op.Limit < len(r.L) {
			return "abort"
		}
		return "full"
	}
	return "-"
}

// Outcomes lists every acceptable result of op on r. For operations that do
// not need the size of a poisoned resident value there is exactly one. Where
// the size of a resident value is needed and cannot be computed the statement
// only says the cache must stay usable, so the set is: the operation succeeds
// exactly as if the nominal size were known, or it fails and leaves the state
// unchanged except that the replaced entry and/or a least-recently-used suffix
// (no longer than the successful run would have evicted) may be gone.
func (r Ref) Outcomes(op Op) []Outcome {
	switch op.Kind {
	case KPut:
		v := op.Val
		if v.Mode == ModeBadSize || v.Sz > r.Cap {
			return []Outcome{{Ret: Ret{Err: true, ValID: -1}, Next: r, Note: "rejected"}}
		}
		next, ev, n, pr, pe := r.putPlan(op.Key, v)
		out := []Outcome{{Ret: Ret{Evicted: ev, ValID: -1}, Next: next, Note: "stored"}}
		if !pr && !pe {
			return out
		}
		// Failure outcomes.
		bases := []Ref{r}
		if i := r.Find(op.Key); i >= 0 {
			bases = append(bases, r.without(i))
		}
		for _, b := range bases {
			for j := 0; j <= n && j <= len(b.L); j++ {
				s := Ref{Cap: b.Cap, L: append([]Ent(nil), b.L[:len(b.L)-j]...)}
				out = append(out, Outcome{Ret: Ret{Err: true, ValID: -1}, Next: s,
					Note: fmt.Sprintf("failed; %d lru entries gone", j)})
			}
		}
		return out
	case KGet:
		i := r.Find(op.Key)
		if i < 0 {
			return []Outcome{{Ret: Ret{NotFound: true, ValID: -1}, Next: r}}
		}
		e := r.L[i]
		n := r.without(i)
		n.L = append([]Ent{e}, n.L...)
		return []Outcome{{Ret: Ret{ValID: e.V.ID}, Next: n}}
	case KLad, KDel:
		i := r.Find(op.Key)
		if i < 0 {
			return []Outcome{{Ret: Ret{ValID: -1}, Next: r}}
		}
		e := r.L[i]
		out := []Outcome{{Ret: Ret{Found: true, ValID: e.V.ID}, Next: r.without(i), Note: "deleted"}}
		if e.V.Mode == ModePoison {
			out = append(out,
				Outcome{Ret: Ret{ValID: -1}, Next: r, Note: "failed; unchanged"},
				Outcome{Ret: Ret{ValID: -1}, Next: r.without(i), Note: "failed; entry gone"})
		}
		return out
	case KLen:
		return []Outcome{{Ret: Ret{N: len(r.L), ValID: -1}, Next: r}}
	case KSize:
		return []Outcome{{Ret: Ret{U: r.Sum(), ValID: -1}, Next: r}}
	case KFILO:
		return []Outcome{{Ret: Ret{Seq: limitSeq(r.FILO(), op.Limit), ValID: -1}, Next: r}}
	case KFIFO:
		f := r.FILO()
		for i, j := 0, len(f)-1; i < j; i, j = i+1, j-1 {
			f[i], f[j] = f[j], f[i]
		}
		return []Outcome{{Ret: Ret{Seq: limitSeq(f, op.Limit), ValID: -1}, Next: r}}
	case KRange:
		// Unordered: handled by MatchRange.
		return []Outcome{{Ret: Ret{Seq: r.FILO(), ValID: -1}, Next: r}}
	}
	panic("unknown op kind " + op.Kind)
}

// Apply is Outcomes for the deterministic case (no poisoned residents
// involved); it returns the first (success) outcome.
func (r Ref) Apply(op Op) (Ret, Ref) {
	o := r.Outcomes(op)[0]
	return o.Ret, o.Next
}

// MatchRange checks the result of a sequential unordered Range against r:
// distinct resident pairs, min(limit,len) of them.
func (r Ref) MatchRange(op Op, got Ret) bool {
	want := len(r.L)
	if op.Limit > 0 && op.Limit < want {
		want = op.Limit
	}
	if len(got.Seq) != want {
		return false
	}
	seen := map[int]bool{}
	for _, kv := range got.Seq {
		i := r.Find(kv.K)
		if i < 0 || r.L[i].V.ID != kv.V || seen[kv.K] {
			return false
		}
		seen[kv.K] = true
	}
	return true
}
