package c16

import (
	"fmt"
	"math/rand"
	"sort"
	"strings"
)

// ---- engine (a): sequential histories --------------------------------------

// SeqCase is one sequential history.
type SeqCase struct {
	Cap      uint64
	Callback bool
	Poison   bool // history may contain values whose size fails after insertion
	Ops      []Op
}

// GenSeq draws a sequential history.
func GenSeq(rng *rand.Rand) SeqCase {
	cs := SeqCase{Callback: rng.Intn(2) == 0, Poison: rng.Intn(10) < 3}
	switch x := rng.Intn(50); {
	case x == 0:
		cs.Cap = 0
	default:
		cs.Cap = uint64(1 + rng.Intn(12))
	}
	nkeys := 2 + rng.Intn(5)
	n := 8 + rng.Intn(43)
	id := 0
	for i := 0; i < n; i++ {
		k := rng.Intn(nkeys)
		switch x := rng.Intn(100); {
		case x < 45:
			id++
			v := &Val{ID: id, Sz: drawSize(rng, cs.Cap)}
			if m := rng.Intn(100); m < 4 {
				v.Mode = ModeBadSize
			} else if cs.Poison && m < 18 {
				v.Mode = ModePoison
			}
			cs.Ops = append(cs.Ops, Op{Kind: KPut, Key: k, Val: v})
		case x < 65:
			cs.Ops = append(cs.Ops, Op{Kind: KGet, Key: k})
		case x < 75:
			cs.Ops = append(cs.Ops, Op{Kind: KLad, Key: k})
		case x < 80:
			cs.Ops = append(cs.Ops, Op{Kind: KDel, Key: k})
		case x < 90:
			kind := []string{KRange, KFILO, KFIFO}[rng.Intn(3)]
			lim := 0
			if rng.Intn(2) == 0 {
				lim = 1 + rng.Intn(4)
			}
			cs.Ops = append(cs.Ops, Op{Kind: kind, Limit: lim})
		case x < 95:
			cs.Ops = append(cs.Ops, Op{Kind: KLen})
		default:
			cs.Ops = append(cs.Ops, Op{Kind: KSize})
		}
	}
	return cs
}

func drawSize(rng *rand.Rand, capacity uint64) uint64 {
	c := int(capacity)
	switch x := rng.Intn(100); {
	case x < 5:
		return 0
	case x < 60:
		return uint64(1 + rng.Intn(3))
	case x < 90:
		if c == 0 {
			return 0
		}
		return uint64(1 + rng.Intn(c))
	case x < 95:
		return capacity
	default:
		return capacity + uint64(1+rng.Intn(3))
	}
}

// ---- engine (b): prefixes and tuples ---------------------------------------

// Kinds of scheduled operations, relative to a hot resident key h, another
// resident key g and absent keys n1, n2.
var PairKinds = []string{
	"putH", "putNevH", "putNsmall", "putG", "getH", "getG", "ladH", "ladG",
	"getN1", "ladN1", "putBadH", "putOverH", "len", "size", "filo", "fifo", "range",
}

// TripleKinds is the core set from which 3-operation tuples are drawn.
var TripleKinds = []string{"putH", "putNevH", "putNsmall", "getH", "ladH", "putG"}

func mutatingKind(k string) bool {
	switch k {
	case "len", "size", "filo", "fifo", "range":
		return false
	}
	return true
}

// Multisets returns all multisets of size n over kinds, keeping only those
// with at least one state-changing operation.
func Multisets(kinds []string, n int) [][]string {
	var out [][]string
	var rec func(start int, cur []string)
	rec = func(start int, cur []string) {
		if len(cur) == n {
			ok := false
			for _, k := range cur {
				ok = ok || mutatingKind(k)
			}
			if ok {
				out = append(out, append([]string(nil), cur...))
			}
			return
		}
		for i := start; i < len(kinds); i++ {
			rec(i, append(cur, kinds[i]))
		}
	}
	rec(0, nil)
	return out
}

// Prefix is a sequential prefix and the reference state it leads to.
type Prefix struct {
	Cap      uint64
	Callback bool
	Ops      []Op
	State    Ref
	H, G     int // hot key, other resident key (-1 if none)
	HPos     string
	nextID   int
}

// GenPrefix draws a prefix leaving at least two resident keys. which selects
// where the hot key sits in the recency order.
func GenPrefix(rng *rand.Rand, which int) Prefix {
	p := Prefix{Cap: uint64(4 + rng.Intn(7)), Callback: rng.Intn(2) == 0}
	st := Ref{Cap: p.Cap}
	add := func(op Op) {
		p.Ops = append(p.Ops, op)
		_, st = st.Apply(op)
	}
	n := 3 + rng.Intn(6)
	for i := 0; i < n; i++ {
		k := rng.Intn(5)
		switch x := rng.Intn(10); {
		case x < 7:
			p.nextID++
			add(Op{Kind: KPut, Key: k, Val: &Val{ID: p.nextID, Sz: uint64(1 + rng.Intn(3))}})
		case x < 9:
			add(Op{Kind: KGet, Key: k})
		default:
			add(Op{Kind: KLad, Key: k})
		}
	}
	for try := 0; len(st.L) < 3 && try < 6; try++ {
		for k := 0; k < 5; k++ {
			if st.Find(k) < 0 {
				p.nextID++
				add(Op{Kind: KPut, Key: k, Val: &Val{ID: p.nextID, Sz: 1}})
				break
			}
		}
	}
	p.State = st
	var hi int
	switch which % 3 {
	case 0:
		hi, p.HPos = len(st.L)-1, "lru"
	case 1:
		hi, p.HPos = 0, "mru"
	default:
		hi, p.HPos = rng.Intn(len(st.L)), "any"
	}
	p.H = st.L[hi].K
	p.G = -1
	if len(st.L) > 1 {
		gi := rng.Intn(len(st.L) - 1)
		if gi >= hi {
			gi++
		}
		p.G = st.L[gi].K
	}
	return p
}

// Instantiate turns kind names into concrete operations for this prefix.
func (p *Prefix) Instantiate(rng *rand.Rand, kinds []string) []Op {
	const n1, n2 = 7, 8
	st := p.State
	id := p.nextID + 100
	newVal := func(sz uint64, mode int) *Val { id++; return &Val{ID: id, Sz: sz, Mode: mode} }
	otherSize := func(k int) uint64 {
		old := uint64(0)
		if i := st.Find(k); i >= 0 {
			old = st.L[i].V.Sz
		}
		for {
			s := uint64(rng.Intn(5))
			if s != old && s <= st.Cap {
				return s
			}
		}
	}
	g := p.G
	if g < 0 {
		g = p.H
	}
	var ops []Op
	for _, k := range kinds {
		switch k {
		case "putH":
			ops = append(ops, Op{Kind: KPut, Key: p.H, Val: newVal(otherSize(p.H), ModeOK)})
		case "putG":
			ops = append(ops, Op{Kind: KPut, Key: g, Val: newVal(otherSize(g), ModeOK)})
		case "putNevH":
			// Large enough that, run alone, it evicts h and everything older.
			var newer uint64
			for _, e := range st.L[:st.Find(p.H)] {
				newer += e.V.Sz
			}
			ops = append(ops, Op{Kind: KPut, Key: n1, Val: newVal(st.Cap-newer, ModeOK)})
		case "putNsmall":
			ops = append(ops, Op{Kind: KPut, Key: n2, Val: newVal(1, ModeOK)})
		case "putBadH":
			ops = append(ops, Op{Kind: KPut, Key: p.H, Val: newVal(1, ModeBadSize)})
		case "putOverH":
			ops = append(ops, Op{Kind: KPut, Key: p.H, Val: newVal(st.Cap+1, ModeOK)})
		case "getH":
			ops = append(ops, Op{Kind: KGet, Key: p.H})
		case "getG":
			ops = append(ops, Op{Kind: KGet, Key: g})
		case "getN1":
			ops = append(ops, Op{Kind: KGet, Key: n1})
		case "ladH":
			ops = append(ops, Op{Kind: KLad, Key: p.H})
		case "ladG":
			ops = append(ops, Op{Kind: KLad, Key: g})
		case "ladN1":
			ops = append(ops, Op{Kind: KLad, Key: n1})
		case "len":
			ops = append(ops, Op{Kind: KLen})
		case "size":
			ops = append(ops, Op{Kind: KSize})
		case "filo":
			ops = append(ops, Op{Kind: KFILO})
		case "fifo":
			ops = append(ops, Op{Kind: KFIFO})
		case "range":
			ops = append(ops, Op{Kind: KRange})
		default:
			panic("kind " + k)
		}
	}
	return ops
}

// Shape is the normalised name of a tuple.
func Shape(kinds []string) string {
	c := append([]string(nil), kinds...)
	sort.Strings(c)
	return strings.Join(c, "|")
}

// ---- engine (c): stress windows --------------------------------------------

// Window is one free-running stress window.
type Window struct {
	Cap      uint64
	Callback bool
	Prefix   []Op
	State    Ref    // reference state after the prefix
	Clients  [][]Op // per goroutine
	Walker   []Op   // extra goroutine doing walks (may be empty)
}

// GenWindow draws a stress window: few hot keys, two bystander keys nobody
// touches, 3-8 goroutines with 2-4 operations each.
func GenWindow(rng *rand.Rand) Window {
	w := Window{Cap: uint64(5 + rng.Intn(8)), Callback: rng.Intn(2) == 0}
	st := Ref{Cap: w.Cap}
	id := 0
	add := func(op Op) {
		w.Prefix = append(w.Prefix, op)
		_, st = st.Apply(op)
	}
	nhot := 2 + rng.Intn(2)
	for k := 0; k < nhot; k++ {
		if rng.Intn(4) > 0 {
			id++
			add(Op{Kind: KPut, Key: k, Val: &Val{ID: id, Sz: uint64(1 + rng.Intn(3))}})
		}
	}
	// Bystanders: sometimes most recent, sometimes least recent.
	by := []Op{}
	for _, k := range []int{100, 101} {
		id++
		by = append(by, Op{Kind: KPut, Key: k, Val: &Val{ID: id, Sz: 1}})
	}
	if rng.Intn(2) == 0 {
		for _, o := range by {
			add(o)
		}
	} else {
		old := w.Prefix
		w.Prefix, st = nil, Ref{Cap: w.Cap}
		for _, o := range by {
			add(o)
		}
		for _, o := range old {
			add(o)
		}
	}
	w.State = st
	g := 3 + rng.Intn(6)
	for c := 0; c < g; c++ {
		m := 2 + rng.Intn(3)
		var ops []Op
		for i := 0; i < m; i++ {
			k := rng.Intn(nhot)
			switch x := rng.Intn(100); {
			case x < 45:
				id++
				v := &Val{ID: id, Sz: uint64(1 + rng.Intn(4))}
				if y := rng.Intn(100); y < 4 {
					v.Mode = ModeBadSize
				} else if y < 8 {
					v.Sz = w.Cap + 1
				}
				ops = append(ops, Op{Kind: KPut, Key: k, Val: v})
			case x < 72:
				ops = append(ops, Op{Kind: KGet, Key: k})
			case x < 94:
				ops = append(ops, Op{Kind: KLad, Key: k})
			case x < 97:
				ops = append(ops, Op{Kind: KLen})
			default:
				ops = append(ops, Op{Kind: KSize})
			}
		}
		w.Clients = append(w.Clients, ops)
	}
	if rng.Intn(10) < 6 {
		n := 1 + rng.Intn(3)
		for i := 0; i < n; i++ {
			w.Walker = append(w.Walker, Op{Kind: []string{KFIFO, KFILO, KRange, KFIFO}[rng.Intn(4)]})
		}
	}
	return w
}

// OpsStrings renders operations for witnesses.
func OpsStrings(ops []Op) []string {
	s := make([]string, len(ops))
	for i, o := range ops {
		s[i] = o.String()
	}
	return s
}

// Sizes collects value id -> nominal size from operations.
func Sizes(m map[int]uint64, ops ...[]Op) map[int]uint64 {
	if m == nil {
		m = map[int]uint64{}
	}
	for _, l := range ops {
		for _, o := range l {
			if o.Val != nil {
				m[o.Val.ID] = o.Val.Sz
			}
		}
	}
	return m
}

var _ = fmt.Sprint
