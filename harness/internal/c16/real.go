package c16

import (
	"errors"
	"fmt"
	"runtime"
	"sync/atomic"

	"github.com/lightninglabs/neutrino/cache"
	"github.com/lightninglabs/neutrino/cache/lru"
)

// Cache is the concrete instantiation under test.
type Cache = lru.Cache[int, *Val]

// CallbackCalls counts invocations of the delete callback (evidence only).
var CallbackCalls atomic.Int64

// NewCache builds a real cache. Half of the callers pass withCallback to also
// exercise the delete-callback path (the callback only counts).
func NewCache(capacity uint64, withCallback bool) *Cache {
	if withCallback {
		return lru.NewCache[int, *Val](capacity, lru.WithDeleteCallback(func(int, *Val) {
			CallbackCalls.Add(1)
		}))
	}
	return lru.NewCache[int, *Val](capacity)
}

// NewCacheWith builds a real cache with the given delete callback (nil: none).
func NewCacheWith(capacity uint64, cb func(int, *Val)) *Cache {
	if cb == nil {
		return lru.NewCache[int, *Val](capacity)
	}
	return lru.NewCache[int, *Val](capacity, lru.WithDeleteCallback(func(k int, v *Val) {
		CallbackCalls.Add(1)
		cb(k, v)
	}))
}

func valID(v *Val) int {
	if v == nil {
		return -1
	}
	return v.ID
}

// Do performs op on the real cache and normalises what it returned. A panic
// of the code under test is recovered and reported in Ret.Panic. visit, when
// non-nil, is called from inside every visitor callback of a walk (it is how
// the schedulers pause a walk between two steps).
func Do(c *Cache, op Op, visit func()) (ret Ret) {
	ret.ValID = -1
	defer func() {
		if p := recover(); p != nil {
			buf := make([]byte, 2048)
			buf = buf[:runtime.Stack(buf, false)]
			ret.Panic = fmt.Sprintf("%v\n%s", p, buf)
		}
	}()
	switch op.Kind {
	case KPut:
		ev, err := c.Put(op.Key, op.Val)
		ret.Evicted, ret.Err = ev, err != nil
	case KGet:
		v, err := c.Get(op.Key)
		switch {
		case err == nil:
			ret.ValID = valID(v)
		case errors.Is(err, cache.ErrElementNotFound):
			ret.NotFound = true
		default:
			ret.Err = true
		}
	case KLad:
		v, ok := c.LoadAndDelete(op.Key)
		ret.Found = ok
		ret.ValID = valID(v)
	case KDel:
		c.Delete(op.Key)
	case KLen:
		ret.N = c.Len()
	case KSize:
		ret.U = c.Size()
	case KRange, KFILO, KFIFO:
		n := 0
		ret.Seq = []KV{}
		visitor := func(k int, v *Val) bool {
			ret.Seq = append(ret.Seq, KV{k, valID(v)})
			n++
			if visit != nil {
				visit()
			}
			return !(op.Limit > 0 && n >= op.Limit)
		}
		switch op.Kind {
		case KRange:
			c.Range(visitor)
		case KFILO:
			c.RangeFILO(visitor)
		default:
			c.RangeFIFO(visitor)
		}
	default:
		panic("unknown op kind " + op.Kind)
	}
	return ret
}

// Obs is everything the public API shows about a quiescent cache.
type Obs struct {
	Len   int    `json:"len"`
	Size  uint64 `json:"size"`
	FILO  []KV   `json:"filo"`  // RangeFILO: most recent first
	FIFO  []KV   `json:"fifo"`  // RangeFIFO: least recent first
	Index []KV   `json:"index"` // Range (the key index), sorted by key
	Panic string `json:"panic,omitempty"`
}

// Observe reads the quiescent state through the public API only.
func Observe(c *Cache) Obs {
	var o Obs
	r := Do(c, Op{Kind: KLen}, nil)
	o.Len, o.Panic = r.N, r.Panic
	r = Do(c, Op{Kind: KSize}, nil)
	o.Size = r.U
	if r.Panic != "" {
		o.Panic = r.Panic
	}
	// A corrupted list could in principle be cyclic; bound the walks.
	const maxWalk = 10000
	r = Do(c, Op{Kind: KFILO, Limit: maxWalk}, nil)
	o.FILO = r.Seq
	if r.Panic != "" {
		o.Panic = r.Panic
	}
	r = Do(c, Op{Kind: KFIFO, Limit: maxWalk}, nil)
	o.FIFO = r.Seq
	if r.Panic != "" {
		o.Panic = r.Panic
	}
	r = Do(c, Op{Kind: KRange}, nil)
	o.Index = sortedKV(r.Seq)
	if r.Panic != "" {
		o.Panic = r.Panic
	}
	return o
}

// Structural checks the model-independent quiescent invariants of the
// statement on an observation; sizes maps value id to nominal size. It returns
// "" or the name of the first broken invariant plus a description.
func (o Obs) Structural(capacity uint64, sizes map[int]uint64) (string, string) {
	if o.Panic != "" {
		return "panic", "observation panicked: " + o.Panic
	}
	seen := map[int]bool{}
	for _, kv := range o.FILO {
		if seen[kv.K] {
			return "duplicate-key-in-list", fmt.Sprintf("key k%d is visited twice by RangeFILO: %v", kv.K, o.FILO)
		}
		seen[kv.K] = true
	}
	if len(o.FIFO) != len(o.FILO) {
		return "fifo-filo-differ", fmt.Sprintf("RangeFIFO %v is not the reverse of RangeFILO %v", o.FIFO, o.FILO)
	}
	for i := range o.FILO {
		if o.FILO[i] != o.FIFO[len(o.FIFO)-1-i] {
			return "fifo-filo-differ", fmt.Sprintf("RangeFIFO %v is not the reverse of RangeFILO %v", o.FIFO, o.FILO)
		}
	}
	if !eqSeq(sortedKV(o.FILO), o.Index) {
		return "index-list-mismatch", fmt.Sprintf("Range (key index) shows %v but the recency list holds %v", o.Index, o.FILO)
	}
	if o.Len != len(o.Index) {
		return "len-mismatch", fmt.Sprintf("Len()=%d but %d keys are resident (%v)", o.Len, len(o.Index), o.Index)
	}
	var sum uint64
	for _, kv := range o.FILO {
		sum += sizes[kv.V]
	}
	if o.Size != sum {
		return "size-mismatch", fmt.Sprintf("Size()=%d but the resident entries %v sum to %d", o.Size, o.FILO, sum)
	}
	if sum > capacity {
		return "over-capacity", fmt.Sprintf("resident entries %v sum to %d > capacity %d", o.FILO, sum, capacity)
	}
	return "", ""
}

// Matches reports whether the observation is exactly the reference state.
func (o Obs) Matches(r Ref) bool {
	return o.Panic == "" && o.Len == len(r.L) && o.Size == r.Sum() && eqSeq(o.FILO, r.FILO()) &&
		eqSeq(sortedKV(o.FILO), o.Index) && len(o.FIFO) == len(o.FILO) && func() bool {
		for i := range o.FILO {
			if o.FILO[i] != o.FIFO[len(o.FIFO)-1-i] {
				return false
			}
		}
		return true
	}()
}
