package c16

import (
	"fmt"
	"math/rand/v2"
	"runtime"
	"strings"
	"sync"
	"sync/atomic"
	"time"

	"github.com/lightninglabs/neutrino/cache/lru"
)

// ---- hook dispatch ---------------------------------------------------------

// registry maps goroutine id -> *opCtx for goroutines driven by a scheduler.
var registry sync.Map

// goschedMode makes unregistered goroutines yield the processor at random at
// every yield point (used by the free-running stress engine).
var goschedMode atomic.Bool

// YieldCalls counts hook invocations per yield-point name (evidence).
var YieldCalls sync.Map // name -> *atomic.Int64

func countYield(name string) {
	v, ok := YieldCalls.Load(name)
	if !ok {
		v, _ = YieldCalls.LoadOrStore(name, new(atomic.Int64))
	}
	v.(*atomic.Int64).Add(1)
}

// current is the goroutine context the (single) scheduler has just released;
// while no execution has ever been abandoned it identifies the caller of the
// hook exactly (everything else is parked) and saves parsing the goroutine id.
var (
	current  atomic.Pointer[opCtx]
	everHung atomic.Bool
)

func callerCtx() *opCtx {
	if !everHung.Load() {
		return current.Load()
	}
	// An abandoned goroutine may still be around: identify the caller safely.
	if v, ok := registry.Load(Goid()); ok {
		return v.(*opCtx)
	}
	return nil
}

// hook is installed into cache/lru (verif build tag).
func hook(name string) {
	countYield(name)
	if cx := callerCtx(); cx != nil {
		cx.yield(name)
		return
	}
	if goschedMode.Load() && rand.Uint32()%2 == 0 {
		runtime.Gosched()
	}
}

// InstallHook installs the yield hook; stress selects random Gosched for
// goroutines that are not driven by a scheduler.
func InstallHook(stress bool) {
	goschedMode.Store(stress)
	lru.VerifSetYield(hook)
}

// RemoveHook removes the yield hook.
func RemoveHook() { lru.VerifSetYield(nil); goschedMode.Store(false) }

// ---- one controlled execution ---------------------------------------------

type event struct {
	done bool
	name string
}

type opCtx struct {
	idx    int
	resume chan struct{}
	ev     chan event
	goid   atomic.Uint64
	fin    atomic.Bool
}

func (c *opCtx) yield(name string) {
	c.ev <- event{name: name}
	<-c.resume
}

// Step is one scheduler decision: goroutine Op was released and ran until it
// reached yield point At (or finished: At == "done").
type Step struct {
	Op int    `json:"op"`
	At string `json:"ran_until"`
}

// Exec is the record of one schedule.
type Exec struct {
	Trace   []Step
	Enabled [][]int // enabled goroutines before each step
	Rets    []Ret   // per op
	First   []int   // step index of first release, per op
	Last    []int   // step index of completion, per op (-1: not completed)
	Obs     Obs
	Hung    *Pending // non-nil: the released goroutine did not report back
	HungOp  int      // index of the op that did not report back (len(ops): the final observation)
	Diverge string   // replay did not reproduce the recorded enabled set
}

// Tuple is a scheduling problem: a sequential prefix, then concurrent ops.
type Tuple struct {
	Cap      uint64
	Callback bool
	Prefix   []Op
	Ops      []Op
	// PauseRange lets the scheduler pause the unordered Range inside its
	// visitor as well. Such executions cannot be re-executed step by step (the
	// iteration order of the index is not reproducible), so they are only used
	// with Choose (sampled schedules), never with Explore.
	PauseRange bool
	// Choose, when non-nil, picks the goroutine to release at every step
	// beyond the replayed choice prefix (default: the lowest-numbered one).
	Choose func(step int, enabled []int) int
}

// walkVisit is called from walk visitors of scheduled ops: the visitor runs
// between two steps of the walk and (in the code as written) outside the
// cache mutex, so it is a natural yield point needing no hook.
func walkVisit() {
	if cx := callerCtx(); cx != nil {
		countYield("walk.visit")
		cx.yield("walk.visit")
	}
}

// RunSchedule must not be called concurrently (one scheduler at a time).
// RunSchedule executes t under the given choice prefix (afterwards always the
// lowest-numbered unfinished goroutine) and returns the record.
func RunSchedule(t Tuple, choices []int) *Exec {
	c := NewCache(t.Cap, t.Callback)
	for _, op := range t.Prefix {
		Do(c, op, nil)
	}
	n := len(t.Ops)
	ex := &Exec{Rets: make([]Ret, n), First: make([]int, n), Last: make([]int, n)}
	ctxs := make([]*opCtx, n+1)
	started := time.Now()
	launch := func(i int, body func()) *opCtx {
		cx := &opCtx{idx: i, resume: make(chan struct{}), ev: make(chan event, 1)}
		go func() {
			<-cx.resume
			id := Goid()
			cx.goid.Store(id)
			registry.Store(id, cx)
			body()
			registry.Delete(id)
			cx.fin.Store(true)
			cx.ev <- event{done: true}
		}()
		return cx
	}
	for i := range t.Ops {
		i := i
		ex.First[i], ex.Last[i] = -1, -1
		visit := walkVisit
		if t.Ops[i].Kind == KRange && !t.PauseRange {
			// sync.Map iteration order is randomised per map instance, so
			// pausing inside it would make re-execution non-deterministic:
			// the unordered Range is scheduled as one atomic segment.
			visit = nil
		}
		ctxs[i] = launch(i, func() { ex.Rets[i] = Do(c, t.Ops[i], visit) })
	}
	timer := time.NewTimer(time.Hour)
	defer timer.Stop()
	// release lets goroutine cx run until its next yield point or its end.
	release := func(cx *opCtx) (event, bool) {
		current.Store(cx)
		defer current.Store(nil)
		cx.resume <- struct{}{}
		if !timer.Stop() {
			select {
			case <-timer.C:
			default:
			}
		}
		timer.Reset(SoftWait)
		select {
		case e := <-cx.ev:
			return e, true
		case <-timer.C:
			return event{}, false
		}
	}
	hung := func(cx *opCtx, what string) {
		everHung.Store(true)
		ex.HungOp = cx.idx
		ex.Hung = &Pending{
			Engine: "sched", What: what, Started: started,
			Unfinished: func() []uint64 {
				if cx.fin.Load() {
					return nil
				}
				// A goroutine parked at a later yield point is not blocked.
				select {
				case e := <-cx.ev:
					cx.ev <- e
					return nil
				default:
				}
				return []uint64{cx.goid.Load()}
			},
		}
	}
	unfinished := make([]int, n)
	for i := range unfinished {
		unfinished[i] = i
	}
	for step := 0; len(unfinished) > 0; step++ {
		en := append([]int(nil), unfinished...)
		ex.Enabled = append(ex.Enabled, en)
		pick := en[0]
		if step < len(choices) {
			pick = choices[step]
			ok := false
			for _, e := range en {
				ok = ok || e == pick
			}
			if !ok {
				ex.Diverge = fmt.Sprintf("step %d: replayed choice %d not enabled (%v)", step, pick, en)
				return ex
			}
		} else if t.Choose != nil {
			pick = t.Choose(step, en)
		}
		if ex.First[pick] < 0 {
			ex.First[pick] = step
		}
		e, ok := release(ctxs[pick])
		if !ok {
			ex.Trace = append(ex.Trace, Step{pick, "NO-RETURN"})
			hung(ctxs[pick], fmt.Sprintf("%s was released at step %d and neither returned nor reached a yield point", t.Ops[pick], step))
			return ex
		}
		if e.done {
			ex.Trace = append(ex.Trace, Step{pick, "done"})
			ex.Last[pick] = step
			k := 0
			for _, u := range unfinished {
				if u != pick {
					unfinished[k] = u
					k++
				}
			}
			unfinished = unfinished[:k]
		} else {
			ex.Trace = append(ex.Trace, Step{pick, e.name})
		}
	}
	// Quiescent observation, also under the watchdog (Len/Size take the mutex).
	ocx := launch(n, func() { ex.Obs = Observe(c) })
	ctxs[n] = ocx
	if _, ok := release(ocx); !ok {
		hung(ocx, "all operations returned, but the quiescent observation (Len/Size/RangeFILO/RangeFIFO/Range) does not return")
	}
	return ex
}

// TraceKey renders the interleaving (for distinct counting and witnesses).
func (ex *Exec) TraceKey() string {
	var b strings.Builder
	for _, s := range ex.Trace {
		fmt.Fprintf(&b, "%d:%s ", s.Op, s.At)
	}
	return b.String()
}

// Explore enumerates every schedule of t depth-first by re-execution and calls
// visit for each. It returns the number of schedules and whether the
// enumeration was complete (false: limit reached or a replay diverged).
func Explore(t Tuple, limit int, visit func(*Exec)) (int, bool) {
	var choices []int
	count := 0
	for {
		ex := RunSchedule(t, choices)
		if ex.Diverge != "" {
			return count, false
		}
		count++
		visit(ex)
		// Backtrack: last step with an untried higher-numbered alternative.
		k := len(ex.Trace) - 1
		found := false
		for ; k >= 0; k-- {
			cur := ex.Trace[k].Op
			for _, e := range ex.Enabled[k] {
				if e > cur {
					choices = choices[:0]
					for _, s := range ex.Trace[:k] {
						choices = append(choices, s.Op)
					}
					choices = append(choices, e)
					found = true
					break
				}
			}
			if found {
				break
			}
		}
		if !found {
			return count, true
		}
		if count >= limit {
			return count, false
		}
	}
}
