package c16

import (
	"fmt"
	"math"
	"math/rand"
	"sort"
	"strings"
)

// ---- range storms: walks that run CONCURRENTLY with mutating operations ----
//
// A storm window runs writer goroutines (Put / Get / LoadAndDelete on a key
// space that is a parameter of the window) while walker goroutines call Range,
// RangeFIFO and RangeFILO (with and without early stop) over and over. Every
// call is stamped with two ticks of one shared logical clock (taken before the
// call and after its return), the delete callback stamps every eviction and
// deletion, and every value is stored by exactly one Put. From that record the
// oracle decides what a concurrent walk may legitimately have seen (Judge).

// WalkOp is one walk of a walker's cycle.
type WalkOp struct {
	Kind  string
	Limit int
}

// StormSpec is the parameter vector of one storm window.
type StormSpec struct {
	Name         string     `json:"name"` // fixed scenario name, or "random"
	Cap          uint64     `json:"capacity"`
	Callback     bool       `json:"delete_callback"`
	KeySpace     int        `json:"key_space"`  // writers draw keys from [0,KeySpace)
	Resident     int        `json:"resident"`   // keys 0..Resident-1 are stored by the prefix
	Bystanders   int        `json:"bystanders"` // keys 1000.. stored by the prefix; never the argument of Put/LoadAndDelete
	ByFirst      bool       `json:"bystanders_first"`
	Writers      int        `json:"writers"`
	OpsPerWriter int        `json:"ops_per_writer"`
	PutPct       int        `json:"put_pct"`
	GetPct       int        `json:"get_pct"`           // the rest is LoadAndDelete
	GetByPct     int        `json:"get_bystander_pct"` // share of the Gets that go to a bystander key
	MaxSize      int        `json:"max_value_size"`
	BadPutPct    int        `json:"failing_put_pct"` // Puts of values that are rejected (size error / over capacity)
	Walkers      [][]WalkOp `json:"walkers"`         // per walker goroutine: the cycle of walks it repeats
	MaxPasses    int        `json:"max_passes_per_walker"`
}

// Evicting reports whether the writers can fill the cache beyond its capacity.
func (s StormSpec) Evicting() bool {
	return uint64(s.KeySpace*s.MaxSize+s.Bystanders) > s.Cap
}

// Storm is a generated window: prefix, one plan per writer.
type Storm struct {
	Spec   StormSpec
	Prefix []Op
	Plans  [][]Op
	ValKey map[int]int    // value id -> the key it is stored under (by exactly one Put)
	Sizes  map[int]uint64 // value id -> nominal size
}

const byKey0 = 1000

// FixedStorms are the seed-independent scenarios (window index < len).
var FixedStorms = []StormSpec{
	{ // the unordered Range against writers whose every Put evicts: one index delete + one index store per call
		Name: "range-vs-evicting-puts", Cap: 64, Callback: true, KeySpace: 512, Resident: 64, Bystanders: 2,
		Writers: 2, OpsPerWriter: 6000, PutPct: 100, MaxSize: 1,
		Walkers: [][]WalkOp{{{KRange, 0}}}, MaxPasses: 4000,
	},
	{ // few keys, nothing is ever evicted: insert / replace / delete churn on 4 keys under two unordered walkers
		Name: "range-vs-put-get-delete-few-keys", Cap: 64, Callback: true, KeySpace: 4, Resident: 3, Bystanders: 2, ByFirst: true,
		Writers: 3, OpsPerWriter: 4000, PutPct: 45, GetPct: 25, GetByPct: 20, MaxSize: 4, BadPutPct: 2,
		Walkers: [][]WalkOp{{{KRange, 0}}, {{KRange, 0}, {KRange, 2}}}, MaxPasses: 4000,
	},
	{ // all three walks, with and without early stop, against a mixed load that evicts now and then
		Name: "all-walks-early-stop-mixed", Cap: 24, Callback: true, KeySpace: 12, Resident: 6, Bystanders: 2,
		Writers: 3, OpsPerWriter: 4000, PutPct: 50, GetPct: 30, GetByPct: 50, MaxSize: 3, BadPutPct: 2,
		Walkers: [][]WalkOp{
			{{KRange, 0}, {KFIFO, 0}, {KRange, 2}, {KFILO, 1}},
			{{KFILO, 0}, {KRange, 0}, {KFIFO, 3}, {KRange, 1}},
		}, MaxPasses: 3000,
	},
	{ // the index grows from empty to thousands of keys and shrinks again while it is walked
		Name: "range-vs-growing-index", Cap: 1 << 20, Callback: false, KeySpace: 3000, Resident: 0, Bystanders: 2, ByFirst: true,
		Writers: 2, OpsPerWriter: 6000, PutPct: 70, GetPct: 5, MaxSize: 2,
		Walkers: [][]WalkOp{{{KRange, 0}, {KRange, 5}}}, MaxPasses: 300,
	},
}

// GenStorm returns window idx: a fixed scenario for idx < len(FixedStorms)
// (independent of the seed), a random parameter vector otherwise.
func GenStorm(rng *rand.Rand, idx int) Storm {
	var sp StormSpec
	if idx < len(FixedStorms) {
		sp = FixedStorms[idx]
		rng = rand.New(rand.NewSource(int64(7700 + idx)))
	} else {
		sp = StormSpec{Name: "random", Callback: rng.Intn(4) > 0, Bystanders: 2, ByFirst: rng.Intn(2) == 0,
			Writers: 1 + rng.Intn(4), OpsPerWriter: 2000 + rng.Intn(4000), MaxSize: 1 + rng.Intn(4)}
		switch rng.Intn(3) {
		case 0: // few keys
			sp.KeySpace = 2 + rng.Intn(7)
		case 1:
			sp.KeySpace = 10 + rng.Intn(60)
		default:
			sp.KeySpace = 100 + rng.Intn(900)
		}
		full := sp.KeySpace*sp.MaxSize + sp.Bystanders
		if rng.Intn(2) == 0 { // never evicts
			sp.Cap = uint64(full + rng.Intn(8))
		} else {
			sp.Cap = uint64(sp.MaxSize + sp.Bystanders + 1 + rng.Intn(full))
		}
		sp.Resident = rng.Intn(sp.KeySpace + 1)
		sp.PutPct = 35 + rng.Intn(50)
		sp.GetPct = rng.Intn(100 - sp.PutPct + 1)
		sp.GetByPct = rng.Intn(60)
		sp.BadPutPct = rng.Intn(4)
		kinds := []string{KRange, KRange, KFIFO, KFILO}
		nw := 1 + rng.Intn(3)
		for w := 0; w < nw; w++ {
			var cyc []WalkOp
			for j, m := 0, 1+rng.Intn(4); j < m; j++ {
				wo := WalkOp{Kind: kinds[rng.Intn(len(kinds))]}
				if rng.Intn(3) == 0 {
					wo.Limit = 1 + rng.Intn(4)
				}
				cyc = append(cyc, wo)
			}
			if w == 0 {
				cyc[0] = WalkOp{Kind: KRange} // every window has the unordered walk, un-stopped
			}
			sp.Walkers = append(sp.Walkers, cyc)
		}
		sp.MaxPasses = 3000
		if sp.KeySpace >= 100 {
			sp.MaxPasses = 600
		}
	}
	st := Storm{Spec: sp, ValKey: map[int]int{}, Sizes: map[int]uint64{}}
	id := 0
	mk := func(k int, sz uint64, mode int) *Val {
		id++
		st.ValKey[id], st.Sizes[id] = k, sz
		return &Val{ID: id, Sz: sz, Mode: mode}
	}
	size := func() uint64 { return uint64(1 + rng.Intn(sp.MaxSize)) }
	by := func() {
		for b := 0; b < sp.Bystanders; b++ {
			st.Prefix = append(st.Prefix, Op{Kind: KPut, Key: byKey0 + b, Val: mk(byKey0+b, 1, ModeOK)})
		}
	}
	if sp.ByFirst {
		by()
	}
	for k := 0; k < sp.Resident; k++ {
		st.Prefix = append(st.Prefix, Op{Kind: KPut, Key: k, Val: mk(k, size(), ModeOK)})
	}
	if !sp.ByFirst {
		by()
	}
	st.Plans = make([][]Op, sp.Writers)
	for w := range st.Plans {
		plan := make([]Op, 0, sp.OpsPerWriter)
		for j := 0; j < sp.OpsPerWriter; j++ {
			k := rng.Intn(sp.KeySpace)
			switch x := rng.Intn(100); {
			case x < sp.PutPct:
				v := mk(k, size(), ModeOK)
				if sp.BadPutPct > 0 && rng.Intn(100) < sp.BadPutPct {
					if rng.Intn(2) == 0 {
						v.Mode = ModeBadSize
					} else {
						v.Sz = sp.Cap + 1
						st.Sizes[v.ID] = v.Sz
					}
				}
				plan = append(plan, Op{Kind: KPut, Key: k, Val: v})
			case x < sp.PutPct+sp.GetPct:
				if sp.Bystanders > 0 && rng.Intn(100) < sp.GetByPct {
					k = byKey0 + rng.Intn(sp.Bystanders)
				}
				plan = append(plan, Op{Kind: KGet, Key: k})
			default:
				plan = append(plan, Op{Kind: KLad, Key: k})
			}
		}
		st.Plans[w] = plan
	}
	return st
}

// KeyClass buckets the key space for fingerprints.
func (s StormSpec) KeyClass() string {
	switch {
	case s.KeySpace <= 8:
		return "few"
	case s.KeySpace < 100:
		return "tens"
	}
	return "hundreds+"
}

// WalkKinds is the sorted set of walk shapes of the window.
func (s StormSpec) WalkKinds() string {
	set := map[string]bool{}
	for _, cyc := range s.Walkers {
		for _, w := range cyc {
			k := w.Kind
			if w.Limit > 0 {
				k += "-stop"
			}
			set[k] = true
		}
	}
	l := make([]string, 0, len(set))
	for k := range set {
		l = append(l, k)
	}
	sort.Strings(l)
	return strings.Join(l, ",")
}

// ---- the record of one storm execution -------------------------------------

// StormOp is one recorded writer call. Call was taken from the shared clock
// before the call, Return after it returned.
type StormOp struct {
	Op           Op
	Ret          Ret
	Call, Return int64
}

// StormPass is one recorded walk.
type StormPass struct {
	Walker       int
	Op           Op
	Ret          Ret
	Call, Return int64
}

// StormCB is one invocation of the delete callback (eviction or deletion).
type StormCB struct {
	K, V int
	Tick int64
}

// StormRecord is everything observed in one window.
type StormRecord struct {
	Start  int64       // value of the clock when the prefix had been applied
	Ops    [][]StormOp // per writer, in program order
	Passes []StormPass
	CBs    []StormCB
	Final  Obs
}

// StormFinding is one broken rule.
type StormFinding struct {
	Rule  string // oracle rule
	Shape string // walk kind (or point-operation kind) it was broken by
	Text  string
}

// StormStats are the measured coverage numbers of one window.
type StormStats struct {
	Passes            map[string]int64 // per walk kind
	PassesOverlapping int64            // walks during which a Put/LoadAndDelete that changed the cache was in flight
	Visits            int64
	EarlyStops        int64
	ResidentThrough   int64 // entries proven resident for the whole window
	StaleBounded      int64 // values for which the record bounds the moment they were gone
	PointHits         int64
	Evictions         int64
	WriterOps         int64
}

type putInfo struct {
	call, ret int64
	ok        bool // the Put returned without error (the value was stored)
	known     bool
}

// Judge applies the property to the record. The rules, each a necessary
// consequence of "the cache is one consistent map under concurrency":
//
//	never-stored    a pair (k,v) handed to a visitor (or returned by Get /
//	                LoadAndDelete) was stored under k by a Put that succeeded;
//	not-yet-stored  ... by a Put that was called before the walk returned;
//	stale           ... and v was not provably gone before the walk was called:
//	                v is gone once a LoadAndDelete that returned it has returned,
//	                once a later successful Put of the same key has returned (a
//	                Put called after the Put of v returned), or once the call
//	                during which the delete callback reported (k,v) has returned;
//	key-twice       one pass visits no key twice;
//	early-stop      after the visitor returned false it is not called again;
//	missed-resident a pass that was not stopped visits every entry that was
//	                resident for the whole window (stored by the prefix, its key
//	                never the argument of Put/LoadAndDelete, same value at the end);
//	resident-order  RangeFILO/RangeFIFO visit entries nobody ever touches in
//	                their (fixed) recency order.
//
// No rule reads the wall clock; ticks only order calls and returns.
func (s *Storm) Judge(rec *StormRecord) ([]StormFinding, StormStats) {
	st := StormStats{Passes: map[string]int64{}}
	var out []StormFinding
	seenRule := map[string]bool{}
	add := func(rule, shape, text string) {
		if !seenRule[rule+"/"+shape] {
			seenRule[rule+"/"+shape] = true
			out = append(out, StormFinding{rule, shape, text})
		}
	}
	const inf = int64(math.MaxInt64)

	// Where every value was stored.
	puts := map[int]putInfo{}
	for _, op := range s.Prefix {
		if op.Kind == KPut {
			puts[op.Val.ID] = putInfo{ok: true, known: true}
		}
	}
	type keyPut struct{ call, ret int64 }
	byKey := map[int][]keyPut{}
	touched := map[int]bool{} // keys that are the argument of a Put / LoadAndDelete
	moved := map[int]bool{}   // ... or of a Get
	for _, ops := range rec.Ops {
		for _, o := range ops {
			st.WriterOps++
			switch o.Op.Kind {
			case KPut:
				touched[o.Op.Key] = true
				ok := !o.Ret.Err && o.Ret.Panic == ""
				puts[o.Op.Val.ID] = putInfo{call: o.Call, ret: o.Return, ok: ok, known: true}
				if ok {
					byKey[o.Op.Key] = append(byKey[o.Op.Key], keyPut{o.Call, o.Return})
					if o.Ret.Evicted {
						st.Evictions++
					}
				}
			case KLad, KDel:
				touched[o.Op.Key] = true
			case KGet:
				moved[o.Op.Key] = true
			}
		}
	}
	// Planned but never executed Puts (a writer stopped after a panic).
	for w, plan := range s.Plans {
		done := 0
		if w < len(rec.Ops) {
			done = len(rec.Ops[w])
		}
		for _, op := range plan[done:] {
			if op.Kind == KPut {
				touched[op.Key] = true
			}
		}
	}

	// goneBy[v]: a tick by which v is provably no longer resident.
	goneBy := map[int]int64{}
	lower := func(v int, t int64) {
		if old, ok := goneBy[v]; !ok || t < old {
			goneBy[v] = t
		}
	}
	// (1) LoadAndDelete returned it.
	for _, ops := range rec.Ops {
		for _, o := range ops {
			if o.Op.Kind == KLad && o.Ret.Found && o.Ret.ValID >= 0 {
				lower(o.Ret.ValID, o.Return)
			}
		}
	}
	// (2) a successful Put of the same key that was called after this one returned.
	sufMin := map[int][]int64{}
	for k, l := range byKey {
		sort.Slice(l, func(i, j int) bool { return l[i].call < l[j].call })
		m := make([]int64, len(l)+1)
		m[len(l)] = inf
		for i := len(l) - 1; i >= 0; i-- {
			m[i] = min(m[i+1], l[i].ret)
		}
		byKey[k], sufMin[k] = l, m
	}
	for v, p := range puts {
		if !p.ok {
			continue
		}
		k := s.ValKey[v]
		l := byKey[k]
		i := sort.Search(len(l), func(i int) bool { return l[i].call > p.ret })
		if t := sufMin[k]; t != nil && t[i] != inf {
			lower(v, t[i])
		}
	}
	// (3) the delete callback reported it: gone when the enclosing call has
	// returned; the enclosing call is one of those in flight at that tick.
	for _, cb := range rec.CBs {
		bound := int64(-1)
		for _, ops := range rec.Ops {
			i := sort.Search(len(ops), func(i int) bool { return ops[i].Return > cb.Tick })
			if i < len(ops) && ops[i].Call < cb.Tick && ops[i].Return > bound {
				bound = ops[i].Return
			}
		}
		if bound >= 0 {
			lower(cb.V, bound)
		} else if cb.Tick <= rec.Start {
			lower(cb.V, cb.Tick) // evicted while the prefix was applied
		}
	}
	st.StaleBounded = int64(len(goneBy))

	// Entries resident for the whole window, in prefix recency order (most
	// recent first), and the subset nobody touches at all.
	finalIdx := map[int]int{}
	for _, kv := range rec.Final.Index {
		finalIdx[kv.K] = kv.V
	}
	var through, unmoved []KV
	for i := len(s.Prefix) - 1; i >= 0; i-- {
		op := s.Prefix[i]
		if op.Kind != KPut || touched[op.Key] {
			continue
		}
		if v, ok := finalIdx[op.Key]; ok && v == op.Val.ID {
			through = append(through, KV{op.Key, v})
			if !moved[op.Key] {
				unmoved = append(unmoved, KV{op.Key, v})
			}
		}
	}
	st.ResidentThrough = int64(len(through))
	unmovedPos := map[KV]int{}
	for i, kv := range unmoved {
		unmovedPos[kv] = i
	}

	// overlapping reports whether a call that changed the cache was in flight
	// between ticks a and b.
	overlapping := func(a, b int64) bool {
		for _, ops := range rec.Ops {
			for i := sort.Search(len(ops), func(i int) bool { return ops[i].Return > a }); i < len(ops) && ops[i].Call < b; i++ {
				o := ops[i]
				if (o.Op.Kind == KPut && !o.Ret.Err) || (o.Op.Kind == KLad && o.Ret.Found) {
					return true
				}
			}
		}
		return false
	}

	// pair judges one (k,v) seen by a call spanning [call,ret].
	pair := func(what, shape string, kv KV, call, ret int64, rulePrefix string) {
		p := puts[kv.V]
		k, stored := s.ValKey[kv.V]
		switch {
		case !stored || !p.known || k != kv.K || !p.ok:
			why := "no Put ever stored that value under that key"
			if stored && k == kv.K && p.known && !p.ok {
				why = "the only Put of that value returned an error"
			}
			add(rulePrefix+"-pair-never-stored", shape, fmt.Sprintf("%s saw (k%d,v%d): %s", what, kv.K, kv.V, why))
		case p.call > ret:
			add(rulePrefix+"-pair-not-yet-stored", shape, fmt.Sprintf("%s [ticks %d..%d] saw (k%d,v%d), whose Put was only called at tick %d", what, call, ret, kv.K, kv.V, p.call))
		default:
			if g, ok := goneBy[kv.V]; ok && g < call {
				add(rulePrefix+"-pair-stale", shape, fmt.Sprintf("%s [ticks %d..%d] saw (k%d,v%d), which was replaced, deleted or evicted by a call that had returned by tick %d, before it was called",
					what, call, ret, kv.K, kv.V, g))
			}
		}
	}

	for _, ps := range rec.Passes {
		kind := ps.Op.Kind
		shape := kind
		if ps.Op.Limit > 0 {
			shape += "-stop"
		}
		st.Passes[kind]++
		what := ps.Op.String()
		if ps.Ret.Panic != "" {
			add("storm-panic", shape, what+" panicked: "+ps.Ret.Panic)
			continue
		}
		if overlapping(ps.Call, ps.Return) {
			st.PassesOverlapping++
		}
		seq := ps.Ret.Seq
		st.Visits += int64(len(seq))
		stopped := ps.Op.Limit > 0 && len(seq) >= ps.Op.Limit
		if stopped {
			st.EarlyStops++
		}
		if ps.Op.Limit > 0 && len(seq) > ps.Op.Limit {
			add("walk-early-stop-ignored", shape, fmt.Sprintf("%s: the visitor returned false at visit %d and was called %d more times", what, ps.Op.Limit, len(seq)-ps.Op.Limit))
		}
		seen := make(map[int]int, len(seq))
		for _, kv := range seq {
			if _, dup := seen[kv.K]; dup {
				add("walk-key-twice", shape, fmt.Sprintf("%s visited key k%d twice in one pass (%d visits)", what, kv.K, len(seq)))
			}
			seen[kv.K] = kv.V
			pair(what, shape, kv, ps.Call, ps.Return, "walk")
		}
		if !stopped {
			for _, kv := range through {
				if v, ok := seen[kv.K]; !ok {
					add("walk-missed-resident-entry", shape, fmt.Sprintf("%s [ticks %d..%d] ended after %d visits without visiting (k%d,v%d), which was resident during the whole window",
						what, ps.Call, ps.Return, len(seq), kv.K, kv.V))
				} else if v != kv.V {
					add("walk-pair-never-stored", shape, fmt.Sprintf("%s visited k%d with v%d; it held v%d during the whole window", what, kv.K, v, kv.V))
				}
			}
		}
		if kind == KFILO || kind == KFIFO {
			last := -1
			if kind == KFIFO {
				last = len(unmoved)
			}
			for _, kv := range seq {
				p, ok := unmovedPos[kv]
				if !ok {
					continue
				}
				if (kind == KFILO && p < last) || (kind == KFIFO && p > last) {
					add("walk-resident-order", shape, fmt.Sprintf("%s visited the entries nobody ever touches out of recency order (most recent first they are %v)", what, unmoved))
				}
				last = p
			}
		}
	}

	// Point operations under the same pair rules.
	for _, ops := range rec.Ops {
		for _, o := range ops {
			if o.Ret.Panic != "" {
				add("storm-panic", o.Op.Kind, o.Op.String()+" panicked: "+o.Ret.Panic)
				continue
			}
			switch o.Op.Kind {
			case KGet:
				if !o.Ret.NotFound && !o.Ret.Err {
					st.PointHits++
					pair(o.Op.String(), KGet, KV{o.Op.Key, o.Ret.ValID}, o.Call, o.Return, "point")
				} else if o.Ret.NotFound {
					for _, kv := range through {
						if kv.K == o.Op.Key {
							add("point-missed-resident-entry", KGet, fmt.Sprintf("%s returned not-found; (k%d,v%d) was resident during the whole window", o.Op, kv.K, kv.V))
						}
					}
				}
			case KLad:
				if o.Ret.Found {
					st.PointHits++
					pair(o.Op.String(), KLad, KV{o.Op.Key, o.Ret.ValID}, o.Call, o.Return, "point")
				}
			}
		}
	}
	return out, st
}
