package l2

import (
	"fmt"
	"math/rand"
	"sync"
	"sync/atomic"
	"time"

	"github.com/btcsuite/btcd/wire/v2"
	"github.com/lightninglabs/neutrino"
	"github.com/lightninglabs/neutrino/blockntfns"

	"verif/internal/chaingen"
	"verif/internal/netsim"
)

// SubsPlan: real block subscriptions on the complete client while the honest
// chain grows and reorganises (property C19, network-simulation part): every
// subscriber that applies its backlog and the later events — skipping a
// connected event for a block it already holds, ignoring a disconnected event
// for a block it never held — must end, at every quiescent point, with
// exactly the client's committed chain up to the filter-header tip.
type SubsPlan struct {
	Seed     int64
	ChainLen int
	Subs     int
	Steps    []SubsStep
	Peers    int
	Joiners  int // subscriptions made concurrently with each chain change
}

// SubsStep is one change of the honest chain.
type SubsStep struct {
	Kind  string // "grow" | "reorg" | "lag-reorg"
	N     int    // blocks added (grow, lag-reorg) / new branch length minus depth (reorg)
	Depth int    // reorg depth
	Extra int    // lag-reorg: new branch length minus depth (>= 1)
}

// SubsFixedLagReorg is the seed-independent scenario of the "lag-reorg" step
// kind: while every peer withholds the filter headers the block headers grow
// and some of the not-yet-committed ones are reorganised (fork point above
// the filter-header tip); then the filter headers catch up.
func SubsFixedLagReorg() SubsPlan {
	return SubsPlan{Seed: 19_000_011, ChainLen: 40, Subs: 4, Peers: 2, Joiners: 6, Steps: []SubsStep{
		{Kind: "grow", N: 2},
		{Kind: "lag-reorg", N: 4, Depth: 2, Extra: 1},
		{Kind: "grow", N: 1},
		{Kind: "lag-reorg", N: 2, Depth: 1, Extra: 2},
		{Kind: "reorg", Depth: 3, N: 1},
		{Kind: "lag-reorg", N: 5, Depth: 3, Extra: 1},
	}}
}

// SubsPlanWithLagFromSeed is SubsPlanFromSeed with, for about half of the
// (seed, k) pairs, one or two "lag-reorg" steps inserted at drawn positions
// (own random stream: the other steps are those of SubsPlanFromSeed).
func SubsPlanWithLagFromSeed(seed int64, k int) SubsPlan {
	p := SubsPlanFromSeed(seed, k)
	r := rand.New(rand.NewSource(seed*6_000_011 + int64(k)*104_729 + 11))
	if r.Intn(2) != 0 {
		return p
	}
	for n := 1 + r.Intn(2); n > 0; n-- {
		st := SubsStep{Kind: "lag-reorg", N: 2 + r.Intn(4), Extra: 1 + r.Intn(3)}
		st.Depth = 1 + r.Intn(3)
		if st.Depth > st.N {
			st.Depth = st.N
		}
		at := r.Intn(len(p.Steps) + 1)
		p.Steps = append(p.Steps[:at], append([]SubsStep{st}, p.Steps[at:]...)...)
	}
	return p
}

// SubsPlanFromSeed derives a plan.
func SubsPlanFromSeed(seed int64, k int) SubsPlan {
	r := rand.New(rand.NewSource(seed*5_000_011 + int64(k)*7919 + 3))
	p := SubsPlan{Seed: seed*1_000_003 + int64(k) + 300_000}
	p.ChainLen = 30 + r.Intn(200)
	if r.Intn(4) == 0 {
		p.ChainLen = 1000 + r.Intn(300)
	}
	p.Subs = 2 + r.Intn(5)
	p.Peers = 1 + r.Intn(3)
	p.Joiners = 6
	n := 3 + r.Intn(6)
	for i := 0; i < n; i++ {
		if r.Intn(2) == 0 {
			p.Steps = append(p.Steps, SubsStep{Kind: "grow", N: 1 + r.Intn(4)})
		} else {
			d := 1 + r.Intn(6)
			p.Steps = append(p.Steps, SubsStep{Kind: "reorg", Depth: d, N: 1 + r.Intn(3)})
		}
	}
	return p
}

type subModel struct {
	id      int
	from    uint32
	sub     *blockntfns.Subscription
	mu      sync.Mutex
	chain   map[uint32]wire.BlockHeader // height -> header held
	top     uint32
	anomaly string
	events  int
	done    chan struct{}
}

func (m *subModel) hasAnomaly() bool {
	m.mu.Lock()
	defer m.mu.Unlock()
	return m.anomaly != ""
}

func (m *subModel) apply(n blockntfns.BlockNtfn) {
	m.mu.Lock()
	defer m.mu.Unlock()
	m.events++
	h := n.Height()
	hdr := n.Header()
	switch n.(type) {
	case *blockntfns.Connected:
		switch {
		case h <= m.top && m.chain[h] == hdr:
			// already held: skipped
		case h == m.top+1:
			if prev, ok := m.chain[m.top]; ok && hdr.PrevBlock != prev.BlockHash() && m.anomaly == "" {
				m.anomaly = fmt.Sprintf("connected block at height %d does not build on the block the subscriber holds at height %d", h, m.top)
			}
			m.chain[h] = hdr
			m.top = h
		default:
			if m.anomaly == "" {
				m.anomaly = fmt.Sprintf("connected event for height %d while the subscriber's tip is %d", h, m.top)
			}
		}
	case *blockntfns.Disconnected:
		if h == m.top && m.chain[h] == hdr {
			delete(m.chain, h)
			m.top = h - 1
		} else if h <= m.top && m.chain[h] == hdr && m.anomaly == "" {
			m.anomaly = fmt.Sprintf("disconnected event for height %d which is not the subscriber's tip %d", h, m.top)
		}
		// a block never held: ignored
	}
}

// RunSubs executes the plan and fills res.
func RunSubs(p SubsPlan, res *Result) {
	res.Fingerprint = fmt.Sprintf("subs|len=%s|subs=%d|steps=%d", map[bool]string{true: "checkpointed", false: "short"}[p.ChainLen >= 1000], p.Subs, len(p.Steps))
	lagSteps := 0
	for _, st := range p.Steps {
		if st.Kind == "lag-reorg" {
			lagSteps++
		}
	}
	if lagSteps > 0 {
		res.Fingerprint += fmt.Sprintf("|lag-reorgs=%d", lagSteps)
	}
	// withhold: while set, no peer answers getcfheaders / getcfcheckpt (the
	// filter headers lag behind the block headers).
	var withhold atomic.Bool
	w := NewWorld(Config{Seed: p.Seed, Preset: chaingen.PresetNoRetarget, SpacingSec: 4,
		GenesisAgo: time.Duration(p.ChainLen+200) * 6 * time.Second})
	defer w.Cleanup()
	g := w.G
	trunk := g.Extend(g.Genesis, p.ChainLen, chaingen.PaceNormal)
	tip := trunk[len(trunk)-1]
	for i := 0; i < p.Peers; i++ {
		pr := w.AddPeer(tip)
		if lagSteps > 0 {
			pr.Mutate = func(_ *netsim.Peer, req wire.Message, honest []wire.Message) []wire.Message {
				switch req.(type) {
				case *wire.MsgGetCFHeaders, *wire.MsgGetCFCheckpt:
					if withhold.Load() {
						return nil
					}
				}
				return honest
			}
		}
	}
	if err := w.StartClient(nil, ClientOpts{}); err != nil {
		res.Inconcl("client start: " + err.Error())
		return
	}
	defer func() {
		if ok, _ := w.StopClient(60 * time.Second); !ok {
			res.Inconcl("Stop did not return in 60s")
		}
	}()
	rng := rand.New(rand.NewSource(p.Seed ^ 0x5b5))
	src := &neutrino.RescanChainSource{ChainService: w.Svc}
	var subsMu sync.Mutex
	var subs []*subModel
	// addSub subscribes from a drawn height (fixed == -1), from height 0
	// (fixed == -2; only while the filter-header tip cannot move) or from the
	// given one.
	// Joiners (fixed >= 0) run on their own goroutines WHILE the client is
	// adopting a chain change; they use a height far below every
	// reorganisation of the plan, so what they hold is well defined.
	addSub := func(fixed int64) {
		bs, err := w.Svc.BestBlock()
		if err != nil {
			return
		}
		var from uint32
		switch {
		case fixed >= 0:
			from = uint32(fixed)
		case fixed == -2:
			from = 0
		default:
			switch rng.Intn(4) {
			case 0:
				from = 0
			case 1:
				from = uint32(bs.Height)
			default:
				if bs.Height > 1 {
					from = uint32(1 + rng.Intn(int(bs.Height)))
				}
			}
		}
		m := &subModel{from: from, chain: map[uint32]wire.BlockHeader{}, done: make(chan struct{})}
		// What the subscriber "holds" when it subscribes: the committed chain
		// up to `from` (height 0 = no backlog: it holds whatever is committed
		// now, as a caller passing 0 does not ask for history).
		hold := from
		if from == 0 {
			hold = uint32(bs.Height)
		}
		for h := uint32(0); h <= hold; h++ {
			hd, err := w.Svc.BlockHeaders.FetchHeaderByHeight(h)
			if err != nil {
				return
			}
			m.chain[h] = *hd
		}
		m.top = hold
		sub, err := src.Subscribe(from)
		if err != nil {
			res.Count("subscribe_errors", 1)
			return
		}
		m.sub = sub
		subsMu.Lock()
		m.id = len(subs)
		subs = append(subs, m)
		subsMu.Unlock()
		if fixed >= 0 || fixed == -2 {
			res.Count("subscribers_joined_during_a_chain_change", 1)
		}
		go func() {
			defer close(m.done)
			for n := range sub.Notifications {
				m.apply(n)
			}
		}()
	}
	settle := func(n *chaingen.Node) bool { return WaitFor(40*time.Second, func() bool { return w.SyncedTo(n) }) }
	if !settle(tip) {
		res.Inconcl("initial sync not reached")
		return
	}
	res.Nontrivial = true
	witness := func() any { return map[string]any{"plan": p, "event_log_tail": w.Log.Tail(40)} }
	snapshot := func() []*subModel {
		subsMu.Lock()
		defer subsMu.Unlock()
		return append([]*subModel(nil), subs...)
	}
	check := func(when string) {
		subs := snapshot()
		// Quiescent: the client reports the honest tip; give the subscription
		// queues a moment to drain (bounded by event counts becoming stable).
		last := -1
		WaitFor(5*time.Second, func() bool {
			tot := 0
			for _, m := range subs {
				m.mu.Lock()
				tot += m.events
				m.mu.Unlock()
			}
			stable := tot == last
			last = tot
			time.Sleep(30 * time.Millisecond)
			return stable
		})
		chain, err := ReadChain(w.Svc.BlockHeaders)
		if err != nil {
			return
		}
		_, ft, err := w.Svc.RegFilterHeaders.ChainTip()
		if err != nil || int(ft) >= len(chain)+1 {
			return
		}
		for _, m := range subs {
			judge := func() (bad string, ev int) {
				m.mu.Lock()
				defer m.mu.Unlock()
				an, top := m.anomaly, m.top
				if an != "" {
					bad = an
				} else if top != ft {
					bad = fmt.Sprintf("subscriber ends at height %d, the committed filter tip is %d", top, ft)
				} else {
					for h := uint32(0); h <= ft; h++ {
						if m.chain[h] != chain[h] {
							bad = fmt.Sprintf("subscriber's block at height %d is not the committed one", h)
							break
						}
					}
				}
				return bad, m.events
			}
			bad, ev := judge()
			// A subscriber that is merely BEHIND (a backlog of hundreds of
			// events handed over one by one by the client's forwarding
			// goroutine, on a machine whose cores are all taken) is not wrong:
			// the verdict is only given once its stream has been silent for
			// 4 s on end (an event takes microseconds), re-armed by every
			// event that still arrives. An anomaly of the stream itself
			// (gap, wrong header) is final at once.
			for quiet := 0; bad != "" && !m.hasAnomaly() && quiet < 40; {
				time.Sleep(100 * time.Millisecond)
				b2, e2 := judge()
				if e2 != ev {
					quiet = 0
				} else {
					quiet++
				}
				bad, ev = b2, e2
			}
			res.Count("subscriber_states_checked", 1)
			if bad != "" {
				res.Violate("c19/l2/replay-mismatch/"+when, fmt.Sprintf("subscriber %d (subscribed from height %d, %d events): %s", m.id, m.from, ev, bad), witness())
			}
		}
	}
	for i := 0; i < p.Subs/2; i++ {
		addSub(-1)
	}
	cur := tip
	// lagReorg: every peer withholds the filter headers; the block headers
	// grow by st.N and st.Depth of those never-committed blocks are then
	// reorganised (fork point above the filter-header tip, which stays where
	// it is); subscribers join at each moment; then the peers answer again
	// and the filter headers catch up. Returns the new tip, or nil + reason.
	lagReorg := func(st SubsStep) (*chaingen.Node, string) {
		blockTipIs := func(n *chaingen.Node) bool {
			hd, h, err := w.Svc.BlockHeaders.ChainTip()
			return err == nil && int32(h) == n.Height && hd.BlockHash() == n.Hash
		}
		show := func(n *chaingen.Node) bool {
			for _, pr := range w.Peers {
				pr.View.SetTip(n)
			}
			for _, pr := range w.Peers {
				if pr.Conn() != nil {
					pr.AnnounceHeaders(n)
				}
			}
			return WaitFor(40*time.Second, func() bool { return blockTipIs(n) })
		}
		_, F, err := w.Svc.RegFilterHeaders.ChainTip()
		if err != nil || int32(F) != cur.Height {
			return nil, "filter-header tip not at the honest tip before a lag-reorg step"
		}
		withhold.Store(true)
		defer withhold.Store(false)
		ext := g.Extend(cur, st.N, chaingen.PaceNormal)
		mid := ext[len(ext)-1]
		if !show(mid) {
			return nil, "block headers not adopted within 40 s while filter headers were withheld"
		}
		// Block headers ahead of filter headers: the filter tip cannot move.
		addSub(1)
		addSub(-2)
		d := st.Depth
		if d > st.N {
			d = st.N
		}
		extra := st.Extra
		if extra < 1 {
			extra = 1 // a branch of equal work is not adopted
		}
		fork := mid.Ancestor(mid.Height - int32(d))
		br := g.Extend(fork, d+extra, chaingen.PaceNormal)
		nt := br[len(br)-1]
		var jw sync.WaitGroup
		jw.Add(1)
		go func() {
			defer jw.Done()
			for j := 0; j < p.Joiners; j++ {
				switch j % 3 {
				case 0:
					addSub(1)
				case 1:
					addSub(int64(F))
				default:
					addSub(-2)
				}
				time.Sleep(time.Duration(1+j%4) * time.Millisecond)
			}
		}()
		ok := show(nt)
		jw.Wait()
		if !ok {
			return nil, "re-organisation of block headers not adopted within 40 s while filter headers were withheld"
		}
		if _, F2, err := w.Svc.RegFilterHeaders.ChainTip(); err == nil && F2 == F {
			res.Count("reorgs_with_fork_point_above_the_filter_tip", 1)
			res.Count("never_committed_block_headers_disconnected", int64(d))
			res.Count("block_headers_left_above_the_filter_tip_after_such_a_reorg", int64(st.N-d))
		}
		addSub(int64(F))
		// Release; subscribers from height 1 join while the filter headers
		// catch up.
		withhold.Store(false)
		jw.Add(1)
		jstop := make(chan struct{})
		go func() {
			defer jw.Done()
			for j := 0; j < p.Joiners; j++ {
				select {
				case <-jstop:
					return
				default:
				}
				addSub(1)
				time.Sleep(time.Duration(1+j%4) * time.Millisecond)
			}
		}()
		ok = WaitFor(90*time.Second, func() bool { return w.SyncedTo(nt) })
		close(jstop)
		jw.Wait()
		if !ok {
			return nil, "client did not catch up with the released filter headers within 90 s (C04's subject)"
		}
		res.Count("lag_reorg_steps", 1)
		return nt, ""
	}
	for si, st := range p.Steps {
		if si%2 == 1 && len(snapshot()) < p.Subs {
			addSub(-1)
		}
		if st.Kind == "lag-reorg" {
			nt, why := lagReorg(st)
			if nt == nil {
				res.Inconcl(why)
				return
			}
			cur = nt
			res.Count("chain_steps", 1)
			check(st.Kind)
			continue
		}
		var nt *chaingen.Node
		switch st.Kind {
		case "grow":
			ext := g.Extend(cur, st.N, chaingen.PaceNormal)
			nt = ext[len(ext)-1]
		default:
			d := st.Depth
			if int(cur.Height) <= d+1 {
				d = 1
			}
			f := cur.Ancestor(cur.Height - int32(d))
			br := g.Extend(f, d+st.N, chaingen.PaceNormal)
			nt = br[len(br)-1]
			res.Count("reorgs", 1)
		}
		for _, pr := range w.Peers {
			pr.View.SetTip(nt)
		}
		// Joiners: subscribe from height 1 (a backlog of the whole chain)
		// every few milliseconds while the client adopts this change.
		var jw sync.WaitGroup
		jstop := make(chan struct{})
		jw.Add(1)
		go func() {
			defer jw.Done()
			for j := 0; j < p.Joiners; j++ {
				select {
				case <-jstop:
					return
				default:
				}
				addSub(1)
				time.Sleep(time.Duration(1+j%4) * time.Millisecond)
			}
		}()
		for _, pr := range w.Peers {
			if pr.Conn() != nil {
				if si%2 == 0 {
					pr.AnnounceInv(nt)
				} else {
					pr.AnnounceHeaders(nt)
				}
			}
		}
		ok := settle(nt)
		close(jstop)
		jw.Wait()
		if !ok {
			res.Inconcl("client did not follow the honest chain within 40 s (C04's subject)")
			return
		}
		cur = nt
		res.Count("chain_steps", 1)
		check(st.Kind)
	}
	all := snapshot()
	for _, m := range all {
		m.sub.Cancel()
	}
	for _, m := range all {
		select {
		case <-m.done:
		case <-time.After(20 * time.Second):
			res.Inconcl("subscription channel not closed 20 s after Cancel (C11's subject)")
		}
		m.mu.Lock()
		res.Count("subscription_events", int64(m.events))
		m.mu.Unlock()
	}
	res.Count("subscribers", int64(len(all)))
	res.Sample = map[string]any{"plan": p, "subscribers": len(all)}
}
