package l2

import (
	"fmt"
	"math/rand"
	"sync"
	"sync/atomic"
	"time"

	"github.com/btcsuite/btcd/chainhash/v2"
	"github.com/btcsuite/btcd/wire/v2"

	"verif/internal/chaingen"
	"verif/internal/netsim"
	"verif/internal/ref"
)

// APIMonitor reads the complete client's PUBLIC header lookups (tip, by
// height, by hash) concurrently with whatever the scenario does and
// cross-checks them against one another (C01: "lookups by height, by hash and
// of the tip agree with one another"). A sample is only judged when the
// header store held the same header at the sampled height, and the same tip,
// right before and right after the API calls (a quiescent bracket): whatever
// the client answers in between must then describe that one chain.
type APIMonitor struct {
	w    *World
	stop chan struct{}
	wg   sync.WaitGroup
	cps  []int32

	Samples   atomic.Int64 // bracketed (judged) samples
	Unstable  atomic.Int64 // samples dropped because the chain moved inside the bracket
	HeightsMu sync.Mutex
	heights   map[int32]bool

	mu       sync.Mutex
	findings []Violation
}

// StartAPIMonitor starts the sampler (call after the client was started).
func (w *World) StartAPIMonitor(seed int64) *APIMonitor {
	m := &APIMonitor{w: w, stop: make(chan struct{}), heights: map[int32]bool{}}
	for _, c := range w.G.P.Checkpoints {
		m.cps = append(m.cps, c.Height)
	}
	m.wg.Add(1)
	go m.loop(rand.New(rand.NewSource(seed ^ 0xa91)))
	return m
}

// Stop ends the sampler and returns what it found.
func (m *APIMonitor) Stop() []Violation {
	close(m.stop)
	m.wg.Wait()
	m.mu.Lock()
	defer m.mu.Unlock()
	return append([]Violation(nil), m.findings...)
}

// DistinctHeights is the number of distinct heights judged so far.
func (m *APIMonitor) DistinctHeights() int {
	m.HeightsMu.Lock()
	defer m.HeightsMu.Unlock()
	return len(m.heights)
}

func (m *APIMonitor) report(sig, what string, wit map[string]any) {
	m.mu.Lock()
	defer m.mu.Unlock()
	for _, f := range m.findings {
		if f.Sig == sig {
			return
		}
	}
	wit["event_log_tail"] = m.w.Log.Tail(30)
	m.findings = append(m.findings, Violation{sig, what, wit})
}

func (m *APIMonitor) loop(r *rand.Rand) {
	defer m.wg.Done()
	for i := 0; ; i++ {
		select {
		case <-m.stop:
			return
		default:
		}
		m.sample(r)
		if i%64 == 63 {
			time.Sleep(time.Millisecond) // leave the scheduler some air
		}
	}
}

// sample judges one height.
func (m *APIMonitor) sample(r *rand.Rand) {
	svc := m.w.Svc
	st := svc.BlockHeaders
	_, tipH, err := st.ChainTip()
	if err != nil {
		return
	}
	// Heights: anywhere, the last few below the tip, around checkpoints.
	h := int32(r.Intn(int(tipH) + 1))
	switch r.Intn(4) {
	case 0:
		if d := int32(r.Intn(12)); d <= int32(tipH) {
			h = int32(tipH) - d
		}
	case 1:
		if len(m.cps) > 0 {
			c := m.cps[r.Intn(len(m.cps))]
			if r.Intn(2) == 0 {
				c -= int32(r.Intn(40))
			}
			if c >= 0 && c <= int32(tipH) {
				h = c
			}
		}
	}
	pre, err1 := st.FetchHeaderByHeight(uint32(h))
	preTip, preTipH, errT1 := st.ChainTip()
	if err1 != nil || errT1 != nil {
		return
	}
	hash, errA := svc.GetBlockHash(int64(h))
	var (
		hdr  *wire.BlockHeader
		errH error
		hgt  int32
		errG error
	)
	if errA == nil {
		hdr, errH = svc.GetBlockHeader(hash)
		hgt, errG = svc.GetBlockHeight(hash)
	}
	post, err2 := st.FetchHeaderByHeight(uint32(h))
	postTip, postTipH, errT2 := st.ChainTip()
	if err2 != nil || errT2 != nil || *pre != *post || preTipH != postTipH || preTip.BlockHash() != postTip.BlockHash() {
		m.Unstable.Add(1)
		return
	}
	m.Samples.Add(1)
	m.HeightsMu.Lock()
	m.heights[h] = true
	m.HeightsMu.Unlock()
	want := pre.BlockHash()
	wit := func() map[string]any {
		return map[string]any{"height": h, "store_tip": preTipH, "stored_hash": want.String(), "checkpoints": m.cps}
	}
	rel := "above-last-checkpoint"
	if n := len(m.cps); n > 0 && h <= m.cps[n-1] {
		rel = "at-or-below-last-checkpoint"
	}
	for _, c := range m.w.G.P.Checkpoints {
		if c.Height == h && errA == nil && *hash != *c.Hash {
			w := wit()
			w["reported_hash"] = hash.String()
			w["checkpoint_hash"] = c.Hash.String()
			m.report("c01/l2/reported-header-misses-checkpoint",
				fmt.Sprintf("GetBlockHash(%d) reports %v, which is not the hard-coded checkpoint %v of that height (store tip %d)", h, hash, c.Hash, preTipH), w)
		}
	}
	switch {
	case errA != nil:
		w := wit()
		w["error"] = errA.Error()
		m.report(evidSig("c01/l2/by-height-lookup-fails", rel),
			fmt.Sprintf("GetBlockHash(%d) fails (%v) while the header store holds a header at that height (tip %d)", h, errA, preTipH), w)
	case *hash != want:
		w := wit()
		w["reported_hash"] = hash.String()
		known := "not a block of the generated tree"
		if n := m.w.G.Lookup(*hash); n != nil {
			known = fmt.Sprintf("a block of height %d, chain-valid=%v, on the stored chain=%v", n.Height, n.ChainValid, false)
		}
		w["reported_is"] = known
		m.report(evidSig("c01/l2/by-height-disagrees-with-stored-chain", rel),
			fmt.Sprintf("GetBlockHash(%d) reports %v while the stored chain (unchanged around the call) has %v at that height: the reported hash is %s", h, hash, want, known), w)
	case errH != nil || errG != nil:
		w := wit()
		w["GetBlockHeader_err"] = fmt.Sprint(errH)
		w["GetBlockHeight_err"] = fmt.Sprint(errG)
		m.report(evidSig("c01/l2/by-hash-lookup-fails", rel),
			fmt.Sprintf("the hash GetBlockHash(%d) reports is not found by hash (GetBlockHeader: %v, GetBlockHeight: %v)", h, errH, errG), w)
	case *hdr != *pre || hdr.BlockHash() != want:
		m.report(evidSig("c01/l2/by-hash-header-disagrees", rel),
			fmt.Sprintf("GetBlockHeader(GetBlockHash(%d)) is not the header stored at that height", h), wit())
	case hgt != h:
		w := wit()
		w["reported_height"] = hgt
		m.report(evidSig("c01/l2/by-hash-height-disagrees", rel),
			fmt.Sprintf("GetBlockHeight(GetBlockHash(%d)) = %d", h, hgt), w)
	}
}

func evidSig(parts ...string) string {
	s := parts[0]
	for _, p := range parts[1:] {
		s += "/" + p
	}
	return s
}

// ValidateReported reads the whole chain through the PUBLIC lookups only
// (by height -> hash -> header) at a quiescent point and validates it with
// the reference validator, including the checkpoints; the tip lookups must
// agree with it. Returns "" or (signature suffix, text).
func (w *World) ValidateReported() (string, string) {
	svc := w.Svc
	_, tipH, err := svc.BlockHeaders.ChainTip()
	if err != nil {
		return "tip-unreadable", "ChainTip: " + err.Error()
	}
	chain := make([]wire.BlockHeader, 0, tipH+1)
	for h := int64(0); h <= int64(tipH); h++ {
		hash, err := svc.GetBlockHash(h)
		if err != nil {
			return "by-height-lookup-fails", fmt.Sprintf("GetBlockHash(%d): %v (tip %d)", h, err, tipH)
		}
		hdr, err := svc.GetBlockHeader(hash)
		if err != nil {
			return "by-hash-lookup-fails", fmt.Sprintf("GetBlockHeader(GetBlockHash(%d)): %v", h, err)
		}
		if hdr.BlockHash() != *hash {
			return "by-hash-header-disagrees", fmt.Sprintf("GetBlockHeader(GetBlockHash(%d)) hashes to something else", h)
		}
		if hgt, err := svc.GetBlockHeight(hash); err != nil || int64(hgt) != h {
			return "by-hash-height-disagrees", fmt.Sprintf("GetBlockHeight(GetBlockHash(%d)) = %d, %v", h, hgt, err)
		}
		chain = append(chain, *hdr)
	}
	if i, r := ref.CheckChain(w.G.P, chain, time.Now()); r != "" {
		return "reported-chain-invalid/" + r, fmt.Sprintf("the header reported for height %d breaks rule %s", i, r)
	}
	if bs, err := svc.BestBlock(); err == nil {
		if int(bs.Height) >= len(chain) || chain[bs.Height].BlockHash() != bs.Hash {
			return "tip-disagrees", fmt.Sprintf("BestBlock reports %v at height %d, which is not the header reported by height", bs.Hash, bs.Height)
		}
	}
	return "", ""
}

// ReportedPlan is one scenario of the "reported chain" family.
type ReportedPlan struct {
	Plan
	Rounds int // growth / reorganisation rounds after the initial sync
}

// ReportedPlanFromSeed derives scenario k (pure function of seed, k).
func ReportedPlanFromSeed(seed int64, k int) ReportedPlan {
	r := rand.New(rand.NewSource(seed*1_000_003 + int64(k)*104729 + 5))
	p := Plan{Seed: seed*1_000_003 + 500_000 + int64(k), FirstPeer: 0}
	p.Preset = k % chaingen.NumPresets
	p.Interval = 4 + r.Intn(13)
	p.ChainLen = 60 + r.Intn(300)
	// One to three checkpoints; the first peer leaves the honest chain below
	// one of them, so the client stores headers it has to give up again.
	nc := 1 + r.Intn(3)
	seen := map[int32]bool{}
	for len(p.Checkpoints) < nc {
		c := int32(20 + r.Intn(p.ChainLen-25))
		if !seen[c] {
			seen[c] = true
			p.Checkpoints = append(p.Checkpoints, c)
		}
	}
	sortInt32(p.Checkpoints)
	target := p.Checkpoints[r.Intn(len(p.Checkpoints))]
	below := int32(0)
	for _, c := range p.Checkpoints {
		if c < target {
			below = c
		}
	}
	at := below + 1 + int32(r.Intn(int(target-below-1)+1))
	if at >= target {
		at = target - 1
	}
	first := PeerPlan{Kind: BLighter, At: at}
	switch r.Intn(5) {
	case 0:
		first = PeerPlan{Kind: BInvalidHdr, At: at + 1, Rule: chaingen.AllRules[1+r.Intn(len(chaingen.AllRules)-1)]}
	case 1:
		first = PeerPlan{Kind: BHonest}
	}
	first.HdrBatch = 5 + r.Intn(40)
	first.DelayMs = 2 + r.Intn(6)
	p.Peers = []PeerPlan{first, {Kind: BHonest, HdrBatch: []int{0, 0, 30, 120}[r.Intn(4)], DelayMs: r.Intn(3)}}
	if r.Intn(2) == 0 {
		p.Peers = append(p.Peers, PeerPlan{Kind: BHonest})
	}
	p.Announce = []string{"inv", "headers"}[r.Intn(2)]
	rp := ReportedPlan{Plan: p, Rounds: 2 + r.Intn(4)}
	if k == 0 {
		// Fixed: checkpoint at 100; the first peer serves, 25 headers a
		// message, a valid fork that left the honest chain at height 40.
		rp.ChainLen = 120
		rp.Checkpoints = []int32{100}
		rp.Peers = []PeerPlan{{Kind: BLighter, At: 40, HdrBatch: 25, DelayMs: 6}, {Kind: BHonest}}
		rp.Rounds = 2
	}
	return rp
}

func sortInt32(a []int32) {
	for i := 1; i < len(a); i++ {
		for j := i; j > 0 && a[j] < a[j-1]; j-- {
			a[j], a[j-1] = a[j-1], a[j]
		}
	}
}

// RunReported executes one scenario of the family: initial sync behind a
// misleading, trickling first peer and checkpoints, then growth and
// reorganisations of the honest chain, with the API monitor running all the
// time and a full read-back through the public lookups at every quiescent
// point.
func RunReported(seed int64, k int, res *Result) {
	if k%5 == 1 {
		RunReportedRestart(seed, k, res)
		return
	}
	rp := ReportedPlanFromSeed(seed, k)
	res.Name = fmt.Sprintf("c01-l2-%d", k)
	b := Build(rp.Plan)
	w := b.W
	defer w.Cleanup()
	first := rp.Peers[0]
	res.Fingerprint = fmt.Sprintf("first=%s cps=%d batch<%d", first.Kind, len(rp.Checkpoints), 10*(1+first.HdrBatch/10))
	admit := b.GateFirstPeer()
	if err := w.StartClient(nil, ClientOpts{}); err != nil {
		res.Inconcl("client start failed: " + err.Error())
		return
	}
	mon := w.StartAPIMonitor(rp.Seed)
	quiescent := func(when string) bool {
		if sig, what := w.ValidateReported(); sig != "" {
			res.Violate("c01/l2/"+sig+"/"+when, what+" ("+when+")", map[string]any{"plan": rp, "event_log_tail": w.Log.Tail(30)})
			return false
		}
		res.Count("full_readbacks_through_api", 1)
		return true
	}
	finish := func() {
		for _, v := range mon.Stop() {
			v.Witness.(map[string]any)["plan"] = rp
			res.Violations = append(res.Violations, v)
		}
		res.Count("api_samples_judged", mon.Samples.Load())
		res.Count("api_samples_dropped(chain_moved)", mon.Unstable.Load())
		res.Count("api_distinct_heights", int64(mon.DistinctHeights()))
		_, _ = w.StopClient(30 * time.Second)
	}
	admit()
	tip := b.Tip()
	if !WaitFor(120*time.Second, func() bool { return w.SyncedTo(tip) }) {
		res.Inconcl("client did not reach the honest tip within 120 s (convergence is C04's subject)")
		finish()
		return
	}
	res.Nontrivial = true
	rolled := 0
	for _, e := range w.Log.Snapshot() {
		if e.Dir == "tx" && e.Cmd == "headers" {
			rolled++
		}
	}
	res.Count("headers_messages_served", int64(rolled))
	ok := quiescent("after-initial-sync")
	r := rand.New(rand.NewSource(rp.Seed ^ 0x77))
	for i := 0; ok && i < rp.Rounds; i++ {
		cur := b.Tip()
		var nt *chaingen.Node
		if r.Intn(2) == 0 && cur.Height > 12 {
			d := int32(1 + r.Intn(8))
			f := cur.Ancestor(cur.Height - d)
			if lastCP := rp.Checkpoints[len(rp.Checkpoints)-1]; f.Height < lastCP {
				f = cur.Ancestor(lastCP)
			}
			br := w.G.Extend(f, int(cur.Height-f.Height)+1+r.Intn(2), chaingen.PaceNormal)
			nt = br[len(br)-1]
			res.Count("reorgs", 1)
		} else {
			br := w.G.Extend(cur, 1+r.Intn(4), chaingen.PaceNormal)
			nt = br[len(br)-1]
			res.Count("growths", 1)
		}
		b.SetHonestTip(nt, rp.Announce)
		if !WaitFor(60*time.Second, func() bool { return w.SyncedTo(nt) }) {
			res.Inconcl("client did not follow the honest chain within 60 s (C04's subject)")
			break
		}
		ok = quiescent(fmt.Sprintf("after-round"))
	}
	finish()
	if mon.Samples.Load() < 50 {
		res.Inconcl("API monitor judged fewer than 50 samples")
	}
	res.Sample = map[string]any{"scenario": res.Name, "first_peer": first, "checkpoints": rp.Checkpoints, "chain": rp.ChainLen,
		"api_samples": mon.Samples.Load(), "distinct_heights": mon.DistinctHeights()}
}

var _ = chainhash.Hash{}

// RunReportedRestart is the restart shape of the family: a first run of the
// client stores block headers up to a height between two checkpoints while
// the peers withhold filter headers (so the filter-header tip stays below the
// lower checkpoint), the client is stopped and started again on the same data
// directory, and its first peer then serves, a few headers per message, a
// valid fork that leaves the honest chain above the stored tip and does not
// contain the upper checkpoint. k == 1 is fixed.
func RunReportedRestart(seed int64, k int, res *Result) {
	r := rand.New(rand.NewSource(seed*1_000_003 + int64(k)*104729 + 17))
	chainLen, cpLo, cpHi, stopAt, forkAt, batch := 200, int32(50), int32(150), int32(100), int32(120), 10
	if k != 1 {
		chainLen = 120 + r.Intn(200)
		cpLo = int32(15 + r.Intn(chainLen/3))
		cpHi = cpLo + 20 + int32(r.Intn(chainLen/3))
		stopAt = cpLo + 1 + int32(r.Intn(int(cpHi-cpLo-2)))
		forkAt = stopAt + int32(r.Intn(int(cpHi-stopAt)))
		if forkAt >= cpHi {
			forkAt = cpHi - 1
		}
		batch = 4 + r.Intn(30)
	}
	res.Name = fmt.Sprintf("c01-l2-%d", k)
	res.Fingerprint = fmt.Sprintf("restart-between-checkpoints first=lighter-fork fork-above-stored-tip=%v batch<%d", forkAt > stopAt, 10*(1+batch/10))
	w := NewWorld(Config{Seed: seed*1_000_003 + 700_000 + int64(k), Preset: k % chaingen.NumPresets, Interval: 4 + r.Intn(13), SpacingSec: 4,
		GenesisAgo: time.Duration(chainLen+400) * 6 * time.Second})
	defer w.Cleanup()
	g := w.G
	trunk := g.Extend(g.Genesis, chainLen, chaingen.PaceNormal)
	tip := trunk[len(trunk)-1]
	g.SetCheckpoints(tip, cpLo, cpHi)
	plan := map[string]any{"chain": chainLen, "checkpoints": []int32{cpLo, cpHi}, "first_run_stops_at": stopAt, "fork_at": forkAt, "hdr_batch": batch}
	var withhold atomic.Bool
	withhold.Store(true)
	honest := w.AddPeer(tip.Ancestor(stopAt))
	honest.Mutate = func(p *netsim.Peer, req wire.Message, hon []wire.Message) []wire.Message {
		switch req.(type) {
		case *wire.MsgGetCFHeaders, *wire.MsgGetCFCheckpt:
			if withhold.Load() {
				return nil
			}
		}
		return hon
	}
	if err := w.StartClient(nil, ClientOpts{}); err != nil {
		res.Inconcl("client start failed: " + err.Error())
		return
	}
	if !WaitFor(60*time.Second, func() bool {
		_, h, err := w.Svc.BlockHeaders.ChainTip()
		return err == nil && int32(h) == stopAt
	}) {
		res.Inconcl("first run did not store the block headers up to the stop height")
		_, _ = w.StopClient(30 * time.Second)
		return
	}
	_, fh, _ := w.Svc.RegFilterHeaders.ChainTip()
	if ok, _ := w.StopClient(60 * time.Second); !ok {
		res.Inconcl("Stop did not return (C17's subject)")
		return
	}
	res.Count("restarts_with_filter_tip_below_a_checkpoint_below_the_block_tip", 1)
	plan["filter_tip_at_restart"] = fh
	// Second run: the fork peer first, then the honest one with everything.
	withhold.Store(false)
	honest.View.SetTip(tip)
	br := g.Extend(tip.Ancestor(forkAt), int(tip.Height-forkAt)-1, chaingen.PaceNormal)
	liar := w.AddPeer(br[len(br)-1])
	liar.HdrBatch, liar.Delay = batch, 4*time.Millisecond
	w.Net.Refuse(honest.Addr, true)
	if err := w.StartClient(nil, ClientOpts{Dir: w.Dir}); err != nil {
		res.Inconcl("client restart failed: " + err.Error())
		return
	}
	mon := w.StartAPIMonitor(w.Seed)
	WaitFor(3*time.Second, func() bool { return liar.RxCount("getheaders") > 0 })
	// Let the fork peer serve its chain (steering only), then admit the honest peer.
	WaitFor(5*time.Second, func() bool {
		_, h, err := w.Svc.BlockHeaders.ChainTip()
		return err == nil && int32(h) >= br[len(br)-1].Height || liar.Conn() == nil || liar.Conn().Dead()
	})
	w.Net.Refuse(honest.Addr, false)
	synced := WaitFor(120*time.Second, func() bool { return w.SyncedTo(tip) })
	for _, v := range mon.Stop() {
		v.Witness.(map[string]any)["plan"] = plan
		res.Violations = append(res.Violations, v)
	}
	res.Count("api_samples_judged", mon.Samples.Load())
	res.Count("api_samples_dropped(chain_moved)", mon.Unstable.Load())
	res.Count("api_distinct_heights", int64(mon.DistinctHeights()))
	if sig, what := w.ValidateReported(); sig != "" {
		res.Violate("c01/l2/"+sig+"/after-restart", what+" (after a restart between two checkpoints)", map[string]any{"plan": plan, "event_log_tail": w.Log.Tail(30)})
	} else {
		res.Count("full_readbacks_through_api", 1)
	}
	if !synced && len(res.Violations) == 0 {
		res.Inconcl("client did not reach the honest tip within 120 s after the restart (C04's subject)")
	}
	res.Nontrivial = true
	_, _ = w.StopClient(30 * time.Second)
	res.Sample = map[string]any{"scenario": res.Name, "plan": plan, "api_samples": mon.Samples.Load()}
}
