package l2

import (
	"fmt"
	"time"
)

// Additive helpers for checks that look at the database between stopping the
// service and closing the database, or restart the client on the same data
// directory (database-hit paths, recovery).

// StopService stops the ChainService like StopClient but leaves the database
// open: w.DB and w.Svc.FilterDB stay readable until CloseDB. It returns false
// if Stop did not return within the watchdog (the database is left open then).
func (w *World) StopService(watchdog time.Duration) (ok bool, err error) {
	w.mu.Lock()
	if w.stopped || w.Svc == nil {
		w.mu.Unlock()
		return true, nil
	}
	w.stopped = true
	w.mu.Unlock()
	done := make(chan error, 1)
	go func() { done <- w.Svc.Stop() }()
	select {
	case err = <-done:
		return true, err
	case <-time.After(watchdog):
		return false, nil
	}
}

// CloseDB closes the database left open by StopService (no-op otherwise).
func (w *World) CloseDB() {
	if w.DB != nil {
		_ = w.DB.Close()
		w.DB = nil
	}
}

// RestartClient stops the client (service and database) and starts a new one
// on the SAME data directory with the given options (o.Dir is overridden).
func (w *World) RestartClient(addrs []string, o ClientOpts, watchdog time.Duration) error {
	ok, _ := w.StopClient(watchdog)
	if !ok {
		return fmt.Errorf("Stop did not return within %v", watchdog)
	}
	w.CloseDB() // in case StopService ran before
	o.Dir = w.Dir
	return w.StartClient(addrs, o)
}
