package l2

import (
	"fmt"
	"math/rand"
	"time"

	"verif/internal/chaingen"
	"verif/internal/netsim"
)

// ReorgSyncPlan: the real cfHandler (with its cached per-peer filter
// checkpoints, wait loops and retry timers), the real queryAllPeers and the
// real work manager, with a reorganisation arriving WHILE block headers are
// still syncing and filter headers are part-way.
type ReorgSyncPlan struct {
	Seed     int64
	FirstTip int32 // headers revealed in phase 1 (>= 2000 so that a checkpointed round runs)
	Fork     int32 // fork height of the reorganisation
	NewTip   int32 // tip of the new branch revealed in phase 2
	FinalTip int32 // everything is revealed in phase 3 (>= claimed height)
	Claim    int32 // height every peer advertises in its version message
	Liars    []netsim.Lie
	Honest   int // number of honest peers (>=1)
	// OldGenesis: the genesis block is more than 24 h old, so the client
	// is NOT current when the filter-header handler starts and takes the
	// checkpointed path (with its cached checkpoint lists); otherwise a
	// start-up race in the client decides between that and the at-tip path.
	OldGenesis bool
	// SameHeight: the new branch ends at the SAME height as the old tip but
	// carries more work (retargeting preset, faster blocks on the branch).
	SameHeight bool
}

// ReorgSyncPlanFromSeed derives a plan (pure function).
func ReorgSyncPlanFromSeed(seed int64, k int) ReorgSyncPlan {
	r := rand.New(rand.NewSource(seed*7_000_003 + int64(k)*104_729 + 5))
	p := ReorgSyncPlan{Seed: seed*1_000_003 + int64(k) + 700_000}
	p.FirstTip = int32(2000 + r.Intn(900))
	switch r.Intn(3) {
	case 0: // below the checkpoint cached in the first round
		p.Fork = int32(1100 + r.Intn(850))
	case 1: // just below / at the cached checkpoint
		p.Fork = int32(1995 + r.Intn(6))
		if p.Fork >= p.FirstTip {
			p.Fork = p.FirstTip - 1
		}
	default: // above it
		p.Fork = 2000 + int32(r.Intn(int(p.FirstTip-2000)+1))
		if p.Fork >= p.FirstTip {
			p.Fork = p.FirstTip - 1
		}
	}
	switch r.Intn(4) {
	case 0: // new tip inside the same checkpoint interval
		p.NewTip = p.FirstTip + 1 + int32(r.Intn(int(2999-p.FirstTip)+1))
	case 1: // exactly on the next checkpoint
		p.NewTip = 3000
	case 2: // beyond
		p.NewTip = 3001 + int32(r.Intn(400))
	default: // barely longer
		p.NewTip = p.FirstTip + 1
	}
	p.Claim = p.NewTip + 200 + int32(r.Intn(200))
	p.FinalTip = p.Claim + int32(r.Intn(20))
	p.Honest = 1 + r.Intn(2)
	if r.Intn(2) == 0 {
		kind := netsim.ProvableLies[r.Intn(len(netsim.ProvableLies))]
		p.Liars = append(p.Liars, netsim.Lie{Kind: kind, Height: 1 + int32(r.Intn(int(p.NewTip)))})
	}
	p.OldGenesis = k%3 != 2
	if k == 3 {
		// Fixed shape: the first filter round ends exactly on the block tip
		// (2000), then a heavier branch of the SAME height replaces the last
		// 1000 blocks (mined faster, so retargets raise its difficulty): the
		// checkpoint list cached in the first round is for exactly this
		// height, but commits to disconnected blocks, and the filter tip is
		// a whole interval below the block tip again, so the client runs
		// another checkpointed round at height 2000 before anything else is
		// revealed.
		p.FirstTip, p.Fork, p.NewTip, p.Claim, p.FinalTip, p.Honest, p.Liars = 2000, 1000, 2000, 2300, 2305, 1, nil
		p.OldGenesis, p.SameHeight = true, true
	}
	if k == 0 {
		// Fixed shape: fork below the cached checkpoint, new tip within one
		// interval of it.
		p.FirstTip, p.Fork, p.NewTip, p.Claim, p.FinalTip, p.Honest, p.Liars = 2500, 1500, 2600, 2900, 2905, 1, nil
	}
	return p
}

func (p ReorgSyncPlan) Fingerprint() string {
	rel := "fork-above-cached-cp"
	if p.Fork < 2000 {
		rel = "fork-below-cached-cp"
	}
	nt := "newtip-same-interval"
	switch {
	case p.NewTip == 3000:
		nt = "newtip-on-next-cp"
	case p.NewTip > 3000:
		nt = "newtip-next-interval"
	}
	liar := "no-liar"
	if len(p.Liars) > 0 {
		liar = "liar:" + p.Liars[0].Kind
	}
	return fmt.Sprintf("reorg-during-sync|%s|%s|%s|honest=%d|oldgenesis=%v", rel, nt, liar, p.Honest, p.OldGenesis)
}

// RunReorgSync executes the plan and fills res.
func RunReorgSync(p ReorgSyncPlan, res *Result) {
	res.Fingerprint = p.Fingerprint()
	// The client must stay "not current" until the last part of the chain is
	// revealed WITHOUT any peer overstating its height (a sync peer that
	// advertises more than it serves is dropped): with OldGenesis the first
	// tip and the new tip are more than 24 h old and only the final tip is
	// recent. Everything is generated before the client starts; a first pass
	// measures where the final tip lands relative to the genesis block (the
	// fast branch of the same-height shape runs into the generator's
	// difficulty cap), the second pass places the genesis accordingly.
	spacing := int64(4)
	if p.OldGenesis {
		spacing = 480 // the >= 200 blocks revealed last span more than 24 h
	}
	preset, interval := chaingen.PresetNoRetarget, 0
	branchPace, restPace := chaingen.PaceNormal, chaingen.PaceNormal
	if p.SameHeight {
		preset, interval = chaingen.PresetRetarget, 16
		branchPace, restPace = chaingen.PaceFast, chaingen.PaceSlow
		spacing = 75 // 305 slow blocks (4x+1 s) then span more than 24 h
	}
	type built struct {
		w                   *World
		trunk, branch, rest []*chaingen.Node
	}
	build := func(ago time.Duration) built {
		w := NewWorld(Config{Seed: p.Seed, Preset: preset, Interval: interval, SpacingSec: spacing, GenesisAgo: ago})
		trunk := w.G.Extend(w.G.Genesis, int(p.FirstTip), chaingen.PaceNormal)
		f := trunk[len(trunk)-1].Ancestor(p.Fork)
		branch := w.G.Extend(f, int(p.NewTip-p.Fork), branchPace)
		rest := w.G.Extend(branch[len(branch)-1], int(p.FinalTip-p.NewTip), restPace)
		return built{w, trunk, branch, rest}
	}
	probe := build(1000 * time.Hour)
	off := probe.rest[len(probe.rest)-1].Hdr.Timestamp.Sub(probe.w.G.Genesis.Hdr.Timestamp)
	probe.w.Cleanup()
	bl := build(off + 20*time.Minute)
	w := bl.w
	defer w.Cleanup()
	g := w.G
	trunk, branch, rest := bl.trunk, bl.branch, bl.rest
	first := trunk[len(trunk)-1]
	nt := branch[len(branch)-1]
	final := rest[len(rest)-1]
	if age := time.Since(final.Hdr.Timestamp); age < 0 || age > 12*time.Hour {
		res.Inconcl(fmt.Sprintf("generated final tip is %v old", age))
		return
	}
	if p.OldGenesis {
		for _, n := range []*chaingen.Node{first, nt} {
			if time.Since(n.Hdr.Timestamp) < 24*time.Hour+10*time.Minute {
				res.Inconcl("generated first/new tip is not older than 24 h")
				return
			}
		}
	}
	var honest []*netsim.Peer
	for i := 0; i < p.Honest; i++ {
		honest = append(honest, w.AddPeer(first))
	}
	for _, lie := range p.Liars {
		w.AddLiar(first, lie)
	}
	setTip := func(n *chaingen.Node) {
		for _, pr := range w.Peers {
			pr.View.SetTip(n)
		}
	}
	witness := func() any {
		return map[string]any{"plan": p, "event_log_tail": w.Log.Tail(50), "event_log": w.Log.Tail(600)}
	}
	if err := w.StartClient(nil, ClientOpts{}); err != nil {
		res.Inconcl("client start: " + err.Error())
		return
	}
	defer func() {
		if ok, _ := w.StopClient(60 * time.Second); !ok {
			res.Inconcl("Stop did not return in 60s")
		}
	}()
	tips := func() (bt, ft uint32) {
		_, bt, _ = w.Svc.BlockHeaders.ChainTip()
		_, ft, _ = w.Svc.RegFilterHeaders.ChainTip()
		return
	}
	// Phase 1: headers to FirstTip, checkpointed filter round to 2000.
	ok := WaitFor(60*time.Second, func() bool {
		bt, ft := tips()
		return bt == uint32(p.FirstTip) && ft >= 2000
	})
	if !ok {
		bt, ft := tips()
		res.Inconcl(fmt.Sprintf("phase 1 not reached (block tip %d, filter tip %d)", bt, ft))
		return
	}
	res.Count("phase1_reached", 1)
	res.Nontrivial = true

	// Phase 2: the network reorganises; every peer follows, the peers that
	// are connected announce the new branch with headers messages.
	if nt.CumWork.Cmp(first.CumWork) <= 0 {
		res.Inconcl("generated branch is not heavier than the chain it should replace")
		return
	}
	setTip(nt)
	for _, pr := range w.Peers {
		if pr.Conn() == nil {
			continue
		}
		for i := 0; i < len(branch); i += 2000 {
			pr.AnnounceHeaders(branch[i:min(i+2000, len(branch))]...)
		}
	}
	ok = WaitFor(60*time.Second, func() bool {
		bt, _ := tips()
		h, err := w.Svc.BlockHeaders.FetchHeaderByHeight(uint32(nt.Height))
		return bt == uint32(nt.Height) && err == nil && h.BlockHash() == nt.Hash
	})
	if !ok {
		bt, ft := tips()
		res.Inconcl(fmt.Sprintf("reorganisation not adopted (block tip %d, filter tip %d)", bt, ft))
		return
	}
	res.Count("reorg_adopted", 1)
	// Give the filter-header handler the chance to act on the reorganised
	// chain in THIS state (still not current) before more is revealed: it
	// should re-commit up to the last checkpoint interval below the new tip.
	wantFt := uint32(nt.Height) / 1000 * 1000
	if WaitFor(15*time.Second, func() bool { _, ft := tips(); return ft >= wantFt }) {
		res.Count("filters_recommitted_before_reveal", 1)
	}

	// Phase 3: the rest of the chain is revealed; the client must converge.
	setTip(final)
	for _, pr := range w.Peers {
		if pr.Conn() != nil {
			pr.AnnounceHeaders(rest[:min(2000, len(rest))]...)
		}
	}
	deadline := 75 * time.Second
	start := time.Now()
	lastChange := start
	prev := w.Sample()
	conv := false
	for time.Since(start) < deadline {
		s := w.Sample()
		if s.Err == "" && s.BestHash == final.Hash {
			conv = true
			break
		}
		if s != prev {
			prev, lastChange = s, time.Now()
		}
		time.Sleep(10 * time.Millisecond)
	}
	// Safety of what is committed, at this quiescent point.
	loneLiar := w.LiarAnsweredAlone(honest)
	if v := w.ValidateStored(len(p.Liars) == 0 || true); v != "" {
		// A liar that answered while no honest peer had completed its
		// handshake had nobody disagreeing with it: the statement's premise
		// (responding peers disagree, one of them honest) does not hold for
		// what it got committed, nor for the bans that follow from it
		// (listed under C04/C13 as "lone liar believed").
		if loneLiar != "" {
			res.Inconcl("a liar answered before any honest peer was connected (premise of the statement not met)")
			res.Count("lone_liar_rounds_not_asserted", 1)
		} else {
			res.Violate("c03/l2/"+classOf(v), "after a reorganisation during filter-header sync: "+v, witness())
		}
	}
	for _, hp := range honest {
		if w.Svc.IsBanned(hp.Addr) && loneLiar == "" {
			res.Violate("c03/l2/honest-peer-banned/reorg-during-sync",
				"an honest peer (it answered every request at once and truthfully) was banned after a reorganisation arrived during filter-header sync", witness())
			break
		}
	}
	for addr, l := range w.Liars {
		told := false
		for bh := range l.Told {
			if n := g.Lookup(bh); n != nil && final.Ancestor(n.Height) == n {
				told = true
			}
		}
		if conv && told && !w.Svc.IsBanned(addr) && loneLiar == "" {
			res.Violate("c03/l2/liar-not-banned/"+l.Lies[0].Kind, "a peer that served a provably false filter header for a block of the final chain is not banned although filter headers were committed past that height", witness())
		}
	}
	if conv {
		res.Count("converged", 1)
	} else if time.Since(lastChange) > deadline/3 {
		bt, ft := tips()
		res.Violate("c03/l2/stuck-after-reorg-during-sync",
			fmt.Sprintf("client did not reach the honest tip %d within %v after everything was revealed and its state stopped changing (block tip %d, filter tip %d)", final.Height, deadline, bt, ft), witness())
	} else {
		res.Inconcl("phase 3 deadline missed while still progressing")
	}
	res.Count("events_logged", w.Log.Len())
	res.Sample = map[string]any{"plan": p, "converged": conv, "event_log_tail": w.Log.Tail(30)}
	if dl := DebugLog.String(); dl != "" {
		res.Sample = map[string]any{"debuglog": dl}
	}
}

func classOf(v string) string {
	switch {
	case len(v) >= 22 && v[:22] == "committed filter heade":
		return "false-header-committed"
	case len(v) >= 10 && v[:10] == "filter tip":
		return "filter-ahead-of-blocks"
	}
	return "store-state"
}
