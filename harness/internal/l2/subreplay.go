package l2

import (
	"fmt"

	"github.com/btcsuite/btcd/wire/v2"
	"github.com/lightninglabs/neutrino/blockntfns"
)

// SubReplay is the replay rule of RunSubs (subModel.apply and the comparison
// made at quiescent points), exported so that a check that obtains
// subscription streams by other means (property C19, family regwin: the real
// subscription manager on top of the L1 block manager) judges them with the
// very same rule. Additive: RunSubs itself is unchanged.
type SubReplay struct{ m subModel }

// NewSubReplay returns a subscriber that subscribed from height `from` and
// holds held[0..len(held)-1] (the committed chain up to the height it
// subscribed at; for from == 0 the committed chain as it was at that moment).
func NewSubReplay(from uint32, held []wire.BlockHeader) *SubReplay {
	r := &SubReplay{m: subModel{from: from, chain: map[uint32]wire.BlockHeader{}}}
	for h, hd := range held {
		r.m.chain[uint32(h)] = hd
	}
	if len(held) > 0 {
		r.m.top = uint32(len(held) - 1)
	}
	return r
}

// Apply feeds one notification of the subscriber's stream.
func (r *SubReplay) Apply(n blockntfns.BlockNtfn) { r.m.apply(n) }

// From is the height the subscriber subscribed from.
func (r *SubReplay) From() uint32 { return r.m.from }

// Events is the number of notifications applied so far.
func (r *SubReplay) Events() int {
	r.m.mu.Lock()
	defer r.m.mu.Unlock()
	return r.m.events
}

// HasAnomaly: the stream itself broke the rule (a connected event that does
// not extend what the subscriber holds, a disconnected event for a held block
// that is not its tip); final, whatever comes later.
func (r *SubReplay) HasAnomaly() bool { return r.m.hasAnomaly() }

// Judge compares what the subscriber holds with the committed chain
// (chain[0..]) up to the committed filter-header tip ft, exactly as
// RunSubs does at its quiescent points. "" = the subscriber holds exactly
// the committed chain.
func (r *SubReplay) Judge(chain []wire.BlockHeader, ft uint32) (bad string, events int) {
	m := &r.m
	m.mu.Lock()
	defer m.mu.Unlock()
	switch {
	case m.anomaly != "":
		bad = m.anomaly
	case m.top != ft:
		bad = fmt.Sprintf("subscriber ends at height %d, the committed filter tip is %d", m.top, ft)
	default:
		for h := uint32(0); h <= ft && int(h) < len(chain); h++ {
			if m.chain[h] != chain[h] {
				bad = fmt.Sprintf("subscriber's block at height %d is not the committed one", h)
				break
			}
		}
	}
	return bad, m.events
}
