package l2

import (
	"bufio"
	"bytes"
	"encoding/json"
	"fmt"
	"os"
	"os/exec"
	"runtime"
	"strings"
	"sync"
	"sync/atomic"
	"syscall"
	"time"

	"verif/internal/evid"
)

// Result is what one scenario (run in a child process) reports.
type Result struct {
	Scenario     int              `json:"scenario"`
	Name         string           `json:"name"`
	Fingerprint  string           `json:"fingerprint"`
	Nontrivial   bool             `json:"nontrivial"`
	Counters     map[string]int64 `json:"counters,omitempty"`
	Marks        []string         `json:"marks,omitempty"`
	Violations   []Violation      `json:"violations,omitempty"`
	Inconclusive []string         `json:"inconclusive,omitempty"`
	Sample       any              `json:"sample,omitempty"`
	WallS        float64          `json:"wall_s"`
}

// Violation found by a scenario's oracle.
type Violation struct {
	Sig     string `json:"sig"`
	What    string `json:"what"`
	Witness any    `json:"witness,omitempty"`
}

func (r *Result) Count(k string, n int64) {
	if r.Counters == nil {
		r.Counters = map[string]int64{}
	}
	r.Counters[k] += n
}
func (r *Result) Violate(sig, what string, w any) {
	r.Violations = append(r.Violations, Violation{sig, what, w})
}
func (r *Result) Inconcl(why string) { r.Inconclusive = append(r.Inconclusive, why) }
func (r *Result) Mark(fp string)     { r.Marks = append(r.Marks, fp) }

// ScenarioFunc runs scenario k of the (seed, tier) case list.
type ScenarioFunc func(seed int64, k int, res *Result)

const resultPrefix = "VERIF-RESULT "

// Main is the entry of an L2 check program: in the parent it spawns one child
// process per scenario (16-wide) and aggregates; in a child it runs one
// scenario and prints its Result. One process per scenario means a panic or
// deadlock of the client under test ends one scenario only, and its goroutine
// dump becomes the witness.
func Main(r *evid.Run, n int, perChildTimeout time.Duration, minDistinct int, f ScenarioFunc) {
	RunScenarios(r, n, perChildTimeout, f)
	r.Finish(minDistinct)
}

// RunScenarios is Main without the final Finish, for programs that combine
// several parts. In a child process it runs the scenario and exits.
func RunScenarios(r *evid.Run, n int, perChildTimeout time.Duration, f ScenarioFunc) {
	RunScenariosCB(r, n, perChildTimeout, f, nil)
}

// RunScenariosCB is RunScenarios with a callback that sees every child Result
// in the parent (after it was folded into r), so that a program combining
// several parts can keep its own tallies of one part. cb may be nil; it is
// called from several goroutines.
func RunScenariosCB(r *evid.Run, n int, perChildTimeout time.Duration, f ScenarioFunc, cb func(*Result)) {
	if ks := os.Getenv("VERIF_CHILD_SCENARIO"); ks != "" {
		var k int
		fmt.Sscan(ks, &k)
		res := &Result{Scenario: k}
		start := time.Now()
		f(r.Seed, k, res)
		res.WallS = time.Since(start).Seconds()
		b, err := json.Marshal(res)
		if err != nil {
			b, _ = json.Marshal(&Result{Scenario: k, Inconclusive: []string{"marshal: " + err.Error()}})
		}
		fmt.Println(resultPrefix + string(b))
		os.Exit(0)
	}
	width := runtime.NumCPU()
	if width > 16 {
		width = 16
	}
	if w := os.Getenv("VERIF_WIDTH"); w != "" {
		fmt.Sscan(w, &width)
	}
	jobs := make(chan int)
	var wg sync.WaitGroup
	for i := 0; i < width; i++ {
		wg.Add(1)
		go func() {
			defer wg.Done()
			for k := range jobs {
				runChild(r, k, perChildTimeout, cb)
			}
		}()
	}
	for k := 0; k < n; k++ {
		jobs <- k
	}
	close(jobs)
	wg.Wait()
}

// RunScenarioList is the parent side of RunScenarios for an explicit list of
// scenario numbers, run on a pool of its own of the given width (additive: a
// program whose case list has a part made of scenarios that mostly WAIT, e.g.
// for a watchdog, runs that part next to the rest instead of behind it; the
// case list itself is unchanged). The child side is RunScenarios as before:
// the program calls it first thing when IsChild(). cb may be nil.
func RunScenarioList(r *evid.Run, ks []int, width int, perChildTimeout time.Duration, cb func(*Result)) {
	if width < 1 {
		width = 1
	}
	jobs := make(chan int)
	var wg sync.WaitGroup
	for i := 0; i < width; i++ {
		wg.Add(1)
		go func() {
			defer wg.Done()
			for k := range jobs {
				runChild(r, k, perChildTimeout, cb)
			}
		}()
	}
	for _, k := range ks {
		jobs <- k
	}
	close(jobs)
	wg.Wait()
}

// RSSLimitMB, when set by a check program (never by -race builds, whose
// shadow memory multiplies the footprint), makes a scenario child whose peak
// resident memory exceeds it a violation. PeakChildRSSMB reports the largest
// peak seen, for the evidence.
var RSSLimitMB int64
var peakChildRSSMB atomic.Int64

func PeakChildRSSMB() int64 { return peakChildRSSMB.Load() }

func runChild(r *evid.Run, k int, timeout time.Duration, cb func(*Result)) {
	exe, _ := os.Executable()
	cmd := exec.Command(exe, "-tier", r.Tier, "-seed", fmt.Sprint(r.Seed))
	cmd.Env = append(os.Environ(), fmt.Sprintf("VERIF_CHILD_SCENARIO=%d", k))
	var out, errb bytes.Buffer
	cmd.Stdout = &out
	cmd.Stderr = &errb
	if err := cmd.Start(); err != nil {
		r.Inconclusive("child-start-failed")
		return
	}
	done := make(chan error, 1)
	go func() { done <- cmd.Wait() }()
	var werr error
	timedOut := false
	select {
	case werr = <-done:
	case <-time.After(timeout):
		timedOut = true
		_ = cmd.Process.Signal(syscall.SIGQUIT) // goroutine dump to stderr
		select {
		case werr = <-done:
		case <-time.After(10 * time.Second):
			_ = cmd.Process.Kill()
			werr = <-done
		}
	}
	// Resource monitor: the peak resident memory of the child (the complete
	// client plus simulated peers; a scenario needs 0.1-0.3 GiB) as the kernel
	// accounted it. A program that sets RSSLimitMB treats a child above it as a
	// violation: a light client that touches gigabytes to answer (or refuse) one
	// call is killed by the OOM killer, or thrashes, wherever memory is limited,
	// and then neither the call nor Stop return.
	peakMB := int64(0)
	if ps := cmd.ProcessState; ps != nil {
		if ru, ok := ps.SysUsage().(*syscall.Rusage); ok {
			peakMB = ru.Maxrss / 1024
		}
	}
	for {
		old := peakChildRSSMB.Load()
		if peakMB <= old || peakChildRSSMB.CompareAndSwap(old, peakMB) {
			break
		}
	}
	if RSSLimitMB > 0 && peakMB > RSSLimitMB {
		r.Violation(evid.Sig("resource", fmt.Sprintf("client-process-resident-memory-over-%dMiB", RSSLimitMB)),
			fmt.Sprintf("the client process of scenario %d peaked at %d MiB of resident memory (scenarios of this check need 100-300 MiB)", k, peakMB),
			map[string]any{"scenario": k, "peak_rss_mib": peakMB, "limit_mib": RSSLimitMB})
	}
	var res *Result
	sc := bufio.NewScanner(&out)
	sc.Buffer(make([]byte, 1<<20), 1<<26)
	for sc.Scan() {
		line := sc.Text()
		if strings.HasPrefix(line, resultPrefix) {
			var x Result
			if json.Unmarshal([]byte(line[len(resultPrefix):]), &x) == nil {
				res = &x
			}
		}
	}
	if res == nil {
		stderr := errb.String()
		if len(stderr) > 6000 {
			stderr = stderr[:3000] + "\n...\n" + stderr[len(stderr)-3000:]
		}
		switch {
		case timedOut:
			r.Case(fmt.Sprintf("scenario-%d-timeout", k), false)
			r.Inconclusive("scenario watchdog fired (child killed with SIGQUIT)")
			fmt.Fprintf(os.Stderr, "scenario %d: watchdog; stderr tail:\n%s\n", k, tailStr(stderr, 1500))
		case strings.Contains(stderr, "panic:") || strings.Contains(stderr, "fatal error:"):
			r.Case(fmt.Sprintf("scenario-%d-crash", k), true)
			r.Violation(evid.Sig("process-crash", crashClass(stderr)),
				fmt.Sprintf("the client process crashed in scenario %d (%v)", k, werr),
				map[string]any{"scenario": k, "stderr": stderr})
		default:
			r.Case(fmt.Sprintf("scenario-%d-noresult", k), false)
			r.Inconclusive("child produced no result")
			fmt.Fprintf(os.Stderr, "scenario %d: no result (%v); stderr tail:\n%s\n", k, werr, tailStr(stderr, 1500))
		}
		return
	}
	r.Case(res.Fingerprint, res.Nontrivial)
	for _, m := range res.Marks {
		r.Mark(m)
	}
	for c, v := range res.Counters {
		r.Count(c, v)
	}
	for _, why := range res.Inconclusive {
		r.Inconclusive(why)
	}
	for _, v := range res.Violations {
		r.Violation(v.Sig, v.What, map[string]any{"scenario": k, "name": res.Name, "witness": v.Witness})
	}
	if res.Sample != nil {
		r.Sample(res.Sample)
	}
	if cb != nil {
		cb(res)
	}
}

func tailStr(s string, n int) string {
	if len(s) > n {
		return s[len(s)-n:]
	}
	return s
}

// crashClass extracts a stable class from a Go crash report: the first
// neutrino frame after the panic line.
func crashClass(stderr string) string {
	lines := strings.Split(stderr, "\n")
	for i, l := range lines {
		if strings.HasPrefix(l, "panic:") || strings.HasPrefix(l, "fatal error:") {
			for _, m := range lines[i:] {
				m = strings.TrimSpace(m)
				if strings.HasPrefix(m, "github.com/lightninglabs/neutrino") {
					if j := strings.Index(m, "("); j > 0 {
						m = m[:j]
					}
					return strings.TrimPrefix(m, "github.com/lightninglabs/neutrino")
				}
			}
			return "unknown-frame"
		}
	}
	return "unknown"
}

// IsChild reports whether this process is a scenario child. Programs that
// combine an in-process part with L2 scenarios must call RunScenarios first
// thing when IsChild() (it runs the scenario and exits).
func IsChild() bool { return os.Getenv("VERIF_CHILD_SCENARIO") != "" }
