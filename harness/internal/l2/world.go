// Package l2 is the network-simulation engine (L2 of DESIGN.md): the complete,
// real neutrino ChainService — connection manager, btcd peers, block manager,
// work manager, stores on disk — driven only through its public API against
// scripted wire-level peers reached through Config.Dialer.
package l2

import (
	"fmt"
	"math/rand"
	"net"
	"os"
	"path/filepath"
	"sync"
	"time"

	"github.com/btcsuite/btcd/chainhash/v2"
	"github.com/btcsuite/btcd/wire/v2"
	"github.com/btcsuite/btclog"
	"github.com/btcsuite/btcwallet/walletdb"
	_ "github.com/btcsuite/btcwallet/walletdb/bdb"
	"github.com/lightninglabs/neutrino"
	"github.com/lightninglabs/neutrino/headerfs"

	"verif/internal/chaingen"
	"verif/internal/netsim"
	"verif/internal/ref"
)

func init() {
	if os.Getenv("VERIF_DEBUG_LOG") == "buffer" {
		b := btclog.NewBackend(&DebugLog)
		l := b.Logger("NTRN")
		l.SetLevel(btclog.LevelDebug)
		neutrino.UseLogger(l)
	} else if os.Getenv("VERIF_DEBUG_LOG") != "" {
		b := btclog.NewBackend(os.Stderr)
		l := b.Logger("NTRN")
		l.SetLevel(btclog.LevelDebug)
		neutrino.UseLogger(l)
	}
	// Exported configuration knobs of the client (lnd sets them too): short
	// values keep liar / silent-peer scenarios affordable. They are part of
	// the configuration the scenarios run under, not code changes.
	neutrino.DisableDNSSeed = true
	neutrino.QueryTimeout = 1500 * time.Millisecond
	neutrino.QueryBatchTimeout = 8 * time.Second
	neutrino.QueryPeerConnectTimeout = 6 * time.Second
	neutrino.QueryPeerCooldown = 400 * time.Millisecond
	neutrino.QueryRejectTimeout = 300 * time.Millisecond
	neutrino.ConnectionRetryInterval = 300 * time.Millisecond
}

// DebugLog collects client logs when VERIF_DEBUG_LOG=buffer.
var DebugLog lockedBuffer

type lockedBuffer struct {
	mu sync.Mutex
	b  []byte
}

func (l *lockedBuffer) Write(p []byte) (int, error) {
	l.mu.Lock()
	l.b = append(l.b, p...)
	l.mu.Unlock()
	return len(p), nil
}

// String returns the collected log.
func (l *lockedBuffer) String() string { l.mu.Lock(); defer l.mu.Unlock(); return string(l.b) }

// World is one simulated network plus one client.
type World struct {
	Seed  int64
	Rng   *rand.Rand
	G     *chaingen.Gen
	Log   *netsim.Log
	Net   *netsim.Network
	Peers []*netsim.Peer
	Liars map[string]*netsim.Liar

	Dir string
	DB  walletdb.DB
	Svc *neutrino.ChainService

	mu      sync.Mutex
	stopped bool
}

// Config of a world.
type Config struct {
	Seed       int64
	Preset     int
	Interval   int
	SpacingSec int64
	// ChainSpan is how far in the past the genesis block lies; the tip of a
	// chain of n blocks with spacing s must end up within 24h of the real
	// clock for the client to consider itself current.
	GenesisAgo time.Duration
}

// NewWorld creates the generator (clock = real time: the full client uses the
// real clock) and the network.
func NewWorld(c Config) *World {
	now := time.Now()
	if c.GenesisAgo == 0 {
		c.GenesisAgo = 6 * time.Hour
	}
	if c.SpacingSec == 0 {
		c.SpacingSec = 4
	}
	g := chaingen.NewGen(chaingen.Config{
		Seed: c.Seed, Preset: c.Preset, Interval: c.Interval,
		GenesisTime: now.Add(-c.GenesisAgo), Now: now, WithBlocks: true,
		SpacingSec: c.SpacingSec,
	})
	g.P.DefaultPort = "18444"
	log := netsim.NewLog()
	return &World{Seed: c.Seed, Rng: rand.New(rand.NewSource(c.Seed ^ 0x12d)), G: g, Log: log,
		Net: netsim.NewNetwork(log), Liars: map[string]*netsim.Liar{}}
}

// AddPeer registers a scripted peer with its own view of the best chain.
func (w *World) AddPeer(tip *chaingen.Node) *netsim.Peer {
	addr := fmt.Sprintf("10.2.%d.%d:18444", len(w.Peers)/200, 1+len(w.Peers)%200)
	p := netsim.NewPeer(addr, w.G.P.Net, netsim.NewView(w.G, tip), w.Log)
	w.Peers = append(w.Peers, p)
	w.Net.Add(p)
	return p
}

// AddPeerAt is AddPeer at a host:port chosen by the scenario (additive): IPv4
// ("10.6.0.5:18444") or bracketed IPv6 ("[2001:db8:1:2::5]:18444", any
// spelling). The peer is registered under the canonical spelling of the
// address (what net.TCPAddr.String() prints: the form the client's dialer,
// peer.Addr() and the event log use); an IPv4-mapped IPv6 spelling
// ("[::ffff:10.6.0.5]:18444") therefore names the IPv4 host.
func (w *World) AddPeerAt(addr string, tip *chaingen.Node) *netsim.Peer {
	addr = netsim.TCPAddr(addr).String()
	p := netsim.NewPeer(addr, w.G.P.Net, netsim.NewView(w.G, tip), w.Log)
	w.Peers = append(w.Peers, p)
	w.Net.Add(p)
	return p
}

// AddLiar registers a peer that lies as specified.
func (w *World) AddLiar(tip *chaingen.Node, lies ...netsim.Lie) *netsim.Peer {
	p := w.AddPeer(tip)
	l := netsim.NewLiar(w.Seed+int64(len(w.Peers)), lies...)
	w.Liars[p.Addr] = l
	p.Mutate = l.Mutate
	return p
}

// Scratch returns the scratch root.
func Scratch() string {
	if s := os.Getenv("VERIF_SCRATCH"); s != "" {
		return s
	}
	d, _ := os.MkdirTemp("", "verif-l2-")
	return d
}

// ClientOpts tune the client.
type ClientOpts struct {
	PersistToDisk bool
	FilterCache   uint64
	BlockCache    uint64
	Dir           string // reuse an existing data directory
	// BroadcastTimeout is neutrino.Config.BroadcastTimeout (0 = the client's
	// default of 5 s): how long sendTransaction waits for peers that never
	// react to its inv.
	BroadcastTimeout time.Duration
	// NameResolver is neutrino.Config.NameResolver (nil = the client's default,
	// net.LookupIP, as before).
	NameResolver func(host string) ([]net.IP, error)
	// BeforeStart, when set, is called with the service NewChainService
	// returned, before Start (nil = nothing, as before): the place where an
	// embedding application may replace the service's EXPORTED fields (e.g.
	// wrap ChainService.BlockHeaders).
	BeforeStart func(*neutrino.ChainService)
	// AssertFilterHeader is neutrino.Config.AssertFilterHeader (nil = none, as
	// before): the operator's assertion "the filter header at this height is
	// this one"; a stored header that differs makes the client throw its
	// filter header store away at start-up and sync it anew.
	AssertFilterHeader *headerfs.FilterHeader
}

// StartClient creates and starts the real ChainService connected to the
// given peer addresses (all registered peers when nil).
func (w *World) StartClient(addrs []string, o ClientOpts) error {
	if addrs == nil {
		for _, p := range w.Peers {
			addrs = append(addrs, p.Addr)
		}
	}
	dir := o.Dir
	if dir == "" {
		dir = filepath.Join(Scratch(), fmt.Sprintf("l2-%d-%d", w.Seed, time.Now().UnixNano()))
	}
	if err := os.MkdirAll(dir, 0o755); err != nil {
		return err
	}
	w.Dir = dir
	db, err := walletdb.Create("bdb", filepath.Join(dir, "neutrino.db"), true, 10*time.Second, false)
	if err != nil {
		return err
	}
	w.DB = db
	svc, err := neutrino.NewChainService(neutrino.Config{
		DataDir:         dir,
		Database:        db,
		ChainParams:     *w.G.P,
		ConnectPeers:    addrs,
		Dialer:          w.Net.Dial,
		NameResolver:    o.NameResolver,
		PersistToDisk:   o.PersistToDisk,
		FilterCacheSize: o.FilterCache,
		BlockCacheSize:  o.BlockCache,

		BroadcastTimeout: o.BroadcastTimeout,

		AssertFilterHeader: o.AssertFilterHeader,
	})
	if err != nil {
		_ = db.Close()
		return err
	}
	w.Svc = svc
	w.mu.Lock()
	w.stopped = false
	w.mu.Unlock()
	if o.BeforeStart != nil {
		o.BeforeStart(svc)
	}
	return svc.Start(nil)
}

// StopClient stops the service and closes the database. It returns false if
// Stop did not return within the watchdog.
func (w *World) StopClient(watchdog time.Duration) (ok bool, err error) {
	w.mu.Lock()
	if w.stopped || w.Svc == nil {
		w.mu.Unlock()
		return true, nil
	}
	w.stopped = true
	w.mu.Unlock()
	done := make(chan error, 1)
	go func() { done <- w.Svc.Stop() }()
	select {
	case err = <-done:
	case <-time.After(watchdog):
		return false, nil
	}
	if w.DB != nil {
		_ = w.DB.Close()
		w.DB = nil
	}
	return true, err
}

// Cleanup removes the data directory.
func (w *World) Cleanup() {
	if w.Dir != "" {
		_ = os.RemoveAll(w.Dir)
	}
}

// ---------------------------------------------------------------------------
// Observations through the public API.

// Snapshot is what one sample of the public API reports.
type Snapshot struct {
	BestHeight int32
	BestHash   chainhash.Hash
	Current    bool
	Err        string
	// HdrTip / FltTip are the tips of the two header stores. They are not
	// part of what C04 judges (that is the reported best block); they are
	// part of "did the client's state change": a reorganisation a thousand
	// blocks deep rolls the block header store back one block per database
	// commit, which on a machine whose cores are all taken lasts longer than
	// a deadline, while the best block (bounded by the filter tip) stands
	// still. A client that is visibly working is not stuck.
	HdrTip int32
	FltTip int32
}

// Sample reads BestBlock, IsCurrent and the tips of the header stores.
func (w *World) Sample() Snapshot {
	bs, err := w.Svc.BestBlock()
	if err != nil {
		return Snapshot{Err: err.Error()}
	}
	s := Snapshot{BestHeight: bs.Height, BestHash: bs.Hash, Current: w.Svc.IsCurrent(), HdrTip: -1, FltTip: -1}
	if _, h, err := w.Svc.BlockHeaders.ChainTip(); err == nil {
		s.HdrTip = int32(h)
	}
	if _, h, err := w.Svc.RegFilterHeaders.ChainTip(); err == nil {
		s.FltTip = int32(h)
	}
	return s
}

// CheckBest validates a reported best block: it must be a generator node
// whose whole ancestry is valid, and the client's by-height answers for a
// few heights below it must be its ancestors (or, while a reorganisation is
// in flight, at least nodes of the tree). Returns "" or a violation text.
func (w *World) CheckBest(s Snapshot) string {
	if s.Err != "" {
		return ""
	}
	n := w.G.Lookup(s.BestHash)
	if n == nil {
		return fmt.Sprintf("BestBlock reports hash %v at height %d which is not a block of the generated tree", s.BestHash, s.BestHeight)
	}
	if n.Height != s.BestHeight {
		return fmt.Sprintf("BestBlock reports height %d for a block whose true height is %d", s.BestHeight, n.Height)
	}
	if !n.ChainValid {
		return fmt.Sprintf("BestBlock reports block at height %d on an INVALID chain (first broken rule on its path: %s)", n.Height, firstBadRule(n))
	}
	return ""
}

func firstBadRule(n *chaingen.Node) string {
	for _, p := range n.Path() {
		if p.Rule != "" {
			return fmt.Sprintf("%s at height %d", p.Rule, p.Height)
		}
	}
	return "?"
}

// ReadStoredChain reads the whole block-header chain from the service's
// store and validates it with the reference validator.
func (w *World) ReadStoredChain() ([]wire.BlockHeader, error) {
	return ReadChain(w.Svc.BlockHeaders)
}

// ReadChain reads a whole block header store.
func ReadChain(st headerfs.BlockHeaderStore) ([]wire.BlockHeader, error) {
	_, h, err := st.ChainTip()
	if err != nil {
		return nil, err
	}
	out := make([]wire.BlockHeader, h+1)
	for i := uint32(0); i <= h; i++ {
		hd, err := st.FetchHeaderByHeight(i)
		if err != nil {
			return nil, fmt.Errorf("height %d of %d: %w", i, h, err)
		}
		out[i] = *hd
	}
	return out, nil
}

// ReadFilterChain reads a whole filter header store.
func ReadFilterChain(st headerfs.FilterHeaderStore) ([]chainhash.Hash, error) {
	_, h, err := st.ChainTip()
	if err != nil {
		return nil, err
	}
	out := make([]chainhash.Hash, h+1)
	for i := uint32(0); i <= h; i++ {
		hd, err := st.FetchHeaderByHeight(i)
		if err != nil {
			return nil, fmt.Errorf("height %d of %d: %w", i, h, err)
		}
		out[i] = *hd
	}
	return out, nil
}

// ValidateStored checks C01/C03-style store invariants on a quiescent
// client: valid block chain, filter tip <= block tip, and filter headers
// equal to ground truth when truth is true.
func (w *World) ValidateStored(truth bool) string {
	chain, err := ReadChain(w.Svc.BlockHeaders)
	if err != nil {
		return "block header store unreadable: " + err.Error()
	}
	if i, r := ref.CheckChain(w.G.P, chain, time.Now()); r != "" {
		return fmt.Sprintf("stored block header %d breaks rule %s", i, r)
	}
	fc, err := ReadFilterChain(w.Svc.RegFilterHeaders)
	if err != nil {
		return "filter header store unreadable: " + err.Error()
	}
	if len(fc) > len(chain) {
		return fmt.Sprintf("filter tip %d above block tip %d", len(fc)-1, len(chain)-1)
	}
	if truth {
		for h := 1; h < len(fc); h++ {
			n := w.G.Lookup(chain[h].BlockHash())
			if n == nil {
				return "stored block unknown to the generator"
			}
			if fc[h] != n.FilterHeader {
				return fmt.Sprintf("committed filter header at height %d differs from the ground truth", h)
			}
		}
	}
	return ""
}

// WaitFor polls cond every few ms until it holds or the deadline passes.
func WaitFor(d time.Duration, cond func() bool) bool {
	deadline := time.Now().Add(d)
	for {
		if cond() {
			return true
		}
		if time.Now().After(deadline) {
			return false
		}
		time.Sleep(5 * time.Millisecond)
	}
}

// SyncedTo reports whether the client reports n as best block (block AND
// filter headers: BestBlock is defined as the lower of the two tips).
func (w *World) SyncedTo(n *chaingen.Node) bool {
	s := w.Sample()
	return s.Err == "" && s.BestHash == n.Hash && s.BestHeight == n.Height
}
