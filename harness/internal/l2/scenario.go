package l2

import (
	"fmt"
	"math/big"
	"math/rand"
	"os"
	"sync"
	"sync/atomic"
	"time"

	"github.com/btcsuite/btcd/blockchain"
	"github.com/btcsuite/btcd/wire/v2"
	"github.com/lightninglabs/neutrino"
	"github.com/lightninglabs/neutrino/banman"

	"verif/internal/chaingen"
	"verif/internal/netsim"
	"verif/internal/ref"
)

// Behaviour kinds of L2 peers.
const (
	BHonest     = "honest"
	BStale      = "stale"        // honest but stuck on an ancestor of the best chain
	BLighter    = "lighter-fork" // serves a valid but lighter fork
	BInvalidHdr = "invalid-hdr"  // serves a chain containing one invalid header
	BLiar       = "liar"         // false filter headers / filters (C03 kinds)
	BSilent     = "silent"       // handshake, then never answers
	BGarbage    = "garbage"      // sends garbage bytes after the handshake
	BFlap       = "flap"         // disconnects every few hundred ms
	BSquat      = "inv-squatter" // announces every new block by inv BEFORE the honest peers do and never answers getheaders
	BBlink      = "blink"        // hangs up within a millisecond of every handshake, announcing a height above the chain
	BNoCF       = "no-cf"        // does not offer compact-filter service
	BNoWitness  = "no-witness"   // does not offer witness service
	BTrickle    = "slow"         // honest but slow (delay per response)
)

// PeerPlan describes one peer of a scenario.
type PeerPlan struct {
	Kind string
	Lies []netsim.Lie `json:",omitempty"`
	Rule string       `json:",omitempty"` // invalid-hdr: broken rule
	At   int32        `json:",omitempty"` // height parameter (fork point / invalid height / stale height)
	// Claim, if > 0, is the height a stale peer announces in its version
	// message (more than it can serve).
	Claim int32 `json:",omitempty"`
	// HdrBatch > 0 caps the headers per headers message of this peer; DelayMs
	// > 0 delays each of its responses.
	HdrBatch int `json:",omitempty"`
	DelayMs  int `json:",omitempty"`
	// Late > 0 (lighter-fork): the first Late blocks of the fork are spaced
	// four target intervals apart, so that the whole fork is stamped later
	// than the honest blocks of the same heights (still within the
	// future-time limit).
	Late int `json:",omitempty"`
}

// Plan of a convergence scenario.
type Plan struct {
	Seed        int64
	Preset      int
	Interval    int
	ChainLen    int
	Checkpoints []int32
	Peers       []PeerPlan
	Extend      int // blocks the honest chain grows by after initial sync
	ReorgDepth  int // then a reorganisation of this depth (0 = none)
	Announce    string
	// FirstPeer, if >= 0, is the index of the peer the client reaches first:
	// dials to all others are refused until that peer has received the
	// client's first getheaders (i.e. it is the sync peer).
	FirstPeer int
	// OldBelow, if > 0: the chain is spaced so that the blocks up to this
	// height are more than 24 h old while the tip is recent.
	OldBelow int32 `json:",omitempty"`
	// HonestBlip: after the initial sync the honest peer's connection drops
	// once (it is redialled by the client 300 ms later).
	HonestBlip bool `json:",omitempty"`
}

// PlanFromSeed derives a convergence scenario (pure function of seed, k).
func PlanFromSeed(seed int64, k int) Plan {
	r := rand.New(rand.NewSource(seed*1_000_003 + int64(k)*7919 + 11))
	p := Plan{Seed: seed*1_000_003 + int64(k)}
	p.Preset = k % chaingen.NumPresets
	p.Interval = 4 + r.Intn(13)
	switch r.Intn(4) {
	case 0:
		p.ChainLen = 1000 + r.Intn(1600)
	default:
		p.ChainLen = 30 + r.Intn(400)
	}
	if r.Intn(3) == 0 {
		a := int32(2 + r.Intn(p.ChainLen-2))
		p.Checkpoints = []int32{a}
		if r.Intn(2) == 0 && int(a)+3 < p.ChainLen {
			p.Checkpoints = append(p.Checkpoints, a+1+int32(r.Intn(p.ChainLen-int(a)-1)))
		}
	}
	n := 1 + r.Intn(5)
	kinds := []string{BStale, BLighter, BInvalidHdr, BLiar, BLiar, BSilent, BGarbage, BFlap, BNoCF, BNoWitness, BTrickle, BHonest}
	p.Peers = append(p.Peers, PeerPlan{Kind: BHonest})
	silent := 0
	for i := 0; i < n; i++ {
		pp := PeerPlan{Kind: kinds[r.Intn(len(kinds))]}
		if pp.Kind == BSilent {
			// Each silent peer that gets picked as sync peer costs a btcd
			// stall timeout of 90-105 s: at most one per scenario.
			silent++
			if silent > 1 {
				pp.Kind = BStale
			}
		}
		switch pp.Kind {
		case BStale:
			pp.At = int32(r.Intn(p.ChainLen))
		case BLighter:
			pp.At = int32(r.Intn(p.ChainLen))
		case BInvalidHdr:
			pp.At = int32(1 + r.Intn(p.ChainLen))
			pp.Rule = chaingen.AllRules[1+r.Intn(len(chaingen.AllRules)-1)]
		case BLiar:
			kind := netsim.ProvableLies[r.Intn(len(netsim.ProvableLies))]
			pp.Lies = []netsim.Lie{{Kind: kind, Height: int32(1 + r.Intn(p.ChainLen))}}
		}
		p.Peers = append(p.Peers, pp)
	}
	r.Shuffle(len(p.Peers), func(i, j int) { p.Peers[i], p.Peers[j] = p.Peers[j], p.Peers[i] })
	p.Extend = r.Intn(6)
	if r.Intn(2) == 0 {
		p.ReorgDepth = 1 + r.Intn(8)
	}
	p.Announce = []string{"inv", "headers"}[r.Intn(2)]
	p.FirstPeer = -1
	if r.Intn(3) == 0 {
		p.FirstPeer = r.Intn(len(p.Peers))
	}
	if k == 0 {
		// A fixed scenario: the sync peer is an honest but STALE peer whose
		// chain ends below the last header checkpoint.
		p.ChainLen = 120
		p.Checkpoints = []int32{100}
		p.Peers = []PeerPlan{{Kind: BStale, At: 60}, {Kind: BHonest}}
		p.FirstPeer = 0
		p.Extend, p.ReorgDepth = 2, 0
	}
	if k == 2 {
		// A fixed scenario: a peer on a valid but LIGHTER fork (two blocks
		// from three below the honest tip); after the restart it pushes them.
		p.ChainLen = 80
		p.Checkpoints = nil
		p.Peers = []PeerPlan{{Kind: BHonest}, {Kind: BLighter, At: 77}}
		p.FirstPeer = 0
		p.Extend, p.ReorgDepth = 0, 0
	}
	if k == 3 {
		// A fixed scenario (listed finding "fork deeper than one headers
		// message"): the client's first peer serves a valid fork that leaves
		// the honest chain at height 40 and is one block shorter; the honest
		// peer's 2000-header answer does not reach beyond it.
		p.ChainLen = 2100
		p.Checkpoints = nil
		p.Preset = chaingen.PresetNoRetarget
		p.Peers = []PeerPlan{{Kind: BLighter, At: 40}, {Kind: BHonest}}
		p.FirstPeer = 0
		p.Extend, p.ReorgDepth = 0, 0
	}
	if k == 14 {
		// A fixed scenario (the shape in which the thorough tier found defect
		// 04db76c): the first peer is on a valid lighter fork from height 26;
		// two filter-header liars lie at different heights, one of them below
		// the fork point and never answering the filter request (the first
		// dispute takes a query timeout), so that the client adopts the honest
		// chain WHILE the disputes are being resolved.
		p.ChainLen = 1321
		p.Checkpoints = nil
		p.Preset = 1
		p.Interval = 8
		p.Peers = []PeerPlan{
			{Kind: BLiar, Lies: []netsim.Lie{{Kind: netsim.LieUnserved, Height: 19}}},
			{Kind: BLighter, At: 712},
			{Kind: BHonest},
			{Kind: BLiar, Lies: []netsim.Lie{{Kind: netsim.LieWrongHash, Height: 242}}},
			{Kind: BLighter, At: 26},
		}
		p.FirstPeer = -1 // all at once, as found: the fork peer wins the race for sync peer in this world
		p.Seed = 1000373
		p.Announce = "inv"
		p.Extend, p.ReorgDepth = 3, 8
	}
	if k == 15 {
		// A fixed scenario: the client's first peer serves a valid lighter
		// fork (one block shorter) that leaves the honest chain 20 blocks
		// below the tip and whose blocks are stamped about an hour LATER
		// than the honest blocks of the same heights. The honest branch must
		// be judged by its own timestamps (median time past of its own
		// ancestors), not by those of the branch it replaces.
		p.ChainLen = 120
		p.Checkpoints = nil
		p.Preset = chaingen.PresetNoRetarget
		p.Peers = []PeerPlan{{Kind: BLighter, At: 100, Late: 4}, {Kind: BHonest}}
		p.FirstPeer = 0
		p.Extend, p.ReorgDepth = 2, 0
	}
	if k == 13 {
		// A fixed scenario: a chain longer than one headers message (2000),
		// honest peers only; after the sync the honest chain reorganises near
		// the tip and the new tip is announced by inv (the client must locate
		// the fork with a locator, not with its tip hash alone).
		p.ChainLen = 2100
		p.Checkpoints = nil
		p.Preset = chaingen.PresetNoRetarget
		p.Peers = []PeerPlan{{Kind: BHonest}, {Kind: BHonest}}
		p.FirstPeer = -1
		p.Announce = "inv"
		p.Extend, p.ReorgDepth = 1, 3
	}
	if k == 11 || k == 12 {
		// Fixed scenarios: the client's first peer serves a valid fork that
		// leaves the honest chain EXACTLY at a boundary the client may not go
		// below: at genesis without checkpoints (k=11), at the last header
		// checkpoint it passed (k=12), and is a few blocks shorter; the
		// honest chain is the better one and forks nowhere deeper.
		p.ChainLen = 90
		p.Checkpoints = nil
		p.Preset = chaingen.PresetNoRetarget
		at := int32(0)
		if k == 12 {
			p.Checkpoints = []int32{40}
			at = 40
		}
		p.Peers = []PeerPlan{{Kind: BLighter, At: at}, {Kind: BHonest}}
		p.FirstPeer = 0
		p.Extend, p.ReorgDepth = 2, 0
	}
	if k == 10 {
		// A fixed scenario: the honest peer syncs the client; a peer that
		// overstates its height (and only has the first 60 blocks) connects
		// while the client is current and is asked for headers once; then the
		// honest peer's connection drops for a moment.
		p.ChainLen = 120
		p.Checkpoints = nil
		p.Preset = chaingen.PresetNoRetarget
		p.Peers = []PeerPlan{{Kind: BHonest}, {Kind: BStale, At: 60, Claim: 200}}
		p.FirstPeer = 0
		p.HonestBlip = true
		p.Announce = "inv"
		p.Extend, p.ReorgDepth = 2, 0
	}
	if k == 9 {
		// A fixed scenario: a peer that announces every new block by inv
		// before the honest peer does and never answers the getheaders this
		// triggers.
		p.ChainLen = 80
		p.Checkpoints = nil
		p.Preset = chaingen.PresetNoRetarget
		p.Peers = []PeerPlan{{Kind: BHonest}, {Kind: BSquat}}
		p.FirstPeer = 0
		p.Announce = "inv"
		p.Extend, p.ReorgDepth = 2, 0
	}
	if k == 8 {
		// A fixed scenario: two peers that hang up within a millisecond of
		// every handshake (the client redials them every 300 ms) while
		// announcing more blocks than the honest peer has.
		p.ChainLen = 100
		p.Checkpoints = nil
		p.Preset = chaingen.PresetNoRetarget
		p.Peers = []PeerPlan{{Kind: BBlink}, {Kind: BHonest}, {Kind: BBlink}}
		p.FirstPeer = -1
		p.Extend, p.ReorgDepth = 2, 0
	}
	if k == 7 {
		// A fixed scenario: the first peer is honest but stuck at height 60,
		// a block more than 24 h old (a stale node); it states its height
		// truthfully. The honest peer has the recent rest of the chain.
		p.ChainLen = 120
		p.Checkpoints = nil
		p.Preset = chaingen.PresetNoRetarget
		p.Peers = []PeerPlan{{Kind: BStale, At: 60}, {Kind: BHonest}}
		p.FirstPeer = 0
		p.OldBelow = 60
		p.Extend, p.ReorgDepth = 2, 0
	}
	if k == 6 {
		// A fixed scenario: the first peer is on the honest chain but has only
		// its first 60 blocks, while its version message claims height 200.
		p.ChainLen = 120
		p.Checkpoints = nil
		p.Peers = []PeerPlan{{Kind: BStale, At: 60, Claim: 200}, {Kind: BHonest}}
		p.FirstPeer = 0
		p.Extend, p.ReorgDepth = 2, 0
	}
	if k == 4 || k == 5 {
		// Fixed scenarios: the client's first peer (so its sync peer) serves
		// a chain whose header at height 60 breaks ONE rule (k=4: only its
		// timestamp is too far in the future; k=5: a rule rotating with the
		// seed) and claims that height; an honest peer connects afterwards.
		rule := ref.RuleFuture
		if k == 5 {
			others := []string{ref.RulePoW, ref.RuleBitsRange, ref.RuleBits, ref.RuleMTP, ref.RuleVersion}
			rule = others[int(uint64(seed)%uint64(len(others)))]
		}
		p.ChainLen = 120
		p.Checkpoints = nil
		p.Peers = []PeerPlan{{Kind: BInvalidHdr, At: 60, Rule: rule}, {Kind: BHonest}}
		p.FirstPeer = 0
		p.Extend, p.ReorgDepth = 2, 0
	}
	if k == 1 {
		// A fixed scenario: a peer that lies ONLY in its filter-header
		// checkpoints (its cfheaders and filters are correct), next to an
		// honest peer, on a chain long enough for the checkpointed path.
		p.ChainLen = 2300
		p.Checkpoints = nil
		p.Preset = chaingen.PresetNoRetarget
		p.Peers = []PeerPlan{{Kind: BHonest}, {Kind: BLiar, Lies: []netsim.Lie{{Kind: netsim.LieCheckpt, Height: 1000}}}}
		p.FirstPeer = -1
		p.Extend, p.ReorgDepth = 1, 0
	}
	return p
}

// Built is a world constructed from a plan.
type Built struct {
	W       *World
	Plan    Plan
	Trunk   []*chaingen.Node
	Honest  []*netsim.Peer // peers serving the best chain correctly
	Flaps   []*netsim.Peer
	Squats  []*netsim.Peer
	stopBg  chan struct{}
	bgWg    sync.WaitGroup
	Sampled atomic.Int64
	safety  atomic.Pointer[string]
	// WithholdCF: while set, no peer answers getcfheaders / getcfcheckpt
	// (filter headers lag behind block headers).
	WithholdCF atomic.Bool
}

// Tip returns the honest best tip.
func (b *Built) Tip() *chaingen.Node { return b.Honest[0].View.Tip() }

// Build creates the world, chain and peers of a plan (client not started).
func Build(p Plan) *Built {
	span := time.Duration(p.ChainLen+400) * 6 * time.Second
	if span < 2*time.Hour {
		span = 2 * time.Hour
	}
	if span > 20*time.Hour {
		span = 20 * time.Hour
	}
	spacing := int64(4)
	if p.OldBelow > 0 {
		// Blocks up to height OldBelow are more than 24 h old, the tip is recent.
		spacing = int64(25*time.Hour/time.Second)/int64(p.ChainLen-int(p.OldBelow)) + 1
		span = time.Duration(int64(p.ChainLen+40)*spacing) * time.Second // room for ~40 more blocks before "too far in the future"
	}
	w := NewWorld(Config{Seed: p.Seed, Preset: p.Preset, Interval: p.Interval, SpacingSec: spacing, GenesisAgo: span})
	g := w.G
	// Honest trunk: timestamps end near "now" so that the client can become
	// current; paces vary to exercise retargeting.
	trunk := g.Extend(g.Genesis, p.ChainLen, chaingen.PaceNormal)
	tip := trunk[len(trunk)-1]
	if len(p.Checkpoints) > 0 {
		g.SetCheckpoints(tip, p.Checkpoints...)
	}
	b := &Built{W: w, Plan: p, Trunk: trunk, stopBg: make(chan struct{})}
	for _, pp := range p.Peers {
		first := len(w.Peers)
		switch pp.Kind {
		case BHonest:
			b.Honest = append(b.Honest, w.AddPeer(tip))
		case BTrickle:
			pr := w.AddPeer(tip)
			pr.Delay = 15 * time.Millisecond
			b.Honest = append(b.Honest, pr)
		case BStale:
			pr := w.AddPeer(tip.Ancestor(pp.At))
			if pp.Claim > 0 {
				pr.StartHeightOverride = pp.Claim
			}
		case BLighter:
			f := tip.Ancestor(pp.At)
			l := int(tip.Height-f.Height) - 1
			if l < 1 {
				w.AddPeer(f)
				break
			}
			var br []*chaingen.Node
			if pp.Late > 0 && pp.Late < l {
				slow := g.Extend(f, pp.Late, chaingen.PaceSlow)
				br = append(slow, g.Extend(slow[len(slow)-1], l-pp.Late, chaingen.PaceNormal)...)
			} else {
				br = g.Extend(f, l, chaingen.PaceNormal)
			}
			w.AddPeer(br[len(br)-1])
		case BInvalidHdr:
			base := tip.Ancestor(pp.At - 1)
			bad := g.Invalid(base, pp.Rule)
			if bad == nil {
				w.AddPeer(base)
				break
			}
			// Invalid nodes carry no block; the peer serves headers only.
			w.AddPeer(bad)
		case BLiar:
			w.AddLiar(tip, pp.Lies...)
		case BSilent:
			w.AddPeer(tip).Silent.Store(true)
		case BGarbage:
			pr := w.AddPeer(tip)
			pr.OnMsg = func(p *netsim.Peer, m wire.Message) bool {
				junk := make([]byte, 64)
				for i := range junk {
					junk[i] = byte(i * 7)
				}
				p.SendRaw(junk)
				return true
			}
		case BFlap:
			pr := w.AddPeer(tip)
			b.Flaps = append(b.Flaps, pr)
		case BSquat:
			pr := w.AddPeer(tip)
			pr.StartHeightOverride = 1 // not attractive as sync peer
			pr.OnMsg = func(p *netsim.Peer, m wire.Message) bool {
				_, isGetHeaders := m.(*wire.MsgGetHeaders)
				return isGetHeaders // swallowed: never answered
			}
			b.Squats = append(b.Squats, pr)
		case BBlink:
			pr := w.AddPeer(tip)
			pr.BlinkAfter = time.Millisecond
			pr.StartHeightOverride = tip.Height + 500
		case BNoCF:
			w.AddPeer(tip).Services = wire.SFNodeNetwork | wire.SFNodeWitness
		case BNoWitness:
			w.AddPeer(tip).Services = wire.SFNodeNetwork | wire.SFNodeCF
		}
		for _, pr := range w.Peers[first:] {
			inner := pr.Mutate
			pr.Mutate = func(p *netsim.Peer, req wire.Message, honest []wire.Message) []wire.Message {
				switch req.(type) {
				case *wire.MsgGetCFHeaders, *wire.MsgGetCFCheckpt:
					if b.WithholdCF.Load() {
						return nil
					}
				}
				if inner != nil {
					return inner(p, req, honest)
				}
				return honest
			}
			if pp.HdrBatch > 0 {
				pr.HdrBatch = pp.HdrBatch
			}
			if pp.DelayMs > 0 {
				pr.Delay = time.Duration(pp.DelayMs) * time.Millisecond
			}
		}
	}
	return b
}

// GateFirstPeer enforces Plan.FirstPeer: call before starting the client, and
// the returned function after it (it waits, bounded, for the first peer to be
// asked for headers and then admits the others).
func (b *Built) GateFirstPeer() func() {
	fp := b.Plan.FirstPeer
	if fp < 0 || fp >= len(b.W.Peers) {
		return func() {}
	}
	first := b.W.Peers[fp]
	for i, p := range b.W.Peers {
		if i != fp {
			b.W.Net.Refuse(p.Addr, true)
		}
	}
	return func() {
		// Peers that never get a getheaders (no services, garbage...) just
		// time this wait out; the gate is steering, not an oracle.
		WaitFor(3*time.Second, func() bool { return first.RxCount("getheaders") > 0 })
		for _, p := range b.W.Peers {
			b.W.Net.Refuse(p.Addr, false)
		}
	}
}

// StartBackground starts the flapping peers and the safety sampler: every
// few milliseconds the public API is read and the reported best block is
// validated against the generator's tree (C04 safety: never a best block off
// a valid chain).
func (b *Built) StartBackground() {
	for _, fp := range b.Flaps {
		fp := fp
		b.bgWg.Add(1)
		go func() {
			defer b.bgWg.Done()
			t := time.NewTicker(350 * time.Millisecond)
			defer t.Stop()
			for {
				select {
				case <-b.stopBg:
					return
				case <-t.C:
					fp.Disconnect()
				}
			}
		}()
	}
	if os.Getenv("VERIF_HAMMER") != "" {
		b.startHammer()
	}
	b.bgWg.Add(1)
	go func() {
		defer b.bgWg.Done()
		for {
			select {
			case <-b.stopBg:
				return
			default:
			}
			s := b.W.Sample()
			b.Sampled.Add(1)
			if v := b.W.CheckBest(s); v != "" && b.safety.Load() == nil {
				b.safety.Store(&v)
			}
			time.Sleep(3 * time.Millisecond)
		}
	}()
}

// startHammer starts goroutines that call every public getter of the client
// concurrently with whatever the scenario does (used under the race detector).
func (b *Built) startHammer() {
	svc := b.W.Svc
	loops := []func(){
		func() { _, _ = svc.BestBlock() },
		func() { _ = svc.IsCurrent() },
		func() {
			if bs, err := svc.BestBlock(); err == nil {
				_, _ = svc.GetBlockHash(int64(bs.Height))
				_, _ = svc.GetBlockHeader(&bs.Hash)
				_, _ = svc.GetBlockHeight(&bs.Hash)
			}
		},
		func() { _ = svc.Peers(); _ = svc.ConnectedCount(); _, _ = svc.NetTotals() },
		func() { _ = svc.IsBanned("10.2.0.250:18444"); _ = svc.ChainParams() },
		func() {
			_ = svc.BanPeer("10.2.0.251:18444", banman.ExceededBanThreshold)
			_ = svc.UnbanPeer("10.2.0.251:18444", false)
		},
		func() {
			if bs, err := svc.BestBlock(); err == nil && bs.Height > 0 {
				_, _ = svc.GetCFilter(bs.Hash, wire.GCSFilterRegular)
				_, _ = svc.RegFilterHeaders.FetchHeaderByHeight(uint32(bs.Height))
			}
		},
		func() {
			if bs, err := svc.BestBlock(); err == nil && bs.Height > 1 {
				if h, err := svc.GetBlockHash(int64(bs.Height - 1)); err == nil {
					_, _ = svc.GetBlock(*h)
				}
			}
		},
		func() {
			src := &neutrino.RescanChainSource{ChainService: svc}
			if sub, err := src.Subscribe(0); err == nil {
				t := time.After(30 * time.Millisecond)
			drain:
				for {
					select {
					case <-sub.Notifications:
					case <-t:
						break drain
					}
				}
				sub.Cancel()
			}
		},
	}
	for _, f := range loops {
		f := f
		b.bgWg.Add(1)
		go func() {
			defer b.bgWg.Done()
			for {
				select {
				case <-b.stopBg:
					return
				default:
				}
				f()
				time.Sleep(2 * time.Millisecond)
			}
		}()
	}
}

// StopBackground stops sampler and flappers.
func (b *Built) StopBackground() { close(b.stopBg); b.bgWg.Wait() }

// RestartBackground starts sampler and flappers again after StopBackground.
func (b *Built) RestartBackground() {
	b.stopBg = make(chan struct{})
	b.StartBackground()
}

// SafetyViolation returns the first unsafe best block seen by the sampler.
func (b *Built) SafetyViolation() string {
	if p := b.safety.Load(); p != nil {
		return *p
	}
	return ""
}

// PushSideChains makes every connected peer whose own best chain differs from
// the honest one (stale, lighter fork, invalid header) announce it with an
// unsolicited headers message starting right after the point where it forks
// from the honest chain, as a peer would after the client asked it.
func (b *Built) PushSideChains() int {
	honest := map[*netsim.Peer]bool{}
	for _, hp := range b.Honest {
		honest[hp] = true
	}
	tip := b.Tip()
	n := 0
	for _, p := range b.W.Peers {
		if honest[p] || p.Conn() == nil || p.Silent.Load() {
			continue
		}
		pt := p.View.Tip()
		if tip.Ancestor(pt.Height) == pt {
			continue // on the honest chain (stale): nothing to push
		}
		f := chaingen.ForkPoint(pt, tip)
		path := pt.Path()
		side := path[f.Height+1:]
		if len(side) == 0 || len(side) > 2000 {
			continue
		}
		p.AnnounceHeaders(side...)
		n++
	}
	return n
}

// WatchStable samples the public API for d and returns a description of the
// first sample whose best block is not n ("" if all were n).
func (b *Built) WatchStable(n *chaingen.Node, d time.Duration) (string, int) {
	start := time.Now()
	k := 0
	for time.Since(start) < d {
		s := b.W.Sample()
		k++
		if s.Err == "" && s.BestHash != n.Hash {
			return fmt.Sprintf("best block became height %d (%s) while the honest most-work tip stayed at height %d", s.BestHeight, s.BestHash.String()[:12], n.Height), k
		}
		time.Sleep(3 * time.Millisecond)
	}
	return "", k
}

// SetHonestTip moves every honest peer to a new best tip and announces it.
func (b *Built) SetHonestTip(n *chaingen.Node, announce string) {
	for _, sq := range b.Squats {
		sq.View.SetTip(n)
		if sq.Conn() != nil {
			sq.AnnounceInv(n)
		}
	}
	if len(b.Squats) > 0 {
		time.Sleep(3 * time.Millisecond) // the squatters' announcements arrive first
	}
	prev := b.Honest[0].View.Tip()
	for _, hp := range b.Honest {
		hp.View.SetTip(n)
	}
	// A headers announcement carries every header the peer has not announced
	// yet (from the fork point with its previous tip), as a node that was
	// asked for direct header announcements does; at most one message full.
	ann := []*chaingen.Node{n}
	if prev != nil && prev != n {
		if fp := chaingen.ForkPoint(prev, n); fp != nil && n.Height-fp.Height <= wire.MaxBlockHeadersPerMsg {
			ann = n.Path()[fp.Height+1:]
		}
	}
	for _, hp := range b.Honest {
		if hp.Conn() == nil {
			continue
		}
		if announce == "inv" {
			hp.AnnounceInv(n)
		} else {
			hp.AnnounceHeaders(ann...)
		}
	}
}

// AnnounceExtension moves the honest peers to the end of ext (consecutive
// blocks on top of their current tip) and has them announce ALL of them in one
// headers message, as a peer that was asked for direct header announcements
// does.
func (b *Built) AnnounceExtension(ext []*chaingen.Node) {
	n := ext[len(ext)-1]
	for _, sq := range b.Squats {
		sq.View.SetTip(n)
	}
	for _, hp := range b.Honest {
		hp.View.SetTip(n)
	}
	for _, hp := range b.Honest {
		if hp.Conn() != nil {
			hp.AnnounceHeaders(ext...)
		}
	}
}

// AwaitTip waits until the client reports n as its best block (block and
// filter headers). It returns (true, "") on success; otherwise whether the
// client's state was still changing during the last third of the deadline.
func (b *Built) AwaitTip(n *chaingen.Node, deadline time.Duration) (ok bool, stuck bool, last Snapshot) {
	start := time.Now()
	var lastChange time.Time = start
	prev := b.W.Sample()
	for time.Since(start) < deadline {
		s := b.W.Sample()
		if s.Err == "" && s.BestHash == n.Hash {
			return true, false, s
		}
		if s != prev {
			lastChange = time.Now()
			prev = s
		}
		time.Sleep(10 * time.Millisecond)
	}
	return false, time.Since(lastChange) > deadline/3, prev
}

// AwaitHonest waits until the client reports the honest tip, while the honest
// chain keeps growing: every growEvery the honest peers extend their chain by
// one block and announce it (a peer that is not the sync peer only gets asked
// for headers when it announces something). Returns like AwaitTip; grown is
// the number of blocks added.
func (b *Built) AwaitHonest(deadline, growEvery time.Duration, announce string) (ok, stuck bool, last Snapshot, grown int) {
	start := time.Now()
	lastChange := start
	lastGrow := start
	prev := b.W.Sample()
	for time.Since(start) < deadline {
		s := b.W.Sample()
		tip := b.Tip()
		if s.Err == "" && s.BestHash == tip.Hash {
			return true, false, s, grown
		}
		if s != prev {
			lastChange = time.Now()
			prev = s
		}
		if time.Since(lastGrow) >= growEvery {
			lastGrow = time.Now()
			nt := b.W.G.Extend(tip, 1, chaingen.PaceNormal)[0]
			ann := announce
			if grown%2 == 1 { // alternate the announcement style
				if ann == "inv" {
					ann = "headers"
				} else {
					ann = "inv"
				}
			}
			b.SetHonestTip(nt, ann)
			grown++
		}
		time.Sleep(10 * time.Millisecond)
	}
	return false, time.Since(lastChange) > deadline/3, prev, grown
}

// SilentPeers counts peers that never answer (each may cost one btcd stall
// timeout, 30-45 s, when it happens to be chosen as sync peer).
func (p Plan) SilentPeers() int {
	n := 0
	for _, pp := range p.Peers {
		if pp.Kind == BSilent {
			n++
		}
	}
	return n
}

// Describe gives a short fingerprint of the plan's peer mix.
func (p Plan) Describe() string {
	cnt := map[string]int{}
	for _, pp := range p.Peers {
		k := pp.Kind
		if k == BLiar {
			k += ":" + pp.Lies[0].Kind
		}
		cnt[k]++
	}
	s := ""
	for _, k := range []string{BHonest, BTrickle, BBlink, BSquat, BStale, BLighter, BInvalidHdr, BLiar + ":" + netsim.LieOmitScript, BLiar + ":" + netsim.LieWrongHash, BLiar + ":" + netsim.LieUnserved, BSilent, BGarbage, BFlap, BNoCF, BNoWitness} {
		if cnt[k] > 0 {
			s += fmt.Sprintf("%s×%d ", k, cnt[k])
		}
	}
	size := "short"
	if p.ChainLen >= 1000 {
		size = "checkpointed"
	}
	return fmt.Sprintf("%s| %s cp=%d reorg=%v", s, size, len(p.Checkpoints), p.ReorgDepth > 0)
}

var _ = ref.RuleLink

// LoneLiarBelieved recognises one known root cause (KNOWN_FINDINGS.json: "a
// lone liar is believed") from observations only: the FIRST committed filter
// header that differs from the ground truth belongs to a block about which a
// liar sent its false value at a moment when no honest peer had yet completed
// a handshake with the client, so nobody could contradict it. It returns ""
// when the committed filter headers are true or when an honest peer was
// already connected (then the client had the means to find out).
func (b *Built) LoneLiarBelieved() string { return b.W.LoneLiarBelieved(b.Honest) }

// LoneLiarBelieved: see Built.LoneLiarBelieved; honestPeers are the peers
// that serve the best chain and everything about it truthfully.
func (w *World) LoneLiarBelieved(honestPeers []*netsim.Peer) string {
	chain, err := ReadChain(w.Svc.BlockHeaders)
	if err != nil {
		return ""
	}
	fc, err := ReadFilterChain(w.Svc.RegFilterHeaders)
	if err != nil || len(fc) > len(chain) {
		return ""
	}
	firstHonest := int64(-1)
	honest := map[string]bool{}
	for _, hp := range honestPeers {
		honest[hp.Addr] = true
	}
	for _, e := range w.Log.Snapshot() {
		if e.Dir == "ev" && e.Cmd == "handshake" && honest[e.Peer] {
			firstHonest = e.Seq
			break
		}
	}
	for h := 1; h < len(fc); h++ {
		n := w.G.Lookup(chain[h].BlockHash())
		if n == nil {
			return ""
		}
		if fc[h] == n.FilterHeader {
			continue
		}
		for addr, l := range w.Liars {
			if s, ok := l.FirstTold(n.Hash); ok && (firstHonest < 0 || s < firstHonest) {
				return fmt.Sprintf("the committed filter header at height %d is false: liar %s sent its false value at log position %d, before any honest peer had completed a handshake (first at %d)", h, addr, s, firstHonest)
			}
		}
		return ""
	}
	return ""
}

// ForkDeeperThanOneHeadersMessage recognises a second known root cause from
// the stores and the generated tree: the client sits on a valid fork that
// has less work than the honest chain, but the honest peer's answer to the
// client's getheaders (it starts at the first locator entry the honest chain
// contains and is capped at 2000 headers) does not reach the honest tip, and
// the part of the honest branch inside that one message has no more work
// than the client's branch. The client judges a reorganisation per headers
// message, so it rejects the message and drops the honest peer, for good.
func (b *Built) ForkDeeperThanOneHeadersMessage() string {
	w := b.W
	chain, err := ReadChain(w.Svc.BlockHeaders)
	if err != nil || len(chain) < 2 {
		return ""
	}
	honest := b.Tip().Path()
	f := 0
	for f+1 < len(chain) && f+1 < len(honest) && chain[f+1].BlockHash() == honest[f+1].Hash {
		f++
	}
	tip := len(chain) - 1
	if f == tip {
		return "" // on the honest chain
	}
	// The locator the client builds (headerfs.blockLocatorFromHash).
	m, n, dec, h := -1, 1, 1, tip
	for h > 0 && n < wire.MaxBlockLocatorsPerMsg {
		if n > 10 {
			dec *= 2
		}
		if dec > h {
			h = 0
		} else {
			h -= dec
		}
		n++
		if h <= f {
			m = h
			break
		}
	}
	if m < 0 {
		m = 0
	}
	last := m + wire.MaxBlockHeadersPerMsg
	if last >= len(honest)-1 {
		return "" // the honest answer reaches the honest tip
	}
	known, offered := big.NewInt(0), big.NewInt(0)
	for i := f + 1; i <= tip; i++ {
		known.Add(known, blockchain.CalcWork(chain[i].Bits))
	}
	for i := f + 1; i <= last; i++ {
		offered.Add(offered, blockchain.CalcWork(honest[i].Hdr.Bits))
	}
	if offered.Cmp(known) > 0 {
		return ""
	}
	return fmt.Sprintf("the client is on a fork from height %d up to height %d; the honest chain (tip %d) has more work, but the honest peer's headers message for the client's locator covers heights %d..%d only and that part of the honest branch has no more work than the client's branch", f, tip, len(honest)-1, m+1, last)
}

// LiarAnsweredAlone reports whether some liar sent a false value before any
// honest peer had completed its handshake (then nobody could contradict it).
func (w *World) LiarAnsweredAlone(honestPeers []*netsim.Peer) string {
	firstHonest := int64(-1)
	honest := map[string]bool{}
	for _, hp := range honestPeers {
		honest[hp.Addr] = true
	}
	for _, e := range w.Log.Snapshot() {
		if e.Dir == "ev" && e.Cmd == "handshake" && honest[e.Peer] {
			firstHonest = e.Seq
			break
		}
	}
	for addr, l := range w.Liars {
		if s, ok := l.EarliestTold(); ok && (firstHonest < 0 || s < firstHonest) {
			return fmt.Sprintf("liar %s sent a false value at log position %d, before the first honest handshake (%d)", addr, s, firstHonest)
		}
	}
	return ""
}
