package c11

import (
	"os"
	"strconv"
	"strings"
	"testing"
)

func TestStopStorm(t *testing.T) {
	n, _ := strconv.Atoi(os.Getenv("N"))
	off, _ := strconv.Atoi(os.Getenv("OFF"))
	ev, _ := strconv.Atoi(os.Getenv("EV"))
	procsFix, _ := strconv.Atoi(os.Getenv("PROCS"))
	hits := map[string]int{}
	by := map[string]int{}
	for i := off; i < off+n; i++ {
		procs := []int{1, 2, 4, 16}[i%4]
		if procsFix > 0 {
			procs = procsFix
		}
		sc := Schedule{Seed: int64(i), Procs: procs, Preload: 5, Ops: strings.Repeat("C", ev), EmitPace: 0}
		ns := 1 + (i/4)%12
		for j := 0; j < ns; j++ {
			sc.Subs = append(sc.Subs, SubPlan{Pre: true, HMode: HZero, Kind: KindFast, Cancel: CancelNone})
		}
		sc.Stop = StopPlan{Mode: StopMid, At: (i / 48) % ev}
		res := RunPlan(sc, Params{SetProcs: true})
		for _, v := range res.Violations {
			hits[v.Sig]++
			by["p"+strconv.Itoa(procs)+"/s"+strconv.Itoa(ns)]++
		}
	}
	t.Logf("hits %v %v", hits, by)
}
