// Package c11 drives the real blockntfns.SubscriptionManager through one
// randomly derived schedule of subscribe / cancel / emit / stop operations
// with fast, slow and never-reading consumers, records what every subscriber
// read, and compares it with the per-subscriber reference stream.
//
// The entry point RunSchedule is a plain function so that other programs
// (e.g. the data-race check, built with -race) can reuse the scenario.
package c11

import (
	"fmt"
	"math/rand"
	"sort"
	"strings"
)

// Consumer kinds.
const (
	KindFast    = "fast"    // reads as quickly as it can
	KindGosched = "gosched" // yields between reads
	KindSlow    = "slow"    // sleeps a little between reads
	KindBursty  = "bursty"  // reads a burst, pauses, reads a burst
	KindStalled = "stalled" // does not read at all until released
)

// Cancel timings.
const (
	CancelNone      = "none"
	CancelImmediate = "immediate" // right after NewSubscription returned
	CancelItems     = "items"     // by the consumer after it has read Arg items
	CancelProgress  = "progress"  // by another goroutine once the emitter handed over Arg events
	CancelAfterStop = "afterstop" // after Stop returned
)

// Stop timings.
const (
	StopEnd   = "end"   // after every required stream was verified complete
	StopMid   = "mid"   // once the emitter handed over At events (races with everything)
	StopEarly = "early" // immediately after the pre-registered subscribers exist
)

// Height modes of a NewSubscription call.
const (
	HZero  = "zero"  // 0: no backlog
	HTip   = "tip"   // the tip as known when the call starts: empty backlog unless it moved
	HMid   = "mid"   // somewhere inside the chain
	HLow   = "low"   // 1: the longest backlog
	HAbove = "above" // above the tip: error path unless the chain grew meanwhile
)

// SubPlan is the plan of one subscriber.
type SubPlan struct {
	Pre       bool   `json:"pre,omitempty"` // registered before the emitter starts
	StartAt   int    `json:"start_at"`      // subscribe once this many events were handed over
	HMode     string `json:"h_mode"`
	HArg      int    `json:"h_arg,omitempty"`
	Kind      string `json:"kind"`
	Release   string `json:"release,omitempty"` // stalled only: "end" (read everything at the end) or "never"
	Cancel    string `json:"cancel"`
	CancelArg int    `json:"cancel_arg,omitempty"`
	Double    bool   `json:"double,omitempty"` // Cancel is called twice, concurrently
	Racer     bool   `json:"racer,omitempty"`  // subscribes at the moment Stop is called
}

// StopPlan says when the manager is stopped.
type StopPlan struct {
	Mode   string `json:"mode"`
	At     int    `json:"at,omitempty"`
	Double bool   `json:"double,omitempty"` // Stop is called twice, concurrently
}

// Families of schedules. The family is bit 0 of the seed, so a seed alone
// reproduces its schedule.
const (
	FamGeneral = "general" // the full mix described in the rule
	FamStorm   = "storm"   // short: many pre-registered readers, a handful of events, Stop in the middle of emission
)

// Schedule is a fully derived case: a pure function of its seed.
type Schedule struct {
	Seed      int64     `json:"seed"`
	Family    string    `json:"family"`
	Procs     int       `json:"gomaxprocs"`
	Preload   int       `json:"preload"` // blocks on the source's chain before anything is emitted
	Ops       string    `json:"ops"`     // 'C' connect / 'D' disconnect, in emission order
	EmitPace  int       `json:"emit_pace"`
	SrcJitter int       `json:"src_jitter"`
	Subs      []SubPlan `json:"subs"`
	Stop      StopPlan  `json:"stop"`
}

// Params tune a run without changing what a seed means (except MaxEvents,
// which truncates the event script for slow build modes such as -race).
type Params struct {
	SetProcs   bool // call runtime.GOMAXPROCS(schedule.Procs) for the duration of the schedule
	WatchdogMs int  // 0 = 30000
	MaxEvents  int  // 0 = 500
	MaxSubs    int  // 0 = 12
	KeepStream bool // keep full streams in the result summary (debugging)
}

func pick(rng *rand.Rand, weights []int) int {
	t := 0
	for _, w := range weights {
		t += w
	}
	x := rng.Intn(t)
	for i, w := range weights {
		if x < w {
			return i
		}
		x -= w
	}
	return len(weights) - 1
}

// Derive builds the schedule of a seed.
func Derive(seed int64, p Params) Schedule {
	rng := rand.New(rand.NewSource(seed))
	maxEv := p.MaxEvents
	if maxEv <= 0 || maxEv > 500 {
		maxEv = 500
	}
	maxSubs := p.MaxSubs
	if maxSubs <= 0 || maxSubs > 12 {
		maxSubs = 12
	}
	if seed&1 == 1 {
		return deriveStorm(seed, rng, maxEv, maxSubs)
	}
	sc := Schedule{Seed: seed, Family: FamGeneral}
	sc.Procs = []int{1, 2, 4, 16}[rng.Intn(4)]
	sc.Preload = []int{0, 0, 1, 3, 10, 30, 60}[rng.Intn(7)]

	// Number of events: 0, a handful, a few dozen (around the 20/41-slot
	// buffers), hundreds.
	var n int
	switch pick(rng, []int{1, 3, 5, 4}) {
	case 0:
		n = 0
	case 1:
		n = 1 + rng.Intn(10)
	case 2:
		n = 11 + rng.Intn(70)
	default:
		n = 81 + rng.Intn(420)
	}
	if n > maxEv {
		n = maxEv
	}

	// Event script with reorg shapes. The height never drops below 0.
	height := sc.Preload
	reorgP := []int{0, 5, 15, 35}[rng.Intn(4)]
	ops := make([]byte, 0, n)
	for len(ops) < n {
		if height > 0 && rng.Intn(100) < reorgP {
			d := 1 + rng.Intn(6)
			if d > height {
				d = height
			}
			for i := 0; i < d && len(ops) < n; i++ {
				ops = append(ops, 'D')
				height--
			}
			// The replacement branch: usually one longer.
			c := d + rng.Intn(2)
			for i := 0; i < c && len(ops) < n; i++ {
				ops = append(ops, 'C')
				height++
			}
			continue
		}
		ops = append(ops, 'C')
		height++
	}
	sc.Ops = string(ops)
	sc.EmitPace = rng.Intn(4)  // 0 burst, 1 gosched, 2 occasional sleep, 3 mixed
	sc.SrcJitter = rng.Intn(3) // 0 none, 1 gosched inside NotificationsSinceHeight, 2 tiny sleep

	// Stop plan.
	switch pick(rng, []int{5, 4, 1}) {
	case 0:
		sc.Stop.Mode = StopEnd
	case 1:
		sc.Stop.Mode = StopMid
		sc.Stop.At = rng.Intn(n + 1)
	default:
		sc.Stop.Mode = StopEarly
	}
	sc.Stop.Double = rng.Intn(5) == 0

	nsubs := 1 + rng.Intn(maxSubs)
	if rng.Intn(3) == 0 {
		nsubs = 1 + rng.Intn(4)
	}
	for i := 0; i < nsubs; i++ {
		var s SubPlan
		switch pick(rng, []int{4, 3, 3}) {
		case 0:
			s.Pre = true
		case 1:
			s.StartAt = 0
		default:
			s.StartAt = rng.Intn(n + 1)
		}
		s.HMode = []string{HZero, HZero, HTip, HMid, HMid, HLow, HAbove}[rng.Intn(7)]
		s.HArg = rng.Intn(1 << 16)
		s.Kind = []string{KindFast, KindFast, KindGosched, KindSlow, KindBursty, KindStalled}[rng.Intn(6)]
		if s.Kind == KindStalled {
			s.Release = []string{"end", "never"}[rng.Intn(2)]
		}
		switch pick(rng, []int{10, 2, 4, 4, 1}) {
		case 0:
			s.Cancel = CancelNone
		case 1:
			s.Cancel = CancelImmediate
		case 2:
			s.Cancel = CancelItems
			s.CancelArg = 1 + rng.Intn(1+n/2+sc.Preload/2)
		case 3:
			s.Cancel = CancelProgress
			s.CancelArg = rng.Intn(n + 1)
		default:
			s.Cancel = CancelAfterStop
		}
		if s.Cancel != CancelNone {
			s.Double = rng.Intn(3) == 0
		}
		// A consumer that never reads cannot cancel "after N items".
		if s.Kind == KindStalled && s.Cancel == CancelItems {
			s.Cancel = CancelProgress
			s.CancelArg = rng.Intn(n + 1)
		}
		sc.Subs = append(sc.Subs, s)
	}
	// Subscribers racing with Stop itself.
	if sc.Stop.Mode != StopEnd || rng.Intn(4) == 0 {
		r := rng.Intn(4)
		for i := 0; i < r && len(sc.Subs) < 12; i++ {
			sc.Subs = append(sc.Subs, SubPlan{
				Racer:  true,
				HMode:  []string{HZero, HTip, HMid, HAbove}[rng.Intn(4)],
				HArg:   rng.Intn(1 << 16),
				Kind:   []string{KindFast, KindGosched, KindStalled}[rng.Intn(3)],
				Cancel: []string{CancelNone, CancelNone, CancelImmediate}[rng.Intn(3)],
				Double: rng.Intn(3) == 0,
			})
			if sc.Subs[len(sc.Subs)-1].Kind == KindStalled {
				sc.Subs[len(sc.Subs)-1].Release = "never"
			}
		}
	}
	return sc
}

// deriveStorm builds a short schedule aimed at the shutdown race: every
// goroutine of the manager is busy (emitter offering events back to back,
// handler fanning out, forwarders forwarding to prompt readers) at the moment
// Stop closes the quit channel; optionally late subscribers with a backlog
// arrive at the same instant.
func deriveStorm(seed int64, rng *rand.Rand, maxEv, maxSubs int) Schedule {
	sc := Schedule{Seed: seed, Family: FamStorm}
	sc.Procs = []int{1, 2, 4, 4, 16, 16}[rng.Intn(6)]
	sc.Preload = []int{0, 2, 5, 12, 40}[rng.Intn(5)]
	n := 2 + rng.Intn(13)
	if n > maxEv {
		n = maxEv
	}
	ops := make([]byte, 0, n)
	height := sc.Preload
	for len(ops) < n {
		if height > 0 && rng.Intn(10) == 0 {
			ops = append(ops, 'D')
			height--
		} else {
			ops = append(ops, 'C')
			height++
		}
	}
	sc.Ops = string(ops)
	sc.EmitPace = []int{0, 0, 0, 1}[rng.Intn(4)]
	sc.SrcJitter = []int{0, 0, 1}[rng.Intn(3)]
	sc.Stop = StopPlan{Mode: StopMid, At: rng.Intn(n), Double: rng.Intn(8) == 0}
	nsubs := maxSubs
	if maxSubs >= 2 {
		nsubs = 2 + rng.Intn(maxSubs-1)
	}
	for i := 0; i < nsubs; i++ {
		s := SubPlan{Pre: true, Cancel: CancelNone}
		s.HMode = []string{HZero, HZero, HZero, HMid, HLow, HTip}[rng.Intn(6)]
		s.HArg = rng.Intn(1 << 16)
		s.Kind = []string{KindFast, KindFast, KindFast, KindGosched, KindBursty}[rng.Intn(5)]
		if rng.Intn(12) == 0 {
			s.Cancel = CancelProgress
			s.CancelArg = rng.Intn(n + 1)
			s.Double = rng.Intn(2) == 0
		}
		sc.Subs = append(sc.Subs, s)
	}
	r := rng.Intn(3)
	for i := 0; i < r && len(sc.Subs) < 12; i++ {
		sc.Subs = append(sc.Subs, SubPlan{
			Racer: true, HMode: []string{HLow, HMid, HZero}[rng.Intn(3)], HArg: rng.Intn(1 << 16),
			Kind: KindFast, Cancel: CancelNone,
		})
	}
	return sc
}

func evBucket(n int) string {
	switch {
	case n == 0:
		return "0"
	case n <= 10:
		return "1-10"
	case n <= 41:
		return "11-41"
	case n <= 200:
		return "42-200"
	default:
		return "201-500"
	}
}

func uniq(xs []string) string {
	m := map[string]bool{}
	for _, x := range xs {
		m[x] = true
	}
	out := make([]string, 0, len(m))
	for x := range m {
		out = append(out, x)
	}
	sort.Strings(out)
	return strings.Join(out, "+")
}

// Fingerprint is the normalised shape of a schedule: number of subscribers,
// the set of consumer kinds, the set of cancel timings, the stop timing and
// the event-count bucket.
func (sc Schedule) Fingerprint() string {
	var kinds, cancels []string
	for _, s := range sc.Subs {
		kinds = append(kinds, s.Kind)
		c := s.Cancel
		if s.Double {
			c += "x2"
		}
		cancels = append(cancels, c)
	}
	stop := sc.Stop.Mode
	if sc.Stop.Double {
		stop += "x2"
	}
	return fmt.Sprintf("fam=%s|subs=%d|kinds=%s|cancel=%s|stop=%s|ev=%s",
		sc.Family, len(sc.Subs), uniq(kinds), uniq(cancels), stop, evBucket(len(sc.Ops)))
}
