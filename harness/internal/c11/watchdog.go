package c11

import (
	"regexp"
	"runtime"
	"sort"
	"strings"
	"time"
)

// A watchdog firing is by itself only "inconclusive". It becomes "blocked
// forever" only by the goroutine-level argument: two full goroutine dumps 2 s
// apart show exactly the same goroutines parked in exactly the same frames,
// all of them in a waiting state (no goroutine running, runnable, sleeping or
// in a syscall apart from the one taking the dump). Nothing can then wake
// anything else up: the process is quiescent and the awaited thing has not
// happened.

type gor struct {
	id    string
	state string
	norm  string // normalised frames
}

var (
	reHeader = regexp.MustCompile(`^goroutine (\d+) \[([^\]]*)\]:`)
	reArgs   = regexp.MustCompile(`\(0x[0-9a-f?, x.{}]*\)|\(\.\.\.\)`)
	reOff    = regexp.MustCompile(` \+0x[0-9a-f]+`)
	reDur    = regexp.MustCompile(`, \d+ minutes`)
)

func allStacks() string {
	buf := make([]byte, 1<<20)
	for {
		n := runtime.Stack(buf, true)
		if n < len(buf) {
			return string(buf[:n])
		}
		buf = make([]byte, 2*len(buf))
	}
}

func parseDump(d string) map[string]gor {
	out := map[string]gor{}
	for _, blk := range strings.Split(d, "\n\n") {
		blk = strings.TrimSpace(blk)
		m := reHeader.FindStringSubmatch(blk)
		if m == nil {
			continue
		}
		lines := strings.Split(blk, "\n")
		var fr []string
		for _, l := range lines[1:] {
			if strings.HasPrefix(l, "\t") {
				continue // file:line +off
			}
			l = reArgs.ReplaceAllString(l, "()")
			l = reOff.ReplaceAllString(l, "")
			fr = append(fr, l)
		}
		out[m[1]] = gor{id: m[1], state: reDur.ReplaceAllString(m[2], ""), norm: strings.Join(fr, "|")}
	}
	return out
}

func waitingState(st string) bool {
	st = strings.TrimSuffix(st, ", locked to thread")
	switch {
	case strings.HasPrefix(st, "chan receive"), strings.HasPrefix(st, "chan send"),
		strings.HasPrefix(st, "select"), strings.HasPrefix(st, "sync."),
		strings.HasPrefix(st, "semacquire"), strings.HasPrefix(st, "GC "),
		strings.HasPrefix(st, "finalizer wait"), strings.HasPrefix(st, "force gc"),
		strings.HasPrefix(st, "cleanup wait"), strings.HasPrefix(st, "debug call"),
		strings.HasPrefix(st, "trace reader"):
		return true
	}
	return false
}

// classifyBlocked takes two dumps 2 s apart and reports whether the process
// is provably quiescent. The dumps are returned for the witness.
func classifyBlocked() (blocked bool, why string, d1, d2 string) {
	d1 = allStacks()
	time.Sleep(2 * time.Second)
	d2 = allStacks()
	g1, g2 := parseDump(d1), parseDump(d2)
	self := ""
	for id, g := range g2 {
		if g.state == "running" && strings.Contains(g.norm, "c11.classifyBlocked") {
			self = id
		}
	}
	var reasons []string
	for id, g := range g2 {
		if id == self {
			continue
		}
		p, ok := g1[id]
		switch {
		case !ok:
			reasons = append(reasons, "goroutine "+id+" appeared")
		case p.norm != g.norm:
			reasons = append(reasons, "goroutine "+id+" moved")
		case !waitingState(g.state):
			reasons = append(reasons, "goroutine "+id+" is "+g.state)
		}
	}
	for id := range g1 {
		if _, ok := g2[id]; !ok {
			reasons = append(reasons, "goroutine "+id+" exited")
		}
	}
	if len(reasons) == 0 {
		return true, "all goroutines parked in identical frames in two dumps 2 s apart", d1, d2
	}
	sort.Strings(reasons)
	if len(reasons) > 6 {
		reasons = reasons[:6]
	}
	return false, strings.Join(reasons, "; "), d1, d2
}

// relevantFrames extracts, for the witness and the signature, the innermost
// blockntfns / queue / harness frame of every parked goroutine.
func relevantFrames(d string) []string {
	var out []string
	for _, g := range parseDump(d) {
		for _, f := range strings.Split(g.norm, "|") {
			if strings.Contains(f, "neutrino/blockntfns.") || strings.Contains(f, "lnd/queue.") ||
				strings.Contains(f, "internal/c11.") {
				f = strings.TrimPrefix(f, "created by ")
				out = append(out, "["+g.state+"] "+f)
				break
			}
		}
	}
	sort.Strings(out)
	return out
}
