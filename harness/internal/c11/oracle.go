package c11

import (
	"fmt"
)

// The reference model ("ref.Subs"): for a subscription whose
// NotificationsSinceHeight call was answered at log position pos with backlog
// B, the expected stream is B ++ log[pos:]. What was read must be a prefix of
// it (no gap, duplicate, reordering, foreign or pre-registration event, and
// nothing beyond it); a subscriber that was never cancelled must, before the
// manager is stopped, have read all of it.

func streamBucket(n int) string {
	switch {
	case n == 0:
		return "stream_len_0"
	case n <= 20:
		return "stream_len_1_20"
	case n <= 41:
		return "stream_len_21_41"
	case n <= 200:
		return "stream_len_42_200"
	default:
		return "stream_len_over_200"
	}
}

func itemsStr(xs []Item, from, to int) []string {
	if from < 0 {
		from = 0
	}
	if to > len(xs) {
		to = len(xs)
	}
	var out []string
	for i := from; i < to; i++ {
		out = append(out, fmt.Sprintf("%d:%s", i, xs[i]))
	}
	return out
}

// ctxOf classifies, for signatures, the situation in which a deviating item
// `got` was delivered to subscriber s. "stop-raced" means Stop had already
// been called when (live item) the hand-over of `got` completed or (backlog
// item) NewSubscription returned, i.e. the deviation may have been produced
// while the manager was shutting down. Otherwise Stop cannot have played a
// part: the manager was still running normally ("cancelled" if the
// subscriber had called Cancel, else "running").
func (e *env) ctxOf(s *subState, cancelled bool, got Item, live *event) string {
	if sb := e.stopBegunTick.Load(); sb != 0 {
		switch {
		case live != nil && (live.postTick == 0 || live.postTick > sb):
			return "stop-raced"
		case live == nil && s.subRetTick > sb:
			return "stop-raced"
		}
	}
	if cancelled {
		return "cancelled"
	}
	return "running"
}

func (e *env) summaries(keep bool) []SubSummary {
	log := e.src.snapshot()
	var out []SubSummary
	for _, s := range e.subs {
		sm := SubSummary{Plan: s.plan}
		select {
		case <-s.subscribed:
		default:
			sm.Outcome = "pending"
			out = append(out, sm)
			continue
		}
		sm.Height = s.h
		switch {
		case s.err == nil && s.sub != nil:
			sm.Outcome = "ok"
		case isStopped(s.err):
			sm.Outcome = "stopped"
		case s.reg != nil && s.reg.errored:
			sm.Outcome = "backlog-error"
		default:
			sm.Outcome = "error-other"
		}
		if s.reg != nil {
			sm.Backlog = len(s.reg.backlog)
			if !s.reg.errored {
				sm.Expected = len(expectedOf(s.reg, log))
			}
		}
		s.mu.Lock()
		sm.Received = len(s.recv)
		sm.Cancelled = s.cancelCalled
		sm.Closed = s.closed
		if keep {
			sm.Stream = append([]Item(nil), s.recv...)
		}
		s.mu.Unlock()
		out = append(out, sm)
	}
	return out
}

func (e *env) violate(sig, what string, w map[string]any) {
	w["schedule"] = e.sc
	e.res.Violations = append(e.res.Violations, Violation{Sig: sig, What: what, Witness: rawJSON(w)})
}

// finish evaluates every subscriber against the reference and fills the
// result. It is also called after an aborted run (watchdog): everything it
// asserts is a safety statement about what was read so far.
func (e *env) finish() {
	log := e.src.snapshot()
	res := e.res
	e.count("events_scripted", int64(len(e.sc.Ops)))
	e.count("events_handed_over", int64(len(log)))
	e.count(fmt.Sprintf("gomaxprocs_%d", e.sc.Procs), 1)
	e.count("stop_"+e.sc.Stop.Mode, 1)
	e.res.Counters["family_"+e.sc.Family]++
	if e.sc.Stop.Double {
		e.count("stop_double", 1)
	}
	e.src.mu.Lock()
	e.count("since_height_calls", int64(e.src.calls))
	e.count("since_height_calls_orphan", int64(e.src.orphans))
	e.src.mu.Unlock()
	evIdx := map[Item]*event{}
	for _, ev := range log {
		evIdx[ev.item] = ev
	}
	anyDelivered := false
	anyRegistered := false

	for _, s := range e.subs {
		select {
		case <-s.subscribed:
		default:
			e.count("subs_call_pending", 1)
			continue
		}
		e.count("subscribe_calls", 1)
		e.count("hmode_"+s.plan.HMode, 1)
		if s.plan.Racer {
			e.count("subscribe_calls_racing_stop", 1)
		}
		if s.nregs > 1 {
			e.count("subscribe_calls_with_orphan_backlog_call", 1)
		}
		shape := fmt.Sprintf("h=%s", s.plan.HMode)

		// ---- outcome of NewSubscription itself.
		if s.err != nil || s.sub == nil {
			switch {
			case s.err == nil:
				e.violate("subscribe/nil-without-error/"+shape,
					"NewSubscription returned (nil, nil)", map[string]any{"sub": s.idx})
			case isStopped(s.err):
				e.count("subs_err_stopped", 1)
				if !s.stopAtRet {
					e.violate("subscribe/stopped-error-but-stop-not-called/"+shape,
						"NewSubscription returned ErrSubscriptionManagerStopped although Stop had not been called",
						map[string]any{"sub": s.idx, "height": s.h})
				}
			case s.reg != nil && s.reg.errored:
				e.count("subs_err_backlog", 1)
			default:
				e.count("subs_err_other", 1)
				if !s.stopAtRet {
					e.violate("subscribe/unexplained-error/"+shape,
						fmt.Sprintf("NewSubscription(%d) failed with %q although the source answered the backlog request without error",
							s.h, s.err.Error()),
						map[string]any{"sub": s.idx, "height": s.h, "source_answered": s.reg != nil})
				}
			}
			continue
		}
		if s.reg == nil {
			// Cannot happen with the real manager (it always asks the
			// source); without a registration point there is no reference.
			res.Inconclusive = append(res.Inconclusive, "subscription returned without a NotificationsSinceHeight call")
			continue
		}
		if s.reg.errored {
			e.violate("subscribe/succeeded-despite-backlog-error/"+shape,
				fmt.Sprintf("NewSubscription(%d) returned a subscription although NotificationsSinceHeight failed (tip %d)", s.h, s.reg.tip),
				map[string]any{"sub": s.idx, "height": s.h, "tip": s.reg.tip})
			continue
		}
		anyRegistered = true
		e.count("subs_registered", 1)
		e.count("kind_"+s.plan.Kind, 1)
		e.count("backlog_items", int64(len(s.reg.backlog)))
		switch {
		case s.h == 0:
			e.count("backlog_none_height0", 1)
		case len(s.reg.backlog) == 0:
			e.count("backlog_empty_at_tip", 1)
		default:
			e.count("backlog_nonempty", 1)
		}
		bm := "backlog_max"
		if e.sc.Family == FamStorm {
			bm = "storm_backlog_max"
		}
		if int64(len(s.reg.backlog)) > res.Counters[bm] {
			res.Counters[bm] = int64(len(s.reg.backlog))
		}

		exp := expectedOf(s.reg, log)
		s.mu.Lock()
		recv := append([]Item(nil), s.recv...)
		cancelled, closed, cancelRet := s.cancelCalled, s.closed, s.cancelRetTick
		s.mu.Unlock()
		select {
		case <-s.done:
		default:
			// aborted run: the consumer may still be parked.
		}
		e.count("notifications_received", int64(len(recv)))
		e.count(streamBucket(len(recv)), 1)
		if len(recv) > 0 {
			anyDelivered = true
		}
		if cancelled {
			c := s.plan.Cancel
			if s.plan.Double {
				c += "_x2"
			}
			e.count("cancel_"+c, 1)
		}
		if closed {
			e.count("channels_closed_observed", 1)
		}
		nb := len(s.reg.backlog)

		// ---- prefix rule.
		expPos := map[Item]int{}
		for i, it := range exp {
			expPos[it] = i
		}
		bad := -1
		for i, it := range recv {
			if i >= len(exp) || exp[i] != it {
				bad = i
				break
			}
		}
		if bad >= 0 {
			got := recv[bad]
			where := "live"
			if bad < nb {
				where = "backlog"
			}
			rule, what := "", ""
			seenBefore := false
			for _, it := range recv[:bad] {
				if it == got {
					seenBefore = true
				}
			}
			j, inExp := expPos[got]
			switch {
			case seenBefore:
				rule = "duplicate"
				what = fmt.Sprintf("subscriber %d read %s again at position %d", s.idx, got, bad)
			case inExp && j > bad:
				rule = "gap"
				what = fmt.Sprintf("subscriber %d read %s at position %d but never read the %d expected notification(s) before it (first missing %s)",
					s.idx, got, bad, j-bad, exp[bad])
			case inExp:
				rule = "reorder"
				what = fmt.Sprintf("subscriber %d read %s at position %d, expected position %d", s.idx, got, bad, j)
			default:
				if ev := evIdx[got]; ev != nil {
					rule = "pre-registration-event"
					what = fmt.Sprintf("subscriber %d read live event %s (hand-over #%d) which precedes its registration point #%d and is not part of its backlog",
						s.idx, got, indexOf(log, ev), s.reg.pos)
				} else if got.Kind == 'C' && got.Height <= s.h {
					rule = "backlog-below-requested-height"
					what = fmt.Sprintf("subscriber %d (height %d) read %s", s.idx, s.h, got)
				} else {
					rule = "foreign"
					what = fmt.Sprintf("subscriber %d read %s which is in neither its backlog nor the emitted events after its registration", s.idx, got)
				}
			}
			liveEv := evIdx[got]
			if inExp && j < nb {
				liveEv = nil // a backlog item (its block may also have been connected live earlier)
			}
			ctx := e.ctxOf(s, cancelled, got, liveEv)
			e.violate("stream-"+rule+"/"+where+"/"+ctx,
				what+fmt.Sprintf(" [height=%d backlog=%d expected=%d read=%d]", s.h, nb, len(exp), len(recv)),
				map[string]any{
					"sub": s.idx, "plan": s.plan, "consumer_kind": s.plan.Kind, "height": s.h, "registered_at_handover": s.reg.pos,
					"tip_at_registration": s.reg.tip, "backlog_len": nb,
					"expected_around": itemsStr(exp, bad-3, bad+6),
					"received_around": itemsStr(recv, bad-3, bad+6),
					"expected_len":    len(exp), "received_len": len(recv),
					"cancel_called": cancelled,
					"logical_time": map[string]any{
						"stop_called_at":           e.stopBegunTick.Load(),
						"subscribe_returned_at":    s.subRetTick,
						"handover_of_read_item_at": tickOf(liveEv),
						"handover_of_missing_at":   tickOf(missingEv(evIdx, exp, bad)),
						"note":                     "ticks of one global counter; 0 = not applicable / did not happen",
					},
				})
			continue
		}
		e.count("prefix_streams_verified", 1)

		// ---- nothing that was emitted after Cancel returned (with Stop not
		// begun) may have been delivered.
		if cancelRet > 0 {
			for i := nb; i < len(recv); i++ {
				ev := log[s.reg.pos+i-nb]
				if ev.preTick > cancelRet {
					e.violate("delivered-after-cancel-returned/"+s.plan.Cancel,
						fmt.Sprintf("subscriber %d read %s whose emission began after its Cancel() had returned", s.idx, recv[i]),
						map[string]any{"sub": s.idx, "plan": s.plan, "position": i,
							"event_begin_tick": ev.preTick, "cancel_returned_tick": cancelRet})
					break
				}
			}
		}

		// ---- completeness (only asserted where Stop came after
		// quiescence and the subscriber was never cancelled before it).
		mustBeFull := e.sc.Stop.Mode == StopEnd && !s.plan.Racer &&
			(s.plan.Cancel == CancelNone || s.plan.Cancel == CancelAfterStop) &&
			(s.plan.Kind != KindStalled || s.plan.Release == "end")
		if mustBeFull && len(recv) < len(exp) && !res.Poisoned {
			// The driver only calls Stop after these streams were seen
			// complete, unless the channel was closed under the reader.
			e.violate("stream-incomplete/closed-without-cancel/"+s.plan.Kind,
				fmt.Sprintf("subscriber %d was never cancelled, yet its channel was closed after %d of %d expected notifications while the manager was running",
					s.idx, len(recv), len(exp)),
				map[string]any{"sub": s.idx, "plan": s.plan, "expected_len": len(exp), "received_len": len(recv),
					"next_expected": itemsStr(exp, len(recv), len(recv)+5)})
		}
		if mustBeFull && len(recv) == len(exp) {
			e.count("full_streams_at_end", 1)
		}
	}

	res.Nontrivial = anyRegistered && anyDelivered
	res.Subs = e.summaries(e.p.KeepStream)
	if len(res.Violations) > 0 {
		sc := e.sc
		res.Schedule = &sc
	}
}

func missingEv(idx map[Item]*event, exp []Item, i int) *event {
	if i < 0 || i >= len(exp) {
		return nil
	}
	return idx[exp[i]]
}

func tickOf(ev *event) int64 {
	if ev == nil {
		return 0
	}
	return ev.postTick
}

func indexOf(log []*event, ev *event) int {
	for i, x := range log {
		if x == ev {
			return i
		}
	}
	return -1
}
