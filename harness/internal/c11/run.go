package c11

import (
	"encoding/json"
	"errors"
	"fmt"
	"runtime"
	"sort"
	"strings"
	"sync"
	"sync/atomic"
	"time"

	"github.com/lightninglabs/neutrino/blockntfns"
)

// Violation is one oracle finding of a schedule.
type Violation struct {
	Sig     string          `json:"sig"`
	What    string          `json:"what"`
	Witness json.RawMessage `json:"witness"` // kept raw so that 64-bit seeds survive re-encoding
}

func rawJSON(v any) json.RawMessage {
	b, err := json.Marshal(v)
	if err != nil {
		b, _ = json.Marshal(map[string]string{"marshal_error": err.Error()})
	}
	return b
}

// SubSummary is what was observed for one subscriber.
type SubSummary struct {
	Plan      SubPlan `json:"plan"`
	Height    uint32  `json:"height"`
	Outcome   string  `json:"outcome"` // ok | backlog-error | stopped | error-other
	Backlog   int     `json:"backlog"`
	Expected  int     `json:"expected"`
	Received  int     `json:"received"`
	Cancelled bool    `json:"cancelled"`
	Closed    bool    `json:"closed"`
	Stream    []Item  `json:"stream,omitempty"`
}

// Result is the outcome of one schedule.
type Result struct {
	Seed         int64            `json:"seed"`
	Fingerprint  string           `json:"fingerprint"`
	Nontrivial   bool             `json:"nontrivial"`
	Schedule     *Schedule        `json:"schedule,omitempty"`
	Violations   []Violation      `json:"violations,omitempty"`
	Inconclusive []string         `json:"inconclusive,omitempty"`
	Poisoned     bool             `json:"poisoned,omitempty"` // goroutines may be stuck: do not reuse the process
	Counters     map[string]int64 `json:"counters"`
	Subs         []SubSummary     `json:"subs,omitempty"`
}

type subState struct {
	idx  int
	plan SubPlan

	// Written by the subscriber goroutine before close(subscribed).
	h          uint32
	sub        *blockntfns.Subscription
	err        error
	reg        *regRecord
	nregs      int
	stopAtRet  bool  // Stop had begun when NewSubscription returned
	subRetTick int64 // logical time right after NewSubscription returned
	subscribed chan struct{}
	done       chan struct{}
	release    chan struct{}
	relOnce    sync.Once

	mu            sync.Mutex
	recv          []Item
	closed        bool
	cancelCalled  bool
	cancelRetTick int64 // tick after the first Cancel that returned while Stop had not begun; 0 = none
	verified      int   // driver-side incremental prefix pointer
	badAt         int   // -1 = prefix so far

	op atomic.Value // string: what the goroutine is doing (for blocked signatures)
}

func (s *subState) setOp(o string) { s.op.Store(o) }

type env struct {
	sc  Schedule
	p   Params
	src *Source
	mgr *blockntfns.SubscriptionManager

	tick atomic.Int64

	pmu         sync.Mutex
	pcond       *sync.Cond
	trig        []bool // hand-over counts somebody waits for
	start       chan struct{}
	emitterDone bool
	halted      bool

	stopBegunTick atomic.Int64 // logical time just before Stop was called; 0 = not yet
	stopBegun     atomic.Bool
	stopBegin     chan struct{} // closed just before Stop is called
	halt          chan struct{} // closed after Stop returned
	stopOnce      sync.Once
	stopDone      chan struct{}
	stopOp        atomic.Value
	emitOp        atomic.Value
	emitDoneCh    chan struct{}

	rmu   sync.Mutex
	rcond *sync.Cond

	subs []*subState
	res  *Result
	wd   time.Duration
}

// count adds to a result counter; counters of storm-family schedules are
// kept apart so that they do not drown the general family's.
func (e *env) count(k string, n int64) {
	if e.sc.Family == FamStorm {
		k = "storm_" + k
	}
	e.res.Counters[k] += n
}

// waitTrigger blocks until the emitter handed over at least p events, or is
// done, or the manager was stopped.
func (e *env) waitTrigger(p int) {
	e.pmu.Lock()
	for int(e.src.handed.Load()) < p && !e.emitterDone && !e.halted {
		e.pcond.Wait()
	}
	e.pmu.Unlock()
}

func (e *env) pace(kind string, n int) {
	switch kind {
	case KindGosched:
		runtime.Gosched()
	case KindSlow:
		if n%3 == 0 {
			time.Sleep(time.Duration(30+n%5*40) * time.Microsecond)
		} else {
			runtime.Gosched()
		}
	case KindBursty:
		if n%17 == 0 {
			time.Sleep(400 * time.Microsecond)
		}
	}
}

func (e *env) emitter() {
	e.emitOp.Store("emit-send")
	e.src.emit(e.start, e.halt, e.sc.EmitPace, func(n int) {
		if e.trig[n] {
			e.pmu.Lock()
			e.pcond.Broadcast()
			e.pmu.Unlock()
		}
	})
	e.emitOp.Store("done")
	e.pmu.Lock()
	e.emitterDone = true
	e.pcond.Broadcast()
	e.pmu.Unlock()
	close(e.emitDoneCh)
}

func (e *env) doStop() {
	e.stopOnce.Do(func() {
		e.stopBegunTick.Store(e.tick.Add(1))
		e.stopBegun.Store(true)
		close(e.stopBegin)
		e.stopOp.Store("Stop")
		if e.sc.Stop.Double {
			var wg sync.WaitGroup
			wg.Add(1)
			go func() { defer wg.Done(); e.mgr.Stop() }()
			e.mgr.Stop()
			wg.Wait()
			// Only the first caller waits for the shutdown; a third,
			// sequential call makes sure both concurrent ones are over.
		} else {
			e.mgr.Stop()
		}
		e.stopOp.Store("stopped")
		e.tick.Add(1)
		close(e.halt)
		e.pmu.Lock()
		e.halted = true
		e.pcond.Broadcast()
		e.pmu.Unlock()
		close(e.stopDone)
	})
}

func (s *subState) doCancel(e *env) {
	s.mu.Lock()
	s.cancelCalled = true
	s.mu.Unlock()
	one := func() {
		s.sub.Cancel()
		t := e.tick.Add(1)
		if !e.stopBegun.Load() {
			// Cancel returned while m.quit was certainly still open: the
			// handler has taken the cancel request.
			s.mu.Lock()
			if s.cancelRetTick == 0 || t < s.cancelRetTick {
				s.cancelRetTick = t
			}
			s.mu.Unlock()
		}
	}
	if !s.plan.Double {
		one()
		return
	}
	var wg sync.WaitGroup
	gate := make(chan struct{})
	for i := 0; i < 2; i++ {
		wg.Add(1)
		go func() { defer wg.Done(); <-gate; one() }()
	}
	close(gate)
	wg.Wait()
}

func (e *env) runSub(s *subState) {
	defer close(s.done)
	s.setOp("wait-trigger")
	if s.plan.Racer {
		<-e.stopBegin
	} else if !s.plan.Pre {
		e.waitTrigger(s.plan.StartAt)
	}
	s.setOp("beginSub")
	h, sl := e.src.beginSub(s.plan)
	s.h = h
	s.setOp("NewSubscription")
	sub, err := e.mgr.NewSubscription(h)
	s.subRetTick = e.tick.Add(1)
	s.stopAtRet = e.stopBegun.Load()
	s.reg, s.nregs = e.src.endSub(h, sl)
	s.sub, s.err = sub, err
	close(s.subscribed)
	if err != nil || sub == nil {
		s.setOp("done")
		return
	}

	var cwg sync.WaitGroup
	switch s.plan.Cancel {
	case CancelImmediate:
		s.setOp("Cancel")
		s.doCancel(e)
	case CancelProgress:
		cwg.Add(1)
		go func() {
			defer cwg.Done()
			e.waitTrigger(s.plan.CancelArg)
			s.doCancel(e)
		}()
	case CancelAfterStop:
		cwg.Add(1)
		go func() {
			defer cwg.Done()
			<-e.halt
			s.doCancel(e)
		}()
	}
	if s.plan.Kind == KindStalled {
		s.setOp("stalled")
		<-s.release
	}
	n := 0
	for {
		s.setOp("read")
		nt, ok := <-sub.Notifications
		if !ok {
			s.mu.Lock()
			s.closed = true
			s.mu.Unlock()
			break
		}
		it := decode(nt)
		n++
		s.mu.Lock()
		s.recv = append(s.recv, it)
		s.mu.Unlock()
		e.rmu.Lock()
		e.rcond.Broadcast()
		e.rmu.Unlock()
		if s.plan.Cancel == CancelItems && n == s.plan.CancelArg {
			s.setOp("Cancel")
			s.doCancel(e)
		}
		e.pace(s.plan.Kind, n)
	}
	s.setOp("join-cancel")
	cwg.Wait()
	e.rmu.Lock()
	e.rcond.Broadcast()
	e.rmu.Unlock()
	s.setOp("done")
}

func decode(n blockntfns.BlockNtfn) Item {
	it := Item{Height: n.Height(), Block: n.Header().Nonce, Tip: n.ChainTip().Nonce}
	switch n.(type) {
	case *blockntfns.Connected:
		it.Kind = 'C'
	case *blockntfns.Disconnected:
		it.Kind = 'D'
	default:
		it.Kind = '?'
	}
	return it
}

// await waits for done under the watchdog. On expiry the goroutine-dump
// argument decides between "blocked forever" (violation) and inconclusive.
func (e *env) await(what string, done <-chan struct{}) bool {
	t := time.NewTimer(e.wd)
	defer t.Stop()
	select {
	case <-done:
		return true
	case <-t.C:
	}
	// One last look: the thing may have completed just now.
	select {
	case <-done:
		return true
	default:
	}
	blocked, why, d1, d2 := classifyBlocked()
	select {
	case <-done:
		return true
	default:
	}
	e.res.Poisoned = true
	ops := e.stuckOps()
	// The signature names what was awaited and which calls into the code
	// under test had not returned; what the harness's own goroutines were
	// doing meanwhile (reading, stalled, waiting for a trigger) only goes
	// into the witness.
	var calls []string
	for _, o := range ops {
		switch o {
		case "NewSubscription", "Cancel", "Stop", "emit-send":
			calls = append(calls, o)
		}
	}
	if len(calls) == 0 {
		calls = []string{"no-call-pending"}
	}
	if !blocked {
		e.res.Inconclusive = append(e.res.Inconclusive,
			fmt.Sprintf("watchdog waiting for %s but goroutines still move (%s)", what, why))
		return false
	}
	e.res.Violations = append(e.res.Violations, Violation{
		Sig: "blocked-forever/" + what + "/" + strings.Join(calls, "+"),
		What: fmt.Sprintf("waiting for %q did not finish within %v and two goroutine dumps 2 s apart show every "+
			"goroutine parked in the same frame (harness operations still pending: %s)", what, e.wd, strings.Join(ops, ", ")),
		Witness: rawJSON(map[string]any{
			"schedule":       e.sc,
			"pending_ops":    ops,
			"parked_frames":  relevantFrames(d2),
			"dump_first":     d1,
			"dump_after_2s":  d2,
			"subs":           e.summaries(true),
			"handed_over":    len(e.src.snapshot()),
			"classification": why,
		}),
	})
	return false
}

// stuckOps lists the distinct harness operations that have not completed.
func (e *env) stuckOps() []string {
	m := map[string]bool{}
	add := func(v any) {
		if s, _ := v.(string); s != "" && s != "done" && s != "stopped" && s != "emit" {
			m[s] = true
		}
	}
	for _, s := range e.subs {
		select {
		case <-s.done:
		default:
			op, _ := s.op.Load().(string)
			if op == "read" {
				s.mu.Lock()
				c := s.cancelCalled
				s.mu.Unlock()
				switch {
				case c:
					op = "read-until-closed-after-cancel"
				case e.stopBegun.Load():
					op = "read-until-closed-after-stop"
				default:
					op = "read-" + s.plan.Kind
				}
			}
			add(op)
		}
	}
	select {
	case <-e.emitDoneCh:
	default:
		select {
		case <-e.start:
			add(e.emitOp.Load())
		default:
		}
	}
	add(e.stopOp.Load())
	out := make([]string, 0, len(m))
	for k := range m {
		out = append(out, k)
	}
	sort.Strings(out)
	return out
}

// RunSchedule derives the schedule of seed, runs it against a fresh real
// SubscriptionManager and checks every subscriber's stream.
func RunSchedule(seed int64, p Params) Result {
	return RunPlan(Derive(seed, p), p)
}

// RunPlan runs an explicitly given schedule (RunSchedule = RunPlan of Derive).
func RunPlan(sc Schedule, p Params) (res Result) {
	res = Result{Seed: sc.Seed, Fingerprint: sc.Fingerprint(), Counters: map[string]int64{}}
	e := &env{sc: sc, p: p, res: &res}
	e.wd = 30 * time.Second
	if p.WatchdogMs > 0 {
		e.wd = time.Duration(p.WatchdogMs) * time.Millisecond
	}
	defer func() {
		if r := recover(); r != nil {
			buf := make([]byte, 1<<16)
			buf = buf[:runtime.Stack(buf, false)]
			res.Poisoned = true
			res.Violations = append(res.Violations, Violation{
				Sig:     "panic/in-caller",
				What:    fmt.Sprintf("panic on the calling goroutine: %v", r),
				Witness: rawJSON(map[string]any{"schedule": sc, "stack": string(buf)}),
			})
		}
	}()
	if p.SetProcs {
		old := runtime.GOMAXPROCS(sc.Procs)
		defer runtime.GOMAXPROCS(old)
	}
	e.pcond = sync.NewCond(&e.pmu)
	e.rcond = sync.NewCond(&e.rmu)
	e.stopBegin = make(chan struct{})
	e.halt = make(chan struct{})
	e.stopDone = make(chan struct{})
	e.emitDoneCh = make(chan struct{})
	e.src = newSource(sc.Preload, sc.SrcJitter, sc.Ops, &e.tick)
	e.start = make(chan struct{})
	e.trig = make([]bool, len(sc.Ops)+2)
	mark := func(n int) {
		if n >= 0 && n < len(e.trig) {
			e.trig[n] = true
		}
	}
	for _, sp := range sc.Subs {
		mark(sp.StartAt)
		if sp.Cancel == CancelProgress {
			mark(sp.CancelArg)
		}
	}
	mark(sc.Stop.At)
	e.mgr = blockntfns.NewSubscriptionManager(e.src)
	e.mgr.Start()
	for i, sp := range sc.Subs {
		e.subs = append(e.subs, &subState{
			idx: i, plan: sp, badAt: -1,
			subscribed: make(chan struct{}), done: make(chan struct{}), release: make(chan struct{}),
		})
	}
	e.run()
	e.finish()
	return res
}

func (e *env) releaseAll() {
	for _, s := range e.subs {
		s.relOnce.Do(func() { close(s.release) })
	}
}

func (e *env) run() {
	// The emitter goroutine exists from the start (it has to answer the
	// source's hand-shake) but offers nothing before phase B.
	go e.emitter()
	// Phase A: subscribers that exist before anything is emitted.
	for _, s := range e.subs {
		if s.plan.Pre {
			go e.runSub(s)
		}
	}
	for _, s := range e.subs {
		if s.plan.Pre {
			if !e.await("NewSubscription(pre)", s.subscribed) {
				return
			}
		}
	}
	// Phase B: everything else, concurrently.
	for _, s := range e.subs {
		if !s.plan.Pre {
			go e.runSub(s)
		}
	}
	switch e.sc.Stop.Mode {
	case StopEarly:
		go e.doStop()
	case StopMid:
		go func() { e.waitTrigger(e.sc.Stop.At); e.doStop() }()
	}
	close(e.start)
	if !e.await("emitter", e.emitDoneCh) {
		return
	}
	if e.sc.Stop.Mode == StopEnd {
		// Every trigger has fired by now. Wait until every subscribe call
		// has returned, then until every stream that must be complete is.
		for _, s := range e.subs {
			if s.plan.Racer {
				continue
			}
			if !e.await("NewSubscription", s.subscribed) {
				return
			}
		}
		log := e.src.snapshot()
		// (1) Readers that were never cancelled, while every stalled
		// subscriber is still stalled: this is the logical form of "a
		// never-reading subscriber does not delay the others".
		if !e.waitTargets(log, func(s *subState) bool {
			return s.plan.Kind != KindStalled && (s.plan.Cancel == CancelNone || s.plan.Cancel == CancelAfterStop)
		}, "full-stream(readers)") {
			return
		}
		// (2) Stalled subscribers released at the end must still get it all.
		for _, s := range e.subs {
			if s.plan.Kind == KindStalled && s.plan.Release == "end" {
				s.relOnce.Do(func() { close(s.release) })
			}
		}
		if !e.waitTargets(log, func(s *subState) bool {
			return s.plan.Kind == KindStalled && s.plan.Release == "end" &&
				(s.plan.Cancel == CancelNone || s.plan.Cancel == CancelAfterStop)
		}, "full-stream(released)") {
			return
		}
		// (3) While the manager is still running: every subscriber whose
		// Cancel has been called sees its channel closed.
		for _, s := range e.subs {
			if s.plan.Racer || s.plan.Cancel == CancelAfterStop {
				continue
			}
			s.mu.Lock()
			c := s.cancelCalled
			s.mu.Unlock()
			if !c {
				continue
			}
			s.relOnce.Do(func() { close(s.release) })
			if !e.await("channel-closed-after-cancel(manager-running)", s.done) {
				return
			}
			e.count("closed_after_cancel_while_running", 1)
		}
		go e.doStop()
	}
	if !e.await("Stop", e.stopDone) {
		return
	}
	e.releaseAll()
	for _, s := range e.subs {
		what := "channel-closed-after-stop"
		select {
		case <-s.subscribed:
			if s.sub == nil {
				what = "failed-subscriber-exit"
			}
		default:
			what = "NewSubscription-after-stop"
		}
		if !e.await(what, s.done) {
			return
		}
	}
}

// expected builds the reference stream of a registered subscriber.
func expectedOf(reg *regRecord, log []*event) []Item {
	out := append([]Item(nil), reg.backlog...)
	for _, ev := range log[reg.pos:] {
		out = append(out, ev.item)
	}
	return out
}

// waitTargets waits until every selected, successfully registered subscriber
// has read its complete expected stream, or has provably deviated from it (a
// mismatch is final: no need to wait for more).
func (e *env) waitTargets(log []*event, sel func(*subState) bool, what string) bool {
	type tgt struct {
		s   *subState
		exp []Item
	}
	var ts []tgt
	for _, s := range e.subs {
		select {
		case <-s.subscribed:
		default:
			continue
		}
		if s.sub == nil || s.reg == nil || s.reg.errored || !sel(s) {
			continue
		}
		ts = append(ts, tgt{s, expectedOf(s.reg, log)})
	}
	if len(ts) == 0 {
		return true
	}
	done := make(chan struct{})
	abort := make(chan struct{})
	go func() {
		defer close(done)
		e.rmu.Lock()
		defer e.rmu.Unlock()
		for {
			all := true
			for _, t := range ts {
				s := t.s
				s.mu.Lock()
				for s.badAt < 0 && s.verified < len(s.recv) {
					if s.verified >= len(t.exp) || s.recv[s.verified] != t.exp[s.verified] {
						s.badAt = s.verified
						break
					}
					s.verified++
				}
				ok := s.badAt >= 0 || s.verified >= len(t.exp) || s.closed
				s.mu.Unlock()
				if !ok {
					all = false
				}
			}
			if all {
				return
			}
			select {
			case <-abort:
				return
			default:
			}
			e.rcond.Wait()
		}
	}()
	ok := e.await(what, done)
	if !ok {
		close(abort)
		e.rmu.Lock()
		e.rcond.Broadcast()
		e.rmu.Unlock()
		return false
	}
	for _, t := range ts {
		t.s.mu.Lock()
		if t.s.badAt < 0 && t.s.verified >= len(t.exp) {
			e.count("full_streams_verified", 1)
			if t.s.plan.Kind != KindStalled {
				e.noteStalledPeers(t.s, log)
			}
		}
		t.s.mu.Unlock()
	}
	return true
}

// noteStalledPeers counts, for a reader whose stream was complete, the
// stalled subscribers that were saturated (more pending than the 20-slot
// channel + 20-slot queue output + 1 in the forwarder's hand can hold) while
// it received everything.
func (e *env) noteStalledPeers(reader *subState, log []*event) {
	for _, o := range e.subs {
		if o == reader || o.plan.Kind != KindStalled || o.sub == nil || o.reg == nil || o.reg.errored {
			continue
		}
		select {
		case <-o.release:
			continue
		default:
		}
		pend := len(o.reg.backlog) + len(log) - o.reg.pos
		if pend > 0 {
			e.count("complete_while_peer_stalled", 1)
		}
		if pend > 41 {
			e.count("complete_while_peer_stalled_saturated", 1)
		}
	}
}

var errStopped = blockntfns.ErrSubscriptionManagerStopped

func isStopped(err error) bool { return errors.Is(err, errStopped) }
