package c11

import (
	"encoding/json"
	"testing"
)

// TestDeriveIsPure: a schedule is a pure function of its seed.
func TestDeriveIsPure(t *testing.T) {
	for seed := int64(0); seed < 200; seed++ {
		a, _ := json.Marshal(Derive(seed, Params{}))
		b, _ := json.Marshal(Derive(seed, Params{}))
		if string(a) != string(b) {
			t.Fatalf("seed %d: schedule differs between derivations", seed)
		}
		sc := Derive(seed, Params{})
		if n := len(sc.Subs); n < 1 || n > 12 {
			t.Fatalf("seed %d: %d subscribers", seed, n)
		}
		if len(sc.Ops) > 500 {
			t.Fatalf("seed %d: %d events", seed, len(sc.Ops))
		}
	}
}

// TestSmoke runs a few schedules of both families (also the way to run the
// harness itself under the race detector: go test -race ./internal/c11).
// Violations are not failures here (that is the check's business); a harness
// that cannot decide is.
func TestSmoke(t *testing.T) {
	n := 120
	if testing.Short() {
		n = 20
	}
	for seed := int64(0); seed < int64(n); seed++ {
		res := RunSchedule(seed, Params{})
		if len(res.Inconclusive) > 0 || res.Poisoned {
			t.Fatalf("seed %d: inconclusive %v", seed, res.Inconclusive)
		}
		for _, v := range res.Violations {
			t.Logf("seed %d: %s: %s", seed, v.Sig, v.What)
		}
	}
}
