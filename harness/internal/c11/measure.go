package c11

import (
	"runtime"
	"sync/atomic"
	"time"

	"github.com/lightninglabs/neutrino/blockntfns"
)

// MeasureErrorPath is an observation, not an oracle: it performs n
// NewSubscription calls above the tip (each fails) on a fresh manager and
// reports how many goroutines those failed calls leave behind while the
// manager runs, and how many remain after Stop. Call it while nothing else
// runs in the process.
func MeasureErrorPath(n int) (failed, heldWhileRunning, heldAfterStop int) {
	var tick atomic.Int64
	src := newSource(3, 0, "", &tick)
	halt := make(chan struct{})
	go src.emit(make(chan struct{}), halt, 0, func(int) {})
	defer close(halt)
	mgr := blockntfns.NewSubscriptionManager(src)
	mgr.Start()
	settle := func(target int) int {
		g := runtime.NumGoroutine()
		for i := 0; i < 100 && g > target; i++ {
			time.Sleep(5 * time.Millisecond)
			g = runtime.NumGoroutine()
		}
		return g
	}
	time.Sleep(20 * time.Millisecond)
	base := runtime.NumGoroutine()
	for i := 0; i < n; i++ {
		if _, err := mgr.NewSubscription(100); err != nil {
			failed++
		}
	}
	heldWhileRunning = settle(base) - base
	mgr.Stop()
	// base included the handler goroutine, which is gone now.
	heldAfterStop = settle(base-1) - (base - 1)
	return
}
