package c11

import (
	"fmt"
	"runtime"
	"sync"
	"sync/atomic"
	"time"

	"github.com/btcsuite/btcd/wire/v2"
	"github.com/lightninglabs/neutrino/blockntfns"
)

// Item is the identity of one notification as seen by a subscriber: the kind,
// the height, the unique id of the block it is about and the unique id of the
// chain tip after it. Block ids are encoded in the header's Nonce (and
// Timestamp/MerkleRoot); a block is connected at most once live and
// disconnected at most once, so an Item is unique within any one expected
// stream.
type Item struct {
	Kind   byte   `json:"k"` // 'C' or 'D'
	Height uint32 `json:"h"`
	Block  uint32 `json:"b"`
	Tip    uint32 `json:"t"`
}

func (it Item) String() string {
	return fmt.Sprintf("%c%d#%d^%d", it.Kind, it.Height, it.Block, it.Tip)
}

// event is one scripted chain event.
type event struct {
	idx      int
	item     Item
	ntfn     blockntfns.BlockNtfn
	preTick  int64 // logical time at which the emitter began trying to hand it over
	postTick int64 // logical time shortly after the hand-over completed
}

// regRecord is one NotificationsSinceHeight call as answered by the source.
type regRecord struct {
	h       uint32
	tip     uint32
	pos     int    // number of events handed over before this call
	backlog []Item // what was returned
	errored bool
}

// slot is the bookkeeping of one in-flight NewSubscription call. At most one
// call per height value is in flight at a time, which is what lets the source
// attribute a NotificationsSinceHeight(h) call to its NewSubscription(h).
type slot struct {
	regs []*regRecord
}

// Source is the harness NotificationSource. Its Notifications channel is
// unbuffered like the block manager's. Its chain consists of the preloaded
// blocks plus exactly the events handed over so far, and
// NotificationsSinceHeight answers from that chain.
//
// Serialisation argument. The manager receives events and calls
// NotificationsSinceHeight on one goroutine, so during such a call no event
// can be in the middle of being received. The call first parks the emitter
// (the emitter accepts a "revoke" token only from inside the very select in
// which it offers the next event, or after it has finished), and only then
// reads the hand-over counter. The emitter stores that counter right after
// each completed send and before it can accept a token, so the value read is
// exactly the number of events the handler has received before the call:
// this is the subscription's registration point.
type Source struct {
	ch     chan blockntfns.BlockNtfn
	revoke chan chan struct{}
	script []*event
	handed atomic.Int64
	done   chan struct{} // closed when the emitter has exited

	mu       sync.Mutex
	cond     *sync.Cond // beginSub waiting for a busy height value
	headers  map[uint32]wire.BlockHeader
	chain    []uint32 // block id by height after script[:applied]; chain[0] is genesis (id 0)
	applied  int
	nextID   uint32
	inflight map[uint32]*slot
	orphans  int
	calls    int

	jitter int
	tick   *atomic.Int64
}

func newSource(preload, jitter int, ops string, tick *atomic.Int64) *Source {
	s := &Source{
		ch:       make(chan blockntfns.BlockNtfn),
		revoke:   make(chan chan struct{}),
		done:     make(chan struct{}),
		headers:  map[uint32]wire.BlockHeader{},
		inflight: map[uint32]*slot{},
		jitter:   jitter,
		tick:     tick,
	}
	s.cond = sync.NewCond(&s.mu)
	gen := wire.BlockHeader{Version: 1, Bits: 0x207fffff, Timestamp: time.Unix(1_600_000_000, 0)}
	s.headers[0] = gen
	s.chain = []uint32{0}
	s.nextID = 1
	for i := 0; i < preload; i++ {
		s.chain = append(s.chain, s.newBlock(s.chain[len(s.chain)-1]))
	}
	// Precompute the events (single emitter: the chain each event applies to
	// is known in advance). Nothing of this is visible through
	// NotificationsSinceHeight before the event is handed over.
	sim := append([]uint32(nil), s.chain...)
	for idx := 0; idx < len(ops); idx++ {
		tipH := uint32(len(sim) - 1)
		ev := &event{idx: idx}
		if ops[idx] == 'D' && tipH > 0 {
			id, newTip := sim[tipH], sim[tipH-1]
			ev.item = Item{Kind: 'D', Height: tipH, Block: id, Tip: newTip}
			ev.ntfn = blockntfns.NewBlockDisconnected(s.headers[id], tipH, s.headers[newTip])
			sim = sim[:tipH]
		} else {
			id := s.newBlock(sim[tipH])
			ev.item = Item{Kind: 'C', Height: tipH + 1, Block: id, Tip: id}
			ev.ntfn = blockntfns.NewBlockConnected(s.headers[id], tipH+1)
			sim = append(sim, id)
		}
		s.script = append(s.script, ev)
	}
	return s
}

// newBlock creates a header extending block `parent` and returns its id.
func (s *Source) newBlock(parent uint32) uint32 {
	id := s.nextID
	s.nextID++
	prev := s.headers[parent]
	h := wire.BlockHeader{
		Version:   1,
		PrevBlock: prev.BlockHash(),
		Bits:      0x207fffff,
		Nonce:     id,
		Timestamp: time.Unix(1_600_000_000+int64(id), 0),
	}
	h.MerkleRoot[0], h.MerkleRoot[1], h.MerkleRoot[2], h.MerkleRoot[3] =
		byte(id), byte(id>>8), byte(id>>16), byte(id>>24)
	s.headers[id] = h
	return id
}

// Notifications implements blockntfns.NotificationSource.
func (s *Source) Notifications() <-chan blockntfns.BlockNtfn { return s.ch }

// park serves revoke tokens for a while without offering an event.
func (s *Source) idle(d time.Duration, halt <-chan struct{}) {
	t := time.NewTimer(d)
	defer t.Stop()
	for {
		select {
		case <-t.C:
			return
		case r := <-s.revoke:
			<-r
		case <-halt:
			return
		}
	}
}

// emit is the emitter: it hands the scripted events over one by one until the
// script ends or halt is closed. onHanded is called after hand-over n.
func (s *Source) emit(start, halt <-chan struct{}, pace int, onHanded func(n int)) {
	defer close(s.done)
	for started := false; !started; {
		select {
		case <-start:
			started = true
		case r := <-s.revoke:
			<-r
		case <-halt:
			return
		}
	}
	for i, ev := range s.script {
		select {
		case <-halt:
			return
		default:
		}
		ev.preTick = s.tick.Add(1)
	offer:
		for {
			select {
			case s.ch <- ev.ntfn:
				break offer
			case r := <-s.revoke:
				<-r
			case <-halt:
				return
			}
		}
		ev.postTick = s.tick.Add(1)
		s.handed.Store(int64(i + 1))
		onHanded(i + 1)
		switch pace {
		case 1:
			runtime.Gosched()
		case 2:
			if i%13 == 0 {
				s.idle(50*time.Microsecond, halt)
			}
		case 3:
			if i%7 == 0 {
				runtime.Gosched()
			} else if i%29 == 0 {
				s.idle(100*time.Microsecond, halt)
			}
		}
	}
}

// NotificationsSinceHeight implements blockntfns.NotificationSource with the
// block manager's semantics: 0 => no backlog; tip => empty; above tip =>
// error; otherwise Connected notifications for h+1..tip of the current chain.
func (s *Source) NotificationsSinceHeight(h uint32) ([]blockntfns.BlockNtfn, uint32, error) {
	switch s.jitter {
	case 1:
		runtime.Gosched()
	case 2:
		time.Sleep(20 * time.Microsecond)
	}
	r := make(chan struct{})
	select {
	case s.revoke <- r:
		defer close(r)
	case <-s.done:
	}
	n := int(s.handed.Load())
	s.mu.Lock()
	defer s.mu.Unlock()
	return s.answerLocked(h, n)
}

// advanceLocked brings the chain to the state after n hand-overs.
func (s *Source) advanceLocked(n int) {
	for ; s.applied < n; s.applied++ {
		ev := s.script[s.applied]
		if ev.item.Kind == 'C' {
			s.chain = append(s.chain, ev.item.Block)
		} else {
			s.chain = s.chain[:len(s.chain)-1]
		}
	}
}

func (s *Source) answerLocked(h uint32, n int) ([]blockntfns.BlockNtfn, uint32, error) {
	s.advanceLocked(n)
	s.calls++
	tip := uint32(len(s.chain) - 1)
	rec := &regRecord{h: h, tip: tip, pos: n}
	var out []blockntfns.BlockNtfn
	var err error
	switch {
	case h == 0 || h == tip:
	case h > tip:
		rec.errored = true
		err = fmt.Errorf("request with height %d is greater than best height known %d", h, tip)
	default:
		for i := h + 1; i <= tip; i++ {
			id := s.chain[i]
			out = append(out, blockntfns.NewBlockConnected(s.headers[id], i))
			rec.backlog = append(rec.backlog, Item{Kind: 'C', Height: i, Block: id, Tip: id})
		}
	}
	if sl := s.inflight[h]; sl != nil {
		sl.regs = append(sl.regs, rec)
	} else {
		s.orphans++
	}
	if err != nil {
		return nil, 0, err
	}
	return out, tip, nil
}

// beginSub resolves the height of a subscribe plan against the current chain
// (as far as it is known to have advanced; the value is only an input) and
// reserves that height value for one in-flight NewSubscription call.
func (s *Source) beginSub(p SubPlan) (uint32, *slot) {
	s.mu.Lock()
	defer s.mu.Unlock()
	for {
		// Heights only ever grow into the applied prefix here; the chain
		// itself is advanced exclusively by answerLocked's exact counter, so
		// compute the tip on a copy.
		tip := s.tipAfterLocked(int(s.handed.Load()))
		var h uint32
		switch p.HMode {
		case HZero:
			h = 0
		case HTip:
			h = tip
		case HLow:
			h = 1
		case HMid:
			if tip > 0 {
				h = 1 + uint32(p.HArg)%tip
			}
		case HAbove:
			h = tip + 1 + uint32(p.HArg)%3
		}
		if s.inflight[h] == nil {
			sl := &slot{}
			s.inflight[h] = sl
			return h, sl
		}
		s.cond.Wait()
	}
}

func (s *Source) tipAfterLocked(n int) uint32 {
	t := len(s.chain) - 1
	for i := s.applied; i < n; i++ {
		if s.script[i].item.Kind == 'C' {
			t++
		} else {
			t--
		}
	}
	if n < s.applied {
		// cannot happen: handed only grows and applied <= handed.
		return uint32(len(s.chain) - 1)
	}
	return uint32(t)
}

// endSub releases the height and returns the registration that belongs to the
// call: the last NotificationsSinceHeight(h) made while it was in flight (an
// earlier one can only stem from a previous same-height call that gave up
// with ErrSubscriptionManagerStopped while the handler was still serving it;
// the handler finishes that one before it can receive this call's request).
func (s *Source) endSub(h uint32, sl *slot) (*regRecord, int) {
	s.mu.Lock()
	defer s.mu.Unlock()
	delete(s.inflight, h)
	s.cond.Broadcast()
	if len(sl.regs) == 0 {
		return nil, 0
	}
	return sl.regs[len(sl.regs)-1], len(sl.regs)
}

// snapshot returns the events handed over so far, in hand-over order.
func (s *Source) snapshot() []*event {
	return s.script[:int(s.handed.Load())]
}
