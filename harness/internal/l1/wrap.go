package l1

import (
	"fmt"
	"math/big"

	"github.com/btcsuite/btcd/wire/v2"

	"verif/internal/chaingen"
)

// RunWrapSession drives a session long enough to wrap the block manager's
// 10 000-node in-memory header window: a 12 000+ header trunk under a
// retargeting preset (so that contextual checks need ancestors both inside
// the window and — through the store fallback — outside it), followed by
// forks whose fork point lies BELOW the window (the known-work summation then
// runs off the in-memory list into the store), lighter and — when heavy is
// set — heavier-but-shorter (difficulty raised on the branch).
func RunWrapSession(seed int64, idx int, heavy bool, onStep func(s *Session, st *StepObs),
	onStoreErr func(s *Session, st *StepObs, err error)) (*Session, error) {

	cfg := SessionConfig{Seed: seed*1000003 + int64(idx) + 900000, Name: fmt.Sprintf("wrap-%d-%d", seed, idx),
		Preset: chaingen.PresetRetarget, Interval: 8 + idx%9, SpacingSec: 2, NumPeers: 2}
	if idx%3 == 2 {
		cfg.Preset = chaingen.PresetMinDiff
	}
	s, err := NewSession(cfg)
	if err != nil {
		return nil, err
	}
	g := s.G
	n := 12000 + s.Rng.Intn(900)
	// Around height 10 000 (where a list filled from genesis wraps): six
	// steadily paced headers, five slow ones (their timestamps jump ahead),
	// then headers that each go back to one second after their median-time-
	// past. The 3-4 headers from 10 000 on are then the SMALLEST of the last
	// eleven, so the median of just those few is lower than the true median:
	// a header exactly at the true median is invalid, but would pass if the
	// walk over the in-memory window were cut short at the wrap position.
	trunk := g.Extend(g.Genesis, 9988, chaingen.PaceMixed)
	trunk = append(trunk, g.Extend(trunk[len(trunk)-1], 6, chaingen.PaceNormal)...)
	trunk = append(trunk, g.Extend(trunk[len(trunk)-1], 5, chaingen.PaceSlow)...)
	trunk = append(trunk, g.Extend(trunk[len(trunk)-1], 6, chaingen.PaceBack)...)
	trunk = append(trunk, g.Extend(trunk[len(trunk)-1], n-10005, chaingen.PaceMixed)...)
	if idx%2 == 0 {
		g.SetCheckpoints(trunk[len(trunk)-1], int32(500+s.Rng.Intn(400)), int32(6000+s.Rng.Intn(300)))
	}
	if err := s.Open(); err != nil {
		return s, err
	}
	s.View.SetTip(trunk[len(trunk)-1])
	for i := 0; i < 2; i++ {
		if _, err := s.AddPeer(int32(n), wire.SFNodeNetwork|wire.SFNodeWitness|wire.SFNodeCF); err != nil {
			return s, err
		}
	}
	step := func(kind string, pi int, batch []*chaingen.Node) (bool, error) {
		st, err := s.SendHeaders(kind, pi, batch, nil)
		if err != nil {
			if se, ok := err.(*StoreErr); ok {
				onStoreErr(s, st, se.Err)
				return false, nil
			}
			return false, err
		}
		onStep(s, st)
		return true, nil
	}
	sync := func() int {
		sp := s.BM.SyncPeer()
		for i, p := range s.Peers {
			if p.SP == sp && !p.Disconnected() {
				return i
			}
		}
		for i, p := range s.Peers {
			if !p.Disconnected() {
				return i
			}
		}
		if _, err := s.AddPeer(int32(n), wire.SFNodeNetwork|wire.SFNodeWitness|wire.SFNodeCF); err != nil {
			panic(err)
		}
		return len(s.Peers) - 1
	}
	// Feed the trunk in protocol-sized batches (checkpoints cut batches short:
	// re-send from the stored tip).
	badWrapDone := false
	for guard := 0; guard < 40; guard++ {
		t := s.TipNode()
		if t == nil {
			return s, fmt.Errorf("stored tip unknown")
		}
		if t.Height >= int32(n) {
			break
		}
		to := int(t.Height) + wire.MaxBlockHeadersPerMsg
		if to > n {
			to = n
		}
		if !badWrapDone && int(t.Height) < 9000 && to >= 10000 && to <= 10004 {
			to = 9000 + s.Rng.Intn(500) // shift the batch boundary away from the wrap position
		}
		if !badWrapDone && int(t.Height) < 10000 && to > 10004 && len(g.P.Checkpoints) == 0 {
			// One message that runs over the wrap position and then carries a
			// header violating the median-time rule, 1-4 headers later.
			badWrapDone = true
			j := 3 + s.Rng.Intn(2)
			base := trunk[10000+j-2] // node at height 10000+j-1
			if bad := g.InvalidAtMTP(base); bad != nil {
				batch := append(append([]*chaingen.Node(nil), trunk[t.Height:10000+j-1]...), bad)
				if ok, err := step("ext-bad-mtp", sync(), batch); !ok || err != nil {
					return s, err
				}
				continue
			}
		}
		if ok, err := step("ext", sync(), trunk[t.Height:to]); !ok || err != nil {
			return s, err
		}
	}
	tip := s.TipNode()
	if tip == nil || tip.Height != int32(n) {
		return s, fmt.Errorf("trunk not fully adopted (tip %v)", tip)
	}
	// A few small extensions and shallow forks at the wrapped tip.
	ext := g.Extend(tip, 3, chaingen.PaceFast)
	if ok, err := step("ext", sync(), ext); !ok || err != nil {
		return s, err
	}
	tip = ext[len(ext)-1]
	f := tip.Ancestor(tip.Height - 5)
	if ok, err := step("fork", sync(), g.Extend(f, 6, chaingen.PaceNormal)); !ok || err != nil {
		return s, err
	}
	tip = s.TipNode()
	// Fork from BELOW the in-memory window, lighter (same length minus one at
	// the same pace is not possible within one message; take a short branch).
	deep := tip.Ancestor(tip.Height - 10050)
	last := int32(0)
	for _, cp := range g.P.Checkpoints {
		if cp.Height > last {
			last = cp.Height
		}
	}
	if deep.Height <= last {
		deep = tip.Ancestor(last + 1)
	}
	light := g.Extend(deep, 400, chaingen.PaceNormal)
	if ok, err := step("fork-deep-lighter", sync(), light); !ok || err != nil {
		return s, err
	}
	if heavy {
		// Heavier but shorter: raise the difficulty on the branch as fast as
		// the retarget rule allows, within one 2000-header message.
		old := g.MaxHashes
		g.MaxHashes = 1 << 13
		br := g.Extend(deep, 2000, chaingen.PaceFast)
		g.MaxHashes = old
		wOld := new(bigInt).Sub(tip.CumWork, deep.CumWork)
		wNew := new(bigInt).Sub(br[len(br)-1].CumWork, deep.CumWork)
		kind := "fork-deep-heavier"
		if wNew.Cmp(wOld) <= 0 {
			kind = "fork-deep-lighter2"
		}
		if ok, err := step(kind, sync(), br); !ok || err != nil {
			return s, err
		}
		// And carry on from whatever the tip is now.
		if t := s.TipNode(); t != nil {
			if ok, err := step("ext", sync(), g.Extend(t, 5, chaingen.PaceMixed)); !ok || err != nil {
				return s, err
			}
		}
	}
	return s, nil
}

type bigInt = big.Int
