package l1

import (
	"fmt"
	"strings"

	"github.com/btcsuite/btcd/chainhash/v2"
	"github.com/btcsuite/btcd/wire/v2"

	"verif/internal/chaingen"
	"verif/internal/ref"
)

// Finding is one oracle violation found by a monitor.
type Finding struct {
	Sig  string
	What string
}

func hashesOf(chain []wire.BlockHeader) []chainhash.Hash {
	out := make([]chainhash.Hash, len(chain))
	for i := range chain {
		out[i] = chain[i].BlockHash()
	}
	return out
}

func commonPrefix(a, b []wire.BlockHeader) int {
	n := 0
	for n < len(a) && n < len(b) && a[n] == b[n] {
		n++
	}
	return n
}

// CheckC01 validates the stored chain after a step: full rule validity
// (incrementally: only the part that changed since the last validated state
// is re-validated), and agreement of by-height, by-hash, tip and locator
// answers.
func CheckC01(s *Session, st *StepObs) []Finding {
	var out []Finding
	post := st.Post
	p := s.G.P
	if len(post) == 0 || post[0].BlockHash() != *p.GenesisHash {
		return []Finding{{"c01/genesis", "stored header 0 is not the genesis header"}}
	}
	cp := commonPrefix(s.validated, post)
	if cp < 1 {
		cp = 1
	}
	for i := cp; i < len(post); i++ {
		if r := ref.CheckNext(p, post[:i], &post[i], st.ClockNow); r != "" {
			out = append(out, Finding{"c01/invalid-stored/" + r + "/after-" + kindClass(st.Kind),
				fmt.Sprintf("stored header at height %d breaks rule %q (step %d kind %s: %s)", i, r, st.Index, st.Kind, st.Desc)})
			break
		}
	}
	s.validated = post

	tipH := uint32(len(post) - 1)
	if _, err := s.Stores.Block.FetchHeaderByHeight(tipH + 1); err == nil {
		out = append(out, Finding{"c01/read-beyond-tip", fmt.Sprintf("FetchHeaderByHeight(tip+1=%d) succeeded", tipH+1)})
	}
	hs := hashesOf(post)
	onChain := make(map[chainhash.Hash]uint32, len(hs))
	for i, h := range hs {
		onChain[h] = uint32(i)
	}
	// By-hash lookups for everything ever offered plus every stored hash.
	check := func(h chainhash.Hash) {
		hdr, ht, err := s.Stores.Block.FetchHeader(&h)
		ht2, err2 := s.Stores.Block.HeightFromHash(&h)
		want, on := onChain[h]
		switch {
		case on && (err != nil || err2 != nil):
			out = append(out, Finding{"c01/hash-lookup-missing", fmt.Sprintf("hash at stored height %d not found by hash (FetchHeader err=%v, HeightFromHash err=%v)", want, err, err2)})
		case on && (ht != want || ht2 != want || *hdr != post[want]):
			out = append(out, Finding{"c01/hash-lookup-disagrees", fmt.Sprintf("by-hash lookup gives height %d/%d, by-height scan says %d", ht, ht2, want)})
		case !on && (err == nil || err2 == nil):
			out = append(out, Finding{"c01/stale-hash-found/after-" + kindClass(st.Kind), fmt.Sprintf("hash not on the stored chain is still found by hash (height %d/%d, errs %v/%v)", ht, ht2, err, err2)})
		}
	}
	// Everything this step removed, and everything removed earlier (bounded,
	// deterministic order): a removed hash must not be found any more.
	for _, h := range hashesOf(st.Pre) {
		if _, on := onChain[h]; !on {
			s.Removed = append(s.Removed, h)
		}
	}
	if len(s.Removed) > 600 {
		s.Removed = append([]chainhash.Hash(nil), s.Removed[len(s.Removed)-600:]...)
	}
	for _, h := range s.Removed {
		check(h)
	}
	n := 0
	for h := range s.Offered {
		if n > 400 {
			break
		}
		check(h)
		n++
	}
	for _, nd := range st.Batch {
		check(nd.Hash)
	}
	for i := len(hs) - 1; i >= 0 && i >= len(hs)-60; i-- {
		check(hs[i])
	}
	loc, err := s.Stores.Block.LatestBlockLocator()
	if err != nil {
		out = append(out, Finding{"c01/locator-error", fmt.Sprintf("LatestBlockLocator: %v", err)})
	} else if err := ref.CheckLocator(hs, int(tipH), loc); err != nil {
		out = append(out, Finding{"c01/locator", err.Error()})
	}
	return dedup(out)
}

func dedup(in []Finding) []Finding {
	seen := map[string]bool{}
	var out []Finding
	for _, f := range in {
		if !seen[f.Sig] {
			seen[f.Sig] = true
			out = append(out, f)
		}
	}
	return out
}

// kindClass strips per-rule suffixes from a step kind for signatures.
func kindClass(k string) string {
	for _, p := range []string{"ext-after-bad", "ext-bad", "fork-bad", "fork", "ext", "dup", "shuffled", "orphan", "inv", "donepeer"} {
		if len(k) >= len(p) && k[:len(p)] == p {
			return p
		}
	}
	return k
}

// validRun returns how many leading headers of hdrs are valid successors of
// chain (which they must extend at its tip) at the given clock.
func validRun(s *Session, chain []wire.BlockHeader, hdrs []*wire.BlockHeader, st *StepObs) int {
	c := append([]wire.BlockHeader(nil), chain...)
	for i, h := range hdrs {
		if r := ref.CheckNext(s.G.P, c, h, st.ClockNow); r != "" {
			return i
		}
		c = append(c, *h)
	}
	return len(hdrs)
}

// firstCheckpointCut returns the number of headers adopted from a run that
// starts at height startH given the documented behaviour "stop a batch at the
// next not-yet-passed checkpoint": the index just after the first header whose
// height is a checkpoint height above preTip, or n if none.
func firstCheckpointCut(s *Session, startH int32, n int, preTip int32) int {
	for i := 0; i < n; i++ {
		h := startH + int32(i)
		if h <= preTip {
			continue
		}
		for _, cp := range s.G.P.Checkpoints {
			if cp.Height == h {
				return i + 1
			}
		}
	}
	return n
}

// CheckC02 checks one headers step against the reorganisation property:
// safety for every message, completeness when the premise provably holds.
func CheckC02(s *Session, st *StepObs) []Finding {
	var out []Finding
	pre, post := st.Pre, st.Post
	f := commonPrefix(pre, post) - 1 // height of the last common header
	D := pre[f+1:]
	A := post[f+1:]
	preTip := int32(len(pre) - 1)
	role := "nonsync-notcurrent"
	if st.IsSync {
		role = "sync"
	} else if st.Current {
		role = "nonsync-current"
	}
	kc := kindClass(st.Kind)

	// ---- safety -------------------------------------------------------
	if len(A) > 0 {
		// Everything added must be headers the message offered.
		offered := map[wire.BlockHeader]bool{}
		for _, h := range st.Hdrs {
			offered[*h] = true
		}
		for i := range A {
			if !offered[A[i]] {
				out = append(out, Finding{"c02/added-not-offered/" + kc, fmt.Sprintf("header stored at height %d was not in the handled message", f+1+i)})
				break
			}
		}
	}
	if st.Crash != "" {
		// The process died while handling this message and was restarted: the
		// reference model restarts from what the reopened stores hold (C08 says
		// what that may be). Nothing about the decision is judged.
		return dedup(out)
	}
	// Rules about the decision the client took. In a step in which an injected
	// I/O error fired they are not asserted against a state that lies ON THE
	// WAY of the sanctioned transition (an interrupted rollback that went no
	// lower than the fork point of a valid strictly heavier admissible branch
	// of this message / than the checkpoint a failed checkpoint sends it back
	// to, plus at most a prefix of that branch): the decision was right, its
	// execution was cut short by the error. Any other state is judged as ever.
	var held []Finding
	switch {
	case len(D) > 0 && len(A) > 0:
		wd, wa := ref.Work(D), ref.Work(A)
		if wa.Cmp(wd) <= 0 {
			rel := "lighter"
			if wa.Cmp(wd) == 0 {
				rel = "equal"
			}
			held = append(held, Finding{"c02/reorg-not-heavier/" + rel, fmt.Sprintf("reorg at fork height %d displaced work %v for work %v", f, wd, wa)})
		}
		if cp := ref.LastCheckpointAtOrBelow(s.G.P, preTip); int32(f) < cp {
			rel := "tip-above-checkpoint"
			if cp == preTip {
				rel = "tip-on-checkpoint"
			}
			held = append(held, Finding{"c02/reorg-below-checkpoint/" + rel, fmt.Sprintf("reorg forks at height %d below the reached checkpoint at %d (tip was %d)", f, cp, preTip)})
		}
	case len(D) > 0 && len(A) == 0:
		// Sanctioned only as a failed-checkpoint rollback.
		ok := false
		var cpH int32 = -1
		for _, cp := range s.G.P.Checkpoints {
			if cp.Height > preTip && (cpH == -1 || cp.Height < cpH) {
				cpH = cp.Height
			}
		}
		if cpH > 0 {
			for _, nd := range st.Batch {
				if nd.Height == cpH {
					for _, cp := range s.G.P.Checkpoints {
						if cp.Height == cpH && *cp.Hash != nd.Hash {
							ok = true
						}
					}
				}
			}
			want := int(ref.LastCheckpointAtOrBelow(s.G.P, cpH-1))
			if ok && f != want {
				held = append(held, Finding{"c02/checkpoint-rollback-wrong-height", fmt.Sprintf("failed checkpoint %d rolled back to %d, want previous checkpoint %d", cpH, f, want)})
			}
		}
		if !ok && st.Kind != "donepeer" {
			held = append(held, Finding{"c02/work-decrease/" + kc, fmt.Sprintf("headers %d..%d were discarded without a heavier branch or a failed checkpoint", f+1, preTip)})
		}
	}

	if st.Fault != "" && len(held) > 0 && interruptedSanctioned(s, st, f, A) {
		held = nil
	}
	out = append(out, held...)

	if len(st.Hdrs) == 0 || st.Panic != "" {
		if st.Panic != "" {
			out = append(out, Finding{"c02/panic/" + kc, "handler panicked: " + st.Panic})
		}
		return dedup(out)
	}

	// ---- completeness ---------------------------------------------------
	// Split the message into a prefix of headers already stored at their
	// height and the rest.
	preHashes := hashesOf(pre)
	idx := map[chainhash.Hash]int{}
	for i, h := range preHashes {
		idx[h] = i
	}
	k := 0
	for k < len(st.Hdrs) {
		if _, ok := idx[st.Hdrs[k].BlockHash()]; !ok {
			break
		}
		k++
	}
	rest := st.Hdrs[k:]
	if len(rest) == 0 {
		// Entirely known headers: the chain must be unchanged.
		if len(D) > 0 || len(A) > 0 {
			out = append(out, Finding{"c02/dup-changed-chain", "a message of already stored headers changed the chain"})
		}
		return dedup(out)
	}
	if st.WriteFailed || st.Fault != "" {
		// The store refused the write (injected fault) / an injected I/O error
		// fired underneath the stores during this message: nothing is promised
		// about adoption in this very step; safety was judged above, and every
		// rule applies again from the next step on.
		return dedup(out)
	}
	// The message must be internally linked to be "fully valid".
	for i := 1; i < len(st.Hdrs); i++ {
		if st.Hdrs[i].PrevBlock != st.Hdrs[i-1].BlockHash() {
			return dedup(out)
		}
	}
	fh, known := idx[rest[0].PrevBlock]
	if !known {
		return dedup(out) // does not attach to the stored chain: nothing promised
	}
	listens := st.IsSync || st.Current
	switch {
	case fh == int(preTip):
		// Extension of the tip (possibly after a known prefix).
		if k > 0 && !listens {
			return dedup(out)
		}
		if validRun(s, pre, rest, st) != len(rest) {
			return dedup(out) // not fully valid: only safety applies
		}
		m := firstCheckpointCut(s, preTip+1, len(rest), preTip)
		want := append(append([]wire.BlockHeader(nil), pre...), deref(rest[:m])...)
		if !equalChains(post, want) {
			out = append(out, Finding{"c02/valid-extension-not-adopted/" + role + "/" + kc,
				fmt.Sprintf("fully valid extension of %d headers (adoptable %d) from %s peer: stored tip went %d -> %d, want %d",
					len(rest), m, role, preTip, len(post)-1, len(want)-1)})
		}
	case fh < int(preTip):
		// A branch from fork height fh.
		if !listens {
			return dedup(out)
		}
		base := pre[:fh+1]
		if validRun(s, base, rest, st) != len(rest) {
			return dedup(out)
		}
		if cp := ref.LastCheckpointAtOrBelow(s.G.P, preTip); int32(fh) < cp {
			return dedup(out) // too deep: must be refused (safety covers it)
		}
		wOld := ref.Work(pre[fh+1:])
		wNew := ref.Work(deref(rest))
		if wNew.Cmp(wOld) <= 0 {
			return dedup(out) // not strictly heavier: must be refused (safety)
		}
		m := firstCheckpointCut(s, int32(fh)+1, len(rest), preTip)
		// If the cut leaves a branch that is not heavier, nothing is promised.
		if m < len(rest) && ref.Work(deref(rest[:m])).Cmp(wOld) <= 0 {
			return dedup(out)
		}
		want := append(append([]wire.BlockHeader(nil), base...), deref(rest[:m])...)
		if !equalChains(post, want) {
			out = append(out, Finding{"c02/heavier-branch-not-adopted/" + role + "/" + kc,
				fmt.Sprintf("fully valid strictly heavier branch (fork %d, %d headers) from %s peer not adopted in full: tip %d -> %d, want %d",
					fh, len(rest), role, preTip, len(post)-1, len(want)-1)})
		}
	}
	return dedup(out)
}

// interruptedSanctioned reports whether post = pre[:f+1] + A is a state on the
// way of the transition the reference model makes for this message: see
// CheckC02.
func interruptedSanctioned(s *Session, st *StepObs, f int, A []wire.BlockHeader) bool {
	pre := st.Pre
	preTip := int32(len(pre) - 1)
	floor := -1
	// (a) a failed checkpoint: back to the previous one.
	var cpH int32 = -1
	for _, cp := range s.G.P.Checkpoints {
		if cp.Height > preTip && (cpH == -1 || cp.Height < cpH) {
			cpH = cp.Height
		}
	}
	if cpH > 0 {
		for _, nd := range st.Batch {
			if nd.Height != cpH {
				continue
			}
			for _, cp := range s.G.P.Checkpoints {
				if cp.Height == cpH && *cp.Hash != nd.Hash {
					floor = int(ref.LastCheckpointAtOrBelow(s.G.P, cpH-1))
				}
			}
		}
	}
	// (b) a fully valid, strictly heavier, admissible branch from a peer the
	// client listens to.
	fh, branch := -1, []wire.BlockHeader(nil)
	func() {
		if len(st.Hdrs) == 0 || !(st.IsSync || st.Current) {
			return
		}
		for i := 1; i < len(st.Hdrs); i++ {
			if st.Hdrs[i].PrevBlock != st.Hdrs[i-1].BlockHash() {
				return
			}
		}
		idx := map[chainhash.Hash]int{}
		for i, h := range hashesOf(pre) {
			idx[h] = i
		}
		k := 0
		for k < len(st.Hdrs) {
			if _, ok := idx[st.Hdrs[k].BlockHash()]; !ok {
				break
			}
			k++
		}
		rest := st.Hdrs[k:]
		if len(rest) == 0 {
			return
		}
		at, known := idx[rest[0].PrevBlock]
		if !known || at >= int(preTip) {
			return
		}
		if validRun(s, pre[:at+1], rest, st) != len(rest) {
			return
		}
		if cp := ref.LastCheckpointAtOrBelow(s.G.P, preTip); int32(at) < cp {
			return
		}
		if ref.Work(deref(rest)).Cmp(ref.Work(pre[at+1:])) <= 0 {
			return
		}
		fh, branch = at, deref(rest)
	}()
	if fh >= 0 && (floor < 0 || fh < floor) {
		floor = fh
	}
	if floor < 0 || f < floor {
		return false
	}
	if len(A) == 0 {
		return true
	}
	if f != fh || len(A) > len(branch) {
		return false
	}
	for i := range A {
		if A[i] != branch[i] {
			return false
		}
	}
	return true
}

func deref(h []*wire.BlockHeader) []wire.BlockHeader {
	out := make([]wire.BlockHeader, len(h))
	for i := range h {
		out[i] = *h[i]
	}
	return out
}

func equalChains(a, b []wire.BlockHeader) bool {
	if len(a) != len(b) {
		return false
	}
	for i := range a {
		if a[i] != b[i] {
			return false
		}
	}
	return true
}

// C02Fingerprint classifies a step for the distinct count.
func C02Fingerprint(s *Session, st *StepObs) (string, bool) {
	pre, post := st.Pre, st.Post
	f := commonPrefix(pre, post) - 1
	changed := len(pre) != len(post) || f != len(pre)-1
	depth := len(pre) - 1 - f
	db := "0"
	switch {
	case depth == 0:
	case depth == 1:
		db = "1"
	case depth <= 5:
		db = "2-5"
	case depth <= 20:
		db = "6-20"
	default:
		db = ">20"
	}
	role := "nn"
	if st.IsSync {
		role = "sync"
	} else if st.Current {
		role = "cur"
	}
	cprel := "nocp"
	if len(s.G.P.Checkpoints) > 0 {
		cp := ref.LastCheckpointAtOrBelow(s.G.P, int32(len(pre)-1))
		switch {
		case cp == int32(len(pre)-1):
			cprel = "tip-on-cp"
		case cp == 0:
			cprel = "before-cp"
		default:
			cprel = "past-cp"
		}
	}
	out := "unchanged"
	if changed {
		out = "changed"
	}
	if st.Disc {
		out += "+disc"
	}
	return fmt.Sprintf("%s|%s|%s|%s|reorg%s", kindClass(st.Kind), role, cprel, out, db), changed || st.Disc
}

var _ = chaingen.AllRules

// CheckC19 compares the events emitted during one step with how the
// committed chain changed, and probes NotificationsSinceHeight.
func CheckC19(s *Session, st *StepObs, probe bool) []Finding {
	var out []Finding
	pre, post := st.Pre, st.Post
	kc := kindClass(st.Kind)
	f := commonPrefix(pre, post) - 1

	if st.Crash != "" {
		// The process died in this step (and was restarted): its subscribers
		// died with it, the event stream ends there. What the restarted client
		// offers as backlog must describe the chain it came up with.
		if probe {
			out = append(out, probeBacklog(s, st)...)
		}
		return dedup(out)
	}

	// Expected disconnects: every removed block header, highest first.
	type disc struct {
		h   uint32
		hdr wire.BlockHeader
		tip wire.BlockHeader
	}
	var wantD []disc
	for h := len(pre) - 1; h > f; h-- {
		wantD = append(wantD, disc{uint32(h), pre[h], pre[h-1]})
	}
	var gotD []EventObs
	var gotC []EventObs
	for _, e := range st.Events {
		if e.Connected {
			gotC = append(gotC, e)
		} else {
			gotD = append(gotD, e)
		}
	}
	// Walk the disconnected events over a model of the block header chain.
	// A header of this very message that the client stored and rolled back
	// again within the step (the first header of an accepted branch is
	// written at once; a checkpoint mismatch further up the message then
	// rolls it back) is visible neither before nor after the step: its
	// disconnected event is accepted if it sits directly on the model's tip.
	inMsg := map[wire.BlockHeader]bool{}
	for _, h := range st.Hdrs {
		inMsg[*h] = true
	}
	bm := append([]wire.BlockHeader(nil), pre...)
	transient := 0
	for i, g := range gotD {
		top := len(bm) - 1
		switch {
		case top >= 1 && int(g.Height) == top && g.Header == bm[top]:
			if g.NewTip != bm[top-1] {
				out = append(out, Finding{"c19/disconnect-wrong-newtip/" + kc, fmt.Sprintf("disconnected event for height %d carries a new-tip header that is not the header at height %d", g.Height, g.Height-1)})
			}
			if g.StillStored {
				out = append(out, Finding{"c19/disconnect-before-store/" + kc, fmt.Sprintf("disconnected event for height %d received while the block store still held that header", g.Height)})
			}
			bm = bm[:top]
		case int(g.Height) == top+1 && inMsg[g.Header] && g.Header.PrevBlock == bm[top].BlockHash():
			transient++
			if g.NewTip != bm[top] {
				out = append(out, Finding{"c19/disconnect-wrong-newtip/" + kc, fmt.Sprintf("disconnected event for height %d carries a new-tip header that is not the header at height %d", g.Height, g.Height-1)})
			}
		default:
			out = append(out, Finding{"c19/disconnect-wrong-block/" + kc, fmt.Sprintf("disconnected event %d names height %d, want height %d (highest first)", i, g.Height, top)})
		}
	}
	if len(bm)-1 > f && !hasPrefix(out, "c19/disconnect-wrong-block/") {
		out = append(out, Finding{"c19/disconnect-count/" + kc, fmt.Sprintf("%d block headers were removed (heights %d..%d) but only %d of them were announced as disconnected (%d events)", len(wantD), f+1, len(pre)-1, len(pre)-len(bm), len(gotD))})
	}
	if len(bm)-1 < f {
		out = append(out, Finding{"c19/disconnect-count/" + kc, fmt.Sprintf("%d block headers were removed (heights %d..%d) but %d disconnected events were emitted", len(wantD), f+1, len(pre)-1, len(gotD))})
	}
	_ = transient

	// Replay model: a subscriber holding the committed chain up to the filter
	// tip applies the events in order.
	m := append([]wire.BlockHeader(nil), pre[:min(len(st.PreF), len(pre))]...)
	for i, e := range st.Events {
		if e.Connected {
			switch {
			case int(e.Height) == len(m):
				m = append(m, e.Header)
			case int(e.Height) < len(m) && m[e.Height] == e.Header:
				// already held: skipped
			default:
				out = append(out, Finding{"c19/connect-out-of-order/" + kc, fmt.Sprintf("event %d: connected height %d while the subscriber holds %d headers", i, e.Height, len(m))})
			}
			if !e.FilterHasIt && !laterDisconnected(st.Events[i+1:], e) {
				out = append(out, Finding{"c19/connect-before-commit/" + kc, fmt.Sprintf("connected event for height %d received while the filter store tip was %d", e.Height, e.FilterTipAt)})
			}
			if e.MidProbe != "" {
				out = append(out, Finding{"c19/backlog-mid-batch/" + kc, e.MidProbe})
			}
			if !e.BlockAtMatch && !laterDisconnected(st.Events[i+1:], e) {
				out = append(out, Finding{"c19/connect-wrong-header/" + kc, fmt.Sprintf("connected event for height %d does not carry the block header stored at that height", e.Height)})
			}
		} else {
			if int(e.Height) == len(m)-1 && m[e.Height] == e.Header {
				m = m[:len(m)-1]
			} else if int(e.Height) < len(m) {
				out = append(out, Finding{"c19/disconnect-not-tip/" + kc, fmt.Sprintf("event %d: disconnected height %d but the subscriber's tip is %d", i, e.Height, len(m)-1)})
			}
		}
	}
	want := post[:min(len(st.PostF), len(post))]
	if !equalChains(m, want) {
		out = append(out, Finding{"c19/replay-mismatch/" + kc, fmt.Sprintf("replaying the step's events leaves the subscriber with %d headers, the committed chain (filter tip) has %d", len(m), len(want))})
	}
	// Connected events are exactly the newly committed filter headers.
	cf := 0
	for cf < len(st.PreF) && cf < len(st.PostF) && st.PreF[cf] == st.PostF[cf] && cf < len(pre) && cf < len(post) && pre[cf] == post[cf] {
		cf++
	}
	newly := len(st.PostF) - cf
	if newly < 0 {
		newly = 0
	}
	// (Only decidable as a plain count when the step contains no rollback;
	// compound steps are decided by the replay model above.)
	if len(gotD) == 0 && len(gotC) != newly {
		out = append(out, Finding{"c19/connect-count/" + kc, fmt.Sprintf("%d filter headers were newly committed (heights %d..%d) but %d connected events were emitted", newly, cf, len(st.PostF)-1, len(gotC))})
	}

	if probe {
		out = append(out, probeBacklog(s, st)...)
	}
	return dedup(out)
}

// probeBacklog checks NotificationsSinceHeight against the committed chain.
func probeBacklog(s *Session, st *StepObs) []Finding {
	var out []Finding
	kc := kindClass(st.Kind)
	ft := uint32(len(st.PostF) - 1)
	hs := []uint32{0, ft, ft + 1, ft + 7}
	if ft > 0 {
		hs = append(hs, uint32(s.Rng.Intn(int(ft))), ft-1)
	}
	for _, h := range hs {
		ntfns, best, err := s.BM.NotificationsSinceHeight(h)
		switch {
		case h == 0:
			if err != nil || len(ntfns) != 0 {
				out = append(out, Finding{"c19/backlog-zero/" + kc, fmt.Sprintf("height 0: err=%v n=%d", err, len(ntfns))})
			}
		case h > ft:
			if err == nil {
				out = append(out, Finding{"c19/backlog-above-tip/" + kc, fmt.Sprintf("height %d above the committed filter tip %d did not fail (n=%d best=%d)", h, ft, len(ntfns), best)})
			}
		default:
			if err != nil {
				out = append(out, Finding{"c19/backlog-error/" + kc, fmt.Sprintf("height %d (committed filter tip %d): %v", h, ft, err)})
				continue
			}
			if len(ntfns) != int(ft-h) {
				out = append(out, Finding{"c19/backlog-length/" + kc, fmt.Sprintf("backlog from %d has %d entries, committed blocks above it: %d (filter tip %d, reported best %d)", h, len(ntfns), ft-h, ft, best)})
				continue
			}
			for i, n := range ntfns {
				wh := h + 1 + uint32(i)
				if n.Height() != wh || n.Header() != st.Post[wh] {
					out = append(out, Finding{"c19/backlog-content/" + kc, fmt.Sprintf("backlog entry %d is height %d, want committed block %d", i, n.Height(), wh)})
					break
				}
			}
		}
	}
	return out
}

// laterDisconnected reports whether a later event of the step disconnects the
// block of connected event e (a concurrent rollback may remove a filter
// header between the event's receipt and the harness's read).
func laterDisconnected(rest []EventObs, e EventObs) bool {
	for _, r := range rest {
		if !r.Connected && r.Height <= e.Height {
			return true
		}
	}
	return false
}

func hasPrefix(fs []Finding, p string) bool {
	for _, f := range fs {
		if strings.HasPrefix(f.Sig, p) {
			return true
		}
	}
	return false
}
