package l1

import (
	"fmt"
	"runtime"
	"sync"

	"github.com/lightninglabs/neutrino/query"

	"verif/internal/chaingen"
	"verif/internal/netsim"
)

// Family "blockfail": filter sessions in which the block download the client
// needs to arbitrate a filter-header conflict (cfg.GetBlock, called once every
// responder's filter turned out to hash to what that responder advertised)
// FAILS — the first K times, or for as long as the session lasts; for every
// block, only for blocks some peer lies about, or (control) only for the
// others — while a coalition of peers tells one identical, self-consistent lie
// about a block (a filter that omits an output script; sometimes one padded
// with an extra element, which no block can expose) next to one or two honest
// peers whom the coalition mostly outnumbers. Both conflict paths: at the tip
// (chains below one checkpoint interval, and the tail of the longer ones) and
// between differing checkpoint lists.
//
// The oracle is CheckC03's, unchanged: what is committed equals the ground
// truth while every lie is provable and an honest peer answers, honest peers
// are not banned, liars whose false value covers a committed height are. A
// session that ends behind the block headers while the scripted download was
// still failing in its last rounds gets no verdict from the progress rule
// (nothing is decidable without the block); once a download succeeds the usual
// rules apply.

// BlockFault scripts failures of the scripted GetBlock.
type BlockFault struct {
	// Kind: "" = off; "first" = the first K downloads of EACH block in scope
	// fail; "first-overall" = the first K downloads of blocks in scope fail,
	// whichever blocks they are; "always" = every download in scope fails.
	Kind string `json:",omitempty"`
	K    int    `json:",omitempty"`
	// Scope: "" = every block; "disputed" = blocks at a height some configured
	// lie is about; "other" = blocks at the remaining heights.
	Scope string `json:",omitempty"`
	// Err: "timeout" (query.ErrQueryTimeout), "canceled" (query.ErrJobCanceled)
	// or "notfound" (the error of a download no peer completed).
	Err string `json:",omitempty"`
}

// Off reports whether the fault is disabled.
func (f BlockFault) Off() bool { return f.Kind == "" }

func (f BlockFault) String() string {
	if f.Off() {
		return "off"
	}
	s := f.Kind
	if f.Kind != "always" {
		s += fmt.Sprintf("-%d", f.K)
	}
	if f.Scope != "" {
		s += "/" + f.Scope
	}
	return s
}

// install arms the session's scripted network.
func (f BlockFault) install(fs *FilterSession) {
	if f.Off() {
		return
	}
	var mu sync.Mutex
	inScopeCalls := 0
	perBlock := map[*chaingen.Node]int{}
	fs.Net.mu.Lock()
	defer fs.Net.mu.Unlock()
	fs.Net.BlockFault = func(n *chaingen.Node, _, _ int) error {
		disputed := false
		for _, b := range fs.Plan.Behaviours {
			for _, l := range b.Lies {
				if l.Kind != netsim.LieRejoin && l.Height == n.Height {
					disputed = true
				}
			}
		}
		if f.Scope == "disputed" && !disputed || f.Scope == "other" && disputed {
			return nil
		}
		mu.Lock()
		inScopeCalls++
		perBlock[n]++
		all, nth := inScopeCalls, perBlock[n]
		mu.Unlock()
		switch f.Kind {
		case "first":
			if nth > f.K {
				return nil
			}
		case "first-overall":
			if all > f.K {
				return nil
			}
		}
		fs.note("scripted: download of block %d fails (%s, call %d for it)", n.Height, f.Err, nth)
		switch f.Err {
		case "canceled":
			return query.ErrJobCanceled
		case "notfound":
			return fmt.Errorf("couldn't retrieve block %s from network", n.Hash)
		}
		return query.ErrQueryTimeout
	}
}

// snapOmitLies moves the omit-script lies of the plan to heights of the trunk
// whose block has an output script that a filter can provably omit (see
// FilterPlan.SnapOmit). The behaviours are rebuilt, not edited in place.
func snapOmitLies(behav []PeerBehaviour, trunk []*chaingen.Node) []PeerBehaviour {
	moved := map[int32]int32{}
	snap := func(h int32) int32 {
		if to, ok := moved[h]; ok {
			return to
		}
		to := h
		for i := 0; i < len(trunk); i++ {
			c := (int(h)-1+i)%len(trunk) + 1 // heights 1..len(trunk)
			if netsim.OmittableScript(trunk[c-1]) != nil {
				to = int32(c)
				break
			}
		}
		moved[h] = to
		return to
	}
	out := make([]PeerBehaviour, len(behav))
	for i, b := range behav {
		nb := b
		nb.Lies = nil
		var from, to int32
		for _, l := range b.Lies {
			if l.Kind == netsim.LieOmitScript {
				from, to = l.Height, snap(l.Height)
			}
		}
		for _, l := range b.Lies {
			// The peer's other lies about the same block move with it.
			if to != 0 && l.Height == from && l.Kind != netsim.LieRejoin {
				l.Height = to
			}
			nb.Lies = append(nb.Lies, l)
		}
		out[i] = nb
	}
	return out
}

// BlockDownloadFailing reports whether a scripted failure of the block
// download occurred in one of the last three rounds of the session: the client
// then had no block to decide the pending conflict by.
func (fs *FilterSession) BlockDownloadFailing() bool {
	n := len(fs.RoundBlockFails)
	for i := max(0, n-3); i < n; i++ {
		if fs.RoundBlockFails[i] > 0 {
			return true
		}
	}
	return false
}

// BlockFailFixed is the number of seed-independent plans at the head of the
// family's plan list.
const BlockFailFixed = 4

// BlockFailPlanFromSeed derives plan idx of the family (pure function; the
// first BlockFailFixed plans do not depend on seed).
func BlockFailPlanFromSeed(seed int64, idx int) FilterPlan {
	p := FilterPlan{}
	p.Name = fmt.Sprintf("bf-%d-%d", seed, idx)
	p.Preset = chaingen.PresetNoRetarget
	p.WithBlocks = true
	p.SpacingSec = 5
	p.SnapOmit = true
	omit := func(h int32, liarSeed int64) PeerBehaviour {
		return PeerBehaviour{Lies: []netsim.Lie{{Kind: netsim.LieOmitScript, Height: h}}, LiarSeed: liarSeed}
	}
	if idx < BlockFailFixed {
		p.Seed = 880001 + int64(idx)
		switch idx {
		case 0:
			// At the tip: two peers serve the same filter without one output
			// script of block ~30, one peer is honest; the block download
			// fails once, then succeeds.
			p.ChainLen = 60
			p.Behaviours = []PeerBehaviour{omit(30, 0), {}, omit(30, 0)}
			p.BlockFault = BlockFault{Kind: "first", K: 1, Scope: "disputed", Err: "timeout"}
			p.Family = "blockfail/tip/majority-liars/once"
		case 1:
			// Checkpoint lists differ (the same coalition, block ~500 of 1060):
			// the download fails once while the lists are being told apart.
			p.ChainLen = 1060
			p.Behaviours = []PeerBehaviour{omit(500, 0), omit(500, 0), {}}
			p.BlockFault = BlockFault{Kind: "first", K: 1, Err: "notfound"}
			p.Family = "blockfail/checkpoints/majority-liars/once"
		case 2:
			// The block never arrives: three liars, one honest peer.
			p.ChainLen = 90
			p.Behaviours = []PeerBehaviour{{}, omit(45, 0), omit(45, 0), omit(45, 0)}
			p.BlockFault = BlockFault{Kind: "always", Scope: "disputed", Err: "timeout"}
			p.Family = "blockfail/tip/majority-liars/never"
		case 3:
			// Two rounds fail; a fourth peer advertises a hash its filter does
			// not hash to (found without the block) about the same block, and
			// the chain grows meanwhile.
			p.ChainLen = 120
			p.Behaviours = []PeerBehaviour{omit(70, 0), omit(70, 0), {},
				{Lies: []netsim.Lie{{Kind: netsim.LieWrongHash, Height: 70}}}}
			p.BlockFault = BlockFault{Kind: "first", K: 2, Err: "canceled"}
			p.Growth = 1
			p.Family = "blockfail/tip/majority-liars+wrong-hash/twice"
		}
		return p
	}

	r := newRand(seed^0xb10cfa1, int64(idx))
	p.Seed = seed*1000003 + int64(idx) + 1300000
	path := "tip"
	p.ChainLen = 25 + r.Intn(260)
	if r.Intn(3) == 0 {
		path = "checkpoints"
		p.ChainLen = 1000 + r.Intn(1300)
	}
	at := int32(1 + r.Intn(p.ChainLen))
	// The coalition's lie: mostly provable (a script left out); sometimes a
	// padded filter, which the block cannot expose (then only derivability of
	// what is committed is asserted).
	kind, kname := netsim.LieOmitScript, "omit"
	if r.Intn(8) == 0 {
		kind, kname = netsim.LieExtraElem, "extra"
	}
	coalition := PeerBehaviour{Lies: []netsim.Lie{{Kind: kind, Height: at}}, LiarSeed: p.Seed ^ 0x51ed}
	nh := 1 + r.Intn(4)/3
	nl, rel := nh+1+r.Intn(2), "majority-liars"
	switch r.Intn(6) {
	case 0:
		nl, rel = nh, "tie"
	case 1:
		nh, nl, rel = 2+r.Intn(2), 1+r.Intn(2), "minority-liars"
	}
	for i := 0; i < nh; i++ {
		p.Behaviours = append(p.Behaviours, PeerBehaviour{})
	}
	for i := 0; i < nl; i++ {
		p.Behaviours = append(p.Behaviours, coalition)
	}
	extra := ""
	switch r.Intn(6) {
	case 0:
		// A liar of another kind about the same block: exposed without the
		// block, after which the remaining peers still disagree.
		k := []string{netsim.LieWrongHash, netsim.LieUnserved}[r.Intn(2)]
		p.Behaviours = append(p.Behaviours, PeerBehaviour{Lies: []netsim.Lie{{Kind: k, Height: at}}})
		extra = "+" + k
	case 1:
		// A second disputed block.
		p.Behaviours = append(p.Behaviours, omit(int32(1+r.Intn(p.ChainLen)), 0))
		extra = "+second-block"
	case 2:
		p.Behaviours = append(p.Behaviours, PeerBehaviour{Silent: true})
		extra = "+silent"
	}
	r.Shuffle(len(p.Behaviours), func(i, j int) { p.Behaviours[i], p.Behaviours[j] = p.Behaviours[j], p.Behaviours[i] })

	f := BlockFault{Err: []string{"timeout", "timeout", "notfound", "canceled"}[r.Intn(4)]}
	how := ""
	switch r.Intn(8) {
	case 0, 1, 2, 3:
		f.Kind, f.K = "first", 1+r.Intn(3)
		how = []string{"", "once", "twice", "thrice"}[f.K]
	case 4:
		f.Kind, f.K = "first-overall", 1+r.Intn(2)
		how = []string{"", "once", "twice"}[f.K]
	default:
		f.Kind, how = "always", "never"
	}
	switch r.Intn(7) {
	case 0, 1, 2:
		f.Scope = "disputed"
	case 3:
		f.Scope, how = "other", "control"
	}
	p.BlockFault = f
	p.Reorgs = []int{0, 0, 0, 1}[r.Intn(4)]
	p.Growth = []int{0, 0, 1, 3}[r.Intn(4)]
	p.Legacy = r.Intn(5) == 0
	p.Family = fmt.Sprintf("blockfail/%s/%s-%s%s/%s", path, rel, kname, extra, how)
	return p
}

// RunBlockFailFilter runs the first n plans of the family on a worker pool
// (no process-global hooks: the sessions are independent).
func RunBlockFailFilter(seed int64, n int, cb FilterCallbacks) {
	workers := min(runtime.NumCPU(), 16)
	jobs := make(chan int)
	var wg sync.WaitGroup
	for w := 0; w < workers; w++ {
		wg.Add(1)
		go func() {
			defer wg.Done()
			for i := range jobs {
				fs, err := RunFilterSession(BlockFailPlanFromSeed(seed, i), cb.OnStep, cb.OnStoreErr)
				if cb.OnEnd != nil {
					cb.OnEnd(fs, err)
				}
				if fs != nil && fs.Session != nil {
					fs.Close()
					removeDir(fs.Session)
				}
			}
		}()
	}
	// Longest sessions first.
	var short []int
	for i := 0; i < n; i++ {
		if BlockFailPlanFromSeed(seed, i).ChainLen >= 1000 {
			jobs <- i
		} else {
			short = append(short, i)
		}
	}
	for _, i := range short {
		jobs <- i
	}
	close(jobs)
	wg.Wait()
}
