package l1

import (
	"fmt"
	"runtime"
	"sync"

	"verif/internal/chaingen"
	"verif/internal/netsim"
)

// Two families around the BATCHED (checkpointed) filter-header sync.
//
// Family "truncbatch": peers that answer a getcfheaders with a TRUNCATED batch
// (netsim.LieTruncate): the requested stop hash, the right previous filter
// header and only the first N of the true filter hashes. N = one whole
// checkpoint interval of a two-interval request (the batch then hashes up to
// the INTERMEDIATE checkpoint), or an odd count (1, 999, 1001, 1500, random).
// Peer sets: the truncating peer alone, every peer truncating, truncating
// peers next to honest ones (and next to the provable liars of the original
// families, or a silent peer), on chains with at least two whole checkpoint
// intervals to fetch; many are longer than 3000 so that a further batch
// follows the truncated one.
//
// Family "twostage": sessions in which the checkpointed sync STARTS FROM A
// PARTIALLY STORED INTERVAL (FilterPlan.PreLen): stage 1 syncs a chain of
// PreLen blocks completely (filter tip = PreLen: 20..900, 1000+x, 2000+x;
// sometimes exactly on a checkpoint as control), stage 2 lets the honest
// chain end at least 1100 blocks higher (optionally forking a few blocks
// below the stage-1 tip), syncs the block headers and continues the filter
// rounds, with honest peers, the original liars, truncating peers, growth and
// reorganisations mixed in.
//
// No new oracle: CheckC03 (a truncating peer says nothing false about any
// block, so with an honest peer present the ground truth must be committed,
// the session must not end behind, no honest peer is banned; in every session
// the stores stay readable and nothing panics) and CheckC19 (the events of
// every step, those of the partially stored first range included, carry the
// header AND height of the block committed).

// TruncFixed / TwoStageFixed: seed-independent plans at the head of each list.
const (
	TruncFixed    = 4
	TwoStageFixed = 3
)

// Session seeds of the seed-independent plans (they draw the order in which
// the scripted dispatcher offers a request to the peers: with those of
// truncbatch plan 2 and twostage plan 2 a truncating peer is asked before an
// honest one when no callback draws from the session PRNG).
var (
	truncFixedSeeds    = [TruncFixed]int64{990001, 990002, 990033, 990004}
	twoStageFixedSeeds = [TwoStageFixed]int64{995001, 995002, 995033}
)

// TruncFixedIndex / TwoStageFixedIndex return the index of the seed-independent
// plan p is (-1: none).
func TruncFixedIndex(p FilterPlan) int {
	for i, sd := range truncFixedSeeds {
		if p.PreLen == 0 && p.Seed == sd {
			return i
		}
	}
	return -1
}

func TwoStageFixedIndex(p FilterPlan) int {
	for i, sd := range twoStageFixedSeeds {
		if p.PreLen > 0 && p.Seed == sd {
			return i
		}
	}
	return -1
}

func catchUpBase(name string) FilterPlan {
	p := FilterPlan{}
	p.Name = name
	p.Preset = chaingen.PresetNoRetarget
	p.WithBlocks = true
	p.SpacingSec = 5
	return p
}

func truncator(keep int32) PeerBehaviour {
	return PeerBehaviour{Lies: []netsim.Lie{{Kind: netsim.LieTruncate, Height: keep}}}
}

// drawKeep: the number of hashes a truncating peer keeps. whole = exactly one
// checkpoint interval.
func drawKeep(r interface{ Intn(int) int }, whole bool) int32 {
	if whole {
		return 1000
	}
	switch r.Intn(6) {
	case 0:
		return 1
	case 1:
		return 999
	case 2:
		return 1001
	case 3:
		return 1500
	case 4:
		return int32(1 + r.Intn(1999))
	}
	return 1000
}

// TruncPlanFromSeed derives plan idx of family truncbatch (pure function; the
// first TruncFixed plans do not depend on seed).
func TruncPlanFromSeed(seed int64, idx int) FilterPlan {
	p := catchUpBase(fmt.Sprintf("tb-%d-%d", seed, idx))
	if idx < TruncFixed {
		p.Seed = truncFixedSeeds[idx]
		switch idx {
		case 0:
			// The only peer answers the one two-interval request (1..2000)
			// with the first interval's hashes.
			p.ChainLen = 2040
			p.Behaviours = []PeerBehaviour{truncator(1000)}
			p.Family = "truncbatch/lone/whole-interval"
		case 1:
			// Every peer does; a single-interval request (2001..3000) is
			// part of the same batch, so something is written after the
			// truncated answer whichever request is answered first.
			p.ChainLen = 3030
			p.Behaviours = []PeerBehaviour{truncator(1000), truncator(1000), truncator(1000)}
			p.Family = "truncbatch/all/whole-interval/further-batch"
		case 2:
			// Two truncating peers next to an honest one.
			p.ChainLen = 2300
			p.Behaviours = []PeerBehaviour{truncator(1000), {}, truncator(1000)}
			p.Family = "truncbatch/mixed/whole-interval"
		case 3:
			// Odd truncations next to an honest peer: each of them is simply
			// not an answer.
			p.ChainLen = 2200
			p.Behaviours = []PeerBehaviour{truncator(1), truncator(999), {}, truncator(1001), truncator(1500)}
			p.Family = "truncbatch/mixed/odd"
		}
		return p
	}
	r := newRand(seed^0x7c0ba7c4, int64(idx))
	p.Seed = seed*1000003 + int64(idx) + 1700000
	p.ChainLen = 2000 + r.Intn(1000)
	if r.Intn(2) == 0 {
		p.ChainLen = 3000 + r.Intn(1300)
	}
	whole := r.Intn(3) != 0
	style := "odd"
	if whole {
		style = "whole-interval"
	}
	tr := func() PeerBehaviour {
		b := truncator(drawKeep(r, whole))
		if r.Intn(6) == 0 {
			// A truncating peer that also tells a provable lie somewhere.
			b.Lies = append(b.Lies, netsim.Lie{Kind: netsim.ProvableLies[r.Intn(3)], Height: int32(1 + r.Intn(p.ChainLen))})
		}
		return b
	}
	switch r.Intn(5) {
	case 0:
		p.Behaviours = []PeerBehaviour{tr()}
		p.Family = "truncbatch/lone/" + style
	case 1:
		for i, n := 0, 2+r.Intn(3); i < n; i++ {
			p.Behaviours = append(p.Behaviours, tr())
		}
		p.Family = "truncbatch/all/" + style
	default:
		for i, n := 0, 1+r.Intn(2); i < n; i++ {
			p.Behaviours = append(p.Behaviours, PeerBehaviour{})
		}
		for i, n := 0, 1+r.Intn(4); i < n; i++ {
			p.Behaviours = append(p.Behaviours, tr())
		}
		switch r.Intn(5) {
		case 0:
			p.Behaviours = append(p.Behaviours, PeerBehaviour{Silent: true})
		case 1:
			p.Behaviours = append(p.Behaviours, PeerBehaviour{Lies: []netsim.Lie{{
				Kind: netsim.ProvableLies[r.Intn(3)], Height: int32(1 + r.Intn(p.ChainLen))}}})
		}
		r.Shuffle(len(p.Behaviours), func(i, j int) { p.Behaviours[i], p.Behaviours[j] = p.Behaviours[j], p.Behaviours[i] })
		p.Family = "truncbatch/mixed/" + style
	}
	if p.ChainLen >= 3000 {
		p.Family += "/further-batch"
	}
	p.Reorgs = []int{0, 0, 0, 1}[r.Intn(4)]
	p.Growth = []int{0, 0, 1, 40}[r.Intn(4)]
	p.Legacy = r.Intn(5) == 0
	return p
}

// TwoStagePlanFromSeed derives plan idx of family twostage (pure function;
// the first TwoStageFixed plans do not depend on seed).
func TwoStagePlanFromSeed(seed int64, idx int) FilterPlan {
	p := catchUpBase(fmt.Sprintf("ts-%d-%d", seed, idx))
	if idx < TwoStageFixed {
		p.Seed = twoStageFixedSeeds[idx]
		switch idx {
		case 0:
			// Synced to 332, then 1168 behind: one single-interval request
			// (1..1000) of which 332 headers are already stored.
			p.PreLen, p.ChainLen = 332, 1500
			p.Behaviours = []PeerBehaviour{{}, {}}
			p.Family = "twostage/first-interval/honest"
		case 1:
			// Synced to 1007, then 2093 behind: a two-interval request
			// (1001..3000) with 7 headers already stored; a provable liar
			// further up.
			p.PreLen, p.ChainLen = 1007, 3100
			p.Behaviours = []PeerBehaviour{{}, {Lies: []netsim.Lie{{Kind: netsim.LieWrongHash, Height: 2600}}}}
			p.Family = "twostage/later-interval/honest+provable"
		case 2:
			// The stage-2 chain forks 5 blocks below the stage-1 tip (filter
			// tip 595 after the rollback); a truncating peer next to two
			// honest ones; two requests (1..2000, 2001..3000).
			p.PreLen, p.PreFork, p.ChainLen = 600, 5, 3050
			p.Behaviours = []PeerBehaviour{{}, truncator(1000), {}}
			p.Family = "twostage/first-interval/forked/honest+truncating"
		}
		return p
	}
	r := newRand(seed^0x2b57a6e, int64(idx))
	p.Seed = seed*1000003 + int64(idx) + 2100000
	where := ""
	switch r.Intn(8) {
	case 0, 1, 2, 3:
		p.PreLen, where = 20+r.Intn(880), "first-interval"
	case 4, 5:
		p.PreLen, where = 1001+r.Intn(998), "later-interval"
	case 6:
		p.PreLen, where = 2001+r.Intn(600), "later-interval"
	default:
		// Control: the stage-1 tip sits exactly on a checkpoint.
		p.PreLen, where = 1000*(1+r.Intn(2)), "on-checkpoint"
	}
	p.ChainLen = p.PreLen + 1100 + r.Intn(1400)
	if r.Intn(4) == 0 {
		p.ChainLen = p.PreLen + 1000 + r.Intn(100)
	}
	if r.Intn(4) == 0 {
		p.PreFork = 1 + r.Intn(min(30, p.PreLen-1))
		where += "/forked"
	}
	who := "honest"
	for i, n := 0, 1+r.Intn(2); i < n; i++ {
		p.Behaviours = append(p.Behaviours, PeerBehaviour{})
	}
	switch r.Intn(5) {
	case 0:
		// honest peers only
	case 1, 2:
		for i, n := 0, 1+r.Intn(2); i < n; i++ {
			p.Behaviours = append(p.Behaviours, PeerBehaviour{Lies: []netsim.Lie{{
				Kind: netsim.ProvableLies[r.Intn(3)], Height: int32(1 + r.Intn(p.ChainLen))}}})
		}
		who = "honest+provable"
	case 3:
		for i, n := 0, 1+r.Intn(2); i < n; i++ {
			p.Behaviours = append(p.Behaviours, truncator(drawKeep(r, r.Intn(3) != 0)))
		}
		who = "honest+truncating"
	default:
		kinds := []string{netsim.LieExtraElem, netsim.LiePrevHdr, netsim.LieCount, netsim.LieCheckpt, netsim.LieShortCP}
		k := kinds[r.Intn(len(kinds))]
		h := int32(1 + r.Intn(p.ChainLen))
		if k == netsim.LieCheckpt {
			h = int32(1+r.Intn(p.ChainLen/1000)) * 1000
		}
		p.Behaviours = append(p.Behaviours, PeerBehaviour{Lies: []netsim.Lie{{Kind: k, Height: h}}})
		who = "honest+other"
	}
	if r.Intn(8) == 0 {
		p.Behaviours = append(p.Behaviours, PeerBehaviour{Silent: true})
	}
	r.Shuffle(len(p.Behaviours), func(i, j int) { p.Behaviours[i], p.Behaviours[j] = p.Behaviours[j], p.Behaviours[i] })
	p.Family = "twostage/" + where + "/" + who
	p.Reorgs = []int{0, 0, 1, 2}[r.Intn(4)]
	p.Growth = []int{0, 0, 1, 3, 40}[r.Intn(5)]
	p.Legacy = r.Intn(5) == 0
	return p
}

// RunCatchUpFilter runs the first nTrunc plans of family truncbatch and the
// first nTwo plans of family twostage on a worker pool (no process-global
// hooks: the sessions are independent), longest chains first.
func RunCatchUpFilter(seed int64, nTrunc, nTwo int, cb FilterCallbacks) {
	var plans []FilterPlan
	for i := 0; i < nTrunc; i++ {
		plans = append(plans, TruncPlanFromSeed(seed, i))
	}
	for i := 0; i < nTwo; i++ {
		plans = append(plans, TwoStagePlanFromSeed(seed, i))
	}
	// Stable order by decreasing chain length (buckets of 500 blocks).
	var order []int
	for b := 12; b >= 0; b-- {
		for i, p := range plans {
			if min(p.ChainLen/500, 12) == b {
				order = append(order, i)
			}
		}
	}
	workers := min(runtime.NumCPU(), 16)
	jobs := make(chan int)
	var wg sync.WaitGroup
	for w := 0; w < workers; w++ {
		wg.Add(1)
		go func() {
			defer wg.Done()
			for i := range jobs {
				fs, err := RunFilterSession(plans[i], cb.OnStep, cb.OnStoreErr)
				if cb.OnEnd != nil {
					cb.OnEnd(fs, err)
				}
				if fs != nil && fs.Session != nil {
					fs.Close()
					removeDir(fs.Session)
				}
			}
		}()
	}
	for _, i := range order {
		jobs <- i
	}
	close(jobs)
	wg.Wait()
}
