package l1

import (
	"errors"
	"sync"

	"github.com/btcsuite/btcd/btcutil/v2"
	"github.com/btcsuite/btcd/chainhash/v2"
	"github.com/btcsuite/btcd/wire/v2"
	"github.com/lightninglabs/neutrino"
	"github.com/lightninglabs/neutrino/query"

	"verif/internal/chaingen"
)

// ScriptNet is the scripted network seen by the block manager in L1: it
// implements query.Dispatcher, queryAllPeers and GetBlock over the session's
// peers. Each peer answers from its netsim.Peer (honest view + Mutate), so a
// lie is always a labelled deviation from the honest answer.
type ScriptNet struct {
	s  *Session
	mu sync.Mutex

	// Per-peer switches, indexed like Session.Peers.
	banned map[string]bool
	silent map[string]bool

	// BlockFail makes GetBlock fail for the listed hashes.
	BlockFail map[chainhash.Hash]bool

	// Served records, per peer address, every response message handed to
	// the client (for the "provably false" classification).
	Served map[string][]wire.Message

	wg sync.WaitGroup

	QueriesAll int
	// afterQuery, when armed, runs once after the queryLeft-th QueryAllPeers
	// call from now on returned (all answers delivered).
	afterQuery   func()
	queryLeft    int
	QueriesBatch int
	BlocksServed int

	// BlockFault, when set, is consulted on every GetBlock call for a block
	// the generator knows: nthForBlock / nthOverall count the calls (from 1)
	// for that hash / for any hash. A non-nil result is returned to the client
	// as the error of the block download (nil = the block is served).
	BlockFault func(n *chaingen.Node, nthForBlock, nthOverall int) error
	// BlockCalls records every GetBlock call (block height, whether it failed
	// by script); BlockFaults counts the scripted failures.
	BlockCalls  []BlockCall
	BlockFaults int
	blockCount  map[chainhash.Hash]int
}

// BlockCall is one GetBlock call seen by the scripted network.
type BlockCall struct {
	Height int32
	Failed bool
}

// BlockFaultCount returns the number of scripted GetBlock failures so far.
func (n *ScriptNet) BlockFaultCount() int {
	n.mu.Lock()
	defer n.mu.Unlock()
	return n.BlockFaults
}

func newScriptNet(s *Session) *ScriptNet {
	return &ScriptNet{s: s, banned: map[string]bool{}, silent: map[string]bool{},
		BlockFail: map[chainhash.Hash]bool{}, Served: map[string][]wire.Message{}}
}

func (n *ScriptNet) onBan(addr string) { n.mu.Lock(); n.banned[addr] = true; n.mu.Unlock() }

// SetSilent makes a peer ignore scripted queries.
func (n *ScriptNet) SetSilent(addr string, v bool) { n.mu.Lock(); n.silent[addr] = v; n.mu.Unlock() }

// IsBanned reports whether BanPeer was called for addr.
func (n *ScriptNet) IsBanned(addr string) bool {
	n.mu.Lock()
	defer n.mu.Unlock()
	return n.banned[addr]
}

// active returns the peers that would still be connected: not banned (the
// real client disconnects a banned peer) and not disconnected.
func (n *ScriptNet) active() []*SimPeer {
	n.mu.Lock()
	defer n.mu.Unlock()
	var out []*SimPeer
	for _, p := range n.s.Peers {
		if n.banned[p.Addr] || p.Disconnected() {
			continue
		}
		out = append(out, p)
	}
	return out
}

func (n *ScriptNet) respond(p *SimPeer, req wire.Message) []wire.Message {
	n.mu.Lock()
	sil := n.silent[p.Addr]
	n.mu.Unlock()
	if sil {
		return nil
	}
	resp, _ := p.Rec.Honest(req)
	if p.Rec.Mutate != nil {
		resp = p.Rec.Mutate(p.Rec, req, resp)
	}
	n.mu.Lock()
	n.Served[p.Addr] = append(n.Served[p.Addr], resp...)
	n.mu.Unlock()
	return resp
}

func isClosed(c chan struct{}) bool {
	select {
	case <-c:
		return true
	default:
		return false
	}
}

// ArmAfterQuery makes the k-th QueryAllPeers call from now on run f right
// after it returned (f nil disarms). One-shot.
func (n *ScriptNet) ArmAfterQuery(k int, f func()) {
	n.mu.Lock()
	n.afterQuery, n.queryLeft = f, k
	n.mu.Unlock()
}

func (n *ScriptNet) queryDone() {
	n.mu.Lock()
	var f func()
	if n.afterQuery != nil {
		n.queryLeft--
		if n.queryLeft <= 0 {
			f, n.afterQuery = n.afterQuery, nil
		}
	}
	n.mu.Unlock()
	if f != nil {
		f()
	}
}

// QueryAllPeers mimics ChainService.queryAllPeers: the message goes to every
// connected peer; every message a peer sends back is handed, serially on one
// goroutine, to checkResponse until that peer's quit channel or the query's
// quit channel is closed. The interleaving of different peers' responses is
// drawn from the session PRNG.
func (n *ScriptNet) QueryAllPeers(queryMsg wire.Message,
	checkResponse func(sp *neutrino.ServerPeer, resp wire.Message,
		quit chan<- struct{}, peerQuit chan<- struct{}),
	_ ...neutrino.QueryOption) {

	n.mu.Lock()
	n.QueriesAll++
	n.mu.Unlock()
	defer n.queryDone()
	peers := n.active()
	type stream struct {
		p    *SimPeer
		msgs []wire.Message
		quit chan struct{}
	}
	var streams []*stream
	for _, p := range peers {
		streams = append(streams, &stream{p, n.respond(p, queryMsg), make(chan struct{})})
	}
	queryQuit := make(chan struct{})
	for {
		var live []*stream
		for _, st := range streams {
			if len(st.msgs) > 0 && !isClosed(st.quit) {
				live = append(live, st)
			}
		}
		if len(live) == 0 || isClosed(queryQuit) {
			return
		}
		st := live[n.s.Rng.Intn(len(live))]
		m := st.msgs[0]
		st.msgs = st.msgs[1:]
		checkResponse(st.p.SP, m, queryQuit, st.quit)
	}
}

// ErrScriptedTimeout is what a batch gets when no peer answered a request.
var ErrScriptedTimeout = errors.New("scripted network: no peer answered the request")

// Query implements query.Dispatcher: each request is offered to the active
// peers in a PRNG-drawn order until one of them finishes it; requests are
// processed in a PRNG-drawn order (so responses arrive permuted), optionally
// with duplicates.
func (n *ScriptNet) Query(reqs []*query.Request, _ ...query.QueryOption) chan error {
	n.mu.Lock()
	n.QueriesBatch++
	n.mu.Unlock()
	errChan := make(chan error, 1)
	n.wg.Add(1)
	order := n.s.Rng.Perm(len(reqs))
	// Pre-draw all random choices on the caller's goroutine: the session PRNG
	// is not safe for concurrent use.
	peerOrders := make([][]int, len(reqs))
	for i := range reqs {
		peerOrders[i] = n.s.Rng.Perm(len(n.s.Peers))
	}
	go func() {
		defer n.wg.Done()
		for _, ri := range order {
			req := reqs[ri]
			finished := false
			for _, pi := range peerOrders[ri] {
				p := n.s.Peers[pi]
				if n.IsBanned(p.Addr) || p.Disconnected() {
					continue
				}
				for _, m := range n.respond(p, req.Req) {
					pr := req.HandleResp(req.Req, m, p.Addr)
					if pr.Finished {
						finished = true
						break
					}
				}
				if finished {
					break
				}
			}
			if !finished {
				errChan <- ErrScriptedTimeout
				return
			}
		}
		errChan <- nil
	}()
	return errChan
}

// Wait blocks until every Query goroutine has finished.
func (n *ScriptNet) Wait() { n.wg.Wait() }

// GetBlock serves the generator's block for a hash.
func (n *ScriptNet) GetBlock(h chainhash.Hash, _ ...neutrino.QueryOption) (*btcutil.Block, error) {
	n.mu.Lock()
	fail := n.BlockFail[h]
	n.BlocksServed++
	fault := n.BlockFault
	n.mu.Unlock()
	nd := n.s.G.Lookup(h)
	if fail || nd == nil || nd.Block == nil {
		return nil, errors.New("scripted network: block unavailable")
	}
	if fault != nil {
		n.mu.Lock()
		if n.blockCount == nil {
			n.blockCount = map[chainhash.Hash]int{}
		}
		n.blockCount[h]++
		nth, all := n.blockCount[h], len(n.BlockCalls)+1
		n.mu.Unlock()
		err := fault(nd, nth, all)
		n.mu.Lock()
		n.BlockCalls = append(n.BlockCalls, BlockCall{nd.Height, err != nil})
		if err != nil {
			n.BlockFaults++
		}
		n.mu.Unlock()
		if err != nil {
			return nil, err
		}
	}
	return btcutil.NewBlock(nd.Block), nil
}
