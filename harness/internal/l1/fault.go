package l1

import (
	"errors"
	"fmt"
	"os"
	"path/filepath"
	"runtime"
	"strconv"
	"sync"
	"time"

	"github.com/btcsuite/btcd/chaincfg/v2"
	"github.com/btcsuite/btcwallet/walletdb"
	"github.com/lightninglabs/neutrino/headerfs"
)

// I/O faults UNDERNEATH the real stores.
//
// A session opened with SessionConfig.Faulty has both flat files (through the
// client's headerfs.VerifWrapFile hook) and the shared database wrapped. The
// wrappers are transparent until ONE transient fault is armed (Session.ArmFault):
// the k-th call of one method on one target, counted over the calls the CLIENT
// makes while it handles the next message (or runs the next filter-header
// round), returns an error once; everything before and after it goes through
// to the real file / database. Calls made by the harness itself (the reads of
// the monitors, made on the session's goroutine while the handler runs on its
// own) are neither counted nor failed.
//
// Fault model = exactly one transient error return (for a write: optionally
// after some of the bytes reached the file). Nothing is dropped silently, no
// data is corrupted, no second fault follows.

// Fault targets.
const (
	FTBlockFile  = "bfile" // block_headers.bin
	FTFilterFile = "ffile" // reg_filter_headers.bin
	FTDB         = "db"    // the walletdb database both indexes live in
)

// Fault kinds (FaultSpec.Op) and the wrapped method each of them hits.
const (
	FOWrite0   = "write0"   // Write returns (0, err), nothing written
	FOShort    = "short"    // Write lets Bytes bytes through (default: half, whole records if possible), then fails
	FOTruncate = "truncate" // Truncate fails without truncating
	FOSync     = "sync"     // Sync fails
	FOReadAt   = "readat"   // ReadAt fails
	FOStat     = "stat"     // Stat fails
	FOSeek     = "seek"     // Seek fails
	FOUpdate   = "update"   // db.Update fails without running the closure
	FOCommit   = "commit"   // db.Update runs the closure, then rolls back and fails (the commit failed)
	FOView     = "view"     // db.View fails without running the closure
)

func faultMethod(op string) string {
	switch op {
	case FOWrite0, FOShort:
		return "write"
	case FOUpdate, FOCommit:
		return "update"
	}
	return op
}

// ErrInjectedIO is what every injected fault returns.
var ErrInjectedIO = errors.New("verif: injected transient I/O error")

// FaultSpec is one transient fault: the Index-th call (from 0) of the method
// Op hits, on Target. With After set ("target/method", e.g. "ffile/write" or
// "db/update") the count only starts once a call of that method on that target
// has SUCCEEDED, counted from arming: "the first read after the batch was
// written".
type FaultSpec struct {
	Target string
	Op     string
	Index  int
	After  string `json:",omitempty"`
	Bytes  int    `json:",omitempty"`
}

func (f FaultSpec) String() string {
	s := fmt.Sprintf("%s/%s#%d", f.Target, f.Op, f.Index)
	if f.After != "" {
		s += "-after-" + f.After
	}
	return s
}

// Shape is the fault without its position (for signatures / fingerprints).
func (f FaultSpec) Shape() string {
	s := f.Target + "/" + f.Op
	if f.After != "" {
		s += "-after-" + f.After
	}
	return s
}

// FaultCtl is shared by the wrappers of one session.
type FaultCtl struct {
	mu        sync.Mutex
	spec      *FaultSpec
	gid       int64 // goroutine the client's handler runs on (0: none running)
	count     int
	afterSeen bool
	fired     bool
	// Calls counts the client's calls per "target/method" since the session
	// began (evidence: what a session exercised).
	Calls map[string]int
}

func newFaultCtl() *FaultCtl { return &FaultCtl{Calls: map[string]int{}} }

func curGID() int64 {
	var buf [64]byte
	s := buf[:runtime.Stack(buf[:], false)]
	const pre = len("goroutine ")
	i := pre
	for i < len(s) && s[i] >= '0' && s[i] <= '9' {
		i++
	}
	n, _ := strconv.ParseInt(string(s[pre:i]), 10, 64)
	return n
}

// arm installs the fault; it stays until it fired or disarm is called.
func (c *FaultCtl) arm(f FaultSpec) {
	c.mu.Lock()
	c.spec, c.count, c.afterSeen, c.fired = &f, 0, f.After == "", false
	c.mu.Unlock()
}

// disarm removes the fault and reports whether it fired.
func (c *FaultCtl) disarm() bool {
	c.mu.Lock()
	defer c.mu.Unlock()
	f := c.fired
	c.spec, c.fired = nil, false
	return f
}

func (c *FaultCtl) hasFired() bool { c.mu.Lock(); defer c.mu.Unlock(); return c.fired }

// reached reports whether the armed fault fired or, for a fault positioned
// after an event, whether that event was seen (the position was reached even
// if the client made no further call of the kind that would have failed).
func (c *FaultCtl) reached() bool {
	c.mu.Lock()
	defer c.mu.Unlock()
	return c.fired || c.spec != nil && c.spec.After != "" && c.afterSeen
}

// enter / leave bracket the client's handler on its goroutine.
func (c *FaultCtl) enter() { g := curGID(); c.mu.Lock(); c.gid = g; c.mu.Unlock() }
func (c *FaultCtl) leave() { c.mu.Lock(); c.gid = 0; c.mu.Unlock() }

// hit is called by the wrappers before a call goes through; it returns the
// fault to inject (nil: none).
func (c *FaultCtl) hit(target, method string) *FaultSpec {
	c.mu.Lock()
	if c.gid == 0 {
		c.mu.Unlock()
		return nil
	}
	c.mu.Unlock()
	g := curGID()
	c.mu.Lock()
	defer c.mu.Unlock()
	if g != c.gid {
		return nil
	}
	c.Calls[target+"/"+method]++
	f := c.spec
	if f == nil || c.fired || !c.afterSeen || f.Target != target || faultMethod(f.Op) != method {
		return nil
	}
	if c.count != f.Index {
		c.count++
		return nil
	}
	c.fired = true
	q := *f
	return &q
}

// ok is called by the wrappers after a call succeeded.
func (c *FaultCtl) ok(target, method string) {
	c.mu.Lock()
	if f := c.spec; f != nil && !c.afterSeen && c.gid != 0 && f.After == target+"/"+method {
		c.mu.Unlock()
		g := curGID()
		c.mu.Lock()
		if g == c.gid {
			c.afterSeen = true
		}
	}
	c.mu.Unlock()
}

// faultFile wraps the flat file of one store.
type faultFile struct {
	headerfs.File
	ctl     *FaultCtl
	target  string
	recSize int
}

func (f *faultFile) Write(p []byte) (int, error) {
	plan := f.ctl.hit(f.target, "write")
	if plan == nil {
		n, err := f.File.Write(p)
		if err == nil {
			f.ctl.ok(f.target, "write")
		}
		return n, err
	}
	n := 0
	if plan.Op == FOShort {
		n = plan.Bytes
		if n == 0 {
			if recs := len(p) / f.recSize; recs >= 2 {
				n = (recs / 2) * f.recSize
			} else {
				n = len(p) / 2
			}
		}
		if n >= len(p) {
			n = len(p) - 1
		}
	}
	if n > 0 {
		if m, err := f.File.Write(p[:n]); err != nil || m != n {
			return m, err
		}
	}
	return n, ErrInjectedIO
}

func (f *faultFile) Truncate(size int64) error {
	if f.ctl.hit(f.target, "truncate") != nil {
		return ErrInjectedIO
	}
	err := f.File.Truncate(size)
	if err == nil {
		f.ctl.ok(f.target, "truncate")
	}
	return err
}

func (f *faultFile) Sync() error {
	if f.ctl.hit(f.target, "sync") != nil {
		return ErrInjectedIO
	}
	return f.File.Sync()
}

func (f *faultFile) ReadAt(p []byte, off int64) (int, error) {
	if f.ctl.hit(f.target, "readat") != nil {
		return 0, ErrInjectedIO
	}
	return f.File.ReadAt(p, off)
}

func (f *faultFile) Stat() (os.FileInfo, error) {
	if f.ctl.hit(f.target, "stat") != nil {
		return nil, ErrInjectedIO
	}
	return f.File.Stat()
}

func (f *faultFile) Seek(off int64, whence int) (int64, error) {
	if f.ctl.hit(f.target, "seek") != nil {
		return 0, ErrInjectedIO
	}
	return f.File.Seek(off, whence)
}

// faultDB wraps the database both stores share.
type faultDB struct {
	walletdb.DB
	ctl *FaultCtl
}

func (d *faultDB) Update(f func(tx walletdb.ReadWriteTx) error, reset func()) error {
	switch plan := d.ctl.hit(FTDB, "update"); {
	case plan == nil:
	case plan.Op == FOCommit:
		return d.DB.Update(func(tx walletdb.ReadWriteTx) error {
			if err := f(tx); err != nil {
				return err
			}
			return ErrInjectedIO
		}, reset)
	default:
		return ErrInjectedIO
	}
	err := d.DB.Update(f, reset)
	if err == nil {
		d.ctl.ok(FTDB, "update")
	}
	return err
}

func (d *faultDB) View(f func(tx walletdb.ReadTx) error, reset func()) error {
	if d.ctl.hit(FTDB, "view") != nil {
		return ErrInjectedIO
	}
	return d.DB.View(f, reset)
}

// openStoresFaulty opens (or reopens) the stores in dir the way OpenStores
// does - through the constructors a starting client uses - with the database
// and both flat files wrapped. The wrappers are installed after the
// constructors ran: start-up reconciliation is never faulted.
func openStoresFaulty(dir string, p *chaincfg.Params, ctl *FaultCtl) (*Stores, error) {
	db, err := walletdb.Create("bdb", filepath.Join(dir, "neutrino.db"), true, 10*time.Second, false)
	if err != nil {
		return nil, err
	}
	wdb := &faultDB{DB: db, ctl: ctl}
	s := &Stores{Dir: dir, DB: db, Ctl: ctl}
	b, err := headerfs.NewBlockHeaderStore(dir, wdb, p)
	if err != nil {
		_ = db.Close()
		return nil, fmt.Errorf("NewBlockHeaderStore: %w", err)
	}
	if err := headerfs.VerifWrapFile(b, func(f headerfs.File) headerfs.File {
		s.files = append(s.files, f)
		return &faultFile{File: f, ctl: ctl, target: FTBlockFile, recSize: headerfs.BlockHeaderSize}
	}); err != nil {
		_ = db.Close()
		return nil, err
	}
	f, err := headerfs.NewFilterHeaderStore(dir, wdb, headerfs.RegularFilter, p, nil)
	if err != nil {
		s.closeFiles()
		_ = db.Close()
		return nil, fmt.Errorf("NewFilterHeaderStore: %w", err)
	}
	if err := headerfs.VerifWrapFile(f, func(fl headerfs.File) headerfs.File {
		s.files = append(s.files, fl)
		return &faultFile{File: fl, ctl: ctl, target: FTFilterFile, recSize: headerfs.RegularFilterHeaderSize}
	}); err != nil {
		s.closeFiles()
		_ = db.Close()
		return nil, err
	}
	s.Block, s.Filter = b, f
	return s, nil
}

func (s *Stores) closeFiles() {
	for _, f := range s.files {
		_ = f.Close()
	}
	s.files = nil
}

// ArmFault arms one transient fault for the client's next handler call(s): it
// stays armed until it fired or DisarmFault is called (the family calls it at
// the end of the message / filter-header round the fault was meant for).
func (s *Session) ArmFault(f FaultSpec) {
	if s.Ctl == nil {
		panic("ArmFault on a session without the fault layer")
	}
	s.note("fault armed: %s", f)
	s.LastFaultReached = false
	s.armed = &f
	s.Ctl.arm(f)
}

// DisarmFault removes an armed fault that has not fired.
func (s *Session) DisarmFault() {
	if s.Ctl != nil && s.armed != nil {
		s.LastFaultReached = s.Ctl.reached()
		s.Ctl.disarm()
		s.armed = nil
	}
}

// afterHandler is called by the step functions once the handler call has
// returned (or panicked): it records a fired fault in the observation and
// turns a panic in a step with a fired fault into what it is for the user: the
// process died at that point and is started again on the same directory.
func (s *Session) afterHandler(st *StepObs) error {
	if s.Ctl == nil || s.armed == nil {
		return nil
	}
	if !s.Ctl.hasFired() {
		return nil
	}
	st.Fault = s.armed.String()
	st.FaultShape = s.armed.Shape()
	s.LastFaultReached = true
	s.Ctl.disarm()
	s.armed = nil
	s.FaultsFired++
	s.note("fault fired in step %d (%s)", st.Index, st.Kind)
	if st.Panic == "" {
		return nil
	}
	st.Crash, st.Panic = st.Panic, ""
	s.note("client went down: %s -- restarting on the same directory", st.Crash)
	return s.Restart()
}

// RestartErr is returned when the stores or the block manager cannot be
// brought up again on the directory a crashed client left behind.
type RestartErr struct{ Err error }

func (e *RestartErr) Error() string { return e.Err.Error() }

// Restart abandons the block manager and the store objects (the process is
// gone: its peers are gone with it, its files and database are closed), opens
// the stores again from disk through the constructors and constructs a fresh
// block manager. Peers are reconnected by the caller (Session.Reconnect).
func (s *Session) Restart() error {
	for _, p := range s.Peers {
		if !p.Disconnected() {
			p.gone = true
		}
		p.done = true // the new process never knew it: no peer-done event
		p.Close()
	}
	s.Stores.closeFiles()
	s.Stores.Close()
	st, err := openStoresFaulty(s.Stores.Dir, s.G.P, s.Ctl)
	if err != nil {
		return &RestartErr{fmt.Errorf("stores do not open after the crash: %w", err)}
	}
	s.Stores = st
	if err := s.newBM(); err != nil {
		return &RestartErr{fmt.Errorf("block manager does not start on the reopened stores: %w", err)}
	}
	s.Restarts++
	return nil
}
