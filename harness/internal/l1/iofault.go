package l1

import (
	"fmt"
	"runtime"
	"sync"

	"github.com/btcsuite/btcd/wire/v2"

	"verif/internal/chaingen"
	"verif/internal/netsim"
)

// Family "iofault": ONE transient I/O error underneath the real stores (a
// flat-file Write / short write / Truncate / Sync / ReadAt / Stat / Seek, or a
// database Update / View of the index, failing once: fault.go) while the block
// manager handles one headers message or runs one filter-header round, at a
// chosen call position, in sessions in which block headers AND filter headers
// are synced and the honest chain then grows, reorganises (with the committed
// filter tip above the fork point) or an off-chain peer runs into a hard-coded
// block checkpoint (the rollback to the previous checkpoint) - and the session
// CARRIES ON afterwards: the same branch is offered again, filter-header
// rounds run, the chain grows and reorganises again.
//
// A panic of the client in a step in which the fault fired is what it is for
// the user: the process died there. The harness abandons the block manager and
// the store objects, closes files and database, reopens the stores through the
// constructors and constructs a fresh block manager (Session.Restart); the
// peers connect again and the session continues. If the client survives the
// error, every monitor applies unchanged from that message on (C01 stored
// chain valid and lookups agreeing; C02 reorganisation decisions - in the very
// step of the fault: no state off the way of the sanctioned transition, no
// completeness -; C03 filter headers belong to the blocks of the current chain,
// none survives its block, honest peers not banned, no stall; C19 every
// committed filter header announced, every removed block header announced,
// backlog = committed chain).

// IOEvent is one stage of an iofault session.
type IOEvent struct {
	// Kind: "grow" (the honest chain grows by N blocks), "reorg" (it forks N
	// blocks below its tip; the new branch is N+1+Extra long), "badcp" (a peer
	// that is not on the honest chain serves headers from the stored tip that
	// run N blocks past the next hard-coded checkpoint, missing it), "catchup"
	// (nothing happens to the chain: filter-header rounds only).
	Kind  string
	N     int `json:",omitempty"`
	Extra int `json:",omitempty"`
	// Fault, when set, is armed for the event's first headers message (On =
	// "headers") or for the first filter-header round after it (On = "round").
	Fault *FaultSpec `json:",omitempty"`
	On    string     `json:",omitempty"`
}

// IOFaultFixed is the number of seed-independent plans at the head of the list.
const IOFaultFixed = 11

// IOFaultFixedIndex returns which seed-independent plan p is (-1: none).
func IOFaultFixedIndex(p FilterPlan) int {
	if len(p.IOEvents) > 0 && p.Seed >= 660000 && p.Seed < 660000+IOFaultFixed {
		return int(p.Seed - 660000)
	}
	return -1
}

// IOFaultPlanFromSeed derives plan idx of the family (pure function; the
// first IOFaultFixed plans do not depend on seed).
func IOFaultPlanFromSeed(seed int64, idx int) FilterPlan {
	p := FilterPlan{}
	p.Name = fmt.Sprintf("iof-%d-%d", seed, idx)
	p.Preset = chaingen.PresetNoRetarget
	p.WithBlocks = true
	p.SpacingSec = 5
	p.Faulty = true
	honest := func(n int) []PeerBehaviour { return make([]PeerBehaviour, n) }
	f := func(target, op string, index int, after string) *FaultSpec {
		return &FaultSpec{Target: target, Op: op, Index: index, After: after}
	}
	tail := []IOEvent{{Kind: "grow", N: 2}, {Kind: "reorg", N: 2}, {Kind: "grow", N: 3}}
	if idx < IOFaultFixed {
		p.Seed = 660000 + int64(idx)
		p.ChainLen, p.IOStart = 70, 30
		p.Behaviours = honest(2)
		switch idx {
		case 0:
			// A reorganisation 3 deep with the filter headers caught up; the
			// truncate of the filter-header file fails in the rollback of the
			// first block.
			p.IOEvents = []IOEvent{{Kind: "reorg", N: 3, Fault: f(FTFilterFile, FOTruncate, 0, ""), On: "headers"}}
			p.Family = "iofault/reorg/ffile-truncate"
		case 1:
			// The truncate of the block-header file fails in the rollback of
			// the second of 4 blocks.
			p.IOEvents = []IOEvent{{Kind: "reorg", N: 4, Extra: 1, Fault: f(FTBlockFile, FOTruncate, 1, ""), On: "headers"}}
			p.Family = "iofault/reorg/bfile-truncate"
		case 2:
			// Checkpoints at 12 and 40; synced (filter headers too) to 36; a
			// peer off the honest chain misses the checkpoint at 40: rollback
			// to 12, the first truncate of the block-header file fails.
			p.BlockCPs = []int32{12, 40}
			p.IOStart = 36
			p.IOEvents = []IOEvent{{Kind: "badcp", N: 2, Fault: f(FTBlockFile, FOTruncate, 0, ""), On: "headers"}}
			p.Family = "iofault/badcp/bfile-truncate"
		case 3:
			// The same with the third truncate of the filter-header file.
			p.BlockCPs = []int32{12, 40}
			p.IOStart = 36
			p.IOEvents = []IOEvent{{Kind: "badcp", N: 1, Fault: f(FTFilterFile, FOTruncate, 2, ""), On: "headers"}}
			p.Family = "iofault/badcp/ffile-truncate"
		case 4:
			// Growth by 3; in the filter-header round the first database View
			// after the batch was committed (file written, index updated) fails.
			p.IOEvents = []IOEvent{{Kind: "grow", N: 3, Fault: f(FTDB, FOView, 0, "db/update"), On: "round"}}
			p.Family = "iofault/grow/round/db-view-after-commit"
		case 5:
			// The same with the first read of the filter-header file.
			p.IOEvents = []IOEvent{{Kind: "grow", N: 3, Fault: f(FTFilterFile, FOReadAt, 0, "db/update"), On: "round"}}
			p.Family = "iofault/grow/round/ffile-readat-after-commit"
		case 6:
			// A short write of the block-header file during a batch of 6.
			p.IOEvents = []IOEvent{{Kind: "grow", N: 6, Fault: f(FTBlockFile, FOShort, 0, ""), On: "headers"}}
			p.Family = "iofault/grow/bfile-short-write"
		case 7:
			// Checkpoint rollback: the first database View after a block header
			// was taken off the file fails (the look-up of the new tip that the
			// disconnected event carries).
			p.BlockCPs = []int32{12, 40}
			p.IOStart = 36
			p.IOEvents = []IOEvent{{Kind: "badcp", N: 1, Fault: f(FTDB, FOView, 0, "bfile/truncate"), On: "headers"}}
			p.Family = "iofault/badcp/db-view-after-block-rollback"
		case 8:
			// A reorganisation in which the write of the first header of the new
			// branch (right after the rollback) fails.
			p.IOEvents = []IOEvent{{Kind: "reorg", N: 2, Extra: 2, Fault: f(FTBlockFile, FOWrite0, 0, ""), On: "headers"}}
			p.Family = "iofault/reorg/bfile-write-fork-header"
		case 10:
			// Block headers synced to 1060, filter headers not yet: the
			// checkpointed filter-header fetch (one batch of 1000) with a short
			// write of the filter-header file, then the rest at the tip.
			p.ChainLen, p.IOStart, p.IOLazy = 1090, 1060, true
			p.IOEvents = []IOEvent{{Kind: "catchup", Fault: f(FTFilterFile, FOShort, 0, ""), On: "round"}}
			p.Family = "iofault/catchup/checkpointed/ffile-short-write"
		case 9:
			// Control: a reorganisation and growth with the wrappers in place
			// and a fault armed at a position that is never reached.
			p.IOEvents = []IOEvent{{Kind: "reorg", N: 3, Fault: f(FTBlockFile, FOSync, 40, ""), On: "headers"}}
			p.Family = "iofault/control"
		}
		p.IOEvents = append(p.IOEvents, tail...)
		return p
	}
	r := newRand(seed^0x10fa017, int64(idx))
	p.Seed = seed*1000003 + int64(idx) + 2600000
	p.IOStart = 15 + r.Intn(50)
	p.ChainLen = p.IOStart + 60
	p.Behaviours = honest(1 + r.Intn(3))
	if r.Intn(3) == 0 {
		p.Behaviours = append(p.Behaviours, PeerBehaviour{Lies: []netsim.Lie{{
			Kind: netsim.ProvableLies[1+r.Intn(2)], Height: int32(p.IOStart + 1 + r.Intn(12))}}})
		r.Shuffle(len(p.Behaviours), func(i, j int) { p.Behaviours[i], p.Behaviours[j] = p.Behaviours[j], p.Behaviours[i] })
	}
	lazy := r.Intn(8) == 0
	if lazy {
		// The checkpointed filter-header fetch under a fault.
		p.IOStart = 1000 + r.Intn(80)
		p.ChainLen = p.IOStart + 40
		p.IOLazy = true
	}
	withCP := !lazy && r.Intn(3) == 0
	if withCP {
		a := int32(3 + r.Intn(p.IOStart-6))
		p.BlockCPs = []int32{a, int32(p.IOStart + 1 + r.Intn(6))}
	}
	randFault := func(on, kind string) *FaultSpec {
		fs := &FaultSpec{}
		if on == "round" {
			switch r.Intn(8) {
			case 0:
				*fs = FaultSpec{Target: FTDB, Op: FOView, Index: r.Intn(2), After: "db/update"}
			case 1:
				*fs = FaultSpec{Target: FTFilterFile, Op: FOReadAt, Index: 0, After: []string{"db/update", "ffile/write"}[r.Intn(2)]}
			case 2:
				*fs = FaultSpec{Target: FTDB, Op: FOView, Index: r.Intn(8)}
			case 3:
				*fs = FaultSpec{Target: []string{FTFilterFile, FTBlockFile}[r.Intn(2)], Op: FOReadAt, Index: r.Intn(4)}
			case 4:
				*fs = FaultSpec{Target: FTFilterFile, Op: []string{FOWrite0, FOShort}[r.Intn(2)]}
			case 5:
				*fs = FaultSpec{Target: FTDB, Op: []string{FOUpdate, FOCommit}[r.Intn(2)]}
			case 6:
				*fs = FaultSpec{Target: FTFilterFile, Op: []string{FOSeek, FOSync, FOTruncate, FOStat}[r.Intn(4)]}
			default:
				*fs = FaultSpec{Target: FTBlockFile, Op: FOReadAt, Index: 0, After: "ffile/write"}
			}
			return fs
		}
		depth := 6
		if kind == "grow" {
			depth = 1
		}
		switch r.Intn(10) {
		case 0, 1:
			*fs = FaultSpec{Target: FTBlockFile, Op: FOTruncate, Index: r.Intn(depth)}
		case 2, 3:
			*fs = FaultSpec{Target: FTFilterFile, Op: FOTruncate, Index: r.Intn(depth)}
		case 4:
			*fs = FaultSpec{Target: FTDB, Op: FOView, Index: r.Intn(4), After: []string{"bfile/truncate", "ffile/truncate", "db/update"}[r.Intn(3)]}
		case 5:
			*fs = FaultSpec{Target: FTDB, Op: []string{FOUpdate, FOCommit}[r.Intn(2)], Index: r.Intn(2 * depth)}
		case 6:
			*fs = FaultSpec{Target: FTBlockFile, Op: []string{FOWrite0, FOShort}[r.Intn(2)], Index: r.Intn(2)}
		case 7:
			*fs = FaultSpec{Target: []string{FTBlockFile, FTFilterFile}[r.Intn(2)], Op: []string{FOStat, FOSeek, FOSync}[r.Intn(3)], Index: r.Intn(depth)}
		case 8:
			*fs = FaultSpec{Target: []string{FTBlockFile, FTFilterFile}[r.Intn(2)], Op: FOReadAt, Index: r.Intn(3 * depth)}
		default:
			*fs = FaultSpec{Target: FTDB, Op: FOView, Index: r.Intn(5 * depth)}
		}
		return fs
	}
	n := 3 + r.Intn(3)
	shapes := ""
	for i := 0; i < n; i++ {
		ev := IOEvent{}
		switch k := r.Intn(10); {
		case lazy && i == 0:
			ev = IOEvent{Kind: "catchup"}
			ev.On = "round"
			ev.Fault = randFault(ev.On, ev.Kind)
			shapes += "/" + ev.Kind + ":" + ev.On + ":" + ev.Fault.Shape()
			p.IOEvents = append(p.IOEvents, ev)
			continue
		case withCP && i == 0:
			ev = IOEvent{Kind: "badcp", N: 1 + r.Intn(3)}
		case k < 4:
			ev = IOEvent{Kind: "reorg", N: 1 + r.Intn(6), Extra: r.Intn(3)}
		default:
			ev = IOEvent{Kind: "grow", N: 1 + r.Intn(6)}
		}
		if i < 2 || r.Intn(3) == 0 {
			ev.On = "headers"
			if ev.Kind == "grow" && r.Intn(2) == 0 {
				ev.On = "round"
			}
			ev.Fault = randFault(ev.On, ev.Kind)
			shapes += "/" + ev.Kind + ":" + ev.On + ":" + ev.Fault.Shape()
		}
		p.IOEvents = append(p.IOEvents, ev)
	}
	p.IOEvents = append(p.IOEvents, IOEvent{Kind: "grow", N: 1 + r.Intn(3)})
	p.Family = "iofault/random" + shapes
	return p
}

// IOFaultRecord is what became of one armed fault.
type IOFaultRecord struct {
	Event string
	Spec  FaultSpec
	On    string
	Fired bool
	// Reached: it fired, or (a fault positioned after an event) that event
	// happened while it was armed and the client made no further call of the
	// kind that was to fail.
	Reached bool
	Crash   bool
	Step    string // kind of the step it fired in
}

// RunIOFaultSession executes one session of the family.
func RunIOFaultSession(plan FilterPlan, cb FilterCallbacks) (*FilterSession, error) {
	s, err := NewSession(plan.SessionConfig)
	if err != nil {
		return nil, err
	}
	fs := &FilterSession{Session: s, Plan: plan, Liars: map[string]*netsim.Liar{},
		Behav: map[string]PeerBehaviour{}, OnStep: cb.OnStep}
	g := s.G
	fs.Trunk = g.Extend(g.Genesis, plan.ChainLen, chaingen.PaceNormal)
	if len(plan.BlockCPs) > 0 {
		g.SetCheckpoints(fs.Trunk[len(fs.Trunk)-1], plan.BlockCPs...)
	}
	if err := s.Open(); err != nil {
		return fs, err
	}
	first := fs.Trunk[plan.IOStart-1]
	s.View.SetTip(first)
	for i, b := range plan.Behaviours {
		p, err := s.AddPeer(first.Height, wire.SFNodeNetwork|wire.SFNodeWitness|wire.SFNodeCF)
		if err != nil {
			return fs, err
		}
		fs.Behav[p.Addr] = b
		if len(b.Lies) > 0 {
			l := netsim.NewLiar(plan.Seed+int64(i), b.Lies...)
			fs.Liars[p.Addr] = l
			p.Rec.Mutate = l.Mutate
		}
	}
	var noteFired func(st *StepObs)
	fail := func(err error) (*FilterSession, error) {
		noteFired(fs.lastStep)
		switch e := err.(type) {
		case *StoreErr:
			cb.OnStoreErr(fs, fs.lastStep, e.Err)
			return fs, nil
		case *RestartErr:
			cb.OnStoreErr(fs, fs.lastStep, e.Err)
			return fs, nil
		}
		return fs, err
	}
	// record notes what became of the fault armed for an event.
	var rec *IOFaultRecord
	noteFired = func(st *StepObs) {
		if rec != nil && st != nil && st.Fault != "" {
			rec.Fired, rec.Crash, rec.Step = true, st.Crash != "", st.Kind
			if st.Crash == "" && s.SigSuffix == "" {
				s.SigSuffix = "/io-fault-survived:" + rec.Event + ":" + rec.On + ":" + rec.Spec.Shape()
			}
		}
	}
	inner := fs.OnStep
	fs.OnStep = func(f *FilterSession, st *StepObs) {
		fs.lastStep = st
		noteFired(st)
		if inner != nil {
			inner(f, st)
		}
	}

	// offer sends the honest chain up to target from the sync peer, message by
	// message, from the fork point with the stored chain (the same branch is
	// offered again as long as the client has not adopted it; a bounded number
	// of times). A fault armed by the caller is disarmed after the first
	// message.
	offer := func(target *chaingen.Node, kind string) error {
		for tries := 0; tries < 6; tries++ {
			cur := fs.TipNode()
			if cur == nil {
				return fmt.Errorf("stored tip unknown to generator")
			}
			if cur == target {
				return nil
			}
			fp := chaingen.ForkPoint(cur, target)
			path := target.Path()
			from := int(fp.Height) + 1
			to := min(from+wire.MaxBlockHeadersPerMsg, len(path))
			if from >= to {
				return nil
			}
			k := kind
			if fp != cur {
				k = "fork"
			}
			st, err := fs.SendHeaders(k, fs.senderIndex(), path[from:to], nil)
			s.DisarmFault()
			if err != nil {
				if st != nil {
					fs.lastStep = st
				}
				return err
			}
			fs.OnStep(fs, st)
			if st.Crash != "" {
				if err := fs.Reconnect(); err != nil {
					return err
				}
			}
			if err := fs.dropDisconnected(); err != nil {
				return err
			}
		}
		return nil
	}
	// rounds runs filter-header rounds until the filter headers caught up or
	// three rounds in a row brought nothing.
	rounds := func(armed bool) error {
		for round, idle := 0, 0; round < 14 && idle < 3; round++ {
			progress, err := fs.Round()
			if armed {
				s.DisarmFault()
				armed = false
			}
			if err != nil {
				return err
			}
			if progress {
				idle = 0
			} else {
				idle++
			}
			_, bt, e1 := s.Stores.Block.ChainTip()
			_, ft, e2 := s.Stores.Filter.ChainTip()
			if e1 == nil && e2 == nil && ft >= bt {
				break
			}
		}
		return nil
	}

	// grow: the honest chain n blocks on, along the planned trunk while it is on
	// it (the hard-coded checkpoints describe the trunk).
	grow := func(cur *chaingen.Node, n int) *chaingen.Node {
		if h := int(cur.Height); h >= 1 && h <= len(fs.Trunk) && fs.Trunk[h-1] == cur && h+n <= len(fs.Trunk) {
			return fs.Trunk[h+n-1]
		}
		br := g.Extend(cur, n, chaingen.PaceNormal)
		return br[len(br)-1]
	}
	if err := offer(first, "ext"); err != nil {
		return fail(err)
	}
	if !plan.IOLazy {
		if err := rounds(false); err != nil {
			return fail(err)
		}
	}
	for i, ev := range plan.IOEvents {
		cur := s.View.Tip()
		target := cur
		rec = nil
		if ev.Fault != nil && s.SigSuffix != "" {
			// ONE fault the client lives on with per session: what breaks
			// afterwards has one root cause. (After a crash and restart the
			// session is on a freshly started client again and goes on arming.)
			s.note("fault of event %d not armed: an earlier one fired and the client carried on", i)
			ev.Fault = nil
		}
		if ev.Fault != nil {
			fs.FaultLog = append(fs.FaultLog, IOFaultRecord{Event: ev.Kind, Spec: *ev.Fault, On: ev.On})
			rec = &fs.FaultLog[len(fs.FaultLog)-1]
		}
		s.note("event %d: %s n=%d extra=%d", i, ev.Kind, ev.N, ev.Extra)
		switch ev.Kind {
		case "grow":
			// Along the planned trunk while the honest chain is on it (the
			// hard-coded checkpoints describe it).
			target = grow(cur, ev.N)
		case "reorg":
			d := int32(ev.N)
			// Not below a checkpoint the honest chain has passed: the honest
			// chain never contradicts the hard-coded checkpoints.
			floor := int32(0)
			for _, cp := range g.P.Checkpoints {
				if cp.Height <= cur.Height && cp.Height > floor {
					floor = cp.Height
				}
			}
			if cur.Height-d < floor {
				d = cur.Height - floor
			}
			blocked := false
			for _, cp := range g.P.Checkpoints {
				if cp.Height > cur.Height-d {
					// A checkpoint on or above the part that would be replaced.
					if cp.Height > cur.Height {
						blocked = true // still ahead: the honest chain must reach it
					}
				}
			}
			if d < 1 || blocked {
				target = grow(cur, 1)
				break
			}
			f := cur.Ancestor(cur.Height - d)
			br := g.Extend(f, int(d)+1+ev.Extra, chaingen.PaceNormal)
			target = br[len(br)-1]
		case "badcp":
			t := fs.TipNode()
			var cpH int32
			for _, cp := range g.P.Checkpoints {
				if t != nil && cp.Height > t.Height && (cpH == 0 || cp.Height < cpH) {
					cpH = cp.Height
				}
			}
			if t == nil || cpH == 0 {
				s.note("badcp skipped: no checkpoint ahead")
				break
			}
			wrong := g.Extend(t, int(cpH-t.Height)+ev.N, chaingen.PaceNormal)
			bad, err := s.AddPeer(wrong[len(wrong)-1].Height, wire.SFNodeNetwork|wire.SFNodeWitness|wire.SFNodeCF)
			if err != nil {
				return fs, err
			}
			fs.Behav[bad.Addr] = PeerBehaviour{Silent: true}
			s.Net.SetSilent(bad.Addr, true)
			if ev.Fault != nil && ev.On == "headers" {
				s.ArmFault(*ev.Fault)
			}
			st, err := fs.SendHeaders("ext-bad-checkpoint", len(s.Peers)-1, wrong, nil)
			s.DisarmFault()
			if err != nil {
				if st != nil {
					fs.lastStep = st
				}
				return fail(err)
			}
			fs.OnStep(fs, st)
			if st.Crash != "" {
				if err := fs.Reconnect(); err != nil {
					return fail(err)
				}
			}
			if err := fs.dropDisconnected(); err != nil {
				return fail(err)
			}
		case "catchup":
		}
		if target != cur {
			s.View.SetTip(target)
		}
		if ev.Fault != nil && ev.On == "headers" && ev.Kind != "badcp" {
			s.ArmFault(*ev.Fault)
		}
		err := offer(target, "ext")
		s.DisarmFault() // (nothing was sent: the fault goes unused)
		if rec != nil && ev.On == "headers" {
			rec.Reached = rec.Fired || s.LastFaultReached
		}
		if err != nil {
			return fail(err)
		}
		armRound := ev.Fault != nil && ev.On == "round"
		if armRound {
			s.ArmFault(*ev.Fault)
		}
		err = rounds(armRound)
		if rec != nil && ev.On == "round" {
			rec.Reached = rec.Fired || s.LastFaultReached
		}
		if err != nil {
			return fail(err)
		}
	}
	return fs, nil
}

// dropDisconnected delivers the peer-done event for every peer the client
// disconnected (as the server does when the connection is gone), so that the
// block manager picks another sync peer; when no peer is left a new honest one
// connects.
func (fs *FilterSession) dropDisconnected() error {
	for i, p := range fs.Peers {
		if !p.Disconnected() || p.done {
			continue
		}
		p.done = true
		st, err := fs.DonePeer(i)
		if err != nil {
			if st != nil {
				fs.lastStep = st
			}
			return err
		}
		fs.OnStep(fs, st)
	}
	for _, p := range fs.Peers {
		if !p.Disconnected() && !fs.Net.IsBanned(p.Addr) && fs.Behav[p.Addr].Honest() {
			return nil
		}
	}
	p, err := fs.AddPeer(fs.View.Tip().Height, wire.SFNodeNetwork|wire.SFNodeWitness|wire.SFNodeCF)
	if err != nil {
		return err
	}
	fs.Behav[p.Addr] = PeerBehaviour{}
	return nil
}

// RunIOFaultFilter runs the first n plans of family iofault on a worker pool.
func RunIOFaultFilter(seed int64, n int, cb FilterCallbacks) {
	workers := min(runtime.NumCPU(), 16)
	jobs := make(chan int)
	var wg sync.WaitGroup
	for w := 0; w < workers; w++ {
		wg.Add(1)
		go func() {
			defer wg.Done()
			for i := range jobs {
				fs, err := RunIOFaultSession(IOFaultPlanFromSeed(seed, i), cb)
				if cb.OnEnd != nil {
					cb.OnEnd(fs, err)
				}
				if fs != nil && fs.Session != nil {
					fs.Close()
					if fs.Stores != nil {
						removeDir(fs.Session)
					}
				}
			}
		}()
	}
	// The sessions with long chains first.
	for pass := 0; pass < 2; pass++ {
		for i := 0; i < n; i++ {
			if IOFaultPlanFromSeed(seed, i).IOLazy == (pass == 0) {
				jobs <- i
			}
		}
	}
	close(jobs)
	wg.Wait()
}

// IOFaultEvidence summarises what a finished session of the family observed:
// counters, marks (fingerprints of what was reached) and, for a seed-independent
// plan that did not reach the shape it is there for, a reason to call the run
// inconclusive.
func IOFaultEvidence(fs *FilterSession) (counts map[string]int64, marks []string, inconclusive string) {
	counts = map[string]int64{"iofault_sessions": 1}
	if fs == nil || fs.Session == nil {
		return counts, nil, ""
	}
	counts["iofault_restarts_after_a_crash_of_the_client"] = int64(fs.Restarts)
	for _, rec := range fs.FaultLog {
		counts["iofault_faults_armed"]++
		switch {
		case rec.Crash:
			counts["iofault_faults_fired"]++
			counts["iofault_faults_fired_client_went_down"]++
		case rec.Fired:
			counts["iofault_faults_fired"]++
			counts["iofault_faults_fired_client_carried_on"]++
		}
		if rec.Reached && !rec.Fired {
			counts["iofault_faults_position_reached_without_a_call_to_fail"]++
		}
		if rec.Fired {
			counts["iofault_fired:"+rec.Spec.Shape()]++
			marks = append(marks, fmt.Sprintf("iofault|%s|%s|%s|in=%s|crash=%v", rec.Event, rec.On, rec.Spec.Shape(), rec.Step, rec.Crash))
		}
	}
	if fs.Ctl != nil {
		fs.Ctl.mu.Lock()
		for k, n := range fs.Ctl.Calls {
			counts["iofault_client_calls:"+k] += int64(n)
		}
		fs.Ctl.mu.Unlock()
	}
	if i := IOFaultFixedIndex(fs.Plan); i >= 0 && len(fs.FaultLog) > 0 {
		fired := fs.FaultLog[0].Reached
		switch {
		case i == 9 && fired:
			inconclusive = "iofault-control-plan-fault-fired"
		case i != 9 && !fired:
			inconclusive = "iofault-fixed-plan-did-not-reach-its-fault"
		case i != 9:
			counts["iofault_fixed_plans_reaching_their_fault"] = 1
		}
	}
	return counts, marks, inconclusive
}
