package l1

import (
	"fmt"
	"math/big"
	"math/rand"
	"sync"
	"time"

	"github.com/btcsuite/btcd/blockchain"
	"github.com/btcsuite/btcd/btcutil/v2"
	"github.com/btcsuite/btcd/chainhash/v2"
	"github.com/btcsuite/btcd/wire/v2"
	"github.com/lightninglabs/neutrino"
	"github.com/lightninglabs/neutrino/banman"
	"github.com/lightninglabs/neutrino/blockntfns"
	"github.com/lightninglabs/neutrino/headerfs"

	"verif/internal/chaingen"
	"verif/internal/netsim"
	"verif/internal/ref"
)

// Ban is one recorded BanPeer callback.
type Ban struct {
	Addr   string
	Reason banman.Reason
	Step   int
}

// EventObs is one block notification together with what the stores held
// right after it was received. The sender continues after the rendezvous, so
// only facts that later steps of the same handler cannot undo are asserted:
// a connected block's filter header is stored (it is only removed by a
// rollback, which announces a disconnect), a disconnected header is no longer
// stored at its height (it cannot come back within the step).
type EventObs struct {
	Connected   bool
	Height      uint32
	Header      wire.BlockHeader
	NewTip      wire.BlockHeader // for disconnects: header of the tip afterwards
	BlockTipAt  uint32           // block store tip height read after receipt (informational)
	StillStored bool             // (disconnected) the block store still holds Header at Height after receipt
	// MidProbe is the result of a backlog probe made right after this
	// connected event was received, i.e. in the middle of a batch ("" = not
	// probed or fine).
	MidProbe     string
	FilterTipAt  uint32 // filter store tip height at receipt
	FilterHasIt  bool   // (connected) filter store already holds a header at Height
	BlockAtMatch bool   // (connected) block store's header at Height equals Header
}

// StepObs is everything the monitors see about one driver step.
type StepObs struct {
	Index   int
	Kind    string // message kind label (generator's intent)
	Desc    string
	Peer    int  // index into Session.Peers (-1: none)
	IsSync  bool // sender was the sync peer BEFORE the step
	Current bool // client considered its block headers current BEFORE the step
	Batch   []*chaingen.Node
	Hdrs    []*wire.BlockHeader
	Pre     []wire.BlockHeader // stored chain before
	Post    []wire.BlockHeader // stored chain after
	PreF    []chainhash.Hash   // stored filter-header chain before
	PostF   []chainhash.Hash   // after
	Events  []EventObs
	Disc    bool // the sender was disconnected by the client during the step
	// WriteFailed: the harness made the block header store's WriteHeaders
	// fail during this step (an injected database error: nothing written).
	WriteFailed bool
	Panic       string
	ClockNow    time.Time
	// Fault: the injected transient I/O fault that fired while the client
	// handled this step ("" = none); FaultShape: the same without its position.
	// Crash: the client panicked in a step in which a fault had fired; this is
	// the death of the process at that point: the stores were reopened from
	// disk and a fresh block manager constructed before Post/PostF were read
	// (Panic is left empty: it is not a panic of a surviving process).
	Fault, FaultShape, Crash string
}

// Session is one seeded L1 execution.
type Session struct {
	Seed   int64
	Rng    *rand.Rand
	G      *chaingen.Gen
	Stores *Stores
	BM     *neutrino.VerifBlockManager
	hooked *hookedBlockStore
	Clock  *Clock
	Log    *netsim.Log
	Peers  []*SimPeer
	View   *netsim.View

	Offered map[chainhash.Hash]*chaingen.Node // every header hash ever sent to the client
	// Removed: hashes that were stored once and were then taken off the stored
	// chain (most recent last, bounded); by-hash lookups of these must fail
	// until they are stored again.
	Removed []chainhash.Hash
	Bans    []Ban
	banMu   sync.Mutex
	Steps   []string // human-readable script (the replay witness)
	nstep   int

	// Scripted network (filter steps); see net.go.
	Net *ScriptNet

	validated []wire.BlockHeader // C01 incremental validation cache
	name      string

	// NoMidProbe disables mid-batch backlog probes (sessions that inject a
	// concurrent reorganisation, where the committed chain may change while
	// the probe reads it).
	NoMidProbe bool
	nObserved  int
	MidProbes  int

	// Fault layer (fault.go; nil / zero without SessionConfig.Faulty).
	Ctl         *FaultCtl
	armed       *FaultSpec
	FaultsFired int
	Restarts    int
	// SigSuffix is appended by the check programs to the signature of every
	// violation of this session. Empty except in sessions of family iofault from
	// the step on in which an injected I/O error fired and the client CARRIED ON
	// (iofault.go): what breaks from then on has that error, at that point, as
	// its root cause ("/io-fault-survived:<event>:<message or round>:<target>/<operation>").
	SigSuffix string
	// LastFaultReached: the most recently armed fault fired, or (a fault
	// positioned after an event) the event it waits for was seen.
	LastFaultReached bool
	faulty           bool
}

// Config of a session.
type SessionConfig struct {
	Seed       int64
	Name       string
	Preset     int
	Interval   int
	WithBlocks bool
	NumPeers   int
	SpacingSec int64
	// Faulty: open the stores with the I/O fault layer (fault.go).
	Faulty bool `json:",omitempty"`
}

// NewSession builds the generator, stores, block manager and peers.
func NewSession(c SessionConfig) (*Session, error) {
	g := chaingen.NewGen(chaingen.Config{
		Seed: c.Seed, Preset: c.Preset, Interval: c.Interval,
		GenesisTime: GenesisTime, Now: FixedNow, WithBlocks: c.WithBlocks,
		SpacingSec: c.SpacingSec,
	})
	s := &Session{
		Seed: c.Seed, Rng: rand.New(rand.NewSource(c.Seed ^ 0x5eed)), G: g,
		Clock: &Clock{t: FixedNow}, Log: netsim.NewLog(),
		Offered: map[chainhash.Hash]*chaingen.Node{}, name: c.Name, faulty: c.Faulty,
	}
	s.View = netsim.NewView(g, g.Genesis)
	return s, nil
}

// Open creates the stores and the block manager. It is separate from
// NewSession so that checkpoints can be installed in s.G.P first (the block
// manager copies the parameters at construction).
func (s *Session) Open() error {
	st, err := FreshStores(s.G, s.name)
	if err != nil {
		return err
	}
	if s.faulty {
		// The same directory, opened again with the wrappers in place.
		st.Close()
		s.Ctl = newFaultCtl()
		if st, err = openStoresFaulty(st.Dir, s.G.P, s.Ctl); err != nil {
			return err
		}
	}
	s.Stores = st
	s.Net = newScriptNet(s)
	return s.newBM()
}

// newBM constructs the block manager on s.Stores (at session start, and again
// after a crash of the client: Restart).
func (s *Session) newBM() error {
	st := s.Stores
	s.hooked = &hookedBlockStore{BlockHeaderStore: st.Block}
	bm, err := neutrino.VerifNewBlockManager(&neutrino.VerifBlockManagerConfig{
		ChainParams:      *s.G.P,
		BlockHeaders:     s.hooked,
		RegFilterHeaders: st.Filter,
		TimeSource:       s.Clock,
		QueryDispatcher:  s.Net,
		BanPeer: func(addr string, reason banman.Reason) error {
			s.banMu.Lock()
			s.Bans = append(s.Bans, Ban{addr, reason, s.nstep})
			s.banMu.Unlock()
			s.Net.onBan(addr)
			return nil
		},
		GetBlock:      s.Net.GetBlock,
		QueryAllPeers: s.Net.QueryAllPeers,
	})
	if err != nil {
		return err
	}
	s.BM = bm
	return nil
}

// AddPeer connects a peer advertising startHeight and hands it to the block
// manager (handleNewPeerMsg).
func (s *Session) AddPeer(startHeight int32, services wire.ServiceFlag) (*SimPeer, error) {
	addr := fmt.Sprintf("10.1.%d.%d:18444", len(s.Peers)/200, 1+len(s.Peers)%200)
	p, err := NewSimPeer(s.G, s.Stores, s.Log, addr, startHeight, services, s.View)
	if err != nil {
		return nil, err
	}
	s.Peers = append(s.Peers, p)
	s.note("newpeer %s start=%d", addr, startHeight)
	s.BM.HandleNewPeer(p.SP)
	return p, nil
}

// Close releases everything.
func (s *Session) Close() {
	for _, p := range s.Peers {
		p.Close()
	}
	if s.Stores != nil {
		s.Stores.Close()
	}
}

func (s *Session) note(f string, a ...any) {
	s.Steps = append(s.Steps, fmt.Sprintf("%d: ", s.nstep)+fmt.Sprintf(f, a...))
}

// ReadBlockChain reads the whole stored block-header chain through the
// store's public read API. It returns an error description when the reads
// disagree with each other in a way that makes the chain unreadable.
func (s *Session) ReadBlockChain() ([]wire.BlockHeader, error) {
	tip, h, err := s.Stores.Block.ChainTip()
	if err != nil {
		return nil, fmt.Errorf("ChainTip: %v", err)
	}
	out := make([]wire.BlockHeader, h+1)
	for i := uint32(0); i <= h; i++ {
		hd, err := s.Stores.Block.FetchHeaderByHeight(i)
		if err != nil {
			return nil, fmt.Errorf("FetchHeaderByHeight(%d) with tip %d: %v", i, h, err)
		}
		out[i] = *hd
	}
	if out[h] != *tip {
		return out, fmt.Errorf("ChainTip header differs from FetchHeaderByHeight(tip=%d)", h)
	}
	return out, nil
}

// ReadFilterChain reads the whole stored filter-header chain.
func (s *Session) ReadFilterChain() ([]chainhash.Hash, error) {
	tip, h, err := s.Stores.Filter.ChainTip()
	if err != nil {
		return nil, fmt.Errorf("filter ChainTip: %v", err)
	}
	out := make([]chainhash.Hash, h+1)
	for i := uint32(0); i <= h; i++ {
		hd, err := s.Stores.Filter.FetchHeaderByHeight(i)
		if err != nil {
			return nil, fmt.Errorf("filter FetchHeaderByHeight(%d) with tip %d: %v", i, h, err)
		}
		out[i] = *hd
	}
	if out[h] != *tip {
		return out, fmt.Errorf("filter ChainTip differs from FetchHeaderByHeight(tip=%d)", h)
	}
	return out, nil
}

// runWithEvents runs f (one synchronous block-manager call) on a goroutine
// while THIS goroutine drains the block manager's unbuffered notification
// channel. Every send completes only when received here, so when f has
// returned all its events have been recorded; stores are read at receipt
// while the sender is still blocked.
func (s *Session) runWithEvents(f func()) (evs []EventObs, panicked string) {
	done := make(chan string, 1)
	go func() {
		defer func() {
			if r := recover(); r != nil {
				done <- fmt.Sprint(r)
				return
			}
			done <- ""
		}()
		if s.Ctl != nil {
			// Only what the client does on this goroutine is subject to an
			// armed I/O fault (fault.go).
			s.Ctl.enter()
			defer s.Ctl.leave()
		}
		f()
	}()
	ch := s.BM.Notifications()
	for {
		select {
		case n := <-ch:
			evs = append(evs, s.observe(n))
		case p := <-done:
			return evs, p
		}
	}
}

func (s *Session) observe(n blockntfns.BlockNtfn) EventObs {
	e := EventObs{Height: n.Height(), Header: n.Header()}
	_, e.BlockTipAt, _ = s.Stores.Block.ChainTip()
	_, e.FilterTipAt, _ = s.Stores.Filter.ChainTip()
	switch t := n.(type) {
	case *blockntfns.Connected:
		e.Connected = true
		if _, err := s.Stores.Filter.FetchHeaderByHeight(n.Height()); err == nil && e.FilterTipAt >= n.Height() {
			e.FilterHasIt = true
		}
		if h, err := s.Stores.Block.FetchHeaderByHeight(n.Height()); err == nil && *h == n.Header() {
			e.BlockAtMatch = true
		}
		s.nObserved++
		if !s.NoMidProbe && n.Height() > 1 && (s.nObserved%97 == 1 || s.nObserved%97 == 50) {
			e.MidProbe = s.midProbe(n.Height())
		}
	case *blockntfns.Disconnected:
		e.NewTip = t.ChainTip()
		if h, err := s.Stores.Block.FetchHeaderByHeight(n.Height()); err == nil && *h == n.Header() {
			e.StillStored = true
		}
	}
	return e
}

// beginStep snapshots the pre-state for a step sent by peer pi.
func (s *Session) beginStep(kind, desc string, pi int, batch []*chaingen.Node, hdrs []*wire.BlockHeader) (*StepObs, error) {
	s.nstep++
	pre, err := s.ReadBlockChain()
	if err != nil {
		return nil, err
	}
	preF, err := s.ReadFilterChain()
	if err != nil {
		return nil, err
	}
	st := &StepObs{Index: s.nstep, Kind: kind, Desc: desc, Peer: pi, Batch: batch, Hdrs: hdrs,
		Pre: pre, PreF: preF, ClockNow: s.Clock.AdjustedTime()}
	if pi >= 0 {
		st.IsSync = s.BM.SyncPeer() == s.Peers[pi].SP
	}
	st.Current = s.BM.BlockHeadersSynced()
	return st, nil
}

func (s *Session) endStep(st *StepObs) error {
	post, err := s.ReadBlockChain()
	if err != nil {
		return err
	}
	postF, err := s.ReadFilterChain()
	if err != nil {
		return err
	}
	st.Post, st.PostF = post, postF
	if st.Peer >= 0 {
		st.Disc = s.Peers[st.Peer].Disconnected()
	}
	return nil
}

// StoreErr is returned by step functions when the stores became unreadable:
// that is itself a C01/C07-level observation handled by the monitors.
type StoreErr struct{ Err error }

func (e *StoreErr) Error() string { return e.Err.Error() }

// SendHeaders delivers a headers message from peer pi and returns the
// observation.
func (s *Session) SendHeaders(kind string, pi int, batch []*chaingen.Node, extra []*wire.BlockHeader) (*StepObs, error) {
	hdrs := chaingen.Headers(batch)
	hdrs = append(hdrs, extra...)
	for _, n := range batch {
		s.Offered[n.Hash] = n
	}
	desc := describeBatch(batch, len(extra))
	st, err := s.beginStep(kind, desc, pi, batch, hdrs)
	if err != nil {
		return nil, &StoreErr{err}
	}
	s.note("headers kind=%s peer=%d sync=%v current=%v %s", kind, pi, st.IsSync, st.Current, desc)
	msg := wire.NewMsgHeaders()
	msg.Headers = hdrs
	st.Events, st.Panic = s.runWithEvents(func() { s.BM.HandleHeaders(s.Peers[pi].SP, msg) })
	st.WriteFailed = s.hooked.takeFailed()
	if err := s.afterHandler(st); err != nil {
		return st, err
	}
	if err := s.endStep(st); err != nil {
		return st, &StoreErr{err}
	}
	return st, nil
}

// FailNextWrite makes the next WriteHeaders call of the block header store, as
// the block manager sees it, fail without writing anything (an injected
// database error). Disarmed at the end of the next SendHeaders step.
func (s *Session) FailNextWrite() { s.hooked.armFail() }

// SendInv delivers an inv message.
func (s *Session) SendInv(pi int, hashes []chainhash.Hash) (*StepObs, error) {
	st, err := s.beginStep("inv", fmt.Sprintf("n=%d", len(hashes)), pi, nil, nil)
	if err != nil {
		return nil, &StoreErr{err}
	}
	s.note("inv peer=%d n=%d", pi, len(hashes))
	msg := wire.NewMsgInv()
	for i := range hashes {
		_ = msg.AddInvVect(wire.NewInvVect(wire.InvTypeBlock, &hashes[i]))
	}
	st.Events, st.Panic = s.runWithEvents(func() { s.BM.HandleInv(s.Peers[pi].SP, msg) })
	if err := s.endStep(st); err != nil {
		return st, &StoreErr{err}
	}
	return st, nil
}

// DonePeer delivers a peer-done event (and closes the peer's connection).
func (s *Session) DonePeer(pi int) (*StepObs, error) {
	st, err := s.beginStep("donepeer", "", pi, nil, nil)
	if err != nil {
		return nil, &StoreErr{err}
	}
	s.note("donepeer peer=%d sync=%v", pi, st.IsSync)
	s.Peers[pi].SP.Disconnect()
	st.Events, st.Panic = s.runWithEvents(func() { s.BM.HandleDonePeer(s.Peers[pi].SP) })
	if err := s.endStep(st); err != nil {
		return st, &StoreErr{err}
	}
	return st, nil
}

func describeBatch(b []*chaingen.Node, extra int) string {
	if len(b) == 0 {
		return fmt.Sprintf("empty extra=%d", extra)
	}
	firstBad := -1
	rule := ""
	for i, n := range b {
		if n.Rule != "" {
			firstBad, rule = i, n.Rule
			break
		}
	}
	return fmt.Sprintf("n=%d heights=%d..%d parentH=%d firstBad=%d(%s) extra=%d",
		len(b), b[0].Height, b[len(b)-1].Height, b[0].Height-1, firstBad, rule, extra)
}

// TipNode maps the stored tip to the generator's node (nil if unknown).
func (s *Session) TipNode() *chaingen.Node {
	h, _, err := s.Stores.Block.ChainTip()
	if err != nil {
		return nil
	}
	return s.G.Lookup(h.BlockHash())
}

// WorkOf sums the work of headers.
func WorkOf(hs []wire.BlockHeader) *big.Int { return ref.Work(hs) }

// CalcWork of one header.
func CalcWork(h *wire.BlockHeader) *big.Int { return blockchain.CalcWork(h.Bits) }

var _ = btcutil.NewBlock

// midProbe asks for a backlog in the middle of a batch of connected events:
// a subscriber registering now must be offered exactly the committed blocks
// above its height, where "committed" is what the filter store holds at this
// moment (the batch was written before its events are emitted, and nothing
// else changes the stores during a non-concurrent step).
func (s *Session) midProbe(evHeight uint32) string {
	s.MidProbes++
	_, ft, err := s.Stores.Filter.ChainTip()
	if err != nil {
		return ""
	}
	h := evHeight - 1
	if h > 3 && s.nObserved%2 == 0 {
		h -= 3
	}
	ntfns, _, err := s.BM.NotificationsSinceHeight(h)
	if err != nil {
		return fmt.Sprintf("backlog from %d in the middle of a batch (event %d, committed filter tip %d) failed: %v", h, evHeight, ft, err)
	}
	if len(ntfns) != int(ft-h) {
		return fmt.Sprintf("backlog from %d requested while the event for height %d was being delivered has %d entries; the committed filter tip is %d, so %d blocks are committed above it", h, evHeight, len(ntfns), ft, ft-h)
	}
	for i, n := range ntfns {
		wh := h + 1 + uint32(i)
		hd, err := s.Stores.Block.FetchHeaderByHeight(wh)
		if err != nil || n.Height() != wh || n.Header() != *hd {
			return fmt.Sprintf("mid-batch backlog entry %d is not the committed block at height %d", i, wh)
		}
	}
	return ""
}

// hookedBlockStore is the block header store as the block manager sees it: the
// real store, plus a hook that runs right after FetchHeaderAncestors returned
// (the look-up writeCFHeadersMsg makes for the blocks a filter-header batch
// covers). What happens in the hook happens, for the block manager, between
// that look-up and whatever it does next.
type hookedBlockStore struct {
	headerfs.BlockHeaderStore
	mu             sync.Mutex
	afterAncestors func()
	afterRead      func() // armed: runs once, after the readLeft-th read call returned
	readLeft       int
	failWrite      bool // armed: the next WriteHeaders fails
	failed         bool // a WriteHeaders call was failed since takeFailed
}

func (h *hookedBlockStore) armFail() { h.mu.Lock(); h.failWrite = true; h.mu.Unlock() }

// takeFailed disarms the fault and reports whether it fired.
func (h *hookedBlockStore) takeFailed() bool {
	h.mu.Lock()
	defer h.mu.Unlock()
	f := h.failed
	h.failed, h.failWrite = false, false
	return f
}

func (h *hookedBlockStore) WriteHeaders(hdrs ...headerfs.BlockHeader) error {
	h.mu.Lock()
	fail := h.failWrite
	if fail {
		h.failWrite, h.failed = false, true
	}
	h.mu.Unlock()
	if fail {
		return fmt.Errorf("injected: header index transaction failed")
	}
	return h.BlockHeaderStore.WriteHeaders(hdrs...)
}

func (h *hookedBlockStore) setAfterAncestors(f func()) {
	h.mu.Lock()
	h.afterAncestors = f
	h.mu.Unlock()
}

// armAfterRead makes the k-th read call (ChainTip, FetchHeaderByHeight,
// FetchHeader, FetchHeaderAncestors) the block manager makes from now on run f
// right after the real call returned (f nil disarms). One-shot: the boundary
// between two store reads of the client is a place where the real scheduler
// can run the block handler.
func (h *hookedBlockStore) armAfterRead(k int, f func()) {
	h.mu.Lock()
	h.afterRead, h.readLeft = f, k
	h.mu.Unlock()
}

func (h *hookedBlockStore) readDone(err error) {
	h.mu.Lock()
	var f func()
	if h.afterRead != nil {
		h.readLeft--
		if h.readLeft <= 0 {
			f, h.afterRead = h.afterRead, nil
		}
	}
	h.mu.Unlock()
	if f != nil && err == nil {
		f()
	}
}

func (h *hookedBlockStore) ChainTip() (*wire.BlockHeader, uint32, error) {
	hdr, height, err := h.BlockHeaderStore.ChainTip()
	h.readDone(err)
	return hdr, height, err
}

func (h *hookedBlockStore) FetchHeaderByHeight(height uint32) (*wire.BlockHeader, error) {
	hdr, err := h.BlockHeaderStore.FetchHeaderByHeight(height)
	h.readDone(err)
	return hdr, err
}

func (h *hookedBlockStore) FetchHeader(hash *chainhash.Hash) (*wire.BlockHeader, uint32, error) {
	hdr, height, err := h.BlockHeaderStore.FetchHeader(hash)
	h.readDone(err)
	return hdr, height, err
}

func (h *hookedBlockStore) FetchHeaderAncestors(n uint32, stop *chainhash.Hash) ([]wire.BlockHeader, uint32, error) {
	hdrs, start, err := h.BlockHeaderStore.FetchHeaderAncestors(n, stop)
	h.mu.Lock()
	f := h.afterAncestors
	h.mu.Unlock()
	if f != nil && err == nil {
		f()
	}
	h.readDone(err)
	return hdrs, start, err
}
