package l1

import (
	"fmt"
	"sort"
	"strings"
	"time"

	"github.com/btcsuite/btcd/chainhash/v2"
	"github.com/btcsuite/btcd/wire/v2"
	"github.com/lightninglabs/neutrino"
	"github.com/lightninglabs/neutrino/banman"

	"verif/internal/chaingen"
	"verif/internal/netsim"
)

// FilterPlanFromSeed derives a filter-session plan (pure function).
// class selects the family: 0 at-tip chains (< 1000 blocks), 1 checkpointed
// chains, 2 sessions needing process-global hooks (filter checkpoints / pause
// points) which the caller runs serially.
func FilterPlanFromSeed(seed int64, idx int, class int) FilterPlan {
	if class == 3 && idx < len(boundaryFixed) {
		seed = 424242 // the first boundary sessions do not depend on the seed
	}
	r := newRand(seed^0xf117e4, int64(idx))
	p := FilterPlan{}
	p.Seed = seed*1000003 + int64(idx) + 500000
	p.Name = fmt.Sprintf("fs-%d-%d-%d", seed, class, idx)
	p.Preset = chaingen.PresetNoRetarget
	p.WithBlocks = true
	p.SpacingSec = 5
	switch class {
	case 0:
		p.ChainLen = 20 + r.Intn(300)
	case 1:
		p.ChainLen = 1000 + r.Intn(2300)
	case 3:
		p.ChainLen = 20 + r.Intn(300)
	default:
		p.ChainLen = 1000 + r.Intn(1500)
		if r.Intn(2) == 0 {
			p.ChainLen = 30 + r.Intn(200)
		}
	}
	n := 1 + r.Intn(5)
	honest := 1
	kinds := []string{netsim.LieOmitScript, netsim.LieWrongHash, netsim.LieUnserved,
		netsim.LieOmitScript, netsim.LieWrongHash, netsim.LieUnserved,
		netsim.LieExtraElem, netsim.LieCheckpt, netsim.LiePrevHdr, netsim.LieCount,
		netsim.LieShortCP, netsim.LieLongCP}
	mode := r.Intn(10) // 0-5 provable lies + honest; 6-7 any lies; 8 all honest; 9 no honest peer
	// Mode 5: a coalition: every liar tells the SAME provable lie at the same
	// height, so the honest peer is outnumbered exactly there.
	var shared *netsim.Lie
	if mode == 5 {
		shared = &netsim.Lie{Kind: kinds[r.Intn(3)], Height: int32(1 + r.Intn(p.ChainLen))}
		if n < 3 {
			n = 3 + r.Intn(3)
		}
	}
	for i := 0; i < n; i++ {
		b := PeerBehaviour{}
		switch {
		case i < honest && mode != 9:
		case mode == 8:
		case r.Intn(8) == 0:
			b.Silent = true
		default:
			k := kinds[r.Intn(6)]
			if mode >= 6 {
				k = kinds[r.Intn(len(kinds))]
			}
			h := int32(1 + r.Intn(p.ChainLen))
			if k == netsim.LieCheckpt {
				if p.ChainLen < 1000 {
					k = netsim.LieWrongHash
				} else {
					h = int32(1+r.Intn(p.ChainLen/1000)) * 1000
				}
			}
			b.Lies = []netsim.Lie{{Kind: k, Height: h}}
			if shared != nil {
				b.Lies = []netsim.Lie{*shared}
			} else if r.Intn(4) == 0 {
				b.Lies = append(b.Lies, netsim.Lie{Kind: kinds[r.Intn(3)], Height: int32(1 + r.Intn(p.ChainLen))})
			}
		}
		p.Behaviours = append(p.Behaviours, b)
	}
	// Shuffle so the honest peer is not always first.
	r.Shuffle(len(p.Behaviours), func(i, j int) { p.Behaviours[i], p.Behaviours[j] = p.Behaviours[j], p.Behaviours[i] })
	p.Reorgs = []int{0, 0, 1, 2}[r.Intn(4)]
	p.Growth = []int{0, 1, 3, 40}[r.Intn(4)]
	if class == 2 {
		switch r.Intn(5) {
		case 0:
			p.ReorgAt = "cf.beforeWrite"
		case 1:
			p.ReorgAt = "cf.afterWrite"
		case 2:
			// Right after the block manager looked up the blocks a
			// filter-header batch covers (a hook in the store it is given).
			p.ReorgAt = "store.afterAncestors"
		}
		if p.ChainLen >= 1000 && r.Intn(2) == 0 {
			p.FilterCPs = []int32{1000}
			p.FalseCP = r.Intn(3) == 0
		}
		if p.ReorgAt == "" && len(p.FilterCPs) == 0 {
			p.ReorgAt = "cf.beforeWrite"
		}
	}
	p.Legacy = r.Intn(4) == 0
	if class == 3 {
		// Class 3: a reorganisation placed at a boundary call of the at-tip
		// round (k-th block-store read / k-th all-peer query).
		if idx < len(boundaryFixed) {
			p.ReorgAt = boundaryFixed[idx]
		} else if r.Intn(3) == 0 {
			p.ReorgAt = fmt.Sprintf("net.query#%d", 1+r.Intn(3))
		} else {
			p.ReorgAt = fmt.Sprintf("store.read#%d", 1+r.Intn(8))
		}
		p.Legacy = false
		// Later rounds must exist: the honest chain keeps growing.
		p.Growth = []int{1, 1, 3}[r.Intn(3)]
		// Placements after the first query can replace a DISPUTED block also
		// in the round that starts from genesis: half of those sessions are
		// armed from the start and have their lies near the tip, where an
		// injected reorganisation (depth 1-30) reaches them.
		if !strings.HasPrefix(p.ReorgAt, "store.read#1") && !strings.HasPrefix(p.ReorgAt, "store.read#2") && idx%2 == 1 {
			p.BoundaryFromGenesis = true
			for i := range p.Behaviours {
				for j := range p.Behaviours[i].Lies {
					p.Behaviours[i].Lies[j].Height = int32(p.ChainLen - r.Intn(min(10, p.ChainLen-1)))
				}
			}
		}
	}
	return p
}

// boundaryFixed: placements of the seed-independent boundary sessions.
var boundaryFixed = []string{"store.read#1", "net.query#1", "store.read#2", "net.query#2", "store.read#3", "store.read#4"}

// isBoundaryPoint: placements served by the harness's own store / network
// wrappers rather than by a pause point of the client.
func isBoundaryPoint(name string) bool {
	return strings.HasPrefix(name, "store.read#") || strings.HasPrefix(name, "net.query#")
}

// RunFilterSession executes one filter-header session.
func RunFilterSession(plan FilterPlan, onStep func(fs *FilterSession, st *StepObs),
	onStoreErr func(fs *FilterSession, st *StepObs, err error)) (*FilterSession, error) {

	return runFilterSession(plan, onStep, onStoreErr, nil)
}

// runFilterSession is RunFilterSession with an optional gate through which
// the installation of the hard-coded filter checkpoints goes (nil: installed
// on the spot and removed at the end).
func runFilterSession(plan FilterPlan, onStep func(fs *FilterSession, st *StepObs),
	onStoreErr func(fs *FilterSession, st *StepObs, err error),
	gate func(install func())) (*FilterSession, error) {

	s, err := NewSession(plan.SessionConfig)
	if err != nil {
		return nil, err
	}
	fs := &FilterSession{Session: s, Plan: plan, Liars: map[string]*netsim.Liar{},
		Behav: map[string]PeerBehaviour{}, OnStep: onStep, gate: gate}
	g := s.G
	// first = the tip the session starts from: the final trunk's, or (two-stage
	// sessions) the tip of the shorter stage-1 chain.
	var first *chaingen.Node
	if plan.PreLen > 0 && plan.PreLen < plan.ChainLen {
		pre := g.Extend(g.Genesis, plan.PreLen, chaingen.PaceNormal)
		first = pre[len(pre)-1]
		f := first
		if plan.PreFork > 0 && plan.PreFork < plan.PreLen {
			f = first.Ancestor(first.Height - int32(plan.PreFork))
		}
		rest := g.Extend(f, plan.ChainLen-int(f.Height), chaingen.PaceNormal)
		fs.Trunk = rest[len(rest)-1].Path()[1:]
	} else {
		fs.Trunk = g.Extend(g.Genesis, plan.ChainLen, chaingen.PaceNormal)
	}
	tip := fs.Trunk[len(fs.Trunk)-1]
	if first == nil {
		first = tip
	}
	if plan.SnapOmit {
		plan.Behaviours = snapOmitLies(plan.Behaviours, fs.Trunk)
		fs.Plan = plan
	}
	if err := s.Open(); err != nil {
		return fs, err
	}
	plan.BlockFault.install(fs)
	s.View.SetTip(first)
	for i, b := range plan.Behaviours {
		p, err := s.AddPeer(first.Height, wire.SFNodeNetwork|wire.SFNodeWitness|wire.SFNodeCF)
		if err != nil {
			return fs, err
		}
		fs.Behav[p.Addr] = b
		if len(b.Lies) > 0 {
			ls := plan.Seed + int64(i)
			if b.LiarSeed != 0 {
				ls = b.LiarSeed
			}
			l := netsim.NewLiar(ls, b.Lies...)
			fs.Liars[p.Addr] = l
			p.Rec.Mutate = l.Mutate
		}
		if b.Silent {
			s.Net.SetSilent(p.Addr, true)
		}
	}
	fs.InstallFilterCheckpoints(tip)
	defer fs.UninstallFilterCheckpoints()

	fail := func(err error) (*FilterSession, error) {
		if se, ok := err.(*StoreErr); ok {
			onStoreErr(fs, nil, se.Err)
			return fs, nil
		}
		return fs, err
	}
	if err := fs.syncHeaders(first, "ext"); err != nil {
		return fail(err)
	}
	if plan.Legacy {
		chain, err := s.ReadBlockChain()
		if err != nil {
			return fail(err)
		}
		n, err := s.Stores.LegacyIndex(hashesOf(chain))
		if err != nil {
			return fs, err
		}
		s.note("index entries moved to the legacy location: %d", n)
	}

	// A reorg injected INSIDE a filter round through a pause point. The
	// header handler runs on its own goroutine (as the block handler does)
	// while the filter-header goroutine is parked at the point; if it has not
	// finished after a grace period it is evidently excluded by the code's
	// own synchronisation, so the parked goroutine is released and the
	// handler completes afterwards. The grace period only steers the
	// schedule; no verdict depends on it.
	injected := false
	if plan.ReorgAt != "" {
		s.NoMidProbe = true
		inject := func(name string) {
			if name != plan.ReorgAt || injected {
				return
			}
			injected = true
			cur := fs.TipNode()
			if cur == nil || cur.Height < 3 {
				return
			}
			d := int32(1 + s.Rng.Intn(int(min(cur.Height-1, 30))))
			f := cur.Ancestor(cur.Height - d)
			br := g.Extend(f, int(d)+1, chaingen.PaceNormal)
			s.View.SetTip(br[len(br)-1])
			s.note("reorg injected at %s: fork=%d newtip=%d", name, f.Height, br[len(br)-1].Height)
			for _, nd := range br {
				s.Offered[nd.Hash] = nd
			}
			msg := wire.NewMsgHeaders()
			msg.Headers = chaingen.Headers(br)
			sp := s.Peers[fs.senderIndex()].SP
			// A deep rollback is one database commit per block: at a boundary
			// placement (no lock of the client is held there) the change is
			// given the time to complete.
			grace := 150 * time.Millisecond
			if isBoundaryPoint(name) {
				grace = 8 * time.Second
			}
			fs.injDone = make(chan struct{})
			go func() {
				defer close(fs.injDone)
				s.BM.HandleHeaders(sp, msg)
			}()
			select {
			case <-fs.injDone:
				s.note("injected reorg ran to completion inside the window")
			case <-time.After(grace):
				s.note("injected reorg is excluded from the window (blocked); releasing")
			}
		}
		// Boundary placements need no process-global hook: such sessions run
		// in parallel with others.
		if !isBoundaryPoint(plan.ReorgAt) {
			neutrino.VerifSetPointHook(inject)
			defer neutrino.VerifSetPointHook(nil)
		}
		if plan.ReorgAt == "store.afterAncestors" {
			s.hooked.setAfterAncestors(func() { inject("store.afterAncestors") })
			defer s.hooked.setAfterAncestors(nil)
		}
		if isBoundaryPoint(plan.ReorgAt) {
			fs.AtBoundary = func() { inject(plan.ReorgAt) }
		}
	}

	// Stage 1 of a two-stage session: filter rounds until the filter headers
	// reached the stage-1 tip (or two rounds in a row brought nothing); then
	// the honest chain becomes the final trunk and its block headers are
	// synced, which leaves the filter tip wherever stage 1 put it.
	if first != tip {
		for round, idle := 0, 0; round < 12 && idle < 2; round++ {
			progress, err := fs.Round()
			if err != nil {
				return fail(err)
			}
			if progress {
				idle = 0
			} else {
				idle++
			}
			if _, ft, e := s.Stores.Filter.ChainTip(); e == nil && ft >= uint32(first.Height) {
				break
			}
		}
		if _, ft, e := s.Stores.Filter.ChainTip(); e == nil {
			fs.Stage1Tip = int(ft)
		}
		s.View.SetTip(tip)
		kind := "ext"
		if chaingen.ForkPoint(first, tip) != first {
			kind = "fork"
		}
		s.note("stage 2: honest chain now ends at %d (stage-1 tip %d, fork point %d, filter tip %d)",
			tip.Height, first.Height, chaingen.ForkPoint(first, tip).Height, fs.Stage1Tip)
		if err := fs.syncHeaders(tip, kind); err != nil {
			return fail(err)
		}
		_, bt, e1 := s.Stores.Block.ChainTip()
		_, ft, e2 := s.Stores.Filter.ChainTip()
		if e1 == nil && e2 == nil && bt > ft {
			fs.Stage2Lag = int(bt - ft)
		}
	}

	reorgsLeft := plan.Reorgs
	idle, retried := 0, 0
	for round := 0; round < 40 && idle < 3; round++ {
		faultsBefore := s.Net.BlockFaultCount()
		progress, err := fs.Round()
		if err != nil {
			return fail(err)
		}
		faults := s.Net.BlockFaultCount() - faultsBefore
		fs.RoundBlockFails = append(fs.RoundBlockFails, faults)
		switch {
		case progress:
			idle = 0
		case faults > 0 && retried < 6:
			// The block download failed by script: cfHandler would run the
			// round again later; a bounded number of such rounds does not
			// count towards ending the session.
			retried++
		default:
			idle++
		}
		// Between rounds: growth and reorganisations of the honest chain.
		cur := s.View.Tip()
		if reorgsLeft > 0 && s.Rng.Intn(2) == 0 && cur.Height > 3 {
			reorgsLeft--
			d := int32(1 + s.Rng.Intn(int(min(cur.Height-1, 40))))
			f := cur.Ancestor(cur.Height - d)
			br := g.Extend(f, int(d)+1+s.Rng.Intn(3), chaingen.PaceNormal)
			nt := br[len(br)-1]
			s.View.SetTip(nt)
			s.note("honest chain reorganises: fork=%d newtip=%d", f.Height, nt.Height)
			if err := fs.syncHeaders(nt, "fork"); err != nil {
				return fail(err)
			}
			idle = 0
		} else if plan.Growth > 0 && round < 6 {
			br := g.Extend(cur, 1+s.Rng.Intn(plan.Growth), chaingen.PaceNormal)
			nt := br[len(br)-1]
			s.View.SetTip(nt)
			if err := fs.syncHeaders(nt, "ext"); err != nil {
				return fail(err)
			}
			idle = 0
		}
	}
	return fs, nil
}

// ---------------------------------------------------------------------------

// servedHashes collects, per block hash, every filter hash any peer served
// for it in a cfheaders response so far.
func (fs *FilterSession) servedHashes() map[chainhash.Hash]map[chainhash.Hash]bool {
	out := map[chainhash.Hash]map[chainhash.Hash]bool{}
	fs.Net.mu.Lock()
	defer fs.Net.mu.Unlock()
	for _, msgs := range fs.Net.Served {
		for _, m := range msgs {
			cf, ok := m.(*wire.MsgCFHeaders)
			if !ok {
				continue
			}
			stop := fs.G.Lookup(cf.StopHash)
			if stop == nil {
				continue
			}
			n := int32(len(cf.FilterHashes))
			for i, fh := range cf.FilterHashes {
				h := stop.Height - n + 1 + int32(i)
				b := stop.Ancestor(h)
				if b == nil {
					continue
				}
				if out[b.Hash] == nil {
					out[b.Hash] = map[chainhash.Hash]bool{}
				}
				out[b.Hash][*fh] = true
			}
		}
	}
	return out
}

// Provable reports whether every lie configured in this session is of a
// provable kind and at least one peer is honest.
func (fs *FilterSession) Provable() bool {
	honest := false
	for _, b := range fs.Plan.Behaviours {
		if b.Honest() {
			honest = true
		}
		for _, l := range b.Lies {
			// A modifier of the peer's other lies, not a lie of its own; a
			// truncated batch says nothing false about any block (whatever
			// is committed from it is the truth or another lie's doing).
			ok := l.Kind == netsim.LieRejoin || l.Kind == netsim.LieTruncate
			for _, k := range netsim.ProvableLies {
				if l.Kind == k {
					ok = true
				}
			}
			if !ok {
				return false
			}
		}
	}
	return honest
}

// ProvableGivenCheckpoints is Provable, with one more kind of lie counted as
// provable: one that shows as a checkpoint-list entry contradicting a (true)
// hard-coded filter-header checkpoint of this session. (Every session starts
// with the filter headers at least one checkpoint interval behind, so such a
// peer's list is examined before any of its filter headers is.)
func (fs *FilterSession) ProvableGivenCheckpoints() bool {
	if fs.Provable() {
		return true
	}
	if len(fs.Plan.FilterCPs) == 0 || fs.Plan.FalseCP {
		return false
	}
	honest := false
	for _, b := range fs.Plan.Behaviours {
		if b.Honest() {
			honest = true
		}
		rejoin := int32(0)
		for _, l := range b.Lies {
			if l.Kind == netsim.LieRejoin {
				rejoin = l.Height
			}
		}
		for _, l := range b.Lies {
			ok := l.Kind == netsim.LieRejoin || l.Kind == netsim.LieTruncate
			for _, k := range netsim.ProvableLies {
				if l.Kind == k {
					ok = true
				}
			}
			for _, h := range fs.Plan.FilterCPs {
				switch {
				case l.Kind == netsim.LieCheckpt && h == l.Height:
					ok = true
				case l.Kind == netsim.LieExtraElem && l.Height <= h && h < rejoin:
					// The false filter hash sits at or below a hard-coded
					// height at which the peer's list carries the header
					// chained from it.
					ok = true
				}
			}
			if !ok {
				return false
			}
		}
	}
	return honest
}

// cpsDescribeChain reports whether every hard-coded checkpoint at or below
// the block tip still refers to the block on the stored chain. After a
// reorganisation replaced a checkpointed block no peer can satisfy the
// checkpoints any more (the client then refuses everybody, by design).
func (fs *FilterSession) cpsDescribeChain(post []wire.BlockHeader) bool {
	for _, cph := range fs.Plan.FilterCPs {
		if int(cph) >= len(post) {
			continue
		}
		nd := fs.G.Lookup(post[cph].BlockHash())
		if nd == nil || int(cph) > len(fs.Trunk) || fs.Trunk[cph-1] != nd {
			return false
		}
	}
	return true
}

// CheckC03 checks the committed filter-header chain after a step.
func CheckC03(fs *FilterSession, st *StepObs, final bool) []Finding {
	var out []Finding
	kc := kindClass(st.Kind)
	post, pf := st.Post, st.PostF
	if len(pf) > len(post) {
		out = append(out, Finding{"c03/filter-ahead-of-blocks/" + kc, fmt.Sprintf("filter tip %d above block tip %d", len(pf)-1, len(post)-1)})
	}
	// No entry above the tip: the by-height lookup of the height after the
	// filter tip finds nothing (an entry there belongs to no block of the
	// current chain: it survived the disconnection of its block).
	if len(pf) > 0 {
		_, t0, e0 := fs.Stores.Filter.ChainTip()
		_, e := fs.Stores.Filter.FetchHeaderByHeight(uint32(len(pf)))
		_, t1, e1 := fs.Stores.Filter.ChainTip()
		if e == nil && e0 == nil && e1 == nil && t0 == t1 && int(t0) == len(pf)-1 {
			out = append(out, Finding{"c03/filter-entry-above-tip/" + kc, fmt.Sprintf("the filter header store answers FetchHeaderByHeight(%d) although its tip is %d", len(pf), len(pf)-1)})
		}
	}
	// Which heights changed?
	from := 1
	if !final {
		c := 0
		for c < len(st.PreF) && c < len(pf) && st.PreF[c] == pf[c] && c < len(st.Pre) && c < len(post) && st.Pre[c] == post[c] {
			c++
		}
		from = max(c, 1)
	}
	var served map[chainhash.Hash]map[chainhash.Hash]bool
	// Ground truth is what must be committed when an honest peer is present
	// and every lie is provable; with hard-coded checkpoints installed, only
	// while these are true and still describe the stored chain.
	prov := fs.Provable() && len(fs.Plan.FilterCPs) == 0
	if len(fs.Plan.FilterCPs) > 0 && !fs.Plan.FalseCP {
		prov = fs.ProvableGivenCheckpoints() && fs.cpsDescribeChain(post)
	}
	for h := from; h < len(pf) && h < len(post); h++ {
		bh := post[h].BlockHash()
		nd := fs.G.Lookup(bh)
		if nd == nil {
			out = append(out, Finding{"c03/unknown-block", "stored block unknown to the generator"})
			break
		}
		if pf[h] == nd.FilterHeader {
			continue
		}
		if prov {
			out = append(out, Finding{"c03/false-header-committed/provable/" + kc,
				fmt.Sprintf("committed filter header at height %d differs from the ground truth although every lie in this session is provable and an honest peer is present", h)})
			break
		}
		// Otherwise it must at least be derivable from a served hash and its predecessor.
		if served == nil {
			served = fs.servedHashes()
		}
		ok := false
		for x := range served[bh] {
			if chaingen.FilterHeaderFrom(x, pf[h-1]) == pf[h] {
				ok = true
				break
			}
		}
		if !ok {
			out = append(out, Finding{"c03/underivable-header/" + kc,
				fmt.Sprintf("committed filter header at height %d is not dsha256(servedFilterHash || committed[%d]) for any filter hash served for the block at that height on the current chain", h, h-1)})
			break
		}
	}
	// Hard-coded filter checkpoints.
	for _, cph := range fs.Plan.FilterCPs {
		if int(cph) < len(pf) && int(cph) < len(post) {
			nd := fs.G.Lookup(post[cph].BlockHash())
			want := nd.FilterHeader
			if fs.Plan.FalseCP {
				want[0] ^= 0xff
			}
			if nd != nil && fs.Trunk[cph-1] == nd && pf[cph] != want {
				out = append(out, Finding{"c03/filter-checkpoint-violated/" + kc, fmt.Sprintf("committed filter header at checkpoint height %d differs from the hard-coded checkpoint", cph)})
			}
		}
	}
	// A peer whose checkpoint list contradicts a hard-coded checkpoint is
	// banned by the call the list was handed to.
	if st.Kind == "cf.resolve" && len(fs.ResolveOffenders) > 0 {
		addrs := make([]string, 0, len(fs.ResolveOffenders))
		for a := range fs.ResolveOffenders {
			addrs = append(addrs, a)
		}
		sort.Strings(addrs)
		for _, a := range addrs {
			if fs.Net.IsBanned(a) {
				continue
			}
			o := fs.ResolveOffenders[a]
			rel, who := "newest-covered-checkpoint-contradicted-too", "some-lists"
			if o.NewestAgrees {
				rel = "agrees-with-newest-covered-checkpoint"
			}
			switch {
			case o.Lists == 1:
				who = "only-list"
			case o.Lists == len(fs.ResolveOffenders):
				who = "all-lists"
			}
			out = append(out, Finding{"c03/checkpoint-contradicting-list-not-banned/" + rel + "/" + who,
				fmt.Sprintf("peer %s served a filter-checkpoint list whose entry for height %d differs from the hard-coded filter-header checkpoint; the list was handed to resolveConflict (%d lists) and the peer is not banned afterwards", a, o.Lowest, o.Lists)})
		}
	}
	// By-hash lookups: on-chain agree, off-chain (disconnected) blocks not found.
	n := 0
	for hsh, nd := range fs.Offered {
		if n > 300 {
			break
		}
		n++
		got, err := fs.Stores.Filter.FetchHeader(&hsh)
		on := int(nd.Height) < len(post) && post[nd.Height].BlockHash() == hsh
		switch {
		case on && int(nd.Height) < len(pf):
			if err != nil || *got != pf[nd.Height] {
				out = append(out, Finding{"c03/by-hash-disagrees/" + kc, fmt.Sprintf("filter FetchHeader(block at height %d) err=%v or differs from by-height value", nd.Height, err)})
			}
		case !on && err == nil:
			out = append(out, Finding{"c03/disconnected-block-still-has-filter-header/" + kc, fmt.Sprintf("filter header still found for block %d that is not on the current chain", nd.Height)})
		}
	}
	if final {
		out = append(out, fs.checkBans(pf, post)...)
		// Bounded progress: with an honest peer and only provable lies the
		// honest value is the one that gets committed, so the session (it
		// ends after three rounds without progress) must not end with the
		// filter headers behind the block headers.
		// (A session in whose last rounds the scripted block download was
		// still failing gets no verdict here: without the block nothing about
		// the pending conflict is decidable.)
		if fs.ProvableGivenCheckpoints() && !fs.Plan.FalseCP && fs.cpsDescribeChain(post) && len(pf) < len(post) &&
			!fs.BlockDownloadFailing() {
			h := len(pf)
			who := ""
			if nd := fs.G.Lookup(post[h].BlockHash()); nd != nil {
				for addr, l := range fs.Liars {
					for bh, kind := range l.Told {
						if x := fs.G.Lookup(bh); x != nil && x.Height >= nd.Height && int(x.Height) < len(post) && post[x.Height].BlockHash() == bh {
							who += fmt.Sprintf(" %s told %s at height %d;", addr, kind, x.Height)
						}
					}
				}
			}
			out = append(out, Finding{"c03/stuck/provable-lies-honest-present", fmt.Sprintf("three rounds without progress: filter tip %d, block tip %d, although an honest peer answers every request and every configured lie is provably inconsistent with its block;%s bans: %v", len(pf)-1, len(post)-1, who, fs.Bans)})
		}
	}
	return dedup(out)
}

// checkBans: in provable sessions, liars that actually served a false value
// for a block of the final chain below the committed tip are banned and
// honest peers are not.
func (fs *FilterSession) checkBans(pf []chainhash.Hash, post []wire.BlockHeader) []Finding {
	var out []Finding
	// With a hard-coded filter checkpoint that contradicts every peer, the
	// client bans everybody by design: nothing is asserted about bans.
	if !fs.ProvableGivenCheckpoints() || fs.Plan.FalseCP || !fs.cpsDescribeChain(post) {
		return nil
	}
	banned := map[string]banman.Reason{}
	for _, b := range fs.Bans {
		banned[b.Addr] = b.Reason
	}
	for _, p := range fs.Peers {
		if p.superseded {
			continue
		}
		b := fs.Behav[p.Addr]
		if b.Honest() {
			if r, ok := banned[p.Addr]; ok {
				out = append(out, Finding{"c03/honest-peer-banned", fmt.Sprintf("honest peer banned (reason %v) in a session where every lie is provable", r)})
			}
			continue
		}
		l := fs.Liars[p.Addr]
		if l == nil {
			continue
		}
		told := false
		for bh := range l.Told {
			nd := fs.G.Lookup(bh)
			if nd != nil && int(nd.Height) < len(pf) && int(nd.Height) < len(post) && post[nd.Height].BlockHash() == bh {
				told = true
			}
		}
		if _, ok := banned[p.Addr]; told && !ok {
			out = append(out, Finding{"c03/liar-not-banned/" + b.Lies[0].Kind, fmt.Sprintf("peer served a provably false filter header (%v) for a committed height and was not banned", b.Lies)})
		}
	}
	return out
}
